SPEC = {
    "id": "C09",
    "props_file": "Props/C09.v",
    "gen": ["sigcontexts", "noncewriters", "sigoptions"],
    "streams": [
        {"name": "deliver", "cmd": "auth",
         "args": {"quick": ["-mode", "deliver", "-runs", "12", "-blocks", "8", "-txs", "12"],
                  "thorough": ["-mode", "deliver", "-runs", "100", "-blocks", "12", "-txs", "14"]},
         "search_args": ["-mode", "deliver", "-runs", "60", "-blocks", "10", "-txs", "14"]},
        {"name": "bitsweep", "cmd": "auth",
         "args": {"quick": ["-mode", "sweep", "-stride", "1"],
                  "thorough": ["-mode", "sweep", "-stride", "1", "-batch", "40"]}},
        {"name": "contexts", "cmd": "auth",
         "args": {"quick": ["-mode", "ctx", "-cases", "100"],
                  "thorough": ["-mode", "ctx", "-cases", "3000"]}},
    ],
    "trusted_base": [
        "Coq 8.16.1 kernel (coqc; coqchk in the thorough tier); no native_compute",
        "harness/cmd/gen sigcontexts (go/ast walk over every non-test .go file under go/: signature.NewContext literals with WithChainSeparation/WithDynamicSuffix options, chainContextSeparator/chainContextMaxSize of signer.go, transaction.SignatureContext, MethodMetadata() implementers)",
        "harness/cmd/gen sigoptions (go/ast: the ed25519.VerifyOptions / Options literal of go/common/crypto/signature, other option fields, verification calls that bypass the literal)",
        "harness/cmd/gen noncewriters (go/ast: syntactic writes of .General.Nonce / GeneralAccount literals with a Nonce field / whole-struct .General assignments, and writers or DELETERS of whole account records -- store operations on accountKeyFmt, SetAccount with an Account literal -- in non-test sources; pointer aliases are not seen)",
        "verif-tagged go/common/crypto/signature/export_verif.go (lists the run-time context registry for the cross-check with the go/ast list)",
        "harness/cmd/auth + verifharness/internal/muxdrv (drives the real ABCI multiplexer with all consensus apps; abstracts byte strings with the repository's CBOR decoder and an independent check: digest built by the harness with stdlib SHA-512/256; Ed25519 by curve25519-voi under the harness' OWN fixed rules (equation holds, A and R not of small order, non-canonical encodings tolerated) -- the repository's defaultOptions are not imported; differences to stdlib crypto/ed25519 are counted, not judged)",
        "vm_compute evaluation of Verif.Auth.Corr (instance of Verif.Auth.Model) on the recorded blocks (no extraction)",
        "abstract in the theorems (arbitrary): SHA-512/256, Ed25519 verification (unforgeability is NOT assumed: Forgery / collision are explicit disjuncts), the CBOR decoders of envelope and transaction, the staking address derivation, the ledger and ExecuteTx",
    ],
    "assumptions": [
        "no method is critical (critical methods skip the authentication handler): checked on the regenerated list of MethodMetadata() implementers, which must be empty",
        "only decided blocks reach the delivery state: the model has no proposal phase; on the real code, proposals that are executed (PrepareProposal / ProcessProposal) and then abandoned are part of the histories and must leave no trace",
        "operations other than DeliverTx (BeginBlock, EndBlock, Commit, other applications) do not write account nonces: true by construction in the model, checked on the real code by the per-block nonce comparison across blocks and restarts",
        "chain contexts have equal length and dynamic context suffixes have equal length (production: 64 hex characters each); without this the construction context||message is provably not injective (the two *_refuted theorems)",
        "a byte string that decodes to the same (blob, public key, signature) as another is the same signed content: envelope-framing malleability of the CBOR decoder is outside the signature's reach and is reported as a finding by the harness",
    ],
}

MANIFEST = {
    "technique": "Coq proof (step lemmas + induction over arbitrary operation histories for the consecutive-nonce trace invariant; injectivity of the signing preimage from prefix-incomparability of the regenerated context list) with differential correspondence check against the real ABCI multiplexer",
    "level_text": "Theorems in coq/Props/C09.v hold for every state, every byte string and every history of transactions / other operations / restarts, for arbitrary hash, signature predicate, decoders and ledger: a delivery changes state or reaches execution only if the envelope decodes, carries a 64-byte signature accepted by sig_ok over H(tx context || ' for chain ' || chain id || blob) and its nonce equals the account nonce, which then becomes nonce+1 mod 2^64 and no other nonce changes; rejected deliveries leave the state untouched; per signer the authenticated nonces of any history are consecutive mod 2^64, hence no byte string and no signed content is authenticated twice within 2^64 transactions; signing preimages of registered contexts (list regenerated from the source on every run) are injective for equal-length chain ids / suffixes, else a hash collision is exhibited; an altered envelope is rejected, or decodes to the same signed content, or exhibits a forgery / collision. The model is tied to the code by replaying seeded block histories on the real multiplexer (proposer + restarted on-disk replica) and evaluating the model on every block inside Coq; an independent Go reference checks nonces, balances and executed byte strings on the implementation.",
    "level_note": "Trusted: Coq kernel; the go/ast context reader; the harness, muxdrv and the repository's CBOR decoder used to abstract envelopes; Ed25519, SHA-512/256 and the CBOR decoders are abstract in the theorems. System (block metadata) transactions and critical methods are outside the authenticated path and not modelled beyond the branch. Envelope malleability of the CBOR decoder (case-insensitive field names, trailing bytes) is observed on the real code and reported as a finding.",
}
