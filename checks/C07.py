SPEC = {
    "id": "C07",
    "props_file": "Props/C07.v",
    "gen": [],
    "streams": [
        {"name": "nodedbcrash", "cmd": "nodedbcrash",
         "args": {"quick": ["-cases", "9"], "thorough": ["-cases", "90"]},
         "search_args": ["-cases", "30"]},
    ],
    "trusted_base": [
        "Coq 8.16.1 kernel",
        "harness/cmd/nodedbcrash + go/storage/mkvs/db/api/verifhook (verif-tagged crash points) + the one-line CrashPoint calls of hooks/c07-crashpoints.diff; child processes die with os.Exit(137) between durable writes, the OS page cache survives (NoFsync semantics of the consensus layer)",
        "vm_compute evaluation of Verif.NodeDB.Crash (step lists, run_until, reopen, retry) on every (history, crash point) pair of the badger backend: predicts earliest/latest, the status of every known root after reopen, the class of the retry and the state after it",
        "pathbadger has no Coq model: its crash cases are decided by the harness oracle only (twin comparison)",
    ],
    "assumptions": [
        "granularity: crashes between successive durable writes (batch flushes / metadata commits), not inside a Badger flush",
        "the version an interrupted Prune targets is not required to be readable after the crash",
        "badger theorems: a WriteBatch.Flush and a metadata CommitAt are each one atomic durable step (Crash.v header cites the lines)",
    ],
}

MANIFEST = {
    "technique": "Coq proof over a step-list model of the badger backend (operations as lists of atomic durable steps, run_until/reopen/retry; crash safety of Commit and Finalize for every state reachable by a safe history, refutation witness for Prune's ordering and proof for the repaired retry) with fault injection at every enumerated crash point of the real node database (child process killed between durable writes, reopen, full read-back, retry, comparison with an uninterrupted twin run and with the model)",
    "level_text": "Theorems in coq/Props/C07.v: for every state reachable by an in-domain safe history and every crash strictly inside Commit or Finalize, every previously listed/finalized root stays readable and the retry reaches a state observationally equal to the uninterrupted one; the faithful port of Prune is refuted (retry fails with root-not-found forever) and the repaired retry (skip lone roots whose root-node key is gone) is proved safe. The step lists are tied to the code by killing the real database at every crash point the hook enumerates and comparing reopen/retry observations with the model (badger) and with an uninterrupted twin (both backends).",
    "level_note": "Trusted: Coq kernel; harness + verifhook crash points; atomicity of a batch flush / metadata commit; pathbadger by test only; badger multipart restore modelled in NodeDB/Multipart.v and compared case by case; pathbadger restore by the harness oracle only.",
}
