SPEC = {
    "id": "C07",
    "props_file": "Props/C07.v",
    "gen": [],
    "streams": [
        {"name": "nodedbcrash", "cmd": "nodedbcrash",
         "args": {"quick": ["-cases", "9"], "thorough": ["-cases", "90"]},
         "search_args": ["-cases", "30"]},
    ],
    "trusted_base": [
        "Coq 8.16.1 kernel",
        "harness/cmd/nodedbcrash + go/storage/mkvs/db/api/verifhook (verif-tagged crash points) + the one-line CrashPoint calls of hooks/c07-crashpoints.diff; child processes die with os.Exit(137) between durable writes, the OS page cache survives (NoFsync semantics of the consensus layer)",
        "no Coq crash model yet beyond the Commit data-flush step (NodeDB/Crash.v not delivered): the property is decided by fault injection on the real code only",
    ],
    "assumptions": [
        "granularity: crashes between successive durable writes (batch flushes / metadata commits), not inside a Badger flush",
        "the version an interrupted Prune targets is not required to be readable after the crash",
        "checkpoint chunk restore / multipart insert is not exercised yet",
    ],
}

MANIFEST = {
    "technique": "fault injection at every enumerated crash point of the real node database (child process killed between durable writes, reopen, full read-back, retry, comparison with an uninterrupted twin run) plus a first Coq lemma for the Commit write ordering",
    "level_text": "Partial: for Commit, Finalize and Prune on both backends every crash point the operation passes is exercised on seeded in-domain histories; the Coq side only proves that a crash after Commit's node-batch flush keeps every listed root readable in the badger model.",
    "level_note": "Not a proof of crash safety: Crash.v (step lists, reopen, retry) is not written; multipart restore not exercised.",
}
