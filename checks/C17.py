SPEC = {
    "id": "C17",
    "props_file": "Props/C17.v",
    "gen": ["registryconsts"],
    "streams": [
        {"name": "registry", "cmd": "registry",
         "args": {"quick": ["-cases", "170"], "thorough": ["-cases", "5000"]},
         "search_args": ["-cases", "3000"]},
    ],
    "trusted_base": [
        "Coq 8.16.1 kernel (coqc; coqchk in the thorough tier); no native_compute",
        "harness/cmd/registry (drives the real registry state layer and the registry application's ExecuteTx/BeginBlock on the mock application state of go/consensus/cometbft/api; records the public query API as Coq terms); no hook files in /repo",
        "vm_compute evaluation of Verif.Registry.Model on the recorded histories (no extraction)",
        "modelled, not verified: signatures (a descriptor = blob + list of signing keys + one flag 'all signatures verify'), CBOR, MKVS as finite maps, consensus address = identity on the numbered key pool (the harness checks the pool addresses are pairwise distinct)",
        "modelled since the growth round: RegisterRuntime (governance entity/runtime, caller accounts incl. runtime messages, owner/governance changes, entity whitelist admission, suspension by the environment, resumption by node registration), node roles and runtime lists, threshold kinds of claims; key-manager references of compute runtimes, node status (freeze/unfreeze, expiration flag); reference oracles run on every end state: registry genesis export + Genesis.SanityCheck, and registry.AddStakeClaims + staking.SanityCheckStake; harness/cmd/gen registryconsts also reads the order of the checks in VerifyNodeUpdate; runtime deployments (ValidateDeployments loop, immediate-deployment ban, update rules), genesis immutability, entity-whitelist per-role max nodes and per-role policies with the counting loop; not modelled: valid SGX constraints (TEE hardware other than 'none' never validates in the generated space), node runtime versions (constant 0), bundle checksums, addresses/TLS well-formedness (always well-formed in the harness), election eligibility set by other applications, gas, stake amounts (all thresholds zero), genesis/sanity-check modes, 2^64 epoch overflow guard",
    ],
    "assumptions": [
        "transactions are executed the way the multiplexer does (transaction child context, committed only on success)",
        "epochs supplied to BeginBlock are non-decreasing and far below 2^64",
    ],
}

MANIFEST = {
    "technique": "Coq proof (invariants by induction over operation histories of an executable port of SetNode/RemoveNode/VerifyRegisterNodeArgs/VerifyNodeUpdate/registerNode/registerEntity/deregisterEntity/onRegistryEpochChanged; refutation witness by vm_compute) with differential correspondence check against the real registry code and an implementation-side index/authority oracle",
    "level_text": "Theorems in coq/Props/C17.v hold for every history and every key assignment: authority of node and entity record changes, rejection without state change of every registration with a missing signature / wrong transaction signer / node outside the entity's list, entity not removable while owning nodes or runtimes, and key-map / nodes-by-entity consistency (a) REFUTED for the code's SetNode order by a key-exchange update, (b) proved for all histories without such an exchange, (c) proved unconditionally for the reordered SetNode. The model is tied to the code by replaying seeded histories through the real state layer and through ExecuteTx/BeginBlock and comparing the complete public query surface after every operation; an independent Go oracle recomputes the indexes from the primary records.",
    "level_note": "Trusted: Coq kernel; the harness; signatures abstracted to signer lists; consensus-address index: cons_addr_index_mirrors_records (\/ collision form); the per-role count invariant is proved at registration time (pre-state form), not as a history invariant (a runtime update may lower a limit below the admitted count: Example lowering_the_limit_does_not_evict).",
}
