SPEC = {
    "id": "C15",
    "props_file": "Props/C15.v",
    "gen": [],
    "streams": [
        {"name": "sharepool-api", "cmd": "sharepool",
         "args": {"quick": ["-mode", "api", "-grid", "12", "-slashgrid", "6", "-cases", "1500"],
                  "thorough": ["-mode", "api", "-grid", "24", "-slashgrid", "12", "-cases", "60000"]},
         "search_args": ["-mode", "api", "-grid", "16", "-slashgrid", "8", "-cases", "20000"]},
        {"name": "sharepool-seq", "cmd": "sharepool",
         "args": {"quick": ["-mode", "seq", "-cases", "600"],
                  "thorough": ["-mode", "seq", "-cases", "20000"]},
         "search_args": ["-mode", "seq", "-cases", "6000"]},
        {"name": "debond", "cmd": "sharepool",
         "args": {"quick": ["-mode", "debond", "-cases", "300"],
                  "thorough": ["-mode", "debond", "-cases", "10000"]},
         "search_args": ["-mode", "debond", "-cases", "3000"]},
    ],
    "trusted_base": [
        "Coq 8.16.1 kernel (coqc; coqchk in the thorough tier); no native_compute",
        "harness/cmd/sharepool (drives the real staking.SharePool methods with quantity.Quantity values and the real MutableState.SlashEscrow on an in-memory MKVS tree through abciAPI.NewMockApplicationState; records observations as Coq terms); the debond stream drives the real addEscrow / reclaimEscrow handlers and onEpochChange through the verif-tagged go/consensus/cometbft/apps/staking/export_verif.go",
        "vm_compute evaluation of Verif.Ledger.SharePool (and Ledger.Debond for the debonding theorems) on the recorded cases (no extraction)",
        "modelled, not verified: math/big arithmetic behind quantity.Quantity (model: Coq N), CBOR round trip of the account in SlashEscrow",
        "the debond stream runs the handlers on the mock application state (abciAPI.NewMockApplicationState), not through the ABCI multiplexer: transaction decoding, fee/gas handling and the real epoch clock are outside it; rewards are credited to the active balance directly (the reward amount computation of AddRewards is not modelled)",
    ],
    "assumptions": [
        "sequence theorems assume a well-formed ledger: delegation shares add up to the pool's total shares (the ledger's own bookkeeping, property C05); the API-level theorems assume nothing",
        "the profit bound is per SET of acting delegators (all other holders passive); the naive per-delegator reading with other delegators acting is refuted in the model (theorem naive_per_delegator_no_profit_refuted) and replayed on the real code by the seq stream",
        "a pool with zero shares and non-zero balance (orphan balance) is covered explicitly: the next depositor takes it (deposit_orphan_takes_balance); the reward paths of the code cannot create it (rewards are proportional to the balance; TransferFromCommon treats the first escrow as commission)",
    ],
}

MANIFEST = {
    "technique": "Coq proof (rounding-direction lemmas over unbounded N, potential-function invariant by induction over operation sequences) with differential correspondence check against the real SharePool / SlashEscrow code",
    "level_text": "Theorems in coq/Props/C15.v hold for all pool states, all amounts (unbounded naturals) and all operation sequences: deposit mints at most pro rata, redemption pays at most pro rata, a passive holder's redeemable value never falls through others' deposits/redemptions/rewards, the share price falls only by slashing, no set of acting delegators gets out more than it paid in plus its pro-rata part of the rewards, slashing takes the same fraction of both pools up to one base unit each and at most the amount, and a reclaimed delegation is paid exactly once at the first epoch transition at or after its end epoch. The model is tied to the code by replaying an exhaustive small grid, boundary-heavy big numbers and seeded multi-delegator sequences on the real methods and evaluating the model on the same inputs inside Coq; the fairness predicates are also evaluated directly on the implementation's outputs.",
    "level_note": "Trusted: Coq kernel; the harness; math/big and CBOR not modelled. The debonding stream uses the mock application state, not the full ABCI multiplexer. The profit bound is stated per set of acting delegators because the per-delegator reading is false when other delegators make loss-making deposits (shown by a proved counterexample).",
}
