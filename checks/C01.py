SPEC = {
    "id": "C01",
    "props_file": "Props/C01.v",
    "gen": [],
    "streams": [
        {"name": "mux-c01", "cmd": "mux",
         "args": {"quick": ["-mode", "c01", "-blocks", "20", "-runs", "4", "-tieruns", "3", "-tieblocks", "14"],
                  "thorough": ["-mode", "c01", "-blocks", "200", "-runs", "6", "-tieruns", "6", "-tieblocks", "60"]},
         "search_args": ["-mode", "c01", "-blocks", "40", "-runs", "8", "-tieruns", "6", "-tieblocks", "30"],
         "timeout": 3600},
    ],
    "trusted_base": [
        "Coq 8.16.1 kernel (coqc; coqchk in the thorough tier); no native_compute",
        "harness/cmd/mux + harness/internal/muxdrv (plays CometBFT's role: InitChain/PrepareProposal/ProcessProposal/BeginBlock/DeliverTx/EndBlock/Commit/CheckTx against the real abci.ApplicationServer with the real beacon, governance, keymanager, registry, roothash, scheduler, staking, vault and supplementarysanity apps)",
        "verif-tagged go/consensus/cometbft/abci/export_verif.go (read-only views: dispatch order, proposal-cache snapshot and the two reuse conditions)",
        "the replica-vs-replica comparison in the harness (the property's own oracle): byte comparison of AppHash, per-tx code/codespace/data/gas/events, sorted validator updates, metadata body, begin/end events, full MKVS dumps",
        "vm_compute evaluation of Verif.Abci.Mux.run_case on the recorded cache decisions and dispatch orders (no extraction)",
        "modelled generically, not verified as code: the applications themselves (abstract deterministic functions in the theorems, real code in the harness), Go map iteration inside the apps, the MKVS (root = function of contents is C02), Badger, goroutine interleavings",
    ],
    "assumptions": [
        "the block delivered to the proposer carries the commit info it was given in PrepareProposal (isEqual, state.go:64-96, does not compare it); named hypothesis of cached_equals_reexecution, with a refutation witness for its absence",
        "application names are unique (mux.doRegister rejects duplicates) and the proposer signs the metadata tx with the consensus key named in the header (meta_wf)",
        "applications are deterministic functions of (block info, transaction, state): true of the model's abstract apps by typing; for the real apps it is what the four-way replica comparison tests",
    ],
}

MANIFEST = {
    "technique": "Coq proof over a generic model of the ABCI multiplexer (all paths refine one reference execution; lifted to histories by induction) + four-way differential execution of seeded block histories on the real multiplexer with all real apps (different paths, local configs, backends, restarts, concurrent CheckTx/EstimateGas/queries/pruner)",
    "level_text": "Theorems in coq/Props/C01.v hold for every instance of the generic multiplexer model (any state type, any deterministic applications, any decoder/auth handler): propose+cached, process-proposal, plain replay and restart-then-replay/process all equal the reference execution of the block on the committed state, also after arbitrary failed rounds that left a stale proposal cache (stale_rounds_harmless, up to a block-hash collision); outputs and committed state are equal for all local configurations and registration orders; lifted to arbitrary histories with interleaved CheckTx/simulation/pruning (replicas_agree); the proposer cache equals re-execution under the named commit-info hypothesis (refuted without it); dispatch order is the sorted name order. The tie to the code for the property itself is the harness: per seed a 4-validator genesis (plus election-tie histories: 8 validator entities with EQUAL escrow, MaxValidators 3-4, no rewards, an election every 2 blocks, so stake ties straddle the cutoff at every election), blocks of 0-8 staking/governance/registry/beacon transactions (70 % valid), epoch transitions, vote patterns, duplicate-vote evidence, executed by FOUR real replicas on different paths/configs/backends with background CheckTx/EstimateGas/historical queries, compared after every height; the model is tied to the code on the proposal-cache reuse decisions (isEqual/needsExecution/resetProposalIfChanged) and the dispatch order observed through a read-only hook.",
    "level_note": "For C01 the applications are abstract in the Coq theorems: determinism of the REAL apps (map iteration order, reward/fee arithmetic, elections) is established only empirically by the replica comparison on the explored histories, not proved. The correspondence stream covers the cache decisions and app ordering only. Real goroutine interleavings, Badger and the MKVS are exercised, not modelled. Replicas run in one process (same Go map seed per process run; iteration order still varies per map instance).",
}
