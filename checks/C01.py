SPEC = {
    "id": "C01",
    "props_file": "Props/C01.v",
    "gen": ["muxsorts", "muxorder", "muxmapsites"],
    "streams": [
        {"name": "mux-c01", "cmd": "mux",
         "args": {"quick": ["-mode", "c01", "-blocks", "20", "-runs", "4", "-tieruns", "3", "-tieblocks", "14", "-procruns", "1", "-rtruns", "2", "-upgruns", "2", "-govruns", "2", "-faultruns", "2"],
                  "thorough": ["-mode", "c01", "-blocks", "200", "-runs", "6", "-tieruns", "6", "-tieblocks", "60", "-procruns", "2", "-rtruns", "3", "-upgruns", "3", "-govruns", "4", "-faultruns", "4"]},
         "search_args": ["-mode", "c01", "-blocks", "40", "-runs", "8", "-tieruns", "6", "-tieblocks", "30", "-procruns", "1", "-rtruns", "3", "-upgruns", "4", "-govruns", "4", "-faultruns", "4"],
         "timeout": 3600},
    ],
    "trusted_base": [
        "Coq 8.16.1 kernel (coqc; coqchk in the thorough tier); no native_compute",
        "harness/cmd/mux + harness/internal/muxdrv (plays CometBFT's role: InitChain/PrepareProposal/ProcessProposal/BeginBlock/DeliverTx/EndBlock/Commit/CheckTx against the real abci.ApplicationServer with the real beacon, governance, keymanager, registry, roothash, scheduler, staking, vault and supplementarysanity apps)",
        "verif-tagged go/consensus/cometbft/abci/export_verif.go (read-only views: dispatch order, proposal-cache snapshot and the two reuse conditions)",
        "the replica-vs-replica comparison in the harness (the property's own oracle): byte comparison of AppHash, per-tx code/codespace/data/gas/events, sorted validator updates, metadata body, begin/end events, full MKVS dumps",
        "harness/cmd/gen muxsorts (go/ast reader: is the sort of map-collected keys still an unconditional statement in RuntimesToFinalize, stakingAddressMapToSliceByStake, distributeRewards, sortAddresses, EligibleEntities) feeding map_order_irrelevant",
        "harness/cmd/gen muxorder (go/ast reader of the statement order in abciMux.BeginBlock/EndBlock: upgrade handlers before validateSystemTxs, after the apps' EndBlock) feeding exec_block / mux_step_order; muxdrv's mock upgrade backend (a preloaded consensus upgrade whose EndBlock migration bumps MaxTxSize like go/upgrade/migrations/dummy.go), identical on all replicas of a history",
        "harness/cmd/gen muxmapsites (golang.org/x/tools/go/packages + go/types, offline): type-checked enumeration of every range over a map, maps.Keys/Values/All, time.Now, math/rand, crypto/rand, go/select statements, os.Getenv, viper/config/debug-flag reads in 56 packages executed during block processing; coq/Abci/mapsites_reviewed.json is the hand-reviewed classification (trusted: the review itself for the classes ErrorOnly / NotInExecPath / LocalOnly / Deterministic / UnsafeDebugFlag, and the claim that a site classified OrderInsensitive is an instance of the proved fold/per-key/test/arg-max lemmas)",
        "harness watchdog: every replica operation (Prepare/ProcessProposal, BeginBlock..Commit, restart, twin round trip, the wait for the background load) runs under a 60 s deadline confirmed once with a doubled budget; a blown deadline is a violation naming replica, blocked ABCI call, height and history, and the harness exits normally",
        "process-separated twins (re-exec of the harness binary per replica, JSON line protocol) for a subset of histories; thorough tier: the stream rebuilt with go build -race, data races inside oasis-core reported as findings",
        "vm_compute evaluation of Verif.Abci.Mux.run_case on the recorded cache decisions and dispatch orders (no extraction)",
        "modelled generically, not verified as code: the applications themselves (abstract deterministic functions in the theorems, real code in the harness), Go map iteration inside the apps, the MKVS (root = function of contents is C02), Badger, goroutine interleavings",
    ],
    "assumptions": [
        "all replicas run with the same value of the process-wide unsafe debug flag debug.dont_blame_oasis (10 enumerated reads inside consensus-relevant code; documented as never to be set in production)",
        "the block delivered to the proposer carries the commit info it was given in PrepareProposal (isEqual, state.go:64-96, does not compare it); named hypothesis of cached_equals_reexecution, with a refutation witness for its absence",
        "application names are unique (mux.doRegister rejects duplicates) and the proposer signs the metadata tx with the consensus key named in the header (meta_wf)",
        "applications are deterministic functions of (block info, transaction, state): true of the model's abstract apps by typing; for the real apps it is what the four-way replica comparison tests",
    ],
}

MANIFEST = {
    "technique": "Coq proof over a generic model of the ABCI multiplexer (all paths refine one reference execution; lifted to histories by induction) + four-way differential execution of seeded block histories on the real multiplexer with all real apps (different paths, local configs, backends, restarts, concurrent CheckTx/EstimateGas/queries/pruner)",
    "level_text": "Theorems in coq/Props/C01.v hold for every instance of the generic multiplexer model (any state type, any deterministic applications, any decoder/auth handler): propose+cached, process-proposal, plain replay and restart-then-replay/process all equal the reference execution of the block on the committed state, also after arbitrary failed rounds that left a stale proposal cache (stale_rounds_harmless, up to a block-hash collision); outputs and committed state are equal for all local configurations and registration orders; lifted to arbitrary histories with interleaved CheckTx/simulation/pruning (replicas_agree) and with failed consensus rounds in between (replicas_agree_with_failed_rounds); the block functions that iterate Go maps (RuntimesToFinalize, stake-ordered election slice and cutoff, reward list, signing-eligible entities) are independent of the iteration order given the sort sites the generator reads from the source (map_order_irrelevant, lifted to blocks of a concrete ledger instance); the proposer cache equals re-execution under the named commit-info hypothesis (refuted without it); dispatch order is the sorted name order. The tie to the code for the property itself is the harness: per seed a 4-validator genesis (plus histories with injected one-off node-local faults -- a panic after state was written, inside ProcessProposal on one replica or PrepareProposal on the proposer, through a harness-side application registered with the real mux -- followed by the same block as decided; plus histories in which every replica runs the REAL persistent upgrade manager and a governance upgrade proposal passes, its closing block executed after failed rounds, after a restart before commit and on a replica with the descriptor pre-submitted; plus histories with a due consensus upgrade whose migration writes state in EndBlock, histories with two runtimes finalizing in the same block, and election-tie histories: 8 validator entities with EQUAL escrow, MaxValidators 3-4, no rewards, an election every 2 blocks, so stake ties straddle the cutoff at every election), blocks of 0-8 staking/governance/registry/beacon transactions (70 % valid), epoch transitions, vote patterns, duplicate-vote evidence, executed by FOUR real replicas on different paths/configs/backends with background CheckTx/EstimateGas/historical queries, compared after every height; the model is tied to the code on the proposal-cache reuse decisions (isEqual/needsExecution/resetProposalIfChanged) and the dispatch order observed through a read-only hook.",
    "level_note": "For C01 the applications are abstract in the Coq theorems: determinism of the REAL apps (map iteration order, reward/fee arithmetic, elections) is established only empirically by the replica comparison on the explored histories, not proved. The correspondence stream covers the cache decisions and app ordering only. Real goroutine interleavings, Badger and the MKVS are exercised, not modelled. One standard and one election-tie history per quick run (two each in the thorough tier) additionally run every replica in its own OS process; the others are in-process (map iteration order still varies per map instance). The enumeration of map iterations is exhaustive for the listed packages (type-checked), but the link from a reviewed site to its generic lemma is by review, not by a model of that function; 10 sites read the process-wide unsafe flag debug.dont_blame_oasis inside consensus-relevant code (class UnsafeDebugFlag): replicas agree only if they agree on that flag (demonstrated by summary.extra.debug_flag_probe).",
}


# ---- thorough tier: the same stream built with the Go race detector ----
# Data races inside oasis-core (mux / application state / pruner / storage) observed while
# blocks execute concurrently with CheckTx, EstimateGas, historical queries and the pruner are
# reported as findings keyed by the pair of racing functions (known_findings.json can list a
# key as known). Races that involve only harness code are reported as harness failures.
def post_streams(run):
    import glob, json, os, re, subprocess, vcheck
    if run.tier != "thorough" or run.replay:
        return
    root = vcheck.ROOT
    outdir = os.path.join(run.work, "mux-c01-race")
    os.makedirs(outdir, exist_ok=True)
    build = ". %s/bin/env.sh; cd %s/harness && timeout 1800 $GO build -race -tags verif -o bin/mux-race ./cmd/mux" % (root, root)
    r = subprocess.run(["bash", "-c", build], stdout=subprocess.PIPE, stderr=subprocess.STDOUT, text=True, env=vcheck.env())
    if r.returncode != 0:
        run.say("[R] race build not available (cgo/toolchain): " + r.stdout[-400:])
        run.cov["streams"]["mux-c01-race"] = {"evaluations": 0, "note": "go build -race failed: " + r.stdout[-300:]}
        return
    e = vcheck.env()
    e["GORACE"] = "halt_on_error=0 exitcode=0 log_path=%s" % os.path.join(outdir, "race")
    cmd = [os.path.join(root, "harness", "bin", "mux-race"), "-mode", "c01", "-seed", str(run.seed), "-out", outdir,
           "-blocks", "40", "-runs", "3", "-tieruns", "1", "-tieblocks", "16", "-procruns", "0", "-rtruns", "1", "-upgruns", "1", "-govruns", "1", "-faultruns", "1"]
    r = subprocess.run(cmd, stdout=subprocess.PIPE, stderr=subprocess.STDOUT, text=True, env=e, cwd=run.work, timeout=3600)
    sj = os.path.join(outdir, "summary.json")
    if r.returncode != 0 or not os.path.exists(sj):
        run.failures.append({"kind": "harness-run", "what": "race-detector build of the harness crashed (exit %s)" % r.returncode,
                             "detail": r.stdout[-3000:], "broken": "stream mux-c01-race"})
        return
    summ = json.load(open(sj))
    kf = vcheck.load_known(run.id)
    races = {}
    for path in glob.glob(os.path.join(outdir, "race.*")):
        for blk in open(path).read().split("=================="):
            if "DATA RACE" not in blk:
                continue
            tops = re.findall(r"(?:Write|Read|Previous write|Previous read) at \S+ by [^\n]*:\n  (\S+)\(\)\n\s+(\S+):(\d+)", blk)
            if not tops:
                continue
            names = sorted(set(t[0].split("/")[-1] for t in tops))
            in_repo = any("oasis-core/go/" in t[0] or "/go/consensus/" in t[1] or "/go/storage/" in t[1] for t in tops)
            key = "C01:race:" + "|".join(names)
            if key not in races:
                races[key] = {"count": 0, "in_repo": in_repo, "sites": ["%s:%s" % (os.path.basename(t[1]), t[2]) for t in tops], "report": blk.strip()[:2500]}
            races[key]["count"] += 1
    summ.setdefault("findings", [])
    for key, rc in sorted(races.items()):
        if rc["in_repo"]:
            summ["findings"].append({"key": key, "what": "data race between %s (%d reports) at %s" % (key[len("C01:race:"):], rc["count"], ", ".join(rc["sites"])),
                                     "replay": {"race": key, "sites": rc["sites"], "report": rc["report"],
                                                "how": "go build -race ./cmd/mux; GORACE=halt_on_error=0 mux-race -mode c01 -seed %d -blocks 40 -runs 3" % run.seed}})
        else:
            run.failures.append({"kind": "harness-run", "what": "data race inside the harness itself: " + key, "detail": rc["report"], "broken": "stream mux-c01-race"})
    summ.setdefault("extra", {})["data_races"] = {k: v["count"] for k, v in races.items()}
    run.say("[R] mux-c01-race: %d executions under the race detector, %d distinct data races: %s" % (summ["evaluations"], len(races), ", ".join(sorted(races)) or "none"))
    run.account({"name": "mux-c01-race"}, summ, [], kf)
