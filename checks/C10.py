SPEC = {
    "id": "C10",
    "props_file": "Props/C10.v",
    "gen": [],
    "streams": [
        {"name": "nohalt", "cmd": "nohalt",
         "args": {"quick": ["-cases", "22", "-precond", "4", "-blocks", "24", "-roothash", "12"],
                  "thorough": ["-cases", "900", "-precond", "100", "-blocks", "30", "-roothash", "400"]},
         "search_args": ["-cases", "150", "-precond", "0", "-blocks", "30", "-roothash", "80"],
         "timeout": 14400},
    ],
    "trusted_base": [
        "Coq 8.16.1 kernel (coqc; coqchk in the thorough tier); no native_compute",
        "harness/cmd/nohalt + harness/internal/muxdrv (drive the REAL ABCI multiplexer with all real apps through PrepareProposal / ProcessProposal / BeginBlock / DeliverTx / EndBlock / Commit; the harness plays CometBFT: one commit-info entry per validator of the previous height, validator updates applied at H+2)",
        "derivation of the recorded arithmetic inputs/outputs from typed state queries before/after each block and from the staking / governance events (harness/cmd/nohalt/obs.go)",
        "vm_compute evaluation of Verif.NoHalt.Model on the recorded cases (no extraction)",
        "ported by hand, not verified: quantity.Quantity as N (Add/Mul total, Sub fails below zero, Quo fails on zero); the per-validator loop nest of closeProposal is interchanged (validator-outer) which preserves maps and the Ok/Fatal outcome",
    ],
    "assumptions": [
        "ledger share invariant of C05: for every escrow pool, the shares of the delegations to it do not exceed the pool's total shares; votes of a proposal are keyed by voter (premises ledger_inv / NoDup of the tally theorems, `shares <= ts` of debonding_completion_total)",
        "parameter sanity checks hold (go/staking/api/sanity_check.go:33-50,68-70, re-run on every parameter change, apps/staking/messages.go:41): fee weights not all zero (needed by disburseFeesP only), commission rates <= 100 %; the denominators are the non-zero package constants",
        "CometBFT delivers a commit info with one entry per validator of the previous height (empty only at the initial height, where LastBlockFees = 0 by apps/staking/genesis.go:41-62 and no proposer reward is paid because GetCurrentEpoch = EpochInvalid, abci/state.go:283-286)",
        "roothash sub-stream: a non-TEE compute runtime whose compute nodes all belong to validator 0's entity; commitments are properly signed ExecutorCommit transactions with arbitrary result roots (no runtime executes anything); suspension is caused by node-registration expiry",
        "documented precondition of the property: enough stake-eligible validators remain to elect a validator set (histories violating it run in a separate sub-stream and are only checked to fail with the election error)",
        "genesis sanity: total supply <= 2^64 unless stake is bypassed (scheduler genesis.go:160-171), so amounts 2^128 / 2^255 are generated only with DebugBypassStake",
        "debug-only behaviour excluded: DebugMockBackend epoch JUMPS with the supplementarysanity app registered, and beacon.SetEpoch to epochs near 2^63",
    ],
}

MANIFEST = {
    "technique": "Coq proof (totality of the executable ports of the fatal arithmetic: fee splits, rewards, slashing, debonding completion, governance tally; exact characterisation of the remaining fatal conditions; refutation witnesses where the code's own preconditions do not exclude a failure) with differential correspondence check and an extreme-input panic search on the real ABCI multiplexer",
    "level_text": "Theorems in coq/Props/C10.v hold for all amounts (unbounded naturals), all vote patterns including all validators absent, all commission rates up to 100 %, any vote list with one vote per account and any delegation set satisfying the ledger share invariant: disburseFeesP, disburseFeesVQ, AddRewards / AddRewardSingleAttenuated, SlashEscrow, debonding completion and the governance tally of the ported model never return an error under the stated preconditions; the tally is fatal exactly when every validator entity has zero active escrow and its voted stake never exceeds the total voting stake. disburseFeesVQ is total for ALL weights and conserves the pending fees (repair of /repo commit c9cfe37); the ORIGINAL function is kept as fee_vq_original and proved to fail when the vote and next-propose weights are both zero while fees are persisted (the halt was reproduced on the real multiplexer through a passed change-parameters proposal; that history stays in the quick tier as a regression case). TransferFromCommon(escrow=true) is total for ANY destination pool and conserves the transferred amount (repair of /repo commit c3a21ab); the ORIGINAL function is kept as transfer_from_common_escrow_original and proved to fail for an account slashed to zero with shares outstanding and a 100 % commission rate (the halt was reproduced on the real multiplexer by the roothash sub-stream; that history, script rt-slash-reward, stays in the quick tier as a regression case). The model is tied to the code by recording, at every block of seeded extreme histories executed by the real multiplexer, the real inputs/outputs of these functions and evaluating the model on them inside Coq; an independent oracle reports every panic, empty or rejected honest proposal, and any effect of malformed transactions on other transactions or on the state (twin chain).",
    "level_note": "Trusted: Coq kernel; the harness and muxdrv (which play CometBFT); the hand port of quantity arithmetic. Fatal paths inside apps that are not modelled are covered by the search streams only: roothash rounds (commit / timeout / discrepancy / backup resolution / equivocation evidence / suspension with an armed round timeout / resumption, incl. distributeSlashedFunds) by the roothash sub-stream; registry, roothash runtime messages, key manager, vault, beacon VRF, scheduler election beyond the documented precondition, epoch-end AddRewards sequences) are covered by the search stream only; votes with values outside yes/no/abstain (accepted by castVote) are outside the tally model.",
}
