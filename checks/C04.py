SPEC = {
    "id": "C04",
    "props_file": "Props/C04.v",
    "gen": ["proofconsts"],
    "streams": [
        {"name": "mkvs-proof", "cmd": "mkvsproof",
         "args": {"quick": ["-cases", "20", "-mutants", "20"], "thorough": ["-cases", "400", "-mutants", "50"]},
         "search_args": ["-cases", "80", "-mutants", "40"]},
    ],
    "trusted_base": [
        "Coq 8.16.1 kernel (coqc; coqchk in the thorough tier); no native_compute",
        "harness/cmd/gen proofconsts (go/ast reader of maxProofDepth, the version range and the entry tags in syncer/proof.go)",
        "harness/cmd/mkvsproof (drives the real Tree.SyncGet/SyncIterate/SyncGetPrefixes, syncer.ProofVerifier.VerifyProof/VerifyProofToWriteLog and mkvs.NewWithRoot over scripted ReadSyncers; no export hook needed)",
        "the real node.UnmarshalBinary as called by the harness to project raw proof entries to the structured entries the model takes (byte-level decoding is C16's subject)",
        "crypto SHA-512/256 (hash.NewFromBytes) as called by the harness to tabulate (pre-image, digest) pairs; the Coq model evaluates ITS OWN hash formulas with that table as H (a missing pre-image yields [] and shows up as a mismatch)",
        "Verif.Mkvs.Iter / IterLift / Key (owned by C03: the iterator port and doNext_refines_seek) used read-only", "vm_compute evaluation of Verif.MkvsProof.Model / Corr on the recorded cases (no extraction); the trie model Verif.Mkvs.Trie (owned by C02) for trees built from inserted pairs",
        "modelled, not verified: SHA-512/256 (abstract H in the theorems), CBOR framing of syncer.Proof, the LRU node cache (remote sessions are oracle-only), the LRU bookkeeping itself (remote sessions are oracle-only; Remote.v models the cache as a partial tree with merge / whole-subtree eviction)",
    ],
    "assumptions": [
        "H has a fixed 32-byte output; never assumed injective (conclusions are '... or an explicit collision of H')",
        "decoded entry fields fit their wire fields: LabelBitLength < 2^16, key and value lengths < 2^32 (entry_wire); tree labels/keys/values within the same bounds (bounded)",
        "bit depths do not wrap: node.Depth is a uint16, keys of 8192 bytes or more are outside the model (as in Mkvs.Trie)",
        "completeness (get_proof_complete) is for trees of at most 129 entry levels; beyond that the code rejects its own proofs (get_proof_complete_unbounded_refuted, finding C04:honest-proof-below-128-levels-rejected)",
    ],
}

MANIFEST = {
    "technique": "Coq proof (structural induction over partial trees: any partial tree whose recomputed hash equals the root is the real tree with subtrees replaced by hashes, or yields an explicit hash collision; lookup in a pruned tree refines lookup in the tree; the fused SyncGet builder is parsed back by the verifier) with differential correspondence check and an independent implementation-side oracle over mutated, spliced and fabricated proofs",
    "level_text": "Theorems in coq/Props/C04.v (incl. the remote-backed reader: any sequence of responses accepted as cache.remoteSync does and merged by hash equality keeps every Get answer equal to the full replica's or an error, for an unbounded cache; the bounded-cache partial removal is refuted by a witness; the SyncIterate / SyncGetPrefixes builders are ported on top of the Mkvs/Iter.v machine: a reader walking the verified proof with the ported iterator meets no hash and obtains the true first n+1 entries / what the prefix loop obtains on the full replica; iteration over the remote-backed reader is ordered-safe; the lock of cache.tryRemoveNode protects everything the running query still has to read, refuted for the swapped check order) hold for every hash function with 32-byte output, every tree, key, proof version and EVERY list of decoded entries (so every altered, truncated, extended, reordered, spliced or fabricated proof): an accepted list reconstructs a pruning of the real tree or exhibits a collision (verify_sound, hash_prunes); lookups in a pruning, both the natural walk and the port of Go's doGet/derefNodePtr walk, never report a value or an absence contrary to the contents (plookup_sound, plookup_go_sound, proof_cannot_lie); the write log only holds real entries; all entries are consumed and recursion depth is bounded. The proof SyncGet builds (versions 0/1, siblings on/off) is accepted and determines its key with the true answer for every tree of at most 129 entry levels (get_proof_complete, get_proof_complete_go_v0); without that bound completeness is refuted by a 130-key witness, which the harness reproduces on the real code. The model is tied to the code by comparing real SyncGet proofs entry-for-entry with the model builder and by running thousands of mutants of real get/iterate/prefix proofs through the real verifier and a remote-backed tree, comparing verdict, write log and answers with the model evaluated in Coq; an oracle independent of Coq checks that no accepted candidate and no remote-backed session ever answers contrary to the full replica.",
    "level_note": "Trusted: Coq kernel; the harness; node.UnmarshalBinary for the projection to structured entries; Go's SHA-512/256 for the digest table. Not covered by the theorems: collision resistance; byte-level decoding (C16) and CBOR framing; iterate/prefix proof builders and the LRU cache / merge into a populated cache (exercised by the remote sessions and the oracle only); keys >= 8192 bytes.",
}
