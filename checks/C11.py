SPEC = {
    "id": "C11",
    "props_file": "Props/C11.v",
    "gen": [],
    "streams": [
        {"name": "pool", "cmd": "pool",
         "args": {"quick": ["-cases", "800", "-exh-np", "2", "-exh-nb", "2", "-exh-len", "2"],
                  "thorough": ["-cases", "8000", "-exh-np", "3", "-exh-nb", "3", "-exh-len", "2"]},
         "search_args": ["-cases", "30000", "-exh-np", "2", "-exh-nb", "2", "-exh-len", "2"]},
        {"name": "verify", "cmd": "pool",
         "args": {"quick": ["-mode", "verify", "-cases", "1200"], "thorough": ["-mode", "verify", "-cases", "10000"]},
         "search_args": ["-mode", "verify", "-cases", "20000"]},
        {"name": "app", "cmd": "pool",
         "args": {"quick": ["-mode", "app", "-cases", "60", "-blocks", "36"], "thorough": ["-mode", "app", "-cases", "800", "-blocks", "48"]},
         "search_args": ["-mode", "app", "-cases", "600", "-blocks", "40"]},
        {"name": "evidence", "cmd": "pool",
         "args": {"quick": ["-mode", "evidence", "-cases", "800"], "thorough": ["-mode", "evidence", "-cases", "20000"]},
         "search_args": ["-mode", "evidence", "-cases", "20000"]},
    ],
    "trusted_base": [
        "Coq 8.16.1 kernel (coqc; coqchk in the thorough tier); no native_compute",
        "harness/cmd/pool (drives the real commitment.Pool through NewPool / AddVerifiedExecutorCommitment / ProcessCommitments; records observations as Coq terms; probes run on a field-by-field copy of the pool)",
        "vm_compute evaluation of Verif.Roothash.Pool on the recorded cases (no extraction)",
        "harness/cmd/pool -mode verify (signs commitments with node keys and runs commitment.VerifyExecutorCommitment -> AddVerifiedExecutorCommitment -> ProcessCommitments as roothash/transactions.go does)",
        "abstracted inside the model of VerifyExecutorCommitment (Roothash/Verify.v): the signature check, message hashing / ValidateBasic of messages, RAK attestation and the message validator are boolean inputs measured on the real commitment by the harness (non-TEE runtime, no messages, nil validator in the harness); hashes are opaque numbers",
        "harness/cmd/pool -mode app + harness/internal/muxdrv (drives the real roothash application behind the real ABCI multiplexer with signed ExecutorCommit transactions; reads runtime state, round-timeout index and events)",
        "harness/cmd/pool -mode evidence (signed executor-commitment / proposal pairs through roothash.Evidence.ValidateBasic; error strings mapped to the model's reasons) and the evidence transactions of the app stream (submitEvidence through the mux; evidence-hash store read back from state)",
        "abstracted in Roothash/Evidence.v: signatures are booleans measured on the real objects; Evidence.Hash()/round is an opaque store key; slashing is reduced to 'the accused key is a registered node'",
        "Roothash/App.v now carries the block header at the level (round, type, state root, IO root, previous hash, messages hash), LivenessStatistics and the good/bad node lists of the last normal round; the app stream compares all of them after every block",
        "abstracted in Roothash/App.v: one runtime; block hashes and the state root of a commitment header are tables measured on the implementation; the elected committee is an input of the block in which it changes; liveness statistics, slashing, runtime messages, round results are not modelled; the round-timeout index is identified with NextTimeout (the harness checks they agree after every block)",
    ],
    "assumptions": [
        "commitments reach the pool through VerifyExecutorCommitment (as in roothash/transactions.go and the executor worker); the premise `verified` of the history theorems is proved from the model of that function and the verify stream checks the model against the real function; the pool stream also exercises histories outside it, where only model/implementation agreement is checked",
        "committee sizes and rounds are far from 2^64 (premises `small` and `rank_inj`: distinct workers have distinct scheduler ranks)",
    ],
}

MANIFEST = {
    "technique": "Coq proof (executable port of the commitment pool; declarative rule over the recorded vote set; theorems for all committees, pools and inputs, invariant by induction over add/process histories) with exhaustive small-scope and seeded differential correspondence check against the real commitment.Pool",
    "level_text": "Theorems in coq/Props/C11.v hold for every committee, every pool (resp. every pool reachable by add/process histories of verified commitments), every commitment, straggler allowance and timeout flag: ProcessCommitments of the ported model returns a scheduler commitment only if the declarative unanimity / backup-majority rule of PoolSpec.v holds for it, never keeps waiting with an expired timer, rejects second votes, non-members and worse-ranked schedulers with the pool unchanged, and every other outcome is classified. The model is tied to the code by running the real commitment.Pool and the model on the same cases (exhaustive for the stated small scope, seeded random beyond) and comparing error classes, outcomes, chosen commitment, highest rank, discrepancy flag and the final vote maps; an independent Go oracle evaluates the rule on the commitments the implementation accepted.",
    "level_note": "Trusted: Coq kernel; the harness; the abstraction of verified commitments. Not covered: signature/RAK verification, the roothash application's mapping of pool outcomes to Normal / RoundFailed blocks (state root of a failed round), liveness bookkeeping.",
}
