SPEC = {
    "id": "C05",
    "props_file": "Props/C05.v",
    "gen": [],
    "streams": [
        {"name": "ledger", "cmd": "ledger",
         "args": {"quick": ["-runs", "10", "-blocks", "20"], "thorough": ["-runs", "24", "-blocks", "120"]},
         "search_args": ["-runs", "24", "-blocks", "40"]},
    ],
    "trusted_base": [
        "Coq 8.16.1 kernel (coqc; coqchk in the thorough tier); no native_compute",
        "harness/cmd/ledger + harness/internal/muxdrv (drives the real ABCI multiplexer with all real apps; reads the full staking state after every block through stakingState.ImmutableState; decodes events with the real decoders)",
        "vm_compute evaluation of Verif.Ledger.Ops (run_check_inv: the model run on the block compared field by field with the post-state dump, plus inv_b -- proved equivalent to Inv -- evaluated on the implementation's own pre- and post-state dumps) on the recorded per-block cases (no extraction)",
        "oracle inputs of the model operations that are decided outside the ledger: proposer and voter entities, who is slashed (evidence against a validator the harness has not yet seen frozen), who is rewarded for signing (the harness's own per-epoch signing tally and the threshold, in entity-key order) -- all recomputed by the harness, not read from staking events; who is rewarded for being elected (the scheduler's validator set after the block, C14's domain); current commission rate (the real CommissionSchedule.CurrentRate), reward schedule step, closed proposals' deposits (TransferEvents from the governance deposits address), validity of ledger-neutral transactions (commission amendments, votes)",
        "hand-written port: Ledger/State.v + Ledger/Ops.v model transactions.go, fees.go, state/gas.go, state/state.go (SlashEscrow, AddRewards, AddRewardSingleAttenuated, governance deposit moves), staking.go onEpochChange; share arithmetic shared with C15 (Ledger/SharePool.v)",
    ],
    "assumptions": [
        "block protocol: disburseFeesVQ (BeginBlock) and disburseFeesP (EndBlock) alternate, one each per block (the model returns RMisuse otherwise); between them the persisted last-block-fees value is stale in the code and is not counted",
        "huge genesis (one history in seven plus a random 10 %): total supply between 2^64 and 2^70 (sqrt voting power) or near 2^128 (stake bypassed); validator general balances, several accounts, one validator escrow pool, a non-validator active and debonding pool and the delegations into them sit just below / at / above 2^64, so that transfers, fee credits, rewards, commission deposits, escrow deposits and debonding releases move balances, pool balances and share totals across 2^64 in both directions (measured per run in the histograms crossed_2^64_upwards / crossed_2^64_downwards / became_exact_multiple_of_2^64); the correspondence therefore exercises values above 2^64 (the model is over unbounded N)",
        "governance campaigns (most insecure-beacon histories): staking ChangeParameters proposals (fee split weights incl. vote+next = 0, reward factors, reward schedule, minimum amounts, MinTransactBalance, MaxAllowances, debonding interval) submitted by an account and voted through by all validator entities, with a fee-paying transfer in every block; each block's model operations use the parameters read from the real state before that block",
        "histories: insecure beacon (epoch every 4 blocks) or mock beacon with set-epoch transactions jumping 1..4 epochs, debonding intervals 1..4, optional genesis debonding delegations that are already expired; 6 % of the blocks are proposed by a node the registry does not know (no proposer entity)",
        "a BeginBlock/EndBlock error aborts the block (multiplexer panics): modelled as RFatal with the state unchanged",
        "not modelled: withdraw hooks of vault accounts, roothash runtime messages (TransferFromCommon is modelled and proved but not exercised by K: no runtimes in the histories), UndisableTransfersFrom, registry stake claims, gas accounting beyond 'limit covers size (+ operation)'",
    ],
}

MANIFEST = {
    "technique": "Coq proof (invariant preserved by every ledger operation, by induction over all operation sequences; exact supply accounting) with per-block differential correspondence check against the real multiplexer and an independent Go evaluation of the invariant on every block's state",
    "level_text": "Theorems in coq/Props/C05.v hold for every state satisfying the invariant, every parameter set and every sequence of model operations (transactions with fee payment incl. failing ones, fee disbursement, rewards with commission, slashing, debonding completion, governance deposits) with arbitrary oracle inputs: supply = sum of all balances and pools, share totals = sums of (debonding) delegations, supply decreases exactly by the burned amounts. The model is tied to the code by replaying every block of seeded histories (valid and invalid transactions, epoch transitions, partial votes, double-sign evidence) on the real multiplexer and on the model inside Coq, comparing every account, delegation and pool field by field; independently the invariant is evaluated in Go on the real state after every block and cross-checked with the in-tree supplementarysanity app at every height.",
    "level_note": "Trusted: Coq kernel; the harness and muxdrv; the hand-written port (tied to the code only by the per-block correspondence); oracle inputs listed in trusted_base. Not covered by K: roothash/vault paths into the ledger (no runtimes/vaults in the histories; TransferFromCommon is modelled and proved only). Epoch jumps use the debug mock beacon (set-epoch transactions); governance proposals are not generated in those histories because a skipped closing epoch leaves a proposal active forever.",
}
