SPEC = {
    "id": "C20",
    "props_file": "Props/C20.v",
    "gen": ["txpoolconsts"],
    "streams": [
        {"name": "txpool", "cmd": "txpool",
         "args": {"quick": ["-cases", "600"], "thorough": ["-cases", "40000"]},
         "search_args": ["-cases", "20000"]},
    ],
    "trusted_base": [
        "Coq 8.16.1 kernel (coqc; coqchk in the thorough tier); no native_compute",
        "harness/cmd/gen txpoolconsts (go/ast reader of the math.* guards and maxBatchSize in main_queue_scheduler.go)",
        "harness/cmd/txpool + verif-tagged go/runtime/txpool/export_verif.go (drives the real scheduler; records observations as Coq terms)",
        "vm_compute evaluation of Verif.Txpool.Model on the recorded cases (no extraction)",
        "modelled, not verified: container/heap (heaps are element sets, tie choice validated not predicted), the mutex wrapper mainQueue and txpool.go goroutines",
    ],
    "assumptions": [
        "transaction hashes are unique (the model returns CDupId otherwise; the harness never generates it)",
        "heap tie-breaking is free: the implementation's pick/eviction is validated as maximal/minimal, not predicted",
    ],
}

MANIFEST = {
    "technique": "Coq proof (invariant by induction over operation sequences + refinement of the code's bookkeeping to the computed-ready-set reference) with differential correspondence check against the real scheduler",
    "level_text": "Theorems in coq/Props/C20.v hold for every operation sequence and every uint64 sequence number: the max-heap element set maintained by the ported bookkeeping equals the computed ready set of the reference (given the regenerated stop constant), sender order / no double scheduling / capacity / replacement rules hold on the reference. The model is tied to the code by replaying seeded operation sequences on the real scheduler and evaluating both model layers on the same operations inside Coq; an independent Go reference evaluates the property predicates directly on the implementation for the failing-input search.",
    "level_note": "Trusted: Coq kernel; the go/ast constant reader; the harness and the verif-tagged export wrapper; heaps abstracted to sets (tie choice validated, not predicted); mutex wrapper and goroutines of txpool.go not modelled.",
}
