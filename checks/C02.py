SPEC = {
    "id": "C02",
    "props_file": "Props/C02.v",
    "gen": [],
    "streams": [
        {"name": "mkvs-root", "cmd": "mkvs",
         "args": {"quick": ["-mode", "c02", "-cases", "300"], "thorough": ["-mode", "c02", "-cases", "3000"]},
         "search_args": ["-mode", "c02", "-cases", "3000"]},
        {"name": "mkvs-keys", "cmd": "mkvs",
         "args": {"quick": ["-mode", "keys", "-klen", "11,10,13,12,7,10"],
                  "thorough": ["-mode", "keys", "-klen", "15,13,16,15,8,12"]}},
    ],
    "trusted_base": [
        "Coq 8.16.1 kernel (coqc; coqchk in the thorough tier); no native_compute",
        "harness/cmd/mkvs + verif-tagged go/storage/mkvs/export_verif.go (VerifDump: read-only walk of the real tree through the node cache / node database)",
        "crypto/sha512 Sum512_256 as called by the harness to tabulate (pre-image, digest) pairs; the Coq model evaluates ITS OWN hash formula with that table as the hash function (a missing pre-image is a mismatch), and the result is compared with the root returned by the real Tree.Commit",
        "vm_compute evaluation of Verif.Mkvs.Trie / Verif.Mkvs.Corr on the recorded histories (no extraction)",
        "stream mkvs-keys: the real node.Key functions (Split, Merge, AppendBit, GetBit, BitLength, CommonPrefixLen) are swept exhaustively over all packed bit strings up to the given lengths and folded into a polynomial checksum modulo 2^61 that the Coq port Verif.Mkvs.Key recomputes (a checksum, not a per-call comparison: a difference is detected unless the checksums collide)",
        "modelled, not verified: SHA-512/256 itself (abstract H in the theorems); node cache LRU, node databases and serialization are dimensions of the correspondence runs only",
    ],
    "assumptions": [
        "case classes: ordinary (1-60 ops, all capacities), 'long' (~4%: 150-400 keys, 20-120 read-modify-write rounds of Get/Seek then Insert/Remove of the same key + Commit, node capacity 32/64 well above the measured path depth 11-14, value capacity unlimited, DB backends; failures are always plain violations, never attributed to the cache findings; only the final commit is evaluated by the model and only when the final tree has <= 150 keys, the independent oracle checks every commit and every read) and 'bigbatch' (~6%: 16-48 inserts, failed CommitKnown, 16-48 more inserts, commit, reopen, read back on the reopened tree)",
        "CommitKnown is part of the alphabet: with the right root (learnt by a NoPersist commit) it must behave exactly like Commit, with a wrong root it must fail with ErrKnownRootMismatch and leave contents and all later roots intact (checked against the reference map, after reopen, and against a twin without the failed attempts); mkvs.WithoutWriteLog() is a configuration dimension (50%) of both C02 and C03",
        "quantifier extended to FAULTS (labelled extension): the harness injects one fault (the k-th NodeDB.GetNode of an operation fails once, or the operation's context is cancelled at that point) into twins of ~35% of the eligible histories, observes the operation's error, retries the same operation and requires the fault-free twin's root and contents; on the functional model a failed operation is the identity by construction (failed_op_leaves_tree). Any divergence after an injected fault is a violation (the doRemove defect found this way is fixed in /repo 8b362ab). Fault twins run with AMPLE cache capacities only (5000 nodes / 16 MB): the combination fault + eviction (e.g. a pre-fetched sibling evicted during the descent and then failing to re-fetch) is not exercised",
        "known findings (known_findings.json): a failing case is attributed to a cache finding only on EVIDENCE: the identical history is re-run with ample capacities (node 5000 / value 16 MB, same backend); if it fails again it is a plain violation (and its model mismatch is not exempted); only if the ample-capacity rerun is clean it is attributed to C02:node-capacity-not-above-path-depth (iff 0 < node_cap <= deepest path of the reference trie + 1) or else to C02:embedded-leaf-evicted-under-dirty-internal-node (iff small value capacity and an embedded leaf existed: VerifScan anomaly or proper-prefix key pair); every other failure is a violation",
        "keys are byte strings (every element < 256); for root_sensitive additionally key length < 8192 bytes (LabelBitLength/Depth is a uint16) and value length < 2^32 (uint32 length field), and H has a fixed output length",
        "keys and values passed to the API are non-nil slices (Tree.Insert(nil, v) is out of contract)",
    ],
}

MANIFEST = {
    "technique": "Coq proof (structural induction on a hand-written Gallina port of doInsert/doRemove/doGet: well-formedness invariant, contents = sorted-association-list update, uniqueness of the canonical shape, injectivity of the hash pre-image encodings) with differential correspondence check (shape dump + root hash) against the real tree on both node databases",
    "level_text": "Theorems in coq/Props/C02.v hold for every operation history and every key/value over bytes: insert/remove preserve well-formedness, the in-order contents are exactly the sorted-map update, a well-formed tree is uniquely determined by its contents (canonical), hence any two histories with equal contents give the identical tree and identical root hash expression for ANY hash function (root_depends_only_on_contents); conversely equal roots imply equal contents or exhibit a collision of H (root_sensitive, under the uint16/uint32 length bounds). The model is tied to the code by replaying seeded histories (adversarial prefix-heavy keys, empty key, random commits, reopen, ApplyWriteLog, tiny caches, badger and pathbadger) on the real tree and comparing the dumped shape (labels bit-exact incl. padding) and every committed root with the model evaluated inside Coq; twins with equal contents and different histories are compared on the implementation alone.",
    "level_note": "Trusted: Coq kernel; harness + read-only export hook; Go's crypto/sha512 for the digest table. Not covered by the theorems: SHA-512/256 (abstract), cache eviction / node database round trips and (de)serialization (exercised by the correspondence runs only), keys >= 8192 bytes.",
}
