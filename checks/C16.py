SPEC = {
    "id": "C16",
    "props_file": "Props/C16.v",
    "gen": ["decodeconsts", "quoteconsts", "miscconsts"],
    "streams": [
        # K + S for the modelled hand-written decoders: real Go function vs Verif.Decode.Cases.run_case
        {"name": "decode", "cmd": "decode",
         "args": {"quick": ["-mode", "model", "-cases", "700"], "thorough": ["-mode", "model", "-cases", "30000"]},
         "search_args": ["-mode", "model", "-cases", "6000"]},
        # S only: SEARCH, NOT PROOF.  No model, no correspondence cases; panic / > 2 s / > 256 MiB per call.
        {"name": "search", "cmd": "decode",
         "args": {"quick": ["-mode", "search", "-cases", "28000"], "thorough": ["-mode", "search", "-cases", "2800000"]},
         "search_args": ["-mode", "search", "-cases", "280000"]},
        # S only: CheckTx / DeliverTx of a live multiplexer (muxdrv), SEARCH, NOT PROOF.
        {"name": "mux", "cmd": "decode",
         "args": {"quick": ["-mode", "mux", "-cases", "3000"], "thorough": ["-mode", "mux", "-cases", "120000"]},
         "search_args": ["-mode", "mux", "-cases", "20000"]},
        # S only, thorough tier: the known unrecoverable stack overflow, in a child process with a 64 MiB stack limit.
        {"name": "rhpstack", "cmd": "decode",
         "args": {"quick": ["-mode", "rhpstack", "-cases", "0"], "thorough": ["-mode", "rhpstack", "-cases", "1"]}},
    ],
    "trusted_base": [
        "Coq 8.16.1 kernel (coqc; coqchk in the thorough tier); no native_compute",
        "harness/cmd/gen decodeconsts / quoteconsts / miscconsts (layout constants from the imported packages and, for package-private ones, go/ast: node prefixes, maxProofDepth, proof entry kinds, quote.go and ias/quote.go lengths, namespace flag mask, codec maxMessageSize, checkpoint v1ProofsVersion, the strict CBOR options of cbor.go:40-48 and the library's default MaxNestedLevels)",
        "coq/Decode/GoSlice.v as the semantics of Go slice expressions, indexing, encoding/binary reads, make and copy (slice is stricter than Go: high > len is Panic even when <= cap)",
        "harness/cmd/decode + verif-tagged go/storage/mkvs/syncer/export_verif.go (VerifWalk: the package-private verifyProof) and go/common/sgx/pcs/export_verif_c16.go (read-only accessors VerifQE, VerifReportBody); error values mapped to classes by errors.Is and message prefix",
        "vm_compute evaluation of Verif.Decode.Cases.run_case on the recorded inputs (no extraction)",
        "Go int is 64 bit (sums of positions and declared lengths < 2^33 do not wrap)",
        "oracle inputs of the model (observed on the implementation, not modelled): PEM/X.509 parse of a PCK chain inside a quote; the snappy+CBOR stream decoder events of a checkpoint chunk",
        "the CBOR recogniser is a SPECIFICATION tied to fxamacker/cbor v2.4.0 only by the correspondence stream (DecMode.Valid with a mirror of decOptions; cbor.Unmarshal accepts => recogniser accepts); the library is not verified",
        "NOT modelled, search only: fxamacker/cbor value building (UTF-8, duplicate keys, key typing), encoding/json, crypto/x509 + PEM, protobuf, snappy and every type decoded through them; the consensus applications behind CheckTx/DeliverTx; the runtime-host connection state machine; the stateless client's provider-input verification",
    ],
    "assumptions": [
        "the context passed to the proof verifier / chunk restorer is not cancelled (ctx.Err() == nil)",
        "decoders are called on a fresh receiver (InternalNode.Left/Right nil before SizedUnmarshalBinary), as at every call site",
        "node hashes (UpdateHash) and the final root-hash comparison of verifyProofOpts (proof.go:328-340) are outside the model: hashing does not influence the decoders' control flow",
        "error paths compared by class (sentinel error + wrapping prefix), not by message text",
        "KeyFormat.Decode: value pointers have the types of the layout (checkSize / unsupported-type panics are programmer errors independent of the input); callers guarantee a non-empty key that is at least Size() long when the prefix matches (proved necessary and sufficient: keyformat_decode_panics_iff)",
    ],
}

MANIFEST = {
    "technique": "Coq proof (totality, boundedness and bounded recursion of statement-by-statement ports of the hand-written binary decoders over an explicit-panic model of Go slices; a total linear-time recogniser as specification of the strict CBOR profile) with differential correspondence check against the real decoders; mutation-based search (no model) for everything that goes through third-party decoders or the consensus applications",
    "level_text": "PROOF covers the hand-written binary decoders only: Depth.UnmarshalBinary, Key.SizedUnmarshalBinary, LeafNode/InternalNode.SizedUnmarshalBinary (full and compact forms), node.UnmarshalBinary, the Merkle proof verifier walk (verifyProof / verifyProofOpts up to the root-hash comparison), the checkpoint restoreChunk loop around the (unmodelled) snappy/CBOR stream, the PCS quote binary layout (Quote.UnmarshalBinaryWithTrailing, header v3/v4, SGX/TDX report bodies, TdAttributes, QuoteSignatureECDSA_P256 incl. the v4 certification-data tuple, CertificationData_QEReport, PPID data; the nested PEM/X.509 chain parse is an oracle input), the IAS quote body/report, keyformat.KeyFormat.Decode and the fixed-size UnmarshalBinary helpers (hash, namespace, address, public key, signature, typed hash, MRENCLAVE/MRSIGNER, pre-hashed, artifact kind). For EVERY byte string / entry list / event list the ported decoders return Ok or Err and never fail a bounds check (decode_*_total, decode_quote_total, decode_ias_quote_total, fixed_unmarshal_total, verify_walk_total, verify_opts_total, restore_chunk_total), consume at most the input, build values no larger than the input and request through make() at most the input length on every path (decode_*_bounded, decode_alloc_bounded), round-trip the encoders on well-formed nodes (decode_encode_roundtrip_*), and the verifier recursion nests at most maxProofDepth+2 frames with one pointer per consumed entry (verify_depth_bounded, verify_walk_bounded, verify_opts_consumes_all). KeyFormat.Decode is NOT total and the theorem says exactly when it panics (keyformat_decode_panics_iff: empty key, or matching prefix with a key shorter than the format's size; keyformat_decode_total_refuted gives the witness); its callers feed it keys obtained by prefix iteration over the local database. The strict CBOR profile (definite lengths, no tags, nesting <= 32, array/map sizes <= 10^7, regenerated from cbor.go:40-48) is captured by a recogniser proved total with linear fuel and bounded depth (cbor_recognizer_total, cbor_recognizer_bounded); it is a SPECIFICATION: the correspondence stream checks that it agrees with the library's validity pass and that whatever cbor.Unmarshal accepts the recogniser accepts, the library itself is not verified. The ports are tied to the code by running the real Go functions and the model (vm_compute) on the same valid encodings, length-field mutants, truncations (incl. every prefix of small encodings) and random bytes and comparing Ok/Err class, decoded value and consumed length. EVERYTHING ELSE in the property is SEARCH, NOT PROOF (same mutation engine, plus JSON-structure-aware and CBOR-structure-aware mutators, under recover with a 2 s / 256 MiB budget per call): CBOR transactions, executor commitments and proposals, node/entity/runtime descriptors, the syncer.Proof envelope, write logs, checkpoint chunk restore, PCS quote bundles and their X.509 chains, TCB/QE-identity JSON, IAS AVR and AVR bundles, runtime-host protocol frames (message codec and the guest/host connection state machine over net.Pipe), the stateless client's verification of provider-supplied Meta bytes (blocks, results, validators, parameters, transactions and proofs), and CheckTx / DeliverTx of a live multiplexer with all applications (byte-mutated, truncated, oversized and correctly re-signed transactions with mutated bodies for 33 methods, with a health probe after garbage blocks and a goroutine-growth probe).",
    "level_note": "Trusted: Coq kernel; GoSlice.v as the semantics of Go slicing/indexing/encoding-binary/make/copy; the constant generators; the harness, its error-class mapping, its oracle inputs (PEM outcome, stream decoder events) and the verif-tagged hooks. The search streams give no guarantee beyond the inputs they ran; findings of the search streams are reported under stable keys (see known_findings.json).",
}
