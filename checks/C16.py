SPEC = {
    "id": "C16",
    "props_file": "Props/C16.v",
    "gen": ["decodeconsts", "quoteconsts", "miscconsts"],
    "streams": [
        # K + S for the modelled hand-written decoders: real Go function vs Verif.Decode.Cases.run_case
        {"name": "decode", "cmd": "decode",
         "args": {"quick": ["-mode", "model", "-cases", "900"], "thorough": ["-mode", "model", "-cases", "30000"]},
         "search_args": ["-mode", "model", "-cases", "6000"]},
        # S only: SEARCH, NOT PROOF.  No model, no correspondence cases; panic / > 2 s / > 256 MiB per call.
        {"name": "search", "cmd": "decode",
         "args": {"quick": ["-mode", "search", "-cases", "16000"], "thorough": ["-mode", "search", "-cases", "1600000"]},
         "search_args": ["-mode", "search", "-cases", "160000"]},
    ],
    "trusted_base": [
        "Coq 8.16.1 kernel (coqc; coqchk in the thorough tier); no native_compute",
        "harness/cmd/gen decodeconsts (DepthSize, ValueLengthSize, hash.Size, node prefixes, the empty hash from the imported packages; maxProofDepth, proofEntryFull/Hash, Min/LatestProofVersion read with go/ast from syncer/proof.go)",
        "coq/Decode/GoSlice.v as the semantics of Go slice expressions, indexing, encoding/binary little-endian reads, make and copy (slice is stricter than Go: high > len is Panic even when <= cap)",
        "harness/cmd/gen quoteconsts (quote.go layout constants with go/ast; TEE types, certification data types, QE vendor id, TdAttributeReserved from the imported pcs package)",
        "harness/cmd/decode + verif-tagged go/storage/mkvs/syncer/export_verif.go (VerifWalk: the package-private verifyProof) and go/common/sgx/pcs/export_verif_c16.go (read-only accessors VerifQE, VerifReportBody); error values mapped to classes by errors.Is and message prefix",
        "vm_compute evaluation of Verif.Decode.Cases.run_case on the recorded inputs (no extraction)",
        "Go int is 64 bit (sums of positions and declared lengths < 2^33 do not wrap)",
        "PCS quote: the PEM/X.509 parse of a PCK certificate chain inside a quote is an oracle input of the model (observed accept/reject), not modelled",
        "NOT modelled, search only: fxamacker/cbor (through go/common/cbor), encoding/json, crypto/x509 + PEM, protobuf, snappy and every type decoded through them (transactions, commitments, proposals, node/entity/runtime descriptors, syncer.Proof envelope, write logs, checkpoint chunks, PCS quotes and collateral, IAS AVR)",
        "NOT covered at all: runtime host protocol frames (go/runtime/host/protocol/connection.go), CheckTx/DeliverTx of a live multiplexer",
    ],
    "assumptions": [
        "the context passed to the proof verifier is not cancelled (ctx.Err() == nil)",
        "decoders are called on a fresh receiver (InternalNode.Left/Right nil before SizedUnmarshalBinary), as at every call site",
        "node hashes (UpdateHash) and the final root-hash comparison of verifyProofOpts (proof.go:328-340) are outside the model: hashing does not influence the decoders' control flow",
        "error paths compared by class (sentinel error + wrapping prefix), not by message text",
    ],
}

MANIFEST = {
    "technique": "Coq proof (totality, boundedness and bounded recursion of a statement-by-statement port of the hand-written binary decoders over an explicit-panic model of Go slices) with differential correspondence check against the real decoders; mutation-based search (no model) for the entry points that go through third-party decoders",
    "level_text": "PROOF covers the hand-written binary decoders only: Depth.UnmarshalBinary, Key.SizedUnmarshalBinary, LeafNode/InternalNode.SizedUnmarshalBinary (full and compact forms), node.UnmarshalBinary, the Merkle proof verifier walk (verifyProof / verifyProofOpts up to the root-hash comparison) and the PCS quote binary layout (Quote.UnmarshalBinaryWithTrailing, header v3/v4, SGX/TDX report bodies, TdAttributes, QuoteSignatureECDSA_P256 incl. the v4 certification-data tuple, CertificationData_QEReport, PPID data; the nested PEM/X.509 certificate chain parse is an oracle input). For EVERY byte string / entry list the ported decoders return Ok or Err and never fail a bounds check (decode_*_total, decode_quote_total, verify_walk_total, verify_opts_total), consume at most the input and build values no larger than the input (decode_*_bounded), request through make() at most the input length on every path including error paths (decode_alloc_bounded: declared lengths are checked before allocation), round-trip the encoders on well-formed nodes (decode_encode_roundtrip_*), and the verifier recursion nests at most maxProofDepth+2 frames and builds one pointer per consumed entry (verify_depth_bounded, verify_walk_bounded, verify_opts_consumes_all). The port is tied to the code by running the real Go functions and the model (vm_compute) on the same valid encodings, length-field mutants, truncations and random bytes and comparing Ok/Err class, decoded value and consumed length. EVERYTHING ELSE in the property (CBOR transactions, executor commitments and proposals, node/entity/runtime descriptors, the syncer.Proof envelope, write logs, checkpoint chunk restore, PCS quote bundles and their X.509 chains, TCB/QE-identity JSON, IAS AVR and AVR bundles) is SEARCH, NOT PROOF: the same mutation engine applied to valid seeds of each exported entry point under recover with a 2 s / 256 MiB budget per call; third-party CBOR/JSON/X.509/protobuf/snappy decoders are not modelled. Runtime host protocol frames and CheckTx/DeliverTx of a live multiplexer are not exercised.",
    "level_note": "Trusted: Coq kernel; GoSlice.v as the semantics of Go slicing/indexing/encoding-binary/make/copy; the constant generator; the harness, its error-class mapping and the verif-tagged VerifWalk hook. The search stream gives no guarantee beyond the inputs it ran.",
}
