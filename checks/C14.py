SPEC = {
    "id": "C14",
    "props_file": "Props/C14.v",
    "gen": [],
    "streams": [
        {"name": "sched", "cmd": "sched",
         "args": {"quick": ["-cases", "120"], "thorough": ["-cases", "3000"]},
         "search_args": ["-cases", "700"]},
        {"name": "beacon", "cmd": "sched",
         "args": {"quick": ["-mode", "beacon", "-cases", "40"], "thorough": ["-mode", "beacon", "-cases", "700"]},
         "search_args": ["-mode", "beacon", "-cases", "300"]},
    ],
    "trusted_base": [
        "Coq 8.16.1 kernel (coqc; coqchk in the thorough tier); no native_compute",
        "harness/cmd/sched + verif-tagged go/consensus/cometbft/apps/scheduler/export_verif.go and export_verif_vrf.go (builds mock application states through the real registry/staking/beacon/consensus/scheduler state setters incl. the VRF state with real proofs, calls the real Application.BeginBlock (shouldElect + elect) and EndBlock, reads pending/current validators and committees back from the scheduler state; records inputs and outputs as Coq terms; 32-byte identifiers and hashed betas are rendered by their first 8 bytes, distinctness asserted)",
        "the shuffles are abstract in the model: the harness obtains the index lists actually used from the real initRNG/shuffleAddresses/rng.Perm through the export wrapper (one table entry per list length) and, for the VRF backend, the hashed betas of the submitted proofs in every election context from the real TupleHash hashers, and feeds them to the model; the DRBG, math/rand, ECVRF and TupleHash are not modelled",
        "vm_compute evaluation of Verif.Sched.Elect.run_epoch and of the proved-sound checker Verif.Sched.ElectSpec.impl_ok_b on the recorded cases (no extraction)",
        "identifier encoding: 32-byte keys, 21-byte staking addresses and runtime namespaces are compared as big-endian numbers (= bytes.Compare on equal lengths); an entity is identified by its staking address",
        "CapabilityTEE.Verify is abstract (its verdict is a model input); the harness only produces TEE capabilities whose attestation does NOT verify, so the accepting branch of a TEE runtime is covered by the proof only",
        "beacon stream: harness/cmd/sched -mode beacon + verif-tagged go/consensus/cometbft/apps/beacon/export_verif.go drives the real beacon application (VRF backend, production timekeeping: BeginBlock, VRFProve transactions with real ECVRF proofs) and compares epoch, scheduled transition, VRF state (alpha as a hash expression, proofs, PrevState), stored entropy and every node's ElectionEligibleAfter after each operation with Verif.Sched.Beacon.btrace; hashes (alpha, entropy) are expressions whose inputs are compared, not their bytes",
        "slashing inside a block is driven through the real staking SlashEscrow (which emits the TakeEscrowEvent) and a node freeze before the scheduler's BeginBlock; the evidence handling that decides to slash (staking/roothash apps) is not modelled",
        "not modelled: DebugForceElect, reward distribution, the DebugMockBackend timekeeping path of the VRF backend, the registry transaction that resets ElectionEligibleAfter (its effect is the ORegister operation)",
    ],
    "assumptions": [
        "scheduler parameters are non-negative; the count bound is max(1, MaxValidators) because the limit is checked after the insertion (InitChain rejects MaxValidators <= 0; a governance change is unchecked, see max_validators_zero_elects_one_refuted)",
        "validators_by_descending_stake and elect_per_entity need the tie-break index lists to be permutations (what rng.Shuffle/rng.Perm produce) and consensus keys to be unique (kept by the registry, C17); elect_sound and committee_sound hold for arbitrary index lists",
        "diff_applies needs both sets to be maps (unique keys: they are Go maps) and pending powers non-zero (proved: elect_powers_nonzero)",
        "validators_by_descending_stake_vrf: under sortition only entities with a node that submitted a VRF proof take part (sortNodesByHashedBeta drops the others), hashed betas pairwise distinct (no TupleHash collision)",
        "engine_tracks_elected: the engine applies an update list as upsert/remove by key (what CometBFT does); blocks_ok is what updateValidators emits, its premises are proved for every elected set (core_keys_nodup, elect_powers_nonzero)",
        "late_registration_ineligible: the registry resets ElectionEligibleAfter to EpochInvalid on a new / expired / VRF-key-changing registration (registry/transactions.go:399-426, modelled as ORegister); epochs stay below EpochInvalid",
        "prove_order_irrelevant: the reordered VRFProve transactions come from pairwise different nodes (two proofs of one node do not commute: the first wins)",
        "beacon backend insecure or VRF; consensus feature version either below or at 26.1",
    ],
}

MANIFEST = {
    "technique": "Coq proof (executable Gallina port of node filtering, validator election, validator diff and executor committee election (entropy and VRF sortition, TEE capability), election trigger, parameterised by the shuffles / hashed betas; soundness and ordering theorems for all inputs and all permutations) with differential correspondence check against the real scheduler application",
    "level_text": "Theorems in coq/Props/C14.v hold for every registry, ledger, parameter set and every tie-breaking permutation: elected validators and committee members are registered, unexpired, unfrozen, carry the role / active runtime version and have an entity whose escrow covers its claims; count, per-entity and exact-size limits hold; validators are taken by descending stake; voting power is monotone and positive; the result depends only on the sets of nodes and accounts; the validator updates applied in any order give exactly the elected set and, over any sequence of blocks, the engine holds exactly the tracked current set; the same soundness holds for VRF sortition with any beta hashing; the boolean validator and committee checkers are sound; exact sizes (validators = min(available, limit), committees = group + backup size); a whole block incl. slashing is sound against the post-slash state; the beacon side (VRF state, eligibility, entropy) is a function of the block history independent of proof delivery order, and a node registered in the current or previous epoch is never committee-eligible. The model is tied to the code by running the real Application.elect + EndBlock on seeded mock states (1-10 successive blocks per case, insecure and VRF beacon backends) and comparing validators with power, updates and committees exactly with the model evaluated inside Coq on the same inputs and the index lists actually used, by evaluating the proved-sound checker on the implementation's output, by running every case twice with different state insertion orders, and by an independent Go oracle of eligibility and limits.",
    "level_note": "Trusted: Coq kernel; the harness and the verif-tagged export wrapper; the DRBG/math.rand shuffles are abstract permutations (their index lists are fed to the model). Not covered: the accepting branch of TEE attestation verification in K, DebugForceElect, rewards, the beacon application's derivation of the VRF state.",
}
