SPEC = {
    "id": "C18",
    "props_file": "Props/C18.v",
    "gen": ["pcsvectors"],
    "streams": [
        {"name": "pcs", "cmd": "pcs",
         "args": {"quick": ["-bits", "1000", "-multi", "120", "-collflips", "100", "-synth", "300"],
                  "thorough": ["-allbits", "-multi", "1500", "-collflips", "1500", "-synth", "6000"]},
         "search_args": ["-bits", "6000", "-multi", "800", "-collflips", "600", "-synth", "3000"]},
        {"name": "node", "cmd": "pcs",
         "args": {"quick": ["-mode", "node", "-cases", "300"], "thorough": ["-mode", "node", "-cases", "8000"]},
         "search_args": ["-mode", "node", "-cases", "4000"]},
    ],
    "trusted_base": [
        "Coq 8.16.1 kernel (coqc; coqchk in the thorough tier); no native_compute; Uint63 primitive integers are used only by the correspondence fingerprint fp, not by any theorem",
        "harness/cmd/pcs (drives the real pcs.QuoteBundle.Verify on testdata vectors, their mutants and synthetic bundles; evaluates the real primitives crypto/sha256, crypto/ecdsa, crypto/x509, encoding/json+time.Parse on pcs.TCBInfo/pcs.QEIdentity, tuplehash, pcs.CertFromPEM on each case and records their graph as the tables that instantiate the model's abstract primitives; locates the quote's regions with its own splitter)",
        "the PCK leaf's SGX-extension decoder is consulted through the exported QuoteSignatureECDSA_P256.VerifyPCK (only when the harness's own chain validation succeeds)",
        "error strings of the implementation are mapped to the model's rejection reasons by substring (classify in harness/cmd/pcs/main.go)",
        "synthetic bundles are verified under a harness-generated root added to the exported variable pcs.IntelTrustRoots (no file of /repo is changed, no hook)",
        "vm_compute evaluation of Verif.Pcs.Model / Verif.Pcs.Node on the recorded cases (no extraction)",
        "harness/cmd/gen pcsvectors (copies the testdata vectors into coq/Gen/PcsVectors.v; the harness refers to the same constants)",
        "node stream: harness/cmd/pcs -mode node drives the real node.CapabilityTEE.Verify; CBOR decoding of attestation/constraints is done by the real code and its result is the model's input; SHA-512/256, TupleHash and Ed25519 (signature.PublicKey.Verify) are real in the correspondence and abstract in the theorems; the model's copy of the RAK-binding context string is checked against node.HashRAK on every case",
        "table lookups by 63-bit fingerprint: the harness registers every fingerprint with the SHA-256 of its argument and aborts (exit 4) if two different arguments share one; a model-side query of an unrecorded argument colliding with a recorded one has probability about 2^-63 per query",
        "abstract in the theorems (Section variables / record Prims): SHA-256, ECDSA-P256 verification, P-256 point validation, PEM and X.509 parsing and path validation, SGX extension decoding, encoding/json and time.Parse, TupleHash",
    ],
    "assumptions": [
        "validity_window_interval assumes the X.509 path-validation predicates are interval-shaped in the verification time (stated as explicit hypotheses)",
        "the validity window is the code's: issueDate <= ts <= issueDate + policy.TCBValidityPeriod days; nextUpdate is parsed but not compared with ts (accept_implies_before_next_update_refuted; observed on the implementation and reported in coverage.streams.pcs.extra)",
        "FMSPC white/blacklists are compared with the TCB info's FMSPC string, case-sensitively (fmspc_blacklist_by_value_refuted; observed and reported in extra)",
        "node layer: the IAS branch of quote.Quote.Verify is not modelled (NNotModelled, never generated); with the SignedAttestations feature off, node id / height / REK / signature are not bound (unsigned_attestation_frame)",
        "process switches unsafeSkipVerify and the MRSIGNER blacklist are not exercised by the harness (the blacklist is modelled; skip-verify is not)",
    ],
}

MANIFEST = {
    "technique": "Coq proof (inversion of a check-order-faithful executable model of QuoteBundle.Verify over abstract crypto; interval argument for the time window) with differential correspondence check against the real verifier on mutated known-good SGX/TDX vectors and synthetic validly-signed bundles",
    "level_text": "Theorems in coq/Props/C18.v hold for every raw quote, collateral, verification time, policy, process switch setting and every interpretation of the cryptographic/parsing primitives: acceptance implies every named check (policy, TEE/TDX module, debug mode, PCK chain at ts, QE report signature, QE report data binding of attestation key and authentication data, quote signature over header||report body, TCB chain at ts and both collateral signatures, validity windows, evaluation numbers, FMSPC equality and lists, matched TCB level status, QE identity); the returned identity and report data are a function of the signed report body located at fixed offsets of the raw quote, so two accepted inputs with equal signed regions return equal outputs and the unread slack is irrelevant; expired / disallowed-status / foreign-platform collateral is never accepted; acceptance times form an interval when X.509 validity does. The model is tied to the code by running the real verifier and the model (vm_compute, primitives instantiated by the recorded graph of the real primitives) on the same seeded cases and comparing verdict, rejection reason and verified output; an independent Go oracle checks the property predicates on the implementation directly.",
    "level_note": "Trusted: Coq kernel; harness (region splitter, primitive evaluation, error-string classification); ECDSA, SHA-256, X.509, JSON, TupleHash are abstract in the proofs and real in the correspondence. Deviations from the property text found in the code and proved as *_refuted: nextUpdate is never compared with the verification time; FMSPC lists are string comparisons.",
}
