SPEC = {
    "id": "C18",
    "props_file": "Props/C18.v",
    "gen": ["pcsvectors", "pcsclock"],
    "streams": [
        {"name": "pcs", "cmd": "pcs",
         "args": {"quick": ["-bits", "1000", "-multi", "120", "-collflips", "100", "-synth", "300"],
                  "thorough": ["-allbits", "-multi", "1000", "-collflips", "1000", "-synth", "3000"]},
         "search_args": ["-bits", "6000", "-multi", "800", "-collflips", "600", "-synth", "3000"]},
        {"name": "node", "cmd": "pcs",
         "args": {"quick": ["-mode", "node", "-cases", "300"], "thorough": ["-mode", "node", "-cases", "4000"]},
         "search_args": ["-mode", "node", "-cases", "4000"]},
    ],
    "trusted_base": [
        "Coq 8.16.1 kernel (coqc; coqchk in the thorough tier); no native_compute; Uint63 primitive integers are used only by the correspondence fingerprint fp, not by any theorem",
        "harness/cmd/pcs (drives the real pcs.QuoteBundle.Verify on testdata vectors, their mutants and synthetic bundles; evaluates the real primitives crypto/sha256, crypto/ecdsa, crypto/x509, encoding/json+time.Parse on pcs.TCBInfo/pcs.QEIdentity, tuplehash, pcs.CertFromPEM on each case and records their graph as the tables that instantiate the model's abstract primitives; locates the quote's regions with its own splitter)",
        "the PCK leaf's SGX-extension decoder is consulted through the exported QuoteSignatureECDSA_P256.VerifyPCK (only when the harness's own chain validation succeeds)",
        "error strings of the implementation are mapped to the model's rejection reasons by substring (classify in harness/cmd/pcs/main.go)",
        "synthetic bundles are verified under a harness-generated root added to the exported variable pcs.IntelTrustRoots (no file of /repo is changed, no hook)",
        "vm_compute evaluation of Verif.Pcs.Model / Verif.Pcs.Node on the recorded cases (no extraction)",
        "harness/cmd/gen pcsclock (go/ast scan of the 11 source files / functions on the verification path for time.Now/Since/Until and rand uses; theorem no_wall_clock_on_verification_path); the call sites pass ctx.Now() and ctx.LastHeight() (read, not checked mechanically)",
        "harness/cmd/gen pcsvectors (copies the testdata vectors into coq/Gen/PcsVectors.v; the harness refers to the same constants)",
        "node stream: harness/cmd/pcs -mode node drives the real node.CapabilityTEE.Verify; CBOR decoding of attestation/constraints is done by the real code and its result is the model's input; SHA-512/256, TupleHash and Ed25519 (signature.PublicKey.Verify) are real in the correspondence and abstract in the theorems; the model's copy of the RAK-binding context string is checked against node.HashRAK on every case",
        "table lookups by 63-bit fingerprint: the harness registers every fingerprint with the SHA-256 of its argument and aborts (exit 4) if two different arguments share one; a model-side query of an unrecorded argument colliding with a recorded one has probability about 2^-63 per query",
        "abstract in the theorems (Section variables / record Prims): SHA-256, ECDSA-P256 verification, P-256 point validation, PEM and X.509 parsing and path validation, SGX extension decoding, encoding/json and time.Parse, TupleHash",
    ],
    "assumptions": [
        "validity_window_interval assumes the X.509 path-validation predicates are interval-shaped in the verification time (stated as explicit hypotheses)",
        "the validity window is the code's: issueDate <= ts <= issueDate + policy.TCBValidityPeriod days; nextUpdate is parsed but not compared with ts (accept_implies_before_next_update_refuted; observed on the implementation and reported in coverage.streams.pcs.extra)",
        "FMSPC white/blacklists are compared with the TCB info's FMSPC string, case-sensitively (fmspc_blacklist_by_value_refuted; observed and reported in extra)",
        "TDX: SEAMATTRIBUTES / tdxModule of the TCB info are never compared (tdx_seam_attributes_checked_refuted; observed on synthetic bundles, reported in extra); PCK/root CRLs and the TCB info's pceId/tcbType are not consulted by the code and are outside the model",
        "registry layer: VerifyNodeRuntimeEnclaveIDs is modelled (first deployment with the node's runtime version; hardware match); at genesis / in the sanity checker a failing attestation does not reject (genesis_ignores_attestation); the verdict depends on the process-wide unsafe switches (verdict_depends_on_process_switches), which are node-local",
        "node layer: the IAS branch of quote.Quote.Verify is not modelled (NNotModelled, never generated); with the SignedAttestations feature off, node id / height / REK / signature are not bound (unsigned_attestation_frame)",
        "process switches unsafeSkipVerify and the MRSIGNER blacklist are not exercised by the harness (the blacklist is modelled; skip-verify is not)",
    ],
}

MANIFEST = {
    "technique": "Coq proof (inversion of a check-order-faithful executable model of QuoteBundle.Verify over abstract crypto; interval argument for the time window) with differential correspondence check against the real verifier on mutated known-good SGX/TDX vectors and synthetic validly-signed bundles",
    "level_text": "Theorems in coq/Props/C18.v hold for every raw quote, collateral, verification time, policy, process switch setting and every interpretation of the cryptographic/parsing primitives. Quote layer (pcs.QuoteBundle.Verify, SGX and TDX): acceptance implies, clause by clause as the code enforces it, PCK chain valid at ts, QE report signed by the PCK key, QE report data = SHA-256(attestation key || auth data) || 0, header||body signed by the attestation key, TCB chain valid at ts and both collateral bodies signed, the platform TCB level used is the FIRST matching level of the signed TCB info (and the TDX module level rule), its status admitted, both evaluation numbers >= minimum, both bodies inside issueDate..issueDate+period, FMSPC equality and lists, QE identity match; the returned identity/report data are a function of the signed report body at fixed offsets; acceptance times form an interval. Node layer (node.CapabilityTEE.Verify): acceptance implies the report data's first half is SHA-512/256(context || RAK), the identity is in the deployment's allow-list, and (signed attestations) the RAK signed TupleHash(report data, node id, height, REK) with the height in the freshness window. Registry layer (VerifyNodeRuntimeEnclaveIDs): hardware match, first deployment of the node's runtime version, verdict a function of explicit inputs only and no wall-clock use on the path (regenerated from the source). Clauses the code does not enforce are proved as *_refuted with witnesses. The models are tied to the code by running the real verifiers and the models (vm_compute, primitives instantiated by the recorded graph of the real primitives) on the same seeded cases; independent Go oracles check the property predicates on the implementation.",
    "level_note": "Refuted clauses: nextUpdate never compared with ts; FMSPC lists are string comparisons; TDX SEAMATTRIBUTES/tdxModule never compared; report data binds only the RAK (REK, node id, height only through the RAK signature, and only with the SignedAttestations feature); attestation failures ignored at genesis; verdict depends on node-local unsafe switches. Trusted: Coq kernel; harness (region splitter, primitive evaluation, error-string classification); ECDSA, SHA-256, X.509, JSON, TupleHash are abstract in the proofs and real in the correspondence. Deviations from the property text found in the code and proved as *_refuted: nextUpdate is never compared with the verification time; FMSPC lists are string comparisons.",
}
