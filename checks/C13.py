SPEC = {
    "id": "C13",
    "props_file": "Props/C13.v",
    "gen": [],
    "streams": [
        {"name": "writelog", "cmd": "writelog",
         "args": {"quick": ["-cases", "32"], "thorough": ["-cases", "900"]},
         "search_args": ["-cases", "400"]},
        {"name": "pblog", "cmd": "writelog",
         "args": {"quick": ["-mode", "pblog", "-cases", "24"], "thorough": ["-mode", "pblog", "-cases", "400"]}},
        {"name": "pbstore", "cmd": "writelog",
         "args": {"quick": ["-mode", "pbstore", "-cases", "24"], "thorough": ["-mode", "pbstore", "-cases", "300"]}},
        {"name": "pbenc", "cmd": "writelog",
         "args": {"quick": ["-mode", "pbenc", "-cases", "16"], "thorough": ["-mode", "pbenc", "-cases", "200"]}},
    ],
    "trusted_base": [
        "Coq 8.16.1 kernel (coqc; coqchk in the thorough tier); no native_compute",
        "verif-tagged go/storage/mkvs/db/pathbadger/export_verif_store.go (read-only: sequence number, updated-nodes index with the nodes, root node and raw stored log of a just committed root)",
        "the storage worker's own lines (worker.go fetchDiff 383-396 and the error switch 1152-1165) are ported in the harness and in Model.sync_root; LocalBackend.Apply underneath is the real one",
        "verif-tagged go/storage/mkvs/db/pathbadger/export_verif.go (read-only: returns the stored internal write log of a pair and the nodes at the positions it references)",
        "harness/cmd/writelog (drives the real MKVS tree, both node databases and go/storage/database LocalBackend.Apply/GetDiff on temp directories; records observations as Coq terms); one read-only export hook (pathbadger)",
        "vm_compute evaluation of Verif.WriteLog.Model.run_case on the recorded cases (no extraction)",
        "abstraction: a tree is its contents (sorted key/value list); 'equal contents => equal root' is the trie model's theorem root_depends_only_on_contents (coq/Mkvs), the converse holds up to hash collisions and is stated as an explicit disjunct",
        "for the correspondence the digest is instantiated with the contents themselves (root_of = identity); the theorems hold for every root_of",
        "modelled, not verified: node databases below the root set (versions, finalization, pruning, badger transactions), pathbadger's path-keyed write-log storage (K/S only), the cbor encoding of stored logs, the pipe iterator goroutine of ReviveHashedDBWriteLogs",
    ],
    "assumptions": [
        "keys are non-empty byte strings (the harness never generates the empty key)",
        "the Go map iteration order of pendingWriteLog is free: logs are compared sorted by key (apply_order_irrelevant justifies it)",
        "an empty write log is not stored by either backend, GetWriteLog answers 'not found' for it; the harness treats that as the empty log",
        "PathLog.v: which leaves are embedded in internal nodes is taken from the contents (a key is embedded iff another key extends it) and which leaves stay clean from the batch (only same-value inserts); both are validated against the stored internal logs (stream pblog), the positions chosen by the database are validated, not predicted",
        "candidates built on another candidate of the same version and two-hop answers exist only on badger (pathbadger refuses child roots inside a version and children of IO roots); two-hop answers are judged by the oracle against Model.path_log's theorem (multi_hop_log_correct), not by K",
        "pairs whose end root was committed twice in one version are judged by the oracle only (served => correct); the database stores nothing for the second commit",
        "which roots a database serves a log for is ported, not derived (Model.serve): badger serves every stored root; pathbadger refuses pending roots whose batch did not get sequence number 0 of its (version, type) (writelog.go:109-113); roots that lost finalization are refused; the theorem is 'served => correct'",
    ],
}

MANIFEST = {
    "technique": "Coq proof (invariant over the pending write log by induction over arbitrary batches; canonical sorted maps; case analysis of Apply) with differential correspondence check against the real MKVS tree, both node databases and LocalBackend.Apply",
    "level_text": "Theorems in coq/Props/C13.v hold for every old contents and every batch of inserts/removes: the log built at commit has distinct keys, is sound, complete and minimal, and applied (in any order) to the old contents gives exactly the new contents; the hashed log revives to itself; Apply persists a root iff the recomputed digest equals the expected one (or the root is already stored), a rejected Apply (hash mismatch, unknown start root, already finalized version) leaves the database unchanged and the expected root absent, every stored root is the digest of its contents over any history of Apply calls, and a log producing other contents is rejected unless root_of collides; multi-hop answers (concatenation of hop logs, oldest first) are correct for any hop count; the storage worker's diff-sync decision (skip known roots, empty log for an unchanged hash, Apply with the expected root, retry over peers) is sound for every peer answer and live with one honest peer; pathbadger's write-log storage (sequence numbers, pending and final node slots read at the end root's version, logs keyed by version/end/start, Finalize) serves the committed log of the first candidate at once, refuses later pending candidates, and keeps serving it under any later history; the stored CBOR form of the internal log decodes to what was encoded; pathbadger's path-keyed internal log resolves to the committed log exactly when no inserted leaf carries the invalid pointer, and the known unservable case is a refuted lemma of the port (pathbadger_log_unservable_refuted). The model is tied to the code by committing generated batches on real badger and pathbadger databases, comparing the served write log (for linear chains and for 2-3 competing candidate roots per version, before and after finalizing one of them) and the end contents with the model, and replaying corrupted and correct logs through LocalBackend.Apply on a second database; an independent Go oracle on maps judges the property on the implementation.",
    "level_note": "Trusted: Coq kernel; the harness; contents-level abstraction of trees (bridge to root hashes is the Mkvs area's theorem); root hash treated as an arbitrary function, collisions an explicit disjunct. Not modelled: database internals below the set of stored roots, pathbadger's path-keyed log storage (checked by K/S only), encoding of stored logs.",
}
