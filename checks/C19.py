SPEC = {
    "id": "C19",
    "props_file": "Props/C19.v",
    "gen": ["statelessapi"],
    "streams": [
        {"name": "merkle", "cmd": "stateless",
         "args": {"quick": ["-mode", "merkle", "-maxn", "33", "-full", "9", "-rounds", "1"],
                  "thorough": ["-mode", "merkle", "-maxn", "33", "-full", "33", "-rounds", "4"]},
         "search_args": ["-mode", "merkle", "-maxn", "40", "-full", "16", "-rounds", "3"]},
        {"name": "bind", "cmd": "stateless",
         "args": {"quick": ["-mode", "bind", "-rounds", "2"],
                  "thorough": ["-mode", "bind", "-rounds", "60"]},
         "search_args": ["-mode", "bind", "-rounds", "12"]},
        {"name": "history", "cmd": "stateless",
         "args": {"quick": ["-mode", "history", "-rounds", "4"],
                  "thorough": ["-mode", "history", "-rounds", "60"]},
         "search_args": ["-mode", "history", "-rounds", "20"]},
    ],
    "trusted_base": [
        "harness/cmd/gen statelessapi (go/ast reader of go/consensus/cometbft/stateless: every function that calls the untrusted provider, the provider methods and package functions it calls; theorem stateless_api_covered pins the table and the model function covering each entry)",
        "Coq 8.16.1 kernel (coqc; coqchk in the thorough tier); no native_compute",
        "harness/cmd/stateless + verif-tagged go/consensus/cometbft/stateless/export_verif.go (drives the real merkle.ProofsForTransactions / VerifyTransaction / RootHashOfTransactions and verifyBlock, verifyBlockResults, verifyTransactions, verifyTransactionProof, verifyNextValidators, verifyParameters, stateRootFromBlockTxs) + verif-tagged go/consensus/cometbft/light/export_verif.go (a light.Client over an in-memory trusted store preloaded with given light blocks and offline providers; plus light/export_verif_providers.go (a light.Client over in-memory CometBFT light block providers serving a chain of headers SIGNED by the harness / by the multiplexer genesis validators' consensus keys: the real CometBFT light verification runs, a forged light block is refused) and stateless/export_verif_core.go (handleNewBlock, latest block); used to drive the public Core API: GetBlock / GetTransactions / GetTransactionsWithProofs / GetParameters / GetValidators / SubmitTxWithProof / GetBlockResults / GetTransactionsWithResults / StateRoot at heights latest-2, latest-1, latest and unverifiable ones, with an untrusted provider stub)",
        "the harness as abstraction function: it decodes every (altered) response with the same CBOR / protobuf decoders the code uses and hands the decoded fields to the model (decoders are abstract in the model); error texts are mapped to a verdict enum",
        "verifharness/internal/muxdrv: blocks executed on the real ABCI multiplexer (signed transfers, proposer metadata transaction, real results and state) are wrapped into CometBFT-style headers by the harness (placeholder commit signatures) and fed to the same streams; state reads (GetParameters with the real light query factory over the executed state and a tampering read syncer) are checked by the harness oracle only",
        "vm_compute evaluation of Verif.Stateless.Merkle / Bind on the recorded cases with H instantiated by the finite table of (preimage, SHA-256 digest) pairs computed by the harness for that case (a missing entry yields a value that is not a byte string); case files use primitive 63-bit integer literals for byte strings (Stateless/Hex.v)",
        "modelled, not driven by the harness: the Serve / watchBlocks goroutine and the pubsub broadcast (handleNewBlock itself is driven), GetStatus / GetNextBlockState (read the light client and verified state only), the exponential backoff of retryLightBlock; not modelled: the light client's own header verification (CometBFT), protobuf / CBOR encodings, services.go",
    ],
    "assumptions": [
        "the hash function has a fixed output length (premise H_len of the theorems; true of SHA-256); injectivity is never assumed, conclusions are '... or a collision of H is exhibited'",
        "the light block handed to the verify functions is the light-client verified one for the requested height (Core.lightBlock)",
        "fields that the code does not bind are listed by theorems, not hidden: Block.Size, the last commit's own Height/Round/BlockID (Commit.Hash covers signatures only), result Log/Info/Events/Codespace and begin/end-block events, validator ProposerPriority / set Proposer, CometBFT evidence/validator/version parameters (ConsensusParams.Hash covers Block.MaxBytes/MaxGas only), block results at the latest trusted height",
    ],
}

MANIFEST = {
    "technique": "Coq proof (structural / fuel induction over the RFC-6962 style tree and the proof path; case analysis of the ported check chains) with differential correspondence check against the real merkle and stateless verification code",
    "level_text": "Theorems in coq/Props/C19.v hold for every transaction list, index, proof and every hash function with fixed output length (collision-form conclusions): produced proofs verify; an accepted proof is for a transaction of the block (and at the stated index when total is the block's length); equal roots imply equal lists including length; acceptance by verifyBlock / verifyBlockResults / verifyTransactions / verifyNextValidators / verifyParameters implies equality of every compared field (or of the hashed data) with the light block's, any altered height is rejected, and the unbound fields are exactly listed; every public Core method hands out provider data only after its guard accepted it against a light-client verified light block (core_*_binds), the table of provider-backed functions and their guards is regenerated from the source and pinned (stateless_api_covered), and over ARBITRARY histories of calls on one Core -- LRU cache hits, evictions, changing provider answers, new blocks, latest-height queries -- every answer, every cache entry and the latest block are bound to verified headers (history_bound). The model is tied to the code by running the real functions on all lists of 0..33 transactions with every index and ~35 kinds of altered proofs, and on recorded + constructed (block, light block, ...) tuples with every field-level alteration, comparing verdicts (and roots / proofs) with the model evaluated inside Coq; an independent oracle in the harness flags any accepted response whose bound projection differs from the honest one; chains of headers signed by the harness / by the multiplexer validators' keys run the real CometBFT light verification behind Core.lightBlock, and histories of calls on one Core (cache hit / 127 vs 128 other entries / eviction) are replayed by the stateful model.",
    "level_note": "Trusted: Coq kernel; the harness (abstraction of Go values into model records, SHA-256 table) and the verif-tagged export wrapper. The Core-level wrappers that need a light client are modelled from the source but not driven. Decoders and the CometBFT light client are outside the model.",
}
