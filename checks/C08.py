SPEC = {
    "id": "C08",
    "props_file": "Props/C08.v",
    "gen": ["atomicconsts"],
    "streams": [
        {"name": "failtx", "cmd": "failtx",
         "args": {"quick": ["-cases", "360", "-per", "90"], "thorough": ["-cases", "5000", "-per", "100"]},
         "search_args": ["-cases", "3000", "-per", "100"]},
    ],
    "trusted_base": [
        "Coq 8.16.1 kernel (coqc; coqchk in the thorough tier); no native_compute",
        "harness/cmd/failtx + harness/internal/muxdrv (drive the REAL ABCI multiplexer with all real apps as twin replicas; full MKVS dumps; the allow-list oracle; the harness-side decision whether authentication must pass)",
        "vm_compute evaluation of Verif.Atomic.Model.deliver (through Atomic/Corr.v) on the abstracted cases (no extraction)",
        "harness/cmd/gen atomicconsts (go/ast reader of the order of gas charges, NewTransaction(), Commit(), handle writes, ctx-built wrappers and error returns in registry registerEntity/deregisterEntity/registerNode/registerRuntime and roothash submitMsg, submitEvidence)",
        "coq/Ledger/TxAtomic.v of the C05 builder (failed_tx_effect_staking is restated from it)",
        "modelled, not verified: registry registerEntity/deregisterEntity/registerNode/registerRuntime, roothash submitMsg/submitEvidence, staking addEscrow/reclaimEscrow/allow/withdraw and vault create/authorizeAction/cancelAction are ported step by step with abstract keys/records/validation verdicts (storage errors after a handle write are modelled as not happening); all OTHER handlers are arbitrary programs over the context interface, NOT ports; events, block gas accountant, system transactions, upgrade checks are not modelled",
    ],
    "assumptions": [
        "block gas limit: one history in four runs with MaxBlockGas = 80000 and blocks filled to within a few thousand gas of it; there a failed transaction legitimately consumes block gas, so LATER companions may fail for lack of block gas only in the world with the transaction (anything else is a violation); the displaced companions' keys (accounts 0/1, total supply) are then allowed to differ and the fee-flow sums are not checked",
        "the twin block's other transactions are not signed by the failing transaction's signer and do not pay it (otherwise their own validity legitimately depends on the signer's nonce/balance)",
        "consensus MinGasPrice: histories run with 0, 1 and 1000 (seed mod 3); in the priced histories every genesis account but one gets 10^13 more so that fees of gas*price can be paid",
        "no transaction method is critical at this commit (the model carries the flag: critical methods skip authentication)",
    ],
}

MANIFEST = {
    "technique": "Coq proof (generic atomicity of the multiplexer pipeline and of the overlay transaction layer for arbitrary handler programs, by induction over programs) + twin-replica differential execution of the real multiplexer on full state dumps",
    "level_text": "Theorems in coq/Props/C08.v hold for all states, all transactions and ARBITRARY handler programs (any reads, writes, removals, gas use, nested NewTransaction layers): an uncommitted transaction layer is discarded literally, a committed one applies exactly its body's writes; authentication writes only fee and nonce+1; a transaction rejected up to authentication changes nothing; a failing delivered transaction leaves exactly the pre-state or exactly the post-authentication state PROVIDED its handler is atomic (proved for every handler following 'validate first, write last' or 'fallible writes inside NewTransaction/Commit'; proved FALSE without the premise, because the multiplexer never rolls back); CheckTx and EstimateGas never change the delivery state. The claim about the real handlers rests on the twin-replica stream: for every generated failing transaction the real multiplexer executes the same block with and without it from identical histories and the two complete MKVS dumps may differ only at the signer's account (nonce+1, balance-fee) and the fee-flow keys, or not at all when authentication did not pass.",
    "level_note": "T gives the generic mux/overlay atomicity and the authentication-write lemma for arbitrary handler programs, unconditional failed_tx_effect theorems for the ported registry handlers (registerEntity, deregisterEntity, registerNode, registerRuntime) and roothash submitMsg / submitEvidence (order of steps tied to the source by the go/ast generator), and the staking/governance-deposit handlers through the C05 ledger model; (Atomic/GenCheck.v lists every transaction method read from the ExecuteTx switches as ported or twin-only; a new method in neither list breaks a proof obligation) for ALL OTHER handlers (governance submit/vote, roothash executor commit, key manager, beacon, registry unfreeze/proveFreshness, staking amend-commission) the claim rests on the twin-replica stream (sampled, not proved). Trusted: Coq kernel; muxdrv and the failtx oracle; the harness-side authentication predicate. Not modelled: events, block gas limit, system transactions, runtime-dependent handlers beyond their early failure paths (a compute runtime with one worker is registered, but no executor commitments are produced, so roothash commit/finalization paths end at their early failures).",
}
