SPEC = {
    "id": "C06",
    "props_file": "Props/C06.v",
    "gen": [],
    "streams": [
        {"name": "nodedb", "cmd": "nodedb",
         "args": {"quick": ["-cases", "30", "-pipeline-any"], "thorough": ["-cases", "1500", "-pipeline-any"]},
         "search_args": ["-cases", "400", "-pipeline-any"]},
    ],
    "trusted_base": [
        "Coq 8.16.1 kernel (coqc; coqchk in the thorough tier); no native_compute",
        "harness/cmd/nodedb (drives the real badger and pathbadger NodeDB on disk through mkvs trees; a recording wrapper around api.NodeDB/api.Batch observes PutNode/RemoveNodes; reads back every known root after every operation)",
        "vm_compute evaluation of Verif.NodeDB.Badger (badger) and Verif.NodeDB.PathBadger (pathbadger; node positions read from the real pointers by reflection) on the recorded histories",
        "Badger's physical GC is modelled as dropping versions dominated at or below the discard timestamp (Gc.v; theorem: no read at or above it changes) and exercised by reopen + NodeDB.Compact in the stream; modelled, not verified: Badger's LSM/MVCC (a write log with 'largest timestamp <= read timestamp, newest write wins'), the mkvs tree layer (supplies node sets; consistency of the supplied sets is a checked side condition wf_step), physical GC/compaction, true concurrency (not exercised)",
        "pathbadger: concrete executable model Verif.NodeDB.PathBadger (positions, finalized/pending key spaces, sequence numbers) compared with the real backend on every history (error class of finalize/prune, accepted/rejected commits, earliest/latest, HasRoot, readable or not for every known root after every operation); its refinement of Spec.v is NOT proved (only witnesses and rule lemmas)",
    ],
    "assumptions": [
        "root ids abstract typed hashes: distinct (type, hash) pairs are distinct ids (no hash collision)",
        "histories in the domain of the property: a candidate derives from a finalized root of the previous version, from a candidate of the same version, or (pipelining, harness only) from a still pending candidate of the previous version that is finalized later; the Coq theorems' wf_step covers the non-pipelined histories (commit version = last finalized + 1), pipelined histories are covered by the correspondence check and the read-back oracle only",
        "quick tier: pipelined children derive from the first batch of their parent's version and type (pathbadger pending sequence number 0); the thorough tier (-pipeline-any) also uses other parents and reports pathbadger's misread of such children under C06:pathbadger-pipelined-child-of-nonzero-seqno-candidate-misread",
        "badger_refines_spec / badger_finalized_readable hold under the decidable per-step sharing conditions fin_safe and prune_safe (BadgerProofs.v); without them the model - like the real backend - loses nodes (the *_refuted theorems)",
    ],
}

MANIFEST = {
    "technique": "Coq proof (invariant by induction over operation histories for the abstract database and for a node-set/MVCC model of the badger backend, refinement of the abstract database under explicit sharing conditions, vm_compute refutation witnesses where the faithful model loses nodes) with differential correspondence check against the real badger and pathbadger backends and a full read-back oracle",
    "level_text": "Theorems in coq/Props/C06.v hold for every operation history: on the abstract database a root of a finalized version reads back unchanged until exactly that version is pruned, a candidate of a finalized version is afterwards absent or exact, Prune succeeds only on the earliest, finalized, non-last version; the badger model (metadata + timestamped node writes; Finalize's maybeLone/notLone deletions; Prune's item-version rule) refines it and keeps every listed root readable under decidable sharing conditions, and refutation witnesses show the conditions are necessary. The models are tied to the code by replaying seeded histories on the real backends on disk and comparing error classes, earliest/latest, HasRoot and complete read-back of every known root after every operation.",
    "level_note": "Trusted: Coq kernel; the harness and its recording wrapper; Badger MVCC abstracted to a write log; tree layer abstracted to node sets supplied by the run; pathbadger compared by test only; concurrency not covered.",
}
