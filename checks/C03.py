SPEC = {
    "id": "C03",
    "props_file": "Props/C03.v",
    "gen": [],
    "streams": [
        {"name": "mkvs-map", "cmd": "mkvs",
         "args": {"quick": ["-mode", "c03", "-cases", "300"], "thorough": ["-mode", "c03", "-cases", "6000"]},
         "search_args": ["-mode", "c03", "-cases", "3000"]},
    ],
    "trusted_base": [
        "Coq 8.16.1 kernel (coqc; coqchk in the thorough tier); no native_compute",
        "harness/cmd/mkvs (drives the real mkvs.Tree / mkvs.NewOverlay stack on nop, badger and pathbadger node databases with small caches; records every Get / RemoveExisting answer and every iterated sequence as Coq terms)",
        "vm_compute evaluation of Verif.Mkvs.Overlay (s_run) on the recorded histories (no extraction)",
        "the tree iterator evaluated on the recorded cases is the byte-level PORT of treeIterator.doNext (Mkvs/Iter.v, with the ported node.Key functions of Mkvs/Key.v), proved equal to the specification iterator on every well-formed tree (doNext_refines_seek); modelled abstractly, not line by line: node cache LRU order / node database / (de)serialization (Mkvs/Lazy.v and Mkvs/Step.v model eviction and re-fetch nondeterministically; the runs exercise the real ones), tidwall/btree",
    ],
    "assumptions": [
        "overlay Copy is exercised with both overlays alive (fork episodes: ops interleaved on the original and on the copy, commits of either side); public methods never called by any mkvs stream are listed in evidence coverage.streams[*].extra.api_coverage.never_called_by_any_mode (Tree.CommitKnown, DumpLocal, PrefetchPrefixes, RootType, SyncGet, SyncGetPrefixes, SyncIterate, Iterator.GetProof, GetProofBuilder)",
        "known findings (known_findings.json): a failing case is attributed to a cache finding only on EVIDENCE: the identical history is re-run with ample capacities (node 5000 / value 16 MB, same backend); if it fails again it is a plain violation (and its model mismatch is not exempted); only if the ample-capacity rerun is clean it is attributed to C03:node-capacity-not-above-path-depth (iff 0 < node_cap <= deepest path of the reference trie + 1) or else to C03:embedded-leaf-evicted-under-dirty-internal-node (iff small value capacity and an embedded leaf existed: VerifScan anomaly or proper-prefix key pair); every other failure is a violation",
        "keys are byte strings (every element < 256); keys and values are non-nil slices (Tree.Insert(nil, v) and Overlay.Insert(k, nil) are out of contract: nil/empty confusion)",
        "an overlay is not modified while one of its iterators is in use; reopen (Close + NewWithRoot) happens with an empty overlay stack",
        "Overlay.Commit removes the remaining dirty keys in Go map order; the model uses list order (removals of distinct keys commute on the abstract map, proved)",
    ],
}

MANIFEST = {
    "technique": "Coq proof (refinement: representation invariant + abstraction function from the trie / pending-write-log / overlay-stack model to a stack of sorted association lists, by induction over operation histories; merged-iterator correctness by induction on fuel) with differential correspondence check against the real tree and overlays",
    "level_text": "Theorems in coq/Props/C03.v hold for every operation history over insert / remove / remove-existing / get / seek+next / tree commit / reopen / overlay push, commit, discard, copy, with and without the pending write log: every answer of the model equals that of the abstract machine (a stack of ordered maps) and the abstraction commutes (tree_refines_map, overlay_stack_refines_map); seek yields exactly the live entries with key >= k in ascending order through any stack of overlays (iterator_refines_map, merged_iterator_sorted_complete). The model is tied to the code by replaying seeded histories on the real implementation (three backends, cache capacities from 1) and comparing every returned value and iterated sequence with the model evaluated inside Coq; an independent Go reference map checks the same answers on the implementation alone.",
    "level_note": "Trusted: Coq kernel; harness. The byte-level doNext state machine and the byte-wise key functions are ported and proved (doNext_refines_seek, key_split/merge/appendbit/cpl); cache eviction is covered by an abstract model (eviction_invisible, insert_eviction_off_path_invisible, with the refuted variants reproducing findings F1 and F2); LRU order, the node database and (de)serialization are exercised by the correspondence runs only.",
}
