SPEC = {
    "id": "C12",
    "props_file": "Props/C12.v",
    "gen": ["ckptconsts"],
    "streams": [
        {"name": "ckpt", "cmd": "ckpt",
         "args": {"quick": ["-trees", "26", "-per-tree", "4", "-kmax", "400", "-boundary", "3"],
                  "thorough": ["-trees", "250", "-per-tree", "5", "-maxn", "3000", "-kmax", "2000", "-stack-budget", "3000000", "-kwork", "1000000", "-boundary", "30"]},
         "search_args": ["-trees", "150", "-per-tree", "4", "-kmax", "0"]},
        {"name": "restorer", "cmd": "ckpt",
         "args": {"quick": ["-mode", "restorer", "-cases", "50"],
                  "thorough": ["-mode", "restorer", "-cases", "600"]},
         "search_args": ["-mode", "restorer", "-cases", "400"]},
        {"name": "frame", "cmd": "ckpt",
         "args": {"quick": ["-mode", "frame", "-cases", "24"],
                  "thorough": ["-mode", "frame", "-cases", "300"]}},
    ],
    "trusted_base": [
        "Coq 8.16.1 kernel (coqc); no native_compute",
        "harness/cmd/ckpt (drives the real checkpoint.NewFileCreator / NewRestorer on real badger and pathbadger databases in temp dirs; independent snappy/CBOR/node decoder for the chunk files)",
        "harness/cmd/gen ckptconsts (go/ast reader: maxProofDepth and its comparison, the splitTasks iteration bound, the sequential loop comparison, proof version, node prefixes, width of the length fields)",
        "vm_compute evaluation of Verif.Ckpt.Stack.run_both on the recorded (tree, chunk size, threads) cases: per-chunk key lists in proof order, both chunkers, threads 0..32; for threads > 0 and bounded work both model layers are evaluated (the count abstraction of Ckpt/Model.v and the port of the subtree{path,pending} stack machine with the proof builder's included set, Ckpt/Stack.v) and must agree with the real chunker and with each other; trees above 60 keys are rebuilt from the shape dumped from the real database (whole-tree proof) instead of by the model's insert",
        "stream restorer: generated call schedules (StartRestore with genuine/forged metadata, AbortRestore, RestoreChunk with genuine / bit-flipped / foreign files and files that are no snappy stream, break the snappy framing part-way (with more bytes behind), are no CBOR or no proof -- each also as the file a forged manifest names (matching digest: the answer must be the aborting proof failure, never the retryable ErrChunkCorrupted), duplicates, out-of-range slots, Finalize with wrong and right root) on the real restorer; the answer to every call against Verif.Ckpt.RestorerCorr.run_restorer (the model rstep instantiated with symbolic files)",
        "stream frame: the uncompressed stream of every chunk file of small real checkpoints, byte for byte, against Verif.Ckpt.FrameCorr.run_frame (model chunk -> proof entries -> CBOR stream; the payloads of hash entries are taken from the real stream since the model has no SHA-512/256)",
        "Verif.Mkvs.Trie (trie model; its correspondence is checked by C02/C03)",
        "snappy is abstract (unsnap (snap x) = Some x); the CBOR stream layer and the serialization of proof entries are concrete (Ckpt/Frame.v, round trip proved for the stream layer), the parser from entries back to a proof stays abstract (a function bytes -> option proof with decode (enc c) = Some c as premise of the history theorems), the digest and node hashes (abstract functions, collision disjunct), the node database during a multipart restore (the set of imported key/value pairs); not modelled: goroutine scheduling inside RestoreChunk, badger/pathbadger key layout (exercised by the harness only)",
    ],
    "assumptions": [
        "the port of the stack machine identifies nodes by subtree value where the code identifies them by hash (in a well-formed tree different positions hold different subtrees: proved, nodes_nodup); its refinement of the count abstraction is proved (par_stack_refines_count) for non-empty trees; the empty tree (one nil chunk) is covered by evaluation only",
        "keys are non-empty (the empty key is outside the domain of the iterator, see C03)",
        "decoded proofs respect the length fields of the format (pbounded)",
    ],
}

MANIFEST = {
    "technique": "Coq proof (coverage invariant over split/emit/filter of the lock-step parallel chunker, key-run partition of the sequential chunker, order-insensitive idempotent import, proof-verification soundness modulo hash collisions) with differential correspondence check of both real chunkers and an implementation-side restore oracle on both node database backends",
    "level_text": "Theorems in coq/Props/C12.v hold for every well-formed tree, every chunk size and every thread count: every chunk recomputes to the checkpoint root and carries only pairs of the tree, every pair is carried by some chunk, the sequential chunks partition the contents in order, the parallel rounds terminate, importing the chunks in any order with any repetitions yields exactly the contents (hence, by canonicity of the trie, the same tree and root), the chunk list depends only on (contents, chunk size, threads), a chunk with a wrong digest / undecodable / non-verifying proof changes nothing, and an accepted chunk is the genuine file and shows only pairs of the tree unless a hash collides. The model is tied to the code by creating real checkpoints (sequential and parallel chunkers) on real databases, decoding every chunk file independently and comparing the per-chunk key lists with the model evaluated in Coq; restores with random orders, duplicates, 1-8 goroutines, abort/restart, read errors injected into checkpoint creation (the k-th GetNode of the walk fails with a plain error or ErrNodeNotFound, both chunkers: CreateCheckpoint must report the error or the result must restore to exactly the source contents), creation into a directory that already holds leftovers of an earlier attempt for the same root (complete or partial chunk sets of other parameters with the metadata removed, arbitrary stale files; what is served must equal what is written, then the usual restore), chunk sizes placed exactly on / one below / one above the recomputed size estimate of a chunk (with an implementation-side oracle for the sequential boundary rule), a deterministic in-flight interleaving (one chunk pinned inside RestoreChunk by a blocking reader while another caller restores all others, with and without a duplicate of the pinned chunk: no call may report done before the pinned import completed) and seven corruption classes are judged; the restorer's bookkeeping is tied to the model by generated call schedules (answer to every StartRestore / AbortRestore / RestoreChunk / Finalize call) and the chunk file framing by comparing the uncompressed stream of real chunk files byte for byte with the model's serialization; restores by an oracle on the implementation (full iteration of the restored root equals the original contents).",
    "level_note": "Trusted: Coq kernel; the harness and its chunk decoder; the abstraction of the parallel chunker's traversal stack (validated by correspondence, not proved); framing, hashing and the node database are abstract in the model. The proof verifier's depth limit (128) is part of the model: chunks_verify carries the hypothesis and a refutation witness shows it is needed.",
}
