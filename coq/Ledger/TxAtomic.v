(* C05/C08: the staking and governance-deposit transaction handlers of
   Ledger/Ops.v are "validate first, write last": a handler that returns a
   failure has written nothing, so a failed transaction leaves either the
   untouched state (authentication failed) or exactly the state right after
   authenticate-and-pay (fee moved to the accumulator, nonce + 1). *)
From Verif Require Import Lib.Base Ledger.SharePool Ledger.State Ledger.Ops.

Ltac tcase :=
  match goal with
  | |- context [if ?c then _ else _] => destruct c eqn:?
  | |- context [match ?c with Some _ => _ | None => _ end] => destruct c eqn:?
  | |- context [let '(_, _) := ?c in _] => destruct c eqn:?
  end.
Ltac tdone := cbn [fst snd]; intros; first [reflexivity | congruence].

(* ---------- every handler: failure => state untouched ---------- *)
Lemma burn_impl_fail_unchanged p s from amt :
  fst (burn_impl p s from amt) <> ROk -> snd (burn_impl p s from amt) = s.
Proof. unfold burn_impl. repeat (tcase; [tdone|]). tdone. Qed.

Lemma transfer_impl_fail_unchanged p s from to amt :
  fst (transfer_impl p s from to amt) <> ROk -> snd (transfer_impl p s from to amt) = s.
Proof.
  unfold transfer_impl, qmove. repeat (tcase; try tdone).
Qed.

Lemma transfer_fail_unchanged p s from to amt g :
  fst (transfer p s from to amt g) <> ROk -> snd (transfer p s from to amt g) = s.
Proof.
  unfold transfer. repeat (tcase; [tdone|]). tcase.
  - apply burn_impl_fail_unchanged.
  - apply transfer_impl_fail_unchanged.
Qed.

Lemma burn_fail_unchanged p s from amt g :
  fst (burn p s from amt g) <> ROk -> snd (burn p s from amt g) = s.
Proof. unfold burn. repeat (tcase; [tdone|]). apply burn_impl_fail_unchanged. Qed.

Lemma add_escrow_fail_unchanged p s from escrow amt g :
  fst (add_escrow p s from escrow amt g) <> ROk -> snd (add_escrow p s from escrow amt g) = s.
Proof. unfold add_escrow. repeat (tcase; try tdone). Qed.

Lemma reclaim_escrow_fail_unchanged p s to escrow shares epoch g :
  fst (reclaim_escrow p s to escrow shares epoch g) <> ROk -> snd (reclaim_escrow p s to escrow shares epoch g) = s.
Proof. unfold reclaim_escrow. repeat (tcase; try tdone). Qed.

Lemma allow_fail_unchanged p s addr benef neg amt g :
  fst (allow_op p s addr benef neg amt g) <> ROk -> snd (allow_op p s addr benef neg amt g) = s.
Proof. unfold allow_op. repeat (tcase; try tdone). Qed.

Lemma withdraw_fail_unchanged p s to from amt g :
  fst (withdraw_op p s to from amt g) <> ROk -> snd (withdraw_op p s to from amt g) = s.
Proof. unfold withdraw_op, qmove. repeat (tcase; try tdone). Qed.

(* governance submitProposal at the deposit level *)
Lemma gov_submit_fail_unchanged p s from dep b1 b2 g :
  fst (gov_submit p s from dep b1 b2 g) <> ROk -> snd (gov_submit p s from dep b1 b2 g) = s.
Proof. unfold gov_submit. repeat (tcase; try tdone). Qed.

(* withdrawal from an account with a withdraw hook (vault) *)
Lemma withdraw_hooked_fail_unchanged p s to from amt ok g :
  fst (withdraw_hooked p s to from amt ok g) <> ROk -> snd (withdraw_hooked p s to from amt ok g) = s.
Proof. unfold withdraw_hooked, qmove. repeat (tcase; try tdone). Qed.

(* a withdrawal whose source is the caller itself is rejected and changes nothing, with or
   without a withdraw hook on the account, whatever the hook says *)
Lemma withdraw_self_noop_l p s a amt ok g :
  (fst (withdraw_op p s a a amt g) <> ROk /\ snd (withdraw_op p s a a amt g) = s) /\
  (fst (withdraw_hooked p s a a amt ok g) <> ROk /\ snd (withdraw_hooked p s a a amt ok g) = s).
Proof.
  unfold withdraw_op, withdraw_hooked. rewrite N.eqb_refl.
  split; repeat (tcase; [cbn [fst snd]; split; [discriminate|reflexivity]|]);
    cbn [fst snd]; split; first [discriminate | reflexivity].
Qed.

(* ledger-neutral transactions (governance vote, amend commission schedule, other apps):
   they never write to the ledger, whatever their result *)
Lemma other_never_writes p s signer ok g : snd (exec_body p s signer (BOther ok) g) = s.
Proof. cbn [exec_body exec_leaf]. repeat (tcase; try tdone). Qed.

Lemma leaf_fail_unchanged p s signer b g :
  fst (exec_leaf p s signer b g) <> ROk -> snd (exec_leaf p s signer b g) = s.
Proof.
  destruct b; cbn [exec_leaf].
  - apply transfer_fail_unchanged.
  - apply burn_fail_unchanged.
  - apply add_escrow_fail_unchanged.
  - apply reclaim_escrow_fail_unchanged.
  - apply allow_fail_unchanged.
  - apply withdraw_fail_unchanged.
  - apply gov_submit_fail_unchanged.
  - intros _. apply (other_never_writes p s signer ok g).
  - apply withdraw_hooked_fail_unchanged.
  - reflexivity.
Qed.

(* all of them together: the handler part of any transaction, including a message executed by
   a vault as a subcall *)
Lemma tx_fail_leaves_post_auth_state_l p s signer b g :
  fst (exec_body p s signer b g) <> ROk -> snd (exec_body p s signer b g) = s.
Proof.
  destruct b; try exact (leaf_fail_unchanged p s signer _ g).
  cbn [exec_body]. tcase; [tdone|]. apply leaf_fail_unchanged.
Qed.

(* ---------- authentication ---------- *)
Definition post_auth (p : params) (s : state) (signer nonce_ fee : N) : state :=
  snd (auth p s signer nonce_ fee).

Lemma auth_fail_leaves_state_l p s signer n fee :
  fst (auth p s signer n fee) <> ROk -> snd (auth p s signer n fee) = s.
Proof. unfold auth, qmove. repeat (tcase; try tdone). Qed.

(* what authenticate-and-pay does when it succeeds: exactly fee and nonce *)
Lemma auth_ok_effect_l p s signer n fee :
  fst (auth p s signer n fee) = ROk ->
  let a := acct s signer in
  nonce a = n /\ fee <= general a /\
  post_auth p s signer n fee =
    set_acct signer (with_nonce (with_general a (general a - fee)) ((nonce a + 1) mod two64))
             (with_feeacc s (fee_acc s + fee)).
Proof.
  unfold post_auth, auth, qmove. repeat (tcase; try tdone).
  cbn [fst snd]. intros _. cbn zeta.
  apply negb_false_iff in Heqb0. apply N.eqb_eq in Heqb0.
  split; [exact Heqb0|]. split; [lia|]. congruence.
Qed.

(* ---------- a whole transaction ---------- *)
Lemma failed_tx_effect_staking_l p s signer n fee g1 g2 b :
  fst (exec_tx p s signer n fee g1 g2 b) <> ROk ->
  snd (exec_tx p s signer n fee g1 g2 b) = s \/
  snd (exec_tx p s signer n fee g1 g2 b) = post_auth p s signer n fee.
Proof.
  unfold exec_tx, post_auth.
  pose proof (auth_fail_leaves_state_l p s signer n fee) as F.
  destruct (auth p s signer n fee) as [r s1]. cbn [fst snd] in *.
  destruct r.
  - destruct (negb g1); cbn [fst snd]; [intros _; right; reflexivity|].
    intros H. right. apply tx_fail_leaves_post_auth_state_l. exact H.
  - intros _. left. apply F. discriminate.
  - intros _. left. apply F. discriminate.
  - intros _. left. apply F. discriminate.
Qed.

(* and a transaction that fails after a successful authentication leaves exactly post_auth *)
Lemma failed_tx_after_auth_l p s signer n fee g1 g2 b :
  fst (auth p s signer n fee) = ROk ->
  fst (exec_tx p s signer n fee g1 g2 b) <> ROk ->
  snd (exec_tx p s signer n fee g1 g2 b) = post_auth p s signer n fee.
Proof.
  unfold exec_tx, post_auth.
  destruct (auth p s signer n fee) as [r s1]. cbn [fst snd]. intros ->.
  destruct (negb g1); cbn [fst snd]; [reflexivity|].
  apply tx_fail_leaves_post_auth_state_l.
Qed.
