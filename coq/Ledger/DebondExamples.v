(* Non-vacuity examples for the debonding theorems. *)
From Verif Require Import Lib.Base Ledger.SharePool Ledger.Debond Ledger.DebondProofs.

Definition ex_ops : list dop :=
  [DAdd 1 100; DAdd 2 50; DReward 30; DReclaim 1 40 3; DReclaim 2 10 3; DReclaim 1 5 3;
   DSlash 20; DEpoch 6; DEpoch 7].

(* after epochs 6 and 7 nothing is paid: both delegations (end epoch 8, the two
   reclaims of delegator 1 merged) are still queued *)
Example ex_not_before :
  let st := drun (dinit 5) ex_ops in
  dlog st = [] /\ dq st = [mkE 8 1 54; mkE 8 2 12] /\ dhalt st = false /\
  dact st = mkPool 102 95 /\ ddeb st = mkPool 59 66.
Proof. vm_compute. repeat split; reflexivity. Qed.

(* the transition to epoch 8 pays both, once, at the debonding pool's price *)
Example ex_paid_at_end :
  let st := drun (dinit 5) (ex_ops ++ [DEpoch 8; DEpoch 9; DEpoch 12]) in
  dq st = [] /\ ddeb st = mkPool 0 0 /\
  dlog st = [mkP 8 8 2 12 11 (mkPool 11 12); mkP 8 8 1 54 48 (mkPool 59 66)].
Proof. vm_compute. repeat split; reflexivity. Qed.

(* interval 0: the delegation ends in the current epoch and is paid at the next
   transition; reclaiming from a dead debonding pool fails *)
Example ex_interval0 :
  let st := drun (dinit 5) [DAdd 1 10; DReclaim 1 4 0; DEpoch 6] in
  dlog st = [mkP 6 5 1 4 4 (mkPool 4 4)] /\ dq st = [].
Proof. vm_compute. split; reflexivity. Qed.

(* after total slashing both pools are dead (balance 0, shares outstanding):
   AddEscrow fails, and so does a reclaim (its zero stake cannot be deposited
   into the dead debonding pool) until the queued delegations complete *)
Example ex_dead_pools :
  let st := drun (dinit 5) [DAdd 1 10; DReclaim 1 4 2; DSlash 100] in
  dact st = mkPool 0 6 /\ ddeb st = mkPool 0 4 /\
  snd (dstep st (DAdd 2 7)) = CInvalidArgument /\
  snd (dstep st (DReclaim 1 1 2)) = CInvalidArgument /\
  snd (dstep (drun st [DEpoch 7]) (DReclaim 1 1 2)) = COk.
Proof. vm_compute. repeat split; reflexivity. Qed.

Example ex_wfD : wfD (drun (dinit 5) ex_ops) /\ dq (drun (dinit 5) ex_ops) <> [].
Proof. split; [apply wfD_run; apply wfD_init|vm_compute; discriminate]. Qed.
