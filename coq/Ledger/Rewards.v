(* Model of the staking reward computation.

   Ported code (pinned /repo):
   - go/consensus/cometbft/apps/staking/state/state.go:917-941 computeCommission
   - state.go:1192-1325 AddRewards (one account of the address loop),
     1328-1460 AddRewardSingleAttenuated
   - go/staking/api/commission.go:397-410 CommissionSchedule.CurrentRate
   - reward schedule lookup (first step with time < Until)

   reward q = balance * factor * scale [* num] / RewardAmountDenominator [/ den];
   skipped when q = 0 or q > common pool; commission com = q * rate /
   CommissionRateDenominator (rate = current schedule rate, else the minimum
   rate of the consensus parameters); q - com goes to the active balance (no
   shares), com is DEPOSITED for the entity itself (mints shares at the price
   after q - com was added). The denominators are inputs of the model (the
   harness reads them from the package), theorems hold for all non-zero ones.

   No proofs in this file. *)
From Verif Require Import Lib.Base Ledger.SharePool.

(* reward schedule: list of (until, scale); first step with time < until *)
Fixpoint active_scale (time : N) (steps : list (N * N)) : option N :=
  match steps with
  | [] => None
  | (until, scale) :: r => if time <? until then Some scale else active_scale time r
  end.

(* commission.go:397: latest step with start <= now, scanning stops at the
   first step that starts later *)
Fixpoint current_rate_from (now : N) (latest : option N) (rates : list (N * N)) : option N :=
  match rates with
  | [] => latest
  | (start, rate) :: r => if now <? start then latest else current_rate_from now (Some rate) r
  end.
Definition current_rate (now : N) (rates : list (N * N)) : option N := current_rate_from now None rates.

Definition eff_rate (r : option N) (min_rate : N) : N :=
  match r with Some x => x | None => min_rate end.

(* state.go:917-941: Some (commission, remaining); None = remaining.Sub fails
   (commission above the total, i.e. rate above the denominator) *)
Definition compute_commission (cd rate total : N) : option (N * N) :=
  let com := total * rate / cd in
  if total <? com then None else Some (com, total - com).

(* the reward amount; [att] = Some (num, den) for AddRewardSingleAttenuated
   (state.go:1369-1385: all multiplications first, then the two divisions) *)
Definition reward_amount (rd : N) (balance factor scale : N) (att : option (N * N)) : N :=
  match att with
  | None => balance * factor * scale / rd
  | Some (num, den) => balance * factor * scale * num / rd / den
  end.

(* one escrow account: active pool, the entity's own delegation shares *)
Record racct := mkRA { rapool : pool; raself : N }.

Record rres := mkRR {
  rrcode : code;
  rracct : racct;
  rrcommon : N;
  rrq : N;          (* reward taken from the common pool (0 when skipped) *)
  rrcom : N;        (* commission part *)
  rrminted : N      (* shares minted for the commission *)
}.

(* state.go:1226-1304 / 1369-1449 for one account, given the active step's
   scale and the effective commission rate *)
Definition add_reward (rd cd : N) (a : racct) (common factor scale rate : N)
  (att : option (N * N)) : rres :=
  let p := rapool a in
  let q := reward_amount rd (bal p) factor scale att in
  if q =? 0 then mkRR COk a common 0 0 0
  else if common <? q then mkRR COk a common 0 0 0
  else
    match compute_commission cd rate q with
    | None => mkRR CInsufficient a common 0 0 0
    | Some (com, rest) =>
        (* quantity.Move(&Active.Balance, commonPool, q) when q (the rest) is non-zero *)
        let p1 := mkPool (bal p + rest) (tsh p) in
        let c1 := common - rest in
        if com =? 0 then mkRR COk (mkRA p1 (raself a)) c1 q 0 0
        else
          (* Active.Deposit(&delegation.Shares, commonPool, com) *)
          let r := deposit p1 (raself a) c1 com in
          match rcode r with
          | COk => mkRR COk (mkRA (rpool r) (rdst r)) (rsrc r) q com (rret r)
          | c => mkRR c a common 0 0 0
          end
    end.

(* AddRewards: the address loop shares the common pool; an account past the
   schedule is untouched ([scale] = None: state.go:1209-1212 returns before the
   loop) *)
Fixpoint add_rewards_loop (rd cd : N) (accts : list (racct * N)) (common factor : N) (scale : option N)
  : code * list racct * N :=
  match scale with
  | None => (COk, map fst accts, common)
  | Some sc =>
      match accts with
      | [] => (COk, [], common)
      | (a, rate) :: rest =>
          let r := add_reward rd cd a common factor sc rate None in
          match rrcode r with
          | COk =>
              let '(c, out, cm) := add_rewards_loop rd cd rest (rrcommon r) factor scale in
              (c, rracct r :: out, cm)
          | c => (c, map fst accts, common)
          end
      end
  end.

(* on an error the accounts of the addresses already handled were stored
   (state.go:1301) but the common pool was not (state.go:1306 not reached) *)
Definition add_rewards (rd cd : N) (accts : list (racct * N)) (common factor : N) (scale : option N)
  : code * list racct * N :=
  let '(c, out, cm) := add_rewards_loop rd cd accts common factor scale in
  (c, out, match c with COk => cm | _ => common end).

(* the same reward expressed as operations of the multi-delegator machine:
   a plain reward of q - com followed by an ordinary deposit of com by the
   entity *)
Definition reward_ops (rd cd : N) (p : pool) (common factor scale rate : N)
  (att : option (N * N)) (ent : N) : list mop :=
  let q := reward_amount rd (bal p) factor scale att in
  if q =? 0 then [] else if common <? q then [] else
  match compute_commission cd rate q with
  | None => []
  | Some (com, rest) => OReward rest :: (if com =? 0 then [] else [ODeposit ent com])
  end.

(* ---------- TransferFromCommon (state.go:953-1085) ----------
   up to [amount] is moved from the common pool to the account's general
   balance (MoveUpTo); nothing happens when that is zero. With [escrow]:
   - pool WITH shares (TotalShares <> 0; this includes a pool slashed to zero
     with shares outstanding): commission = t * rate / denominator, the rest is
     moved from the general balance into the pool balance (no shares: it
     belongs to all holders pro rata; a slashed-to-zero pool gets a price
     again);
   - pool with NO shares: everything counts as commission;
   then the commission is deposited for the entity itself, unless the pool is
   dead at that point (balance still zero with shares outstanding, i.e. the
   pool was dead and the non-commission part was zero): then the commission
   stays in the general balance. *)
Record tacct := mkTA { tagen : N; tapool : pool; taself : N }.

Record tres := mkTR {
  trcode : code;
  tracct : tacct;
  trcommon : N;
  trmoved : N;        (* taken from the common pool *)
  trcom : N;          (* commission part *)
  trminted : N        (* shares minted for the commission *)
}.

Definition transfer_from_common (cd : N) (a : tacct) (common amount : N) (escrow : bool) (rate : N) : tres :=
  let t := N.min common amount in
  if t =? 0 then mkTR COk a common 0 0 0
  else if negb escrow then mkTR COk (mkTA (tagen a + t) (tapool a) (taself a)) (common - t) t 0 0
  else
    let p := tapool a in
    match (if tsh p =? 0 then Some (t, 0) else compute_commission cd rate t) with
    | None => mkTR CInsufficient a common 0 0 0
    | Some (com, rest) =>
        let p1 := mkPool (bal p + rest) (tsh p) in
        let g1 := tagen a + t - rest in
        let dead := (bal p1 =? 0) && negb (tsh p1 =? 0) in
        if (com =? 0) || dead then mkTR COk (mkTA g1 p1 (taself a)) (common - t) t com 0
        else
          let r := deposit p1 (taself a) g1 com in
          match rcode r with
          | COk => mkTR COk (mkTA (rsrc r) (rpool r) (rdst r)) (common - t) t com (rret r)
          | c => mkTR c a common 0 0 0
          end
    end.

(* ---------- correspondence cases ---------- *)
(* ((rd, cd), time, reward steps, min_rate, common, factor, att,
    accounts [(B, S, self shares, commission rate steps)]) ->
   (code, [per account: B; S; self], common) *)
Record rcase := mkRC {
  rc_rd : N; rc_cd : N; rc_time : N; rc_steps : list (N * N); rc_min : N;
  rc_common : N; rc_factor : N; rc_att : option (N * N);
  rc_accts : list (N * N * N * list (N * N));
  rc_tfc : option (N * bool * N)     (* TransferFromCommon on the first account: amount, escrow, its general balance *)
}.

Definition rout := (code * list N)%type.

Definition acct_of (x : N * N * N * list (N * N)) (time min_rate : N) : racct * N :=
  let '(b, s, self, rates) := x in
  (mkRA (mkPool b s) self, eff_rate (current_rate time rates) min_rate).

Definition flat (l : list racct) : list N :=
  flat_map (fun a => [bal (rapool a); tsh (rapool a); raself a]) l.

Definition run_reward (c : rcase) : rout :=
  let accts := map (fun x => acct_of x (rc_time c) (rc_min c)) (rc_accts c) in
  match rc_tfc c with
  | Some (amount, escrow, general) =>
      match accts with
      | (a, rate) :: _ =>
          let r := transfer_from_common (rc_cd c) (mkTA general (rapool a) (raself a)) (rc_common c) amount escrow rate in
          (trcode r, [bal (tapool (tracct r)); tsh (tapool (tracct r)); taself (tracct r); tagen (tracct r); trcommon r])
      | [] => (COk, [rc_common c])
      end
  | None =>
  match rc_att c with
  | None =>
      let '(code, out, cm) := add_rewards (rc_rd c) (rc_cd c) accts (rc_common c) (rc_factor c)
                                          (active_scale (rc_time c) (rc_steps c)) in
      (code, flat out ++ [cm])
  | Some att =>
      (* AddRewardSingleAttenuated: the first account only *)
      match accts with
      | (a, rate) :: _ =>
          match active_scale (rc_time c) (rc_steps c) with
          | Some sc =>
              let r := add_reward (rc_rd c) (rc_cd c) a (rc_common c) (rc_factor c) sc rate (Some att) in
              (rrcode r, flat [rracct r] ++ [rrcommon r])
          | None => (COk, flat [a] ++ [rc_common c])
          end
      | [] => (COk, [rc_common c])
      end
  end
  end.

Definition rout_eqb (a b : rout) : bool :=
  code_eqb (fst a) (fst b) && list_eqb N.eqb (snd a) (snd b).
