(* Non-vacuity examples and refutation witnesses for the share-pool theorems
   (vm_compute on concrete pools only here; the theorems are in
   SharePoolProofs.v / SharePoolSeq.v). *)
From Verif Require Import Lib.Base Ledger.SharePool Ledger.SharePoolProofs Ledger.SharePoolSeq.

Definition BIG : N := 2 ^ 128 + 1.
Definition HALF : N := 2 ^ 127.

(* pool (1,3): three shares for one base unit *)
Example ex_dep_1_3 : deposit (mkPool 1 3) 0 10 1 = mkRes COk (mkPool 2 6) 3 9 3.
Proof. vm_compute. reflexivity. Qed.
Example ex_wd_1_3 : withdraw (mkPool 1 3) 0 2 2 = mkRes COk (mkPool 1 1) 0 0 0.
Proof. vm_compute. reflexivity. Qed.
Example ex_wd_1_3_hyp : rcode (withdraw (mkPool 1 3) 0 2 2) = COk /\ 1 + 2 <= tsh (mkPool 1 3).
Proof. vm_compute. split; [reflexivity|discriminate]. Qed.

(* pool (0,5): everything slashed, shares outstanding *)
Example ex_dep_0_5 : deposit (mkPool 0 5) 0 10 4 = mkRes CInvalidArgument (mkPool 0 5) 0 10 0.
Proof. vm_compute. reflexivity. Qed.
Example ex_wd_0_5 : withdraw (mkPool 0 5) 0 2 2 = mkRes COk (mkPool 0 3) 0 0 0.
Proof. vm_compute. reflexivity. Qed.

(* 2^128-scale *)
Example ex_dep_big : deposit (mkPool BIG HALF) 0 5 5 = mkRes COk (mkPool (BIG + 5) (HALF + 2)) 2 0 2.
Proof. vm_compute. reflexivity. Qed.
Example ex_wd_big : withdraw (mkPool BIG HALF) 0 1 1 = mkRes COk (mkPool (BIG - 2) (HALF - 1)) 2 0 2.
Proof. vm_compute. reflexivity. Qed.
Example ex_dep_big_not_orphan : rcode (deposit (mkPool BIG HALF) 0 5 5) = COk /\ ~ orphan (mkPool BIG HALF).
Proof. split; [vm_compute; reflexivity|]. unfold orphan. cbn [tsh]. intros [H _]. vm_compute in H. discriminate. Qed.

(* the partial failure of Withdraw exists at the API level *)
Example ex_wd_partial : withdraw (mkPool 9 3) 0 5 4 = mkRes CInsufficient (mkPool 9 3) 0 1 0.
Proof. vm_compute. reflexivity. Qed.

(* orphan balance: nobody holds shares, 7 base units in the pool; the next
   depositor of 5 can redeem 12 *)
Example ex_orphan :
  let st := mfinal (minit 7 0 []) [ODeposit 1 5; OWithdraw 1 5] in
  dget 1 (mdel st) = mkDeleg 0 5 12 /\ mpool st = mkPool 0 0.
Proof. vm_compute. split; reflexivity. Qed.

(* slash: the numbers of state_test.go (300 active, 100 debonding, slash 40) *)
Example ex_slash : slash_pools 300 100 40 = (30, 10).
Proof. vm_compute. reflexivity. Qed.
Example ex_slash_round : slash_pools 1 1 1 = (0, 0).
Proof. vm_compute. reflexivity. Qed.
Example ex_slash_cap : slash_pools 3 5 100 = (3, 5).
Proof. vm_compute. reflexivity. Qed.
Example ex_slash_big : slash_pools BIG HALF (2 ^ 64 - 1) = (12297829382473034410, 6148914691236517204).
Proof. vm_compute. reflexivity. Qed.
Example ex_slash_lowers : ~ price_le (mkPool 10 3) (mkPool (10 - fst (slash_pools 10 0 4)) 3).
Proof. unfold price_le. vm_compute. intros H. apply H; [discriminate|reflexivity]. Qed.

(* hypotheses of the sequence theorems are satisfiable by a non-trivial state *)
Lemma wfm_ex : wfm (minit 10 3 [(1, 3)]).
Proof. split; [vm_compute; repeat constructor; intros []|reflexivity]. Qed.

Example ex_profit_hyps :
  wfm (minit 10 3 [(1, 3)]) /\ (3 = 0 -> 10 = 0) /\
  Forall plain [ODeposit 2 5; OWithdraw 2 1] /\ Forall (only_actor 2) [ODeposit 2 5; OWithdraw 2 1] /\
  dget 2 (mdel (mfinal (minit 10 3 [(1, 3)]) [ODeposit 2 5; OWithdraw 2 1])) = mkDeleg 0 5 3.
Proof.
  split; [exact wfm_ex|]. split; [discriminate|].
  split; [repeat constructor|]. split; [repeat constructor|]. vm_compute. reflexivity.
Qed.

Example ex_passive_hyps :
  Forall (passive 1) [ODeposit 2 5; OReward 3; OWithdraw 2 1] /\
  worth (mpool (minit 10 3 [(1, 3)])) 3 = 10 /\
  worth (mpool (mfinal (minit 10 3 [(1, 3)]) [ODeposit 2 5; OReward 3; OWithdraw 2 1])) 3 = 14.
Proof. split; [repeat constructor; discriminate|]. vm_compute. split; reflexivity. Qed.

(* REFUTED: the naive per-delegator reading "with no rewards every delegator
   gets out at most what it paid in", when OTHER delegators act too. Pool
   (10,3) held by delegator 1; delegator 2 deposits 5 (1 share); delegator 1
   makes three deposits of 3 that mint 0 shares each (floor(3*4/15) = 0, its
   own rounding loss, shared with delegator 2); delegator 2 redeems its share
   for 6 > 5. Delegator 2's gain is exactly delegator 1's loss (conservation);
   the true statements are [profit_bound] / [no_profit_without_rewards]
   (nobody gains by its OWN operations) and [passive_holder_never_loses]. *)
Definition naive_ops : list mop :=
  [ODeposit 2 5; ODeposit 1 3; ODeposit 1 3; ODeposit 1 3; OWithdraw 2 1].

Lemma naive_per_delegator_refuted_l :
  exists b s hold ops d,
    wfm (minit b s hold) /\ (s = 0 -> b = 0) /\ Forall plain ops /\
    dsh (dget d (mdel (minit b s hold))) = 0 /\
    let st := mfinal (minit b s hold) ops in
    din (dget d (mdel st)) < dout (dget d (mdel st)).
Proof.
  exists 10, 3, [(1, 3)], naive_ops, 2.
  split; [exact wfm_ex|]. split; [discriminate|]. split; [repeat constructor|].
  split; [reflexivity|]. vm_compute. reflexivity.
Qed.
