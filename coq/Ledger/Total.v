(* C05: the block-level ledger operations never return the block-aborting error
   under the parameter sanity conditions (fees.go and TransferFromCommon as
   repaired in /repo HEAD). *)
From Verif Require Import Lib.Base Ledger.SharePool Ledger.State Ledger.Ops Ledger.ConserveMap Ledger.Conserve Ledger.InvB.

Lemma slash_never_fatal_l s addr amount : fst (slash s addr amount) = ROk.
Proof.
  unfold slash. destruct (slash_pools _ _ _) as [ta td].
  destruct (ta + td =? 0); reflexivity.
Qed.

Lemma commission_total rate q : rate <= commission_den ->
  exists com, commission rate q = Some (com, q - com) /\ com <= q.
Proof.
  intros H. unfold commission.
  assert (Hc : q * rate / commission_den <= q).
  { apply N.div_le_upper_bound; [unfold commission_den; lia|].
    rewrite (N.mul_comm commission_den q). apply N.mul_le_mono_l. exact H. }
  exists (q * rate / commission_den).
  destruct (q <? q * rate / commission_den) eqn:E; [lia|]. split; [reflexivity|exact Hc].
Qed.

Lemma shares_for_stake_some pl a : bal pl <> 0 -> shares_for_stake pl a <> None.
Proof.
  intros H. unfold shares_for_stake. destruct (tsh pl =? 0); [discriminate|].
  destruct (bal pl =? 0) eqn:E; [apply N.eqb_eq in E; contradiction|discriminate].
Qed.

Lemma reward_one_total s addr rate q : rate <= commission_den ->
  (q <> 0 -> bal (active (acct s addr)) <> 0) -> reward_one s addr rate q <> None.
Proof.
  intros Hr Hb. unfold reward_one.
  destruct (q =? 0) eqn:Eq; [discriminate|]. apply N.eqb_neq in Eq. specialize (Hb Eq).
  destruct (common_pool s <? q) eqn:Ec; [discriminate|].
  destruct (commission_total rate q Hr) as (com & -> & Hle).
  set (s1 := if q - com =? 0 then s else add_active_bal addr (q - com) (with_common s (common_pool s - (q - com)))).
  destruct (com =? 0) eqn:E0; [discriminate|].
  assert (Hbal : bal (active (acct s1 addr)) <> 0 /\ com <= common_pool s1).
  { subst s1. destruct (q - com =? 0) eqn:E1.
    - split; [exact Hb|lia].
    - unfold add_active_bal. rewrite acct_upd_same. cbn [with_active active bal].
      change (acct (with_common s (common_pool s - (q - com))) addr) with (acct s addr).
      split; [lia|]. cbn. lia. }
  destruct Hbal as [Hb1 Hc1].
  destruct (shares_for_stake (active (acct s1 addr)) com) as [m|] eqn:Es;
    [|exfalso; exact (shares_for_stake_some _ _ Hb1 Es)].
  destruct (common_pool s1 <? com) eqn:E2; [lia|discriminate].
Qed.

Lemma rewards_loop_total factor scale who : forall s,
  (forall a r, In (a, r) who -> r <= commission_den) -> rewards_loop s factor scale who <> None.
Proof.
  induction who as [|[addr rate] r IH]; intros s H; cbn [rewards_loop]; [discriminate|].
  destruct (reward_one s addr rate _) as [s1|] eqn:E.
  - apply IH. intros a r' Hin. apply (H a r'). right. exact Hin.
  - exfalso. refine (reward_one_total s addr rate _ _ _ E).
    + apply (H addr rate). left. reflexivity.
    + intros Hq Hz. apply Hq. rewrite Hz. reflexivity.
Qed.

Lemma add_rewards_never_fatal_l s scale factor who :
  (forall a r, In (a, r) who -> r <= commission_den) -> fst (add_rewards s scale factor who) = ROk.
Proof.
  intros H. unfold add_rewards. destruct scale as [sc|]; [|reflexivity].
  destruct (rewards_loop s factor sc who) as [s1|] eqn:E; [reflexivity|].
  exfalso. exact (rewards_loop_total _ _ _ _ H E).
Qed.

Lemma add_reward_single_never_fatal_l s scale factor num den addr rate :
  den <> 0 -> rate <= commission_den -> fst (add_reward_single s scale factor num den addr rate) = ROk.
Proof.
  intros Hd Hr. unfold add_reward_single. destruct scale as [sc|]; [|reflexivity].
  destruct (den =? 0) eqn:E; [apply N.eqb_eq in E; contradiction|].
  destruct (reward_one s addr rate _) as [s1|] eqn:E1; [reflexivity|].
  exfalso. refine (reward_one_total s addr rate _ Hr _ E1).
  intros Hq Hz. apply Hq. rewrite Hz. reflexivity.
Qed.

Lemma transfer_from_common_never_fatal_l s to amount rate esc :
  rate <= commission_den -> fst (transfer_from_common s to amount rate esc) = ROk.
Proof.
  intros Hr. unfold transfer_from_common.
  set (moved := N.min (common_pool s) amount).
  destruct (moved =? 0) eqn:E0; [reflexivity|].
  set (s1 := add_general to moved (with_common s (common_pool s - moved))).
  destruct esc; cbn [negb]; [|reflexivity].
  assert (Hg : general (acct s1 to) = general (acct s to) + moved).
  { subst s1. unfold add_general. rewrite acct_upd_same. reflexivity. }
  assert (Hsplit : exists com rest,
            (if tsh (active (acct s1 to)) =? 0 then Some (moved, 0) else commission rate moved) = Some (com, rest)
            /\ com + rest = moved).
  { destruct (tsh (active (acct s1 to)) =? 0).
    - exists moved, 0. split; [reflexivity|lia].
    - destruct (commission_total rate moved Hr) as (com & -> & Hle). exists com, (moved - com). split; [reflexivity|lia]. }
  destruct Hsplit as (com & rest & -> & Hsum).
  destruct (general (acct s1 to) <? rest) eqn:E1; [lia|].
  set (s2 := if tsh (active (acct s1 to)) =? 0 then s1 else add_active_bal to rest (sub_general to rest s1)).
  assert (Hg2 : com <= general (acct s2 to)).
  { subst s2. destruct (tsh (active (acct s1 to)) =? 0); [lia|].
    unfold add_active_bal, sub_general. rewrite !acct_upd_same. cbn [with_active with_general general]. lia. }
  destruct ((com =? 0) || _) eqn:E2; [reflexivity|].
  apply orb_false_iff in E2 as [_ E2].
  destruct (shares_for_stake (active (acct s2 to)) com) as [m|] eqn:Es.
  - destruct (general (acct s2 to) <? com) eqn:E3; [lia|reflexivity].
  - exfalso. unfold shares_for_stake in Es.
    destruct (tsh (active (acct s2 to)) =? 0); [discriminate|].
    destruct (bal (active (acct s2 to)) =? 0); [cbn in E2; discriminate|discriminate].
Qed.

Lemma fees_p_never_fatal_l p s pr :
  vq_done s = true -> p_w_propose p + p_w_vote p + p_w_next p <> 0 -> fst (fees_p p s pr) = ROk.
Proof.
  intros Hv Hw. unfold fees_p. rewrite Hv. cbn [negb].
  destruct (fee_acc s =? 0); [reflexivity|].
  destruct (p_w_vote p + p_w_next p + p_w_propose p =? 0) eqn:E; [lia|]. apply N.eqb_neq in E.
  assert (Hle : fee_acc s * (p_w_vote p + p_w_next p) / (p_w_vote p + p_w_next p + p_w_propose p) <= fee_acc s).
  { apply N.div_le_upper_bound; [exact E|].
    rewrite (N.mul_comm _ (fee_acc s)). apply N.mul_le_mono_l. lia. }
  destruct (fee_acc s <? _) eqn:E1; [lia|]. reflexivity.
Qed.

Lemma pay_voters_total voters : forall s left share,
  share * N.of_nat (length voters) <= left -> pay_voters s left share voters <> None.
Proof.
  induction voters as [|v r IH]; intros s left share H; cbn [pay_voters]; [discriminate|].
  cbn [length] in H. rewrite Nat2N.inj_succ, N.mul_succ_r in H.
  destruct (left <? share) eqn:E; [lia|]. apply IH. lia.
Qed.

Lemma fees_vq_never_fatal_l p s pr n voters :
  vq_done s = false -> (last_block_fees s <> 0 -> n <> 0) -> N.of_nat (length voters) <= n ->
  fst (fees_vq p s pr n voters) = ROk.
Proof.
  intros Hv Hn Hk. unfold fees_vq. rewrite Hv.
  set (lbf := last_block_fees s) in *.
  destruct (lbf =? 0) eqn:E0; [reflexivity|]. apply N.eqb_neq in E0. specialize (Hn E0).
  destruct (n =? 0) eqn:E1; [apply N.eqb_eq in E1; contradiction|].
  set (per := lbf / n).
  set (k := N.of_nat (length voters)) in *.
  set (denom := p_w_vote p + p_w_next p).
  set (sn := if denom =? 0 then 0 else per * p_w_next p / denom).
  set (sv := if denom =? 0 then 0 else per - sn).
  assert (Hper : per * n <= lbf) by (subst per; rewrite N.mul_comm; apply N.mul_div_le; exact Hn).
  assert (Hsum : sn + sv <= per).
  { subst sn sv. destruct (denom =? 0) eqn:Ed; [lia|]. apply N.eqb_neq in Ed.
    assert (per * p_w_next p / denom <= per); [|lia].
    apply N.div_le_upper_bound; [exact Ed|]. rewrite (N.mul_comm denom per).
    apply N.mul_le_mono_l. subst denom. lia. }
  assert (Htot : sn * k + sv * k <= lbf).
  { rewrite <- N.mul_add_distr_r. etransitivity; [|exact Hper]. apply N.mul_le_mono; assumption. }
  clearbody sn sv. set (s0 := with_lbf s lbf true).
  assert (H1 : exists s1 left1,
     match pr with
     | Some pa => if sn * k =? 0 then Some (s0, lbf)
                  else if lbf <? sn * k then None else Some (add_general pa (sn * k) s0, lbf - sn * k)
     | None => Some (s0, lbf)
     end = Some (s1, left1) /\ sv * k <= left1).
  { destruct pr as [pa|].
    - destruct (sn * k =? 0) eqn:E2; [exists s0, lbf; split; [reflexivity|lia]|].
      destruct (lbf <? sn * k) eqn:E3; [lia|]. eexists _, _. split; [reflexivity|lia].
    - exists s0, lbf. split; [reflexivity|lia]. }
  destruct H1 as (s1 & left1 & -> & Hl).
  destruct (sv =? 0) eqn:E4; [reflexivity|].
  destruct (pay_voters s1 left1 sv voters) as [[s2 left2]|] eqn:Ep; [reflexivity|].
  exfalso. exact (pay_voters_total voters s1 left1 sv Hl Ep).
Qed.

(* ---------- SlashEscrow for an arbitrary penalty vs. arbitrary balances ----------
   state.go:768-787 slashPool moves MoveUpTo(min(balance, balance*amount/total)): what the
   common pool gains is exactly what the two pools lose, also when the penalty exceeds
   active + debonding (then both pools are emptied and nothing more is credited). *)
Lemma div_add_le a b c : c <> 0 -> a / c + b / c <= (a + b) / c.
Proof.
  intros Hc. apply N.div_le_lower_bound; [exact Hc|].
  rewrite N.mul_add_distr_l.
  pose proof (N.mul_div_le a c Hc). pose proof (N.mul_div_le b c Hc). lia.
Qed.

Lemma slash_pools_spec ba bd amount ta td :
  slash_pools ba bd amount = (ta, td) ->
  ta <= ba /\ td <= bd /\ ta + td <= amount /\ (ba + bd <= amount -> ta = ba /\ td = bd).
Proof.
  unfold slash_pools, slash_take. intros H. injection H as <- <-.
  destruct (ba + bd =? 0) eqn:E.
  - apply N.eqb_eq in E. repeat split; lia.
  - apply N.eqb_neq in E. set (T := ba + bd) in *.
    split; [lia|]. split; [lia|]. split.
    + pose proof (div_add_le (ba * amount) (bd * amount) T E) as H.
      rewrite <- N.mul_add_distr_r in H. fold T in H.
      rewrite (N.mul_comm T amount), N.div_mul in H by exact E. lia.
    + intros Hle.
      assert (H1 : ba <= ba * amount / T).
      { apply N.div_le_lower_bound; [exact E|]. rewrite (N.mul_comm T ba). apply N.mul_le_mono_l. exact Hle. }
      assert (H2 : bd <= bd * amount / T).
      { apply N.div_le_lower_bound; [exact E|]. rewrite (N.mul_comm T bd). apply N.mul_le_mono_l. exact Hle. }
      lia.
Qed.

Lemma slash_exact_l s addr amount :
  let s' := snd (slash s addr amount) in
  let a := acct s addr in let a' := acct s' addr in
  common_pool s' + bal (active a') + bal (debonding a') = common_pool s + bal (active a) + bal (debonding a)
  /\ common_pool s <= common_pool s' /\ common_pool s' - common_pool s <= amount
  /\ bal (active a') <= bal (active a) /\ bal (debonding a') <= bal (debonding a)
  /\ tsh (active a') = tsh (active a) /\ tsh (debonding a') = tsh (debonding a) /\ general a' = general a
  /\ (bal (active a) + bal (debonding a) <= amount -> bal (active a') = 0 /\ bal (debonding a') = 0)
  /\ (forall e, e <> addr -> acct s' e = acct s e)
  /\ total_supply s' = total_supply s.
Proof.
  cbn zeta. unfold slash.
  destruct (slash_pools _ _ amount) as [ta td] eqn:E.
  destruct (slash_pools_spec _ _ _ _ _ E) as (Ha & Hd & Hamt & Hall).
  destruct (ta + td =? 0) eqn:E0; cbn [snd].
  - apply N.eqb_eq in E0. repeat split; try lia; try reflexivity.
  - set (s1 := with_common s (common_pool s + (ta + td))).
    assert (Hacc : acct (sub_deb_bal addr td (sub_active_bal addr ta s1)) addr
                   = with_debonding (with_active (acct s addr) (mkPool (bal (active (acct s addr)) - ta) (tsh (active (acct s addr)))))
                       (mkPool (bal (debonding (acct s addr)) - td) (tsh (debonding (acct s addr))))).
    { unfold sub_deb_bal, sub_active_bal. rewrite !acct_upd_same. reflexivity. }
    rewrite Hacc. cbn [with_debonding with_active active debonding bal tsh general].
    change (common_pool (sub_deb_bal addr td (sub_active_bal addr ta s1))) with (common_pool s + (ta + td)).
    repeat split; try lia; try reflexivity.
    intros e He. unfold sub_deb_bal, sub_active_bal. rewrite !acct_upd_other by exact He. reflexivity.
Qed.

Example slash_repeated_example :
  (* 150 active + 50 debonding, fixed penalty 120 three times: 120, then the remaining 80, then nothing *)
  let s0 := mkSt [(1, mkAcct 0 0 (mkPool 150 150) (mkPool 50 50) [])] [((1, 1), 150)] [((1, 1, 9), 50)] 1200 1000 0 0 0 false in
  let s3 := run ex_p s0 [OSlash 1 120; OSlash 1 120; OSlash 1 120] in
  Inv s0 /\ common_pool s3 = 1200 /\ bal (active (acct s3 1)) = 0 /\ bal (debonding (acct s3 1)) = 0 /\ total_supply s3 = 1200.
Proof.
  cbn zeta. split; [|vm_compute; repeat split; reflexivity].
  apply inv_b_correct_l. vm_compute. reflexivity.
Qed.
