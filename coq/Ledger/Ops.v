(* Staking ledger: operations of the model (C05), each a port of the named Go
   function with its check order. Executable definitions only.

   Persistence. The multiplexer does NOT roll a failed transaction back
   (abci/transaction.go:58-126 runs the handler on the block's tree); what a
   failing handler leaves behind is what it wrote through SetAccount /
   SetDelegation / ... before failing. Every handler below performs all of
   its fallible checks on in-memory copies before its first Set* call
   (transactions.go: transfer 150-157, burn 237-242, addEscrow 341-352,
   reclaimEscrow 489-503, allow 686, withdraw runs in ctx.NewTransaction), so
   a failing handler leaves the state exactly as authentication left it
   (fee moved, nonce incremented). The model performs the checks in the code's
   order and then applies the writes.

   Aliasing. Where the code uses one account object for two roles
   (addEscrow/reclaimEscrow/debonding completion with escrow = delegator:
   "to = from"), the model applies the writes one after the other and re-reads
   the account in between, which is the functional reading of updating one
   object and storing it once.

   Errors of BeginBlock/EndBlock (a returned error makes the multiplexer panic;
   the block is never committed) are [RFatal]; the state is returned unchanged.
   [RMisuse] marks an operation used outside the block protocol (fee
   disbursement phases out of order); state unchanged. *)
From Verif Require Import Lib.Base Ledger.SharePool Ledger.State.

(* error classes: staking module codes (staking/api/api.go:30-71) and the
   uncoded ones *)
Definition EInvalidArg : N := 1.
Definition EInsufficientStaking : N := 3.
Definition EForbidden : N := 5.
Definition ETooManyAllow : N := 7.
Definition EUnderMinDeleg : N := 8.
Definition EUnderMinTransfer : N := 9.
Definition EBalanceTooLow : N := 10.
Definition EAllowSupply : N := 11.
Definition EQInsufficient : N := 20.   (* quantity.ErrInsufficientBalance (uncoded) *)
Definition EOutOfGas : N := 21.
Definition ENonce : N := 22.
Definition EOther : N := 30.           (* decided outside the ledger (governance content checks, other apps) *)

Inductive rc := ROk | RFail (e : N) | RFatal | RMisuse.

Definition rc_eqb (a b : rc) : bool :=
  match a, b with
  | ROk, ROk | RFatal, RFatal | RMisuse, RMisuse => true
  | RFail x, RFail y => x =? y
  | _, _ => false
  end.

(* ---------- quantity.Move / MoveUpTo (quantity.go:217-250) ---------- *)
(* Move(dst, src, n) on distinct objects: None = ErrInsufficientBalance, nothing altered *)
Definition qmove (dst src n : N) : option (N * N) :=
  if src <? n then None else Some (dst + n, src - n).
(* dst == src (one object): src.Sub(n) then dst.Add(n) on the same value *)
Definition qmove_alias (x n : N) : option N :=
  if x <? n then None else Some (x - n + n).
(* src == n (quantity.go:221 clones n first): moves everything *)
Definition qmove_all (dst src : N) : option (N * N) := qmove dst src src.
(* MoveUpTo: (dst', src', moved) *)
Definition qmove_up_to (dst src n : N) : N * N * N :=
  let a := N.min src n in (dst + a, src - a, a).

(* ---------- transaction bodies ---------- *)
Inductive body :=
| BTransfer (to amt : N)
| BBurn (amt : N)
| BAddEscrow (escrow amt : N)
| BReclaim (escrow shares epoch : N)       (* epoch: current epoch (beacon, oracle input) *)
| BAllow (benef : N) (neg : bool) (amt : N)
| BWithdraw (from amt : N)
| BGovSubmit (deposit : N) (basic_ok content_ok : bool)
    (* governance/transactions.go:20-215: basic_ok = ValidateBasic and enablement
       (before gas), content_ok = the content checks after the balance check *)
| BOther (ok : bool)                       (* any transaction that does not touch the ledger beyond fee and nonce *)
| BWithdrawHooked (from amt : N) (hook_ok : bool)
    (* staking.Withdraw from an account with a withdraw hook (a vault): the hook replaces the
       allowance logic; hook_ok = the hook's verdict (vault policy, decided outside the ledger) *)
| BVaultExec (caller : N) (inner : body).
    (* vault.AuthorizeAction that executes an ExecuteMessage action: the inner method runs as a
       subcall with the vault as caller (abci/subcall.go), in its own transaction context; the
       result class of the operation is the one recorded in ActionExecutedEvent.Result *)

(* state/gas.go:32-140 AuthenticateAndPayFees in DeliverTx mode *)
Definition auth (p : params) (s : state) (signer nonce_ fee : N) : rc * state :=
  if reserved p signer then (RFail EOther, s)
  else
    let a := acct s signer in
    if negb (nonce a =? nonce_) then (RFail ENonce, s)
    else if general a <? fee + p_min_transact p then (RFail EBalanceTooLow, s)
    else
      match qmove (fee_acc s) (general a) fee with
      | None => (RFail EQInsufficient, s)
      | Some (acc', g') =>
          let s1 := with_feeacc s acc' in
          (ROk, set_acct signer (with_nonce (with_general a g') ((nonce a + 1) mod two64)) s1)
      end.

(* transactions.go:189-255 burnImpl *)
Definition burn_impl (p : params) (s : state) (from amt : N) : rc * state :=
  if amt <? p_min_transfer p then (RFail EUnderMinTransfer, s)
  else
    let f := acct s from in
    if general f <? amt then (RFail EQInsufficient, s)
    else if general f - amt <? p_min_transact p then (RFail EBalanceTooLow, s)
    else
      (* _ = totalSupply.Sub(amount): an error is ignored (transactions.go:235) *)
      let ts := if total_supply s <? amt then total_supply s else total_supply s - amt in
      (ROk, with_supply (sub_general from amt s) ts).

(* transactions.go:76-160 transferImpl *)
Definition transfer_impl (p : params) (s : state) (from to amt : N) : rc * state :=
  if amt <? p_min_transfer p then (RFail EUnderMinTransfer, s)
  else
    let f := acct s from in
    if from =? to then
      if general f <? amt then (RFail EInsufficientStaking, s) else (ROk, set_acct from f s)
    else if reserved p to then (RFail EOther, s)   (* state.Account rejects reserved addresses (state.go:221) *)
    else
      let t := acct s to in
      match qmove (general t) (general f) amt with
      | None => (RFail EQInsufficient, s)
      | Some (tg, fg) =>
          if fg <? p_min_transact p then (RFail EBalanceTooLow, s)
          else if tg <? p_min_transact p then (RFail EBalanceTooLow, s)
          else (ROk, sub_general from amt (add_general to amt s))
      end.

(* transactions.go:24-74 transfer *)
Definition transfer (p : params) (s : state) (from to amt : N) (gas_ok : bool) : rc * state :=
  if negb gas_ok then (RFail EOutOfGas, s)
  else if reserved p from || p_disable_transfers p then (RFail EForbidden, s)
  else if to =? p_burn_addr p then burn_impl p s from amt
  else transfer_impl p s from to amt.

(* transactions.go:162-187 burn *)
Definition burn (p : params) (s : state) (from amt : N) (gas_ok : bool) : rc * state :=
  if negb gas_ok then (RFail EOutOfGas, s)
  else if reserved p from then (RFail EForbidden, s)
  else burn_impl p s from amt.

(* transactions.go:257-374 addEscrow + api.go:659 Deposit *)
Definition add_escrow (p : params) (s : state) (from escrow amt : N) (gas_ok : bool) : rc * state :=
  if negb gas_ok then (RFail EOutOfGas, s)
  else if amt <? p_min_deleg p then (RFail EUnderMinDeleg, s)
  else if reserved p from then (RFail EForbidden, s)
  else if negb (from =? escrow) && p_disable_deleg p then (RFail EForbidden, s)
  else if negb (from =? escrow) && reserved p escrow then (RFail EOther, s)   (* state.Account, state.go:221 *)
  else
    let f := acct s from in
    let t := acct s escrow in
    match shares_for_stake (active t) amt with
    | None => (RFail EInvalidArg, s)
    | Some m =>
        if general f <? amt then (RFail EQInsufficient, s)
        else if general f - amt <? p_min_transact p then (RFail EBalanceTooLow, s)
        else (ROk, mint_active escrow from m (add_active_bal escrow amt (sub_general from amt s)))
    end.

(* transactions.go:376-531 reclaimEscrow + api.go:705 Withdraw + Debonding.Deposit *)
Definition reclaim_escrow (p : params) (s : state) (to escrow shares epoch : N) (gas_ok : bool) : rc * state :=
  if shares =? 0 then (RFail EInvalidArg, s)
  else if negb gas_ok then (RFail EOutOfGas, s)
  else if reserved p to then (RFail EForbidden, s)
  else if negb (to =? escrow) && p_disable_deleg p then (RFail EForbidden, s)
  else if negb (to =? escrow) && reserved p escrow then (RFail EOther, s)   (* state.Account, state.go:221 *)
  else
    let e := acct s escrow in
    let d := dget s escrow to in
    let pay := stake_for_shares (active e) shares in
    if d <? shares then (RFail EQInsufficient, s)
    else if tsh (active e) <? shares then (RFail EQInsufficient, s)
    else if bal (active e) <? pay then (RFail EQInsufficient, s)
    else
      match shares_for_stake (debonding e) pay with
      | None => (RFail EInvalidArg, s)
      | Some m =>
          let ep := epoch + p_deb_interval p in
          (ROk, mint_deb escrow to ep m
                  (add_deb_bal escrow pay
                     (burn_active escrow to shares (sub_active_bal escrow pay s))))
      end.

(* transactions.go:603-699 allow *)
Definition allow_op (p : params) (s : state) (addr benef : N) (neg : bool) (amt : N) (gas_ok : bool) : rc * state :=
  if negb gas_ok then (RFail EOutOfGas, s)
  else if p_disable_transfers p || (p_max_allow p =? 0) then (RFail EForbidden, s)
  else if reserved p addr || reserved p benef then (RFail EForbidden, s)
  else if addr =? benef then (RFail EInvalidArg, s)
  else
    let a := acct s addr in
    let cur := match aget benef (allow a) with Some v => v | None => 0 end in
    let nw := if neg then cur - N.min cur amt else cur + amt in
    if total_supply s <? nw then (RFail EAllowSupply, s)
    else
      let al := if nw =? 0 then adel benef (allow a) else aset benef nw (allow a) in
      if p_max_allow p <? N.of_nat (length al) then (RFail ETooManyAllow, s)
      else (ROk, set_acct addr (with_allow a al) s).

(* transactions.go:701-849 withdraw (no withdraw hooks: vault accounts are not modelled) *)
Definition withdraw_op (p : params) (s : state) (to from amt : N) (gas_ok : bool) : rc * state :=
  if negb gas_ok then (RFail EOutOfGas, s)
  else if amt <? p_min_transfer p then (RFail EUnderMinTransfer, s)
  else if p_disable_transfers p || (p_max_allow p =? 0) then (RFail EForbidden, s)
  else if reserved p to || reserved p from then (RFail EForbidden, s)
  else if to =? from then (RFail EInvalidArg, s)
  else
    let f := acct s from in
    match aget to (allow f) with
    | None => (RFail EForbidden, s)
    | Some cur =>
        if cur <? amt then (RFail EForbidden, s)
        else
          let nw := cur - amt in
          let al := if nw =? 0 then adel to (allow f) else aset to nw (allow f) in
          let t := acct s to in
          match qmove (general t) (general f) amt with
          | None => (RFail EInsufficientStaking, s)
          | Some (tg, fg) =>
              if fg <? p_min_transact p then (RFail EBalanceTooLow, s)
              else if tg <? p_min_transact p then (RFail EBalanceTooLow, s)
              else
                (ROk, upd_acct from (fun x => with_allow x al) (sub_general from amt (add_general to amt s)))
          end
    end.

(* transactions.go:701-849 withdraw when the source account has a withdraw hook: same checks
   in the same order up to and including "caller = source -> ErrInvalidArgument", then the hook
   instead of the allowance, then the move *)
Definition withdraw_hooked (p : params) (s : state) (to from amt : N) (hook_ok gas_ok : bool) : rc * state :=
  if negb gas_ok then (RFail EOutOfGas, s)
  else if amt <? p_min_transfer p then (RFail EUnderMinTransfer, s)
  else if p_disable_transfers p || (p_max_allow p =? 0) then (RFail EForbidden, s)
  else if reserved p to || reserved p from then (RFail EForbidden, s)
  else if to =? from then (RFail EInvalidArg, s)
  else if negb hook_ok then (RFail EForbidden, s)
  else
    let f := acct s from in
    let t := acct s to in
    match qmove (general t) (general f) amt with
    | None => (RFail EInsufficientStaking, s)
    | Some (tg, fg) =>
        if fg <? p_min_transact p then (RFail EBalanceTooLow, s)
        else if tg <? p_min_transact p then (RFail EBalanceTooLow, s)
        else (ROk, sub_general from amt (add_general to amt s))
    end.

(* governance/transactions.go:20-215 submitProposal, the ledger part;
   state.go:1072-1108 TransferToGovernanceDeposits *)
Definition gov_submit (p : params) (s : state) (from deposit : N) (basic_ok content_ok gas_ok : bool) : rc * state :=
  if negb basic_ok then (RFail EOther, s)
  else if negb gas_ok then (RFail EOutOfGas, s)
  else if general (acct s from) <? deposit then (RFail EInsufficientStaking, s)
  else if negb content_ok then (RFail EOther, s)
  else (ROk, with_gov (sub_general from deposit s) (gov_deposits s + deposit)).

Definition exec_leaf (p : params) (s : state) (signer : N) (b : body) (gas_ok : bool) : rc * state :=
  match b with
  | BTransfer to amt => transfer p s signer to amt gas_ok
  | BBurn amt => burn p s signer amt gas_ok
  | BAddEscrow e amt => add_escrow p s signer e amt gas_ok
  | BReclaim e sh ep => reclaim_escrow p s signer e sh ep gas_ok
  | BAllow b neg amt => allow_op p s signer b neg amt gas_ok
  | BWithdraw f amt => withdraw_op p s signer f amt gas_ok
  | BGovSubmit dep b1 b2 => gov_submit p s signer dep b1 b2 gas_ok
  | BOther ok => if negb gas_ok then (RFail EOutOfGas, s) else if ok then (ROk, s) else (RFail EOther, s)
  | BWithdrawHooked f amt ok => withdraw_hooked p s signer f amt ok gas_ok
  | BVaultExec _ _ => (RFail EOther, s)    (* nested vault execution is not modelled *)
  end.

(* a vault-executed message runs the handler with the vault as caller; a failing subcall is
   rolled back as a whole (the handlers write nothing when they fail anyway) *)
Definition exec_body (p : params) (s : state) (signer : N) (b : body) (gas_ok : bool) : rc * state :=
  match b with
  | BVaultExec caller inner =>
      if negb gas_ok then (RFail EOutOfGas, s) else exec_leaf p s caller inner true
  | _ => exec_leaf p s signer b gas_ok
  end.

(* abci/transaction.go:58-126 processTx: authenticate (fee, nonce), charge
   gas per byte (size_gas_ok: the limit covers the size), run the handler
   (gas_ok: the limit covers size + operation). *)
Definition exec_tx (p : params) (s : state) (signer nonce_ fee : N) (size_gas_ok gas_ok : bool) (b : body) : rc * state :=
  match auth p s signer nonce_ fee with
  | (ROk, s1) =>
      if negb size_gas_ok then (RFail EOutOfGas, s1)
      else exec_body p s1 signer b gas_ok
  | r => r
  end.

(* ---------- block-level operations ---------- *)

(* fees.go:119-247 disburseFeesVQ. The local copy of the persisted value is
   paid out; the persisted value itself is not rewritten (stale until
   disburseFeesP). *)
Fixpoint pay_voters (s : state) (left share : N) (voters : list N) : option (state * N) :=
  match voters with
  | [] => Some (s, left)
  | v :: r => if left <? share then None else pay_voters (add_general v share s) (left - share) share r
  end.

Definition fees_vq (p : params) (s : state) (proposer : option N) (n_eligible : N) (voters : list N) : rc * state :=
  if vq_done s then (RMisuse, s)
  else
    let lbf := last_block_fees s in
    let s0 := with_lbf s lbf true in
    if lbf =? 0 then (ROk, s0)
    else if n_eligible =? 0 then (RFatal, s)
    else
      let per := lbf / n_eligible in
      let denom := p_w_vote p + p_w_next p in
      (* fees.go (repaired): with vote + next-propose weight = 0 nothing is owed to voters or
         the next proposer; everything goes to the common pool *)
      let share_next := if denom =? 0 then 0 else per * p_w_next p / denom in
      let share_vote := if denom =? 0 then 0 else per - share_next in
      let next_total := share_next * N.of_nat (length voters) in
        let step1 :=
          match proposer with
          | Some pa =>
              if next_total =? 0 then Some (s0, lbf)
              else if lbf <? next_total then None
              else Some (add_general pa next_total s0, lbf - next_total)
          | None => Some (s0, lbf)
          end in
        match step1 with
        | None => (RFatal, s)
        | Some (s1, left1) =>
            let step2 := if share_vote =? 0 then Some (s1, left1) else pay_voters s1 left1 share_vote voters in
            match step2 with
            | None => (RFatal, s)
            | Some (s2, left2) => (ROk, with_common s2 (common_pool s2 + left2))
            end
        end.

(* fees.go:16-113 disburseFeesP with the block's accumulated fees; staking.go:237 *)
Definition fees_p (p : params) (s : state) (proposer : option N) : rc * state :=
  if negb (vq_done s) then (RMisuse, s)
  else
    let total := fee_acc s in
    if total =? 0 then (ROk, with_lbf s 0 false)
    else
      let wvq := p_w_vote p + p_w_next p in
      let wpvq := wvq + p_w_propose p in
      if wpvq =? 0 then (RFatal, s)
      else
        let persist := total * wvq / wpvq in
        if total <? persist then (RFatal, s)
        else
          let rest := total - persist in
          let s1 := with_feeacc (with_lbf s persist false) rest in
          let s2 :=
            match proposer with
            | Some pa => if rest =? 0 then s1 else with_feeacc (add_general pa rest s1) 0
            | None => s1
            end in
          (ROk, with_feeacc (with_common s2 (common_pool s2 + fee_acc s2)) 0).

(* state.go:795-855 SlashEscrow *)
Definition slash (s : state) (addr amount : N) : rc * state :=
  let a := acct s addr in
  let '(ta, td) := slash_pools (bal (active a)) (bal (debonding a)) amount in
  if ta + td =? 0 then (ROk, s)
  else
    let s1 := with_common s (common_pool s + (ta + td)) in
    (ROk, sub_deb_bal addr td (sub_active_bal addr ta s1)).

(* state.go:925-951 computeCommission: (commission, remaining) or error *)
Definition commission (rate total : N) : option (N * N) :=
  let com := total * rate / commission_den in
  if total <? com then None else Some (com, total - com).

(* the part of AddRewards / AddRewardSingleAttenuated after the amount q is
   known (state.go:1237-1296, 1374-1440): None = error *)
Definition reward_one (s : state) (addr rate q : N) : option state :=
  if q =? 0 then Some s
  else if common_pool s <? q then Some s
  else
    match commission rate q with
    | None => None
    | Some (com, q') =>
        let s1 :=
          if q' =? 0 then s
          else add_active_bal addr q' (with_common s (common_pool s - q')) in
        if com =? 0 then Some s1
        else
          match shares_for_stake (active (acct s1 addr)) com with
          | None => None
          | Some m =>
              if common_pool s1 <? com then None
              else Some (mint_active addr addr m
                           (add_active_bal addr com (with_common s1 (common_pool s1 - com))))
          end
    end.

(* state.go:1192-1307 AddRewards: who = (address, current commission rate) in
   the order of the call; scale = active reward step (None past the schedule) *)
Fixpoint rewards_loop (s : state) (factor scale : N) (who : list (N * N)) : option state :=
  match who with
  | [] => Some s
  | (addr, rate) :: r =>
      let q := bal (active (acct s addr)) * factor * scale / reward_den in
      match reward_one s addr rate q with
      | None => None
      | Some s1 => rewards_loop s1 factor scale r
      end
  end.

Definition add_rewards (s : state) (scale : option N) (factor : N) (who : list (N * N)) : rc * state :=
  match scale with
  | None => (ROk, s)
  | Some sc =>
      match rewards_loop s factor sc who with
      | None => (RFatal, s)
      | Some s1 => (ROk, s1)
      end
  end.

(* state.go:1314-1440 AddRewardSingleAttenuated *)
Definition add_reward_single (s : state) (scale : option N) (factor num den addr rate : N) : rc * state :=
  match scale with
  | None => (ROk, s)
  | Some sc =>
      if den =? 0 then (RFatal, s)
      else
        let q := bal (active (acct s addr)) * factor * sc * num / reward_den / den in
        match reward_one s addr rate q with
        | None => (RFatal, s)
        | Some s1 => (ROk, s1)
        end
  end.

(* state.go:953-1090 TransferFromCommon (repaired: a pool slashed to zero with shares
   outstanding cannot take the commission deposit; the commission then stays in the general
   balance). rate = current commission rate of the destination. *)
Definition transfer_from_common (s : state) (to amount rate : N) (escrow : bool) : rc * state :=
  let moved := N.min (common_pool s) amount in
  if moved =? 0 then (ROk, s)
  else
    let s1 := add_general to moved (with_common s (common_pool s - moved)) in
    if negb escrow then (ROk, s1)
    else
      let split :=
        if tsh (active (acct s1 to)) =? 0 then Some (moved, 0)   (* nothing escrowed before: all commission *)
        else commission rate moved in
      match split with
      | None => (RFatal, s)
      | Some (com, rest) =>
          if general (acct s1 to) <? rest then (RFatal, s)
          else
            let s2 := if tsh (active (acct s1 to)) =? 0 then s1
                      else add_active_bal to rest (sub_general to rest s1) in
            let pl := active (acct s2 to) in
            let dead := (bal pl =? 0) && negb (tsh pl =? 0) in
            if (com =? 0) || dead then (ROk, s2)
            else
              match shares_for_stake pl com with
              | None => (RFatal, s)
              | Some m =>
                  if general (acct s2 to) <? com then (RFatal, s)
                  else (ROk, mint_active to to m (add_active_bal to com (sub_general to com s2)))
              end
      end.

(* staking.go:245-320 onEpochChange, one expired queue entry. The shares are
   those of the stored entry (the queue is read once before the loop, entries
   have distinct keys and a step only removes its own key). *)
Definition debond_one (s : state) (k : k3) : option state :=
  let '(e, d, ep) := k in
  match mget k3_eqb k (debdeleg s) with
  | None => Some s
  | Some sh =>
      let x := acct s e in
      let pay := stake_for_shares (debonding x) sh in
      if tsh (debonding x) <? sh then None
      else if bal (debonding x) <? pay then None
      else Some (add_general d pay (burn_deb e d ep sh (sub_deb_bal e pay s)))
  end.

Fixpoint debond_list (s : state) (ks : list k3) : option state :=
  match ks with
  | [] => Some s
  | k :: r => match debond_one s k with None => None | Some s1 => debond_list s1 r end
  end.

(* state.go:481-509 ExpiredDebondingQueue: keys with end epoch <= epoch in
   the order of the queue key (epoch, delegator, escrow) *)
Definition k3_queue_le (a b : k3) : bool :=
  let '(e1, d1, p1) := a in let '(e2, d2, p2) := b in
  if p1 <? p2 then true else if p2 <? p1 then false
  else if d1 <? d2 then true else if d2 <? d1 then false
  else e1 <=? e2.
Fixpoint k3_insert (x : k3) (l : list k3) : list k3 :=
  match l with
  | [] => [x]
  | y :: r => if k3_queue_le x y then x :: l else y :: k3_insert x r
  end.
Definition expired_queue (s : state) (epoch : N) : list k3 :=
  fold_right k3_insert []
    (map fst (filter (fun kv => snd (fst kv) <=? epoch) (debdeleg s))).

Definition debond_all (s : state) (epoch : N) : rc * state :=
  match debond_list s (expired_queue s epoch) with
  | None => (RFatal, s)
  | Some s1 => (ROk, s1)
  end.

(* state.go:1110-1146 TransferFromGovernanceDeposits / 1148-1186 DiscardGovernanceDeposit *)
Definition gov_reclaim (s : state) (to amount : N) : rc * state :=
  if gov_deposits s <? amount then (RFatal, s)
  else (ROk, with_gov (add_general to amount s) (gov_deposits s - amount)).
Definition gov_discard (s : state) (amount : N) : rc * state :=
  if gov_deposits s <? amount then (RFatal, s)
  else (ROk, with_gov (with_common s (common_pool s + amount)) (gov_deposits s - amount)).

Inductive op :=
| OTx (signer nonce_ fee : N) (size_gas_ok gas_ok : bool) (b : body)
| OFeesVQ (proposer : option N) (n_eligible : N) (voters : list N)
| ORewardSingle (scale : option N) (factor num den addr rate : N)
| ORewards (scale : option N) (factor : N) (who : list (N * N))
| OSlash (addr amount : N)
| OFeesP (proposer : option N)
| ODebondAll (epoch : N)
| OGovReclaim (to amount : N)
| OGovDiscard (amount : N)
| OTransferFromCommon (to amount rate : N) (escrow : bool).

Definition step (p : params) (s : state) (o : op) : rc * state :=
  match o with
  | OTx a n f g1 g2 b => exec_tx p s a n f g1 g2 b
  | OFeesVQ pr n vs => fees_vq p s pr n vs
  | ORewardSingle sc f num den a r => add_reward_single s sc f num den a r
  | ORewards sc f who => add_rewards s sc f who
  | OSlash a amt => slash s a amt
  | OFeesP pr => fees_p p s pr
  | ODebondAll ep => debond_all s ep
  | OGovReclaim to amt => gov_reclaim s to amt
  | OGovDiscard amt => gov_discard s amt
  | OTransferFromCommon to amt rate esc => transfer_from_common s to amt rate esc
  end.

Definition run (p : params) (s : state) (ops : list op) : state :=
  fold_left (fun s o => snd (step p s o)) ops s.

Fixpoint run_rc (p : params) (s : state) (ops : list op) : list rc * state :=
  match ops with
  | [] => ([], s)
  | o :: r =>
      let '(c, s1) := step p s o in
      let '(cs, s2) := run_rc p s1 r in
      (c :: cs, s2)
  end.

(* amount explicitly burned by an operation, given its result: the Burn
   method and a Transfer to the burn address (the amounts in BurnEvent) *)
Definition burned_body (p : params) (b : body) (r : rc) : N :=
  match b, r with
  | BBurn amt, ROk => amt
  | BTransfer to amt, ROk => if to =? p_burn_addr p then amt else 0
  | _, _ => 0
  end.
Definition burned_b (p : params) (b : body) (r : rc) : N :=
  match b with
  | BVaultExec _ inner => burned_body p inner r
  | _ => burned_body p b r
  end.
Definition burned (p : params) (o : op) (r : rc) : N :=
  match o with
  | OTx _ _ _ _ _ b => burned_b p b r
  | _ => 0
  end.

Fixpoint burned_run (p : params) (s : state) (ops : list op) : N :=
  match ops with
  | [] => 0
  | o :: r => let '(c, s1) := step p s o in burned p o c + burned_run p s1 r
  end.

(* ---------- correspondence case ---------- *)
(* expected account row: (address, [general; nonce; active bal; active shares;
   debonding bal; debonding shares], allowances) *)
Definition arow := (N * list N * list (N * N))%type.
Record dump := mkDump {
  d_accts : list arow;
  d_deleg : list (k2 * N);
  d_deb : list (k3 * N);
  d_scalars : list N            (* total supply; common pool; last block fees; governance deposits *)
}.

Definition state_of_dump (d : dump) : state :=
  let accs := map (fun r : arow =>
      let '(a, f, al) := r in
      (a, mkAcct (nth 0 f 0) (nth 1 f 0) (mkPool (nth 2 f 0) (nth 3 f 0)) (mkPool (nth 4 f 0) (nth 5 f 0)) al)) (d_accts d) in
  mkSt accs (d_deleg d) (d_deb d) (nth 0 (d_scalars d) 0) (nth 1 (d_scalars d) 0)
       (nth 2 (d_scalars d) 0) (nth 3 (d_scalars d) 0) 0 false.

Definition nn_eqb (a b : N * N) : bool := (fst a =? fst b) && (snd a =? snd b).

Definition map_matches {K} (keq : K -> K -> bool) (m : list (K * N)) (expected : list (K * N)) : bool :=
  (length m =? length expected)%nat
  && forallb (fun kv => match mget keq (fst kv) m with Some v => v =? snd kv | None => false end) expected.

Definition arow_matches (s : state) (r : arow) : bool :=
  let '(a, f, al) := r in
  let x := acct s a in
  list_eqb N.eqb [general x; nonce x; bal (active x); tsh (active x); bal (debonding x); tsh (debonding x)] f
  && map_matches N.eqb (allow x) al.

Definition state_matches (s : state) (d : dump) : bool :=
  forallb (arow_matches s) (d_accts d)
  && map_matches k2_eqb (deleg s) (d_deleg d)
  && map_matches k3_eqb (debdeleg s) (d_deb d)
  && list_eqb N.eqb [total_supply s; common_pool s; last_block_fees s; gov_deposits s] (d_scalars d)
  && (fee_acc s =? 0) && negb (vq_done s).

(* a case: parameters, the dump before the block, the block's operations;
   expected: the result classes and the dump after the block *)
Definition kcase := (params * dump * list op)%type.
Definition kout := (list rc * dump)%type.

Definition run_case (c : kcase) : list rc * state :=
  let '(p, d, ops) := c in run_rc p (state_of_dump d) ops.

(* used with [mismatches run_case case_eqb] *)
Definition case_eqb (got : list rc * state) (want : kout) : bool :=
  list_eqb rc_eqb (fst got) (fst want) && state_matches (snd got) (snd want).

(* case runner in the shape [mismatches] wants: input = (case, expected), output = verdict *)
Definition run_check (ce : kcase * kout) : bool := case_eqb (run_case (fst ce)) (snd ce).
(* what the model computes on a case (shown by the driver for a disagreeing case) *)
Definition run_debug (ce : kcase * kout) := run_case (fst ce).

(* diagnosis of a disagreeing case: model result classes, the account rows the
   model computes differently (address, model fields), and which of
   delegations / debonding delegations / scalars agree *)
Definition run_diag (ce : kcase * kout) :=
  let '(rcs, s) := run_case (fst ce) in
  let d := snd (snd ce) in
  (rcs,
   map (fun r : arow => let x := acct s (fst (fst r)) in
          (fst (fst r), [general x; nonce x; bal (active x); tsh (active x); bal (debonding x); tsh (debonding x)], allow x))
       (filter (fun r => negb (arow_matches s r)) (d_accts d)),
   (map_matches k2_eqb (deleg s) (d_deleg d), map_matches k3_eqb (debdeleg s) (d_deb d)),
   [total_supply s; common_pool s; last_block_fees s; gov_deposits s; fee_acc s]).

(* ---------- the invariant as a boolean (proved equivalent to Inv in Ledger/InvB.v) ---------- *)
Fixpoint nodupb {K} (keq : K -> K -> bool) (l : list K) : bool :=
  match l with
  | [] => true
  | x :: r => negb (existsb (keq x) r) && nodupb keq r
  end.
(* every address that owns an account entry or is the escrow side of a (debonding) delegation *)
Definition escrows (s : state) : list N :=
  map fst (accts s) ++ map (fun kv : k2 * N => fst (fst kv)) (deleg s)
  ++ map (fun kv : k3 * N => fst (fst (fst kv))) (debdeleg s).
Definition shares_ok_b (s : state) (e : N) : bool :=
  (tsh (active (acct s e)) =? dsum e s) && (tsh (debonding (acct s e)) =? bsum e s).
Definition inv_b (s : state) : bool :=
  nodupb N.eqb (map fst (accts s)) && nodupb k2_eqb (map fst (deleg s)) && nodupb k3_eqb (map fst (debdeleg s))
  && forallb (shares_ok_b s) (escrows s)
  && (total_supply s =? buckets s).

(* K additionally evaluates the invariant on the implementation's own dumps *)
Definition run_check_inv (ce : kcase * kout) : bool :=
  run_check ce
  && inv_b (state_of_dump (snd (fst (fst ce))))
  && inv_b (state_of_dump (snd (snd ce))).

(* ---------- runs across parameter changes ----------
   The consensus parameters are not part of the ledger state: a governance
   ChangeParameters proposal that takes effect replaces the parameter record and touches no
   balance. A history with parameter changes is therefore a list of operations each carrying
   the parameters in force when it runs (fee disbursement takes the weights of that moment). *)
Definition run_params (s : state) (ops : list (params * op)) : state :=
  fold_left (fun s po => snd (step (fst po) s (snd po))) ops s.

Fixpoint burned_run_params (s : state) (ops : list (params * op)) : N :=
  match ops with
  | [] => 0
  | (p, o) :: r => let '(c, s1) := step p s o in burned p o c + burned_run_params s1 r
  end.
