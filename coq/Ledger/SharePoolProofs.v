(* Proofs about the share-pool model (Ledger/SharePool.v): API-level rounding
   directions, fairness towards other holders, share-price monotonicity and
   the pro-rata slash split. The operation-sequence theorems are in
   Ledger/SharePoolSeq.v. *)
From Verif Require Import Lib.Base Ledger.SharePool.

(* ---------- arithmetic helpers ---------- *)
Lemma div_mul_le a b : b <> 0 -> a / b * b <= a.
Proof. intros H. rewrite N.mul_comm. apply N.mul_div_le. exact H. Qed.

Lemma div_mul_gt a b : b <> 0 -> a < (a / b + 1) * b.
Proof.
  intros H. pose proof (N.div_mod a b H) as E. pose proof (N.mod_lt a b H) as L.
  rewrite N.mul_add_distr_r, N.mul_1_l, (N.mul_comm (a / b) b). lia.
Qed.

Lemma mul_le_cancel_l a b c : a <> 0 -> a * b <= a * c -> b <= c.
Proof. intros H L. apply N.mul_le_mono_pos_l in L; lia. Qed.

Lemma div_le_cross a b c d : b <> 0 -> d <> 0 -> a * d <= c * b -> a / b <= c / d.
Proof.
  intros Hb Hd H. apply N.div_le_lower_bound; [exact Hd|].
  apply (mul_le_cancel_l b); [exact Hb|].
  pose proof (div_mul_le a b Hb) as L.
  assert (L2 : d * (a / b * b) <= d * a) by (apply N.mul_le_mono_l; exact L).
  replace (b * (d * (a / b))) with (d * (a / b * b)) by lia.
  replace (b * c) with (c * b) by lia. lia.
Qed.

(* ---------- unfolding lemmas ---------- *)
Lemma sfs_zero_shares p a : tsh p = 0 -> shares_for_stake p a = Some a.
Proof. intros H. unfold shares_for_stake. rewrite H. reflexivity. Qed.

Lemma sfs_none p a : shares_for_stake p a = None <-> (tsh p <> 0 /\ bal p = 0).
Proof.
  unfold shares_for_stake. destruct (N.eqb_spec (tsh p) 0) as [E1|E1].
  - split; [discriminate|tauto].
  - destruct (N.eqb_spec (bal p) 0) as [E2|E2].
    + split; [intros _; split; assumption|reflexivity].
    + split; [discriminate|tauto].
Qed.

Lemma sfs_some p a m : shares_for_stake p a = Some m ->
  (tsh p = 0 /\ m = a) \/ (tsh p <> 0 /\ bal p <> 0 /\ m = a * tsh p / bal p).
Proof.
  unfold shares_for_stake. destruct (tsh p =? 0) eqn:E1.
  - intros H. injection H as <-. left. lia.
  - destruct (bal p =? 0) eqn:E2; [discriminate|]. intros H. injection H as <-. right. lia.
Qed.

Lemma sfs_bounds p a m : shares_for_stake p a = Some m -> tsh p <> 0 ->
  bal p <> 0 /\ m * bal p <= a * tsh p /\ a * tsh p < (m + 1) * bal p.
Proof.
  intros H Hs. destruct (sfs_some _ _ _ H) as [[E _]|[_ [Hb ->]]]; [contradiction|].
  split; [exact Hb|]. split; [apply div_mul_le; exact Hb|apply div_mul_gt; exact Hb].
Qed.

Lemma stake_zero p s : s = 0 \/ bal p = 0 \/ tsh p = 0 -> stake_for_shares p s = 0.
Proof.
  intros H. unfold stake_for_shares.
  destruct (s =? 0) eqn:E1; [reflexivity|]. destruct (bal p =? 0) eqn:E2; [reflexivity|].
  destruct (tsh p =? 0) eqn:E3; [reflexivity|]. lia.
Qed.

Lemma stake_pos p s : s <> 0 -> bal p <> 0 -> tsh p <> 0 ->
  stake_for_shares p s = s * bal p / tsh p.
Proof.
  intros H1 H2 H3. unfold stake_for_shares.
  destruct (s =? 0) eqn:E1; [lia|]. destruct (bal p =? 0) eqn:E2; [lia|].
  destruct (tsh p =? 0) eqn:E3; [lia|]. reflexivity.
Qed.

(* the closed form without the zero special cases, whenever shares exist *)
Lemma stake_div p s : tsh p <> 0 -> stake_for_shares p s = s * bal p / tsh p.
Proof.
  intros H. destruct (N.eq_dec s 0) as [->|Hs].
  - rewrite stake_zero by lia. rewrite N.mul_0_l. symmetry. apply N.div_0_l. exact H.
  - destruct (N.eq_dec (bal p) 0) as [Hb|Hb].
    + rewrite stake_zero by lia. rewrite Hb, N.mul_0_r. symmetry. apply N.div_0_l. exact H.
    + apply stake_pos; assumption.
Qed.

Lemma stake_bounds p s : tsh p <> 0 ->
  stake_for_shares p s * tsh p <= s * bal p /\ s * bal p < (stake_for_shares p s + 1) * tsh p.
Proof.
  intros H. rewrite stake_div by exact H. split; [apply div_mul_le|apply div_mul_gt]; exact H.
Qed.

Lemma stake_le_cross p s : stake_for_shares p s * tsh p <= s * bal p.
Proof.
  destruct (N.eq_dec (tsh p) 0) as [H|H].
  - rewrite stake_zero by lia. lia.
  - apply stake_bounds; exact H.
Qed.

Lemma stake_le_bal p s : s <= tsh p -> stake_for_shares p s <= bal p.
Proof.
  intros H. destruct (N.eq_dec (tsh p) 0) as [H0|H0]; [rewrite stake_zero by lia; lia|].
  pose proof (stake_le_cross p s) as L.
  apply (mul_le_cancel_l (tsh p)); [exact H0|].
  assert (s * bal p <= tsh p * bal p) by (apply N.mul_le_mono_r; exact H). lia.
Qed.

Lemma stake_all p : tsh p <> 0 -> stake_for_shares p (tsh p) = bal p.
Proof.
  intros H. rewrite stake_div by exact H. rewrite N.mul_comm. apply N.div_mul. exact H.
Qed.

(* ---------- Deposit ---------- *)
Definition orphan (p : pool) : Prop := tsh p = 0 /\ bal p <> 0.

Lemma deposit_ok_spec p dst src a :
  rcode (deposit p dst src a) = COk ->
  exists m, deposit p dst src a
            = mkRes COk (mkPool (bal p + a) (tsh p + m)) (dst + m) (src - a) m
    /\ a <= src /\ shares_for_stake p a = Some m.
Proof.
  unfold deposit. destruct (shares_for_stake p a) as [m|] eqn:E; [|discriminate].
  destruct (src <? a) eqn:L; [discriminate|]. intros _. exists m. repeat split. lia.
Qed.

Lemma deposit_mints_at_most_prorata_l p dst src a :
  let r := deposit p dst src a in
  rcode r = COk ->
  rpool r = mkPool (bal p + a) (tsh p + rret r) /\
  rdst r = dst + rret r /\ rsrc r + a = src /\
  (tsh p = 0 -> rret r = a) /\
  (tsh p <> 0 -> bal p <> 0 /\ rret r * bal p <= a * tsh p /\ a * tsh p < (rret r + 1) * bal p) /\
  (~ orphan p -> rret r * bal p <= a * tsh p /\ worth (rpool r) (rret r) <= a).
Proof.
  intros r H. destruct (deposit_ok_spec _ _ _ _ H) as [m [E [Ha Hm]]].
  subst r. rewrite E. cbn [rpool rdst rsrc rret].
  split; [reflexivity|]. split; [reflexivity|]. split; [lia|].
  split. { intros Hs. destruct (sfs_some _ _ _ Hm) as [[_ ->]|[Hs' _]]; [reflexivity|contradiction]. }
  split. { intros Hs. apply sfs_bounds; assumption. }
  intros Hno. unfold orphan in Hno.
  assert (Hle : m * bal p <= a * tsh p).
  { destruct (N.eq_dec (tsh p) 0) as [Hs|Hs].
    - assert (bal p = 0) by lia. lia.
    - apply (sfs_bounds _ _ _ Hm Hs). }
  split; [exact Hle|].
  unfold worth. destruct (N.eq_dec (tsh p + m) 0) as [Hz|Hz].
  - rewrite stake_zero; cbn [bal tsh]; lia.
  - rewrite stake_div by (cbn [tsh]; exact Hz). cbn [bal tsh].
    apply N.div_le_upper_bound; [exact Hz|].
    rewrite !N.mul_add_distr_l, !N.mul_add_distr_r. lia.
Qed.

(* the orphan-balance case (shares = 0, balance > 0): the depositor gets
   shares 1:1 and owns the whole pool, i.e. takes the orphan balance *)
Lemma deposit_orphan_l p dst src a :
  tsh p = 0 -> a <= src -> a <> 0 ->
  let r := deposit p dst src a in
  rcode r = COk /\ rret r = a /\ rpool r = mkPool (bal p + a) a /\
  worth (rpool r) (rret r) = bal p + a.
Proof.
  intros Hs Ha Hn r. subst r. unfold deposit. rewrite (sfs_zero_shares _ _ Hs).
  destruct (src <? a) eqn:L; [lia|]. cbn [rcode rret rpool]. rewrite Hs, N.add_0_l.
  repeat split. unfold worth. rewrite <- (stake_all (mkPool (bal p + a) a)) at 2 by (cbn [tsh]; exact Hn).
  reflexivity.
Qed.

Lemma deposit_fails_exactly_l p dst src a :
  let r := deposit p dst src a in
  (rcode r = CInvalidArgument <-> (tsh p <> 0 /\ bal p = 0)) /\
  (rcode r = CInsufficient <-> (~ (tsh p <> 0 /\ bal p = 0) /\ src < a)) /\
  (rcode r <> COk -> rpool r = p /\ rdst r = dst /\ rsrc r = src /\ rret r = 0).
Proof.
  intros r. subst r. unfold deposit.
  destruct (shares_for_stake p a) as [m|] eqn:E.
  - assert (Hn : ~ (tsh p <> 0 /\ bal p = 0)).
    { intros Hc. apply (sfs_none p a) in Hc. congruence. }
    destruct (src <? a) eqn:L; cbn [rcode rpool rdst rsrc rret].
    + split; [split; [discriminate|tauto]|]. split; [split; [intros _; split; [exact Hn|lia]|reflexivity]|].
      intros _. repeat split.
    + split; [split; [discriminate|tauto]|]. split; [split; [discriminate|lia]|]. congruence.
  - apply sfs_none in E. cbn [rcode rpool rdst rsrc rret].
    split; [split; [intros _; exact E|reflexivity]|]. split; [split; [discriminate|tauto]|].
    intros _. repeat split.
Qed.

(* ---------- Withdraw ---------- *)
Lemma withdraw_ok_iff p dst src s :
  rcode (withdraw p dst src s) = COk <-> (s <= src /\ s <= tsh p).
Proof.
  unfold withdraw. destruct (src <? s) eqn:L1; cbn [rcode]; [split; [discriminate|lia]|].
  destruct (tsh p <? s) eqn:L2; cbn [rcode]; [split; [discriminate|lia]|].
  assert (Hle : stake_for_shares p s <= bal p) by (apply stake_le_bal; lia).
  destruct (bal p <? stake_for_shares p s) eqn:L3; [lia|]. cbn [rcode]. split; [lia|reflexivity].
Qed.

Lemma withdraw_ok_eq p dst src s : s <= src -> s <= tsh p ->
  withdraw p dst src s =
  mkRes COk (mkPool (bal p - stake_for_shares p s) (tsh p - s)) (dst + stake_for_shares p s)
        (src - s) (stake_for_shares p s).
Proof.
  intros H1 H2. unfold withdraw. destruct (src <? s) eqn:L1; [lia|].
  destruct (tsh p <? s) eqn:L2; [lia|].
  assert (Hle : stake_for_shares p s <= bal p) by (apply stake_le_bal; lia).
  destruct (bal p <? stake_for_shares p s) eqn:L3; [lia|]. reflexivity.
Qed.

Lemma withdraw_pays_at_most_prorata_l p dst src s :
  let r := withdraw p dst src s in
  rcode r = COk ->
  rret r = worth p s /\
  rret r * tsh p <= s * bal p /\
  (tsh p <> 0 -> s * bal p < (rret r + 1) * tsh p) /\
  rret r <= bal p /\ s <= tsh p /\ s <= src /\
  rpool r = mkPool (bal p - rret r) (tsh p - s) /\
  rdst r = dst + rret r /\ rsrc r = src - s.
Proof.
  intros r H. apply withdraw_ok_iff in H as [H1 H2]. subst r.
  rewrite (withdraw_ok_eq _ _ _ _ H1 H2). cbn [rret rpool rdst rsrc]. unfold worth.
  split; [reflexivity|]. split; [apply stake_le_cross|].
  split; [intros Hs; apply (stake_bounds p s Hs)|].
  split; [apply stake_le_bal; exact H2|]. repeat split; assumption.
Qed.

Lemma withdraw_fails_exactly_l p dst src s :
  let r := withdraw p dst src s in
  (rcode r <> COk <-> (src < s \/ tsh p < s)) /\
  (src < s -> rcode r = CInsufficient /\ rpool r = p /\ rdst r = dst /\ rsrc r = src /\ rret r = 0) /\
  (* the partial failure of the code (holder's shares already reduced) needs
     a holder with more shares than the pool's total *)
  (s <= src -> tsh p < s -> rcode r = CInsufficient /\ rpool r = p /\ rdst r = dst /\ rsrc r = src - s).
Proof.
  intros r. subst r. split.
  - pose proof (withdraw_ok_iff p dst src s) as E. split.
    + intros Hn. destruct (N.le_gt_cases s src); destruct (N.le_gt_cases s (tsh p)); try lia.
      exfalso. apply Hn. apply E. lia.
    + intros Hc Hok. apply E in Hok. lia.
  - split.
    + intros L. unfold withdraw. destruct (src <? s) eqn:L1; [|lia]. repeat split.
    + intros L0 L. unfold withdraw. destruct (src <? s) eqn:L1; [lia|].
      destruct (tsh p <? s) eqn:L2; [|lia]. repeat split.
Qed.

(* ---------- others never lose / price ---------- *)
(* cross-multiplied price comparison bal/tsh <= bal'/tsh'; a pool without
   shares has no price *)
Definition price_le (p p' : pool) : Prop := tsh p <> 0 -> bal p * tsh p' <= bal p' * tsh p.

Lemma worth_mono_price p p' u :
  price_le p p' -> (tsh p' = 0 -> worth p u = 0) -> worth p u <= worth p' u.
Proof.
  intros H Hz. unfold worth in *.
  destruct (N.eq_dec (tsh p') 0) as [Hs'|Hs']; [rewrite (Hz Hs'); lia|].
  destruct (N.eq_dec (tsh p) 0) as [Hs|Hs]; [rewrite (stake_zero p) by lia; lia|].
  rewrite !stake_div by assumption.
  apply div_le_cross; [exact Hs|exact Hs'|]. unfold price_le in H. specialize (H Hs).
  assert (u * (bal p * tsh p') <= u * (bal p' * tsh p)) by (apply N.mul_le_mono_l; exact H). lia.
Qed.

Lemma deposit_price p dst src a :
  rcode (deposit p dst src a) = COk -> price_le p (rpool (deposit p dst src a)).
Proof.
  intros H. destruct (deposit_ok_spec _ _ _ _ H) as [m [E [_ Hm]]]. rewrite E.
  unfold price_le. cbn [rpool bal tsh]. intros Hs.
  pose proof (sfs_bounds _ _ _ Hm Hs) as [_ [L _]].
  rewrite N.mul_add_distr_l, N.mul_add_distr_r. lia.
Qed.

Lemma withdraw_price p dst src s :
  rcode (withdraw p dst src s) = COk -> price_le p (rpool (withdraw p dst src s)).
Proof.
  intros H. apply withdraw_ok_iff in H as [H1 H2]. rewrite (withdraw_ok_eq _ _ _ _ H1 H2).
  unfold price_le. cbn [rpool bal tsh]. intros _.
  pose proof (stake_le_cross p s) as L. pose proof (stake_le_bal p s H2) as Lb.
  rewrite N.mul_sub_distr_l, N.mul_sub_distr_r. lia.
Qed.

Lemma others_never_lose_deposit p dst src a u :
  rcode (deposit p dst src a) = COk ->
  worth p u <= worth (rpool (deposit p dst src a)) u.
Proof.
  intros H. apply worth_mono_price; [apply deposit_price; exact H|].
  destruct (deposit_ok_spec _ _ _ _ H) as [m [E _]]. rewrite E. cbn [rpool tsh].
  intros Hz. unfold worth. apply stake_zero. lia.
Qed.

Lemma others_never_lose_withdraw p dst src s u :
  rcode (withdraw p dst src s) = COk -> u + s <= tsh p ->
  worth p u <= worth (rpool (withdraw p dst src s)) u.
Proof.
  intros H Hu. apply worth_mono_price; [apply withdraw_price; exact H|].
  apply withdraw_ok_iff in H as [H1 H2]. rewrite (withdraw_ok_eq _ _ _ _ H1 H2). cbn [rpool tsh].
  intros Hz. unfold worth. apply stake_zero. lia.
Qed.

(* ---------- slash ---------- *)
Lemma slash_take_le b amount total : slash_take b amount total <= b.
Proof. unfold slash_take. destruct (total =? 0); lia. Qed.

Lemma slash_take_floor b amount total : total <> 0 ->
  slash_take b amount total * total <= b * amount.
Proof.
  intros H. unfold slash_take. destruct (total =? 0) eqn:E; [lia|].
  pose proof (div_mul_le (b * amount) total H) as L.
  assert (N.min b (b * amount / total) <= b * amount / total) by lia.
  assert (N.min b (b * amount / total) * total <= b * amount / total * total)
    by (apply N.mul_le_mono_r; assumption). lia.
Qed.

Lemma slash_take_exact b amount total : total <> 0 -> b <= total -> amount <= total ->
  slash_take b amount total = b * amount / total.
Proof.
  intros H Hb Ha. unfold slash_take. destruct (total =? 0) eqn:E; [lia|].
  assert (b * amount / total <= b); [|lia].
  apply N.div_le_upper_bound; [exact H|].
  assert (b * amount <= b * total) by (apply N.mul_le_mono_l; exact Ha). lia.
Qed.

Lemma slash_take_all b amount total : total <> 0 -> total <= amount ->
  slash_take b amount total = b.
Proof.
  intros H Ha. unfold slash_take. destruct (total =? 0) eqn:E; [lia|].
  assert (b <= b * amount / total); [|lia].
  apply N.div_le_lower_bound; [exact H|].
  assert (b * total <= b * amount) by (apply N.mul_le_mono_l; exact Ha). lia.
Qed.

Lemma slash_same_fraction_l ba bd amount :
  let '(ta, td) := slash_pools ba bd amount in
  ta <= ba /\ td <= bd /\ ta + td <= amount /\
  (* both are the floor of the same fraction amount/(ba+bd) of their pool, capped *)
  (amount <= ba + bd -> ba + bd <> 0 ->
     ta = ba * amount / (ba + bd) /\ td = bd * amount / (ba + bd) /\
     ta * (ba + bd) <= ba * amount < (ta + 1) * (ba + bd) /\
     td * (ba + bd) <= bd * amount < (td + 1) * (ba + bd) /\
     amount <= ta + td + 1) /\
  (ba + bd <= amount -> ta = ba /\ td = bd) /\
  (* same fraction of both pools up to one base unit each *)
  ta * bd <= (td + 1) * ba /\ td * ba <= (ta + 1) * bd.
Proof.
  unfold slash_pools. set (T := ba + bd).
  pose proof (slash_take_le ba amount T) as La. pose proof (slash_take_le bd amount T) as Ld.
  destruct (N.eq_dec T 0) as [HT|HT].
  { assert (ba = 0) by lia. assert (bd = 0) by lia. subst ba bd.
    unfold slash_take. replace (T =? 0) with true by lia. repeat split; try lia. }
  pose proof (slash_take_floor ba amount T HT) as Fa. pose proof (slash_take_floor bd amount T HT) as Fd.
  split; [exact La|]. split; [exact Ld|].
  split.
  { apply (mul_le_cancel_l T); [exact HT|].
    replace (T * amount) with (ba * amount + bd * amount) by (unfold T; lia). lia. }
  split.
  { intros Ha _.
    rewrite (slash_take_exact ba amount T) by (unfold T; lia).
    rewrite (slash_take_exact bd amount T) by (unfold T; lia).
    pose proof (div_mul_le (ba * amount) T HT) as A1. pose proof (div_mul_gt (ba * amount) T HT) as A2.
    pose proof (div_mul_le (bd * amount) T HT) as D1. pose proof (div_mul_gt (bd * amount) T HT) as D2.
    repeat split; try assumption.
    assert (X : T * amount < T * (ba * amount / T + bd * amount / T + 2)).
    { replace (T * amount) with (ba * amount + bd * amount) by (unfold T; lia). lia. }
    apply N.mul_lt_mono_pos_l in X; lia. }
  split.
  { intros Ha. rewrite (slash_take_all ba amount T), (slash_take_all bd amount T) by assumption. split; reflexivity. }
  destruct (N.le_gt_cases T amount) as [Hc|Hc].
  - rewrite (slash_take_all ba amount T), (slash_take_all bd amount T) by assumption. lia.
  - rewrite (slash_take_exact ba amount T) by (unfold T; lia).
    rewrite (slash_take_exact bd amount T) by (unfold T; lia).
    pose proof (div_mul_le (ba * amount) T HT) as A1. pose proof (div_mul_gt (ba * amount) T HT) as A2.
    pose proof (div_mul_le (bd * amount) T HT) as D1. pose proof (div_mul_gt (bd * amount) T HT) as D2.
    set (ta := ba * amount / T) in *. set (td := bd * amount / T) in *.
    split.
    + apply (mul_le_cancel_l T); [exact HT|].
      assert (bd * (ta * T) <= bd * (ba * amount)) by (apply N.mul_le_mono_l; exact A1).
      assert (ba * (bd * amount) <= ba * ((td + 1) * T)) by (apply N.mul_le_mono_l; lia).
      lia.
    + apply (mul_le_cancel_l T); [exact HT|].
      assert (ba * (td * T) <= ba * (bd * amount)) by (apply N.mul_le_mono_l; exact D1).
      assert (bd * (ba * amount) <= bd * ((ta + 1) * T)) by (apply N.mul_le_mono_l; lia).
      lia.
Qed.

(* slashing never raises the price and leaves the shares alone *)
Lemma slash_price ba sa bd amount :
  price_le (mkPool (ba - fst (slash_pools ba bd amount)) sa) (mkPool ba sa).
Proof.
  unfold price_le. cbn [bal tsh]. intros _. apply N.mul_le_mono_r. lia.
Qed.

Lemma others_never_lose_l p dst src x u :
  (rcode (deposit p dst src x) = COk -> worth p u <= worth (rpool (deposit p dst src x)) u) /\
  (rcode (withdraw p dst src x) = COk -> u + x <= tsh p ->
   worth p u <= worth (rpool (withdraw p dst src x)) u).
Proof. split; [apply others_never_lose_deposit|apply others_never_lose_withdraw]. Qed.
