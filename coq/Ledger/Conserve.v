(* C05: conservation of supply and consistency of the share bookkeeping for
   the ledger model of State.v / Ops.v. *)
From Verif Require Import Lib.Base Ledger.SharePool Ledger.State Ledger.Ops Ledger.ConserveMap.

(* ---------- quantity.Move ---------- *)
Lemma move_conserves_l dst src n d' s' :
  qmove dst src n = Some (d', s') -> d' + s' = dst + src /\ d' = dst + n /\ s' + n = src.
Proof.
  unfold qmove. destruct (src <? n) eqn:E; [discriminate|].
  intros H. injection H as <- <-. lia.
Qed.

Lemma move_fail_unchanged_l dst src n : qmove dst src n = None <-> src < n.
Proof. unfold qmove. destruct (src <? n) eqn:E; split; intros H; try discriminate; try reflexivity; lia. Qed.

Lemma move_alias_l x n : (qmove_alias x n = None <-> x < n) /\ (n <= x -> qmove_alias x n = Some x).
Proof.
  unfold qmove_alias. destruct (x <? n) eqn:E; split; try split; intros H; try discriminate; try reflexivity; try lia.
  f_equal. lia.
Qed.

Lemma move_all_l dst src : qmove_all dst src = Some (dst + src, 0).
Proof. unfold qmove_all, qmove. rewrite N.ltb_irrefl. f_equal. f_equal. lia. Qed.

Lemma move_up_to_l dst src n d' s' a :
  qmove_up_to dst src n = (d', s', a) -> a = N.min src n /\ d' = dst + a /\ s' + a = src /\ d' + s' = dst + src.
Proof. unfold qmove_up_to. intros H. injection H as <- <- <-. lia. Qed.

(* ---------- the invariant ---------- *)
Definition WF (s : state) : Prop :=
  NoDup (keys (accts s)) /\ NoDup (keys (deleg s)) /\ NoDup (keys (debdeleg s)) /\
  (forall e, tsh (active (acct s e)) = dsum e s) /\
  (forall e, tsh (debonding (acct s e)) = bsum e s).

Definition Inv (s : state) : Prop := WF s /\ total_supply s = buckets s.

Definition worth (x : account) : N := general x + bal (active x) + bal (debonding x).

(* [Delta s s' up down]: s' is well formed, holds [up - down] more than s, same recorded supply *)
Definition Delta (s s' : state) (up down : N) : Prop :=
  WF s' /\ buckets s' + down = buckets s + up /\ total_supply s' = total_supply s.

Lemma delta_refl s : WF s -> Delta s s 0 0.
Proof. intros H. split; [exact H|split; lia]. Qed.

Lemma delta_trans s s1 s2 u1 d1 u2 d2 :
  Delta s s1 u1 d1 -> Delta s1 s2 u2 d2 -> Delta s s2 (u1 + u2) (d1 + d2).
Proof. intros (W1 & B1 & T1) (W2 & B2 & T2). split; [exact W2|split; lia]. Qed.

Lemma delta_weaken s s' u d u' d' : Delta s s' u d -> u + d' = u' + d -> Delta s s' u' d'.
Proof. intros (W & B & T) H. split; [exact W|split; lia]. Qed.

Lemma delta_inv s s' : Inv s -> Delta s s' 0 0 -> Inv s'.
Proof. intros [W E] (W' & B & T). split; [exact W'|lia]. Qed.

(* ---------- account updates ---------- *)
Lemma acct_set_acct a x s e : acct (set_acct a x s) e = if e =? a then x else acct s e.
Proof.
  unfold acct, set_acct. cbn [accts].
  destruct (N.eqb_spec e a) as [->|Hne].
  - rewrite (mget_mset_same N.eqb neqb_spec). reflexivity.
  - rewrite (mget_mset_other N.eqb neqb_spec) by exact Hne. reflexivity.
Qed.

Lemma acct_upd_same a f s : acct (upd_acct a f s) a = f (acct s a).
Proof. unfold upd_acct. rewrite acct_set_acct, N.eqb_refl. reflexivity. Qed.

Lemma acct_upd_other a f s e : e <> a -> acct (upd_acct a f s) e = acct s e.
Proof.
  intros H. unfold upd_acct. rewrite acct_set_acct.
  destruct (N.eqb_spec e a); [contradiction|reflexivity].
Qed.

Lemma fo_acct (g : account -> N) a s : g acct0 = 0 ->
  fo (fun _ x => g x) a (mget N.eqb a (accts s)) = g (acct s a).
Proof. intros H0. unfold acct, fo. destruct (mget N.eqb a (accts s)); [reflexivity|symmetry; exact H0]. Qed.

Lemma sum_set_acct (g : account -> N) a x s : g acct0 = 0 -> NoDup (keys (accts s)) ->
  msum (fun _ y => g y) (accts (set_acct a x s)) + g (acct s a) = msum (fun _ y => g y) (accts s) + g x.
Proof.
  intros H0 Hnd. cbn [set_acct accts].
  pose proof (msum_mset N.eqb neqb_spec (fun _ y => g y) a x (accts s) Hnd) as H.
  rewrite (fo_acct g a s H0) in H. exact H.
Qed.

Lemma buckets_set_acct a x s : NoDup (keys (accts s)) ->
  buckets (set_acct a x s) + worth (acct s a) = buckets s + worth x.
Proof.
  intros Hnd. unfold buckets, sum_general, sum_active, sum_debonding, worth.
  pose proof (sum_set_acct general a x s eq_refl Hnd).
  pose proof (sum_set_acct (fun y => bal (active y)) a x s eq_refl Hnd).
  pose proof (sum_set_acct (fun y => bal (debonding y)) a x s eq_refl Hnd).
  change (live_lbf (set_acct a x s)) with (live_lbf s).
  cbn [set_acct common_pool gov_deposits fee_acc] in *. lia.
Qed.

(* an account update that keeps both share totals *)
Lemma set_acct_delta a x s : WF s ->
  tsh (active x) = tsh (active (acct s a)) -> tsh (debonding x) = tsh (debonding (acct s a)) ->
  Delta s (set_acct a x s) (worth x) (worth (acct s a)).
Proof.
  intros (N1 & N2 & N3 & HA & HD) Ea Ed. split; [|split].
  - repeat split.
    + cbn [set_acct accts]. apply (nodup_mset N.eqb neqb_spec). exact N1.
    + exact N2.
    + exact N3.
    + intros e. rewrite acct_set_acct. destruct (N.eqb_spec e a) as [->|Hne].
      * rewrite Ea. apply HA.
      * apply HA.
    + intros e. rewrite acct_set_acct. destruct (N.eqb_spec e a) as [->|Hne].
      * rewrite Ed. apply HD.
      * apply HD.
  - pose proof (buckets_set_acct a x s N1). lia.
  - reflexivity.
Qed.

Lemma add_general_delta a n s : WF s -> Delta s (add_general a n s) n 0.
Proof.
  intros W. unfold add_general, upd_acct.
  eapply delta_weaken; [apply set_acct_delta; [exact W|reflexivity|reflexivity]|].
  unfold worth. cbn [with_general general active debonding]. lia.
Qed.

Lemma sub_general_delta a n s : WF s -> n <= general (acct s a) -> Delta s (sub_general a n s) 0 n.
Proof.
  intros W Hle. unfold sub_general, upd_acct.
  eapply delta_weaken; [apply set_acct_delta; [exact W|reflexivity|reflexivity]|].
  unfold worth. cbn [with_general general active debonding]. lia.
Qed.

Lemma add_active_bal_delta a n s : WF s -> Delta s (add_active_bal a n s) n 0.
Proof.
  intros W. unfold add_active_bal, upd_acct.
  eapply delta_weaken; [apply set_acct_delta; [exact W|reflexivity|reflexivity]|].
  unfold worth. cbn [with_active general active debonding bal]. lia.
Qed.

Lemma sub_active_bal_delta a n s : WF s -> n <= bal (active (acct s a)) -> Delta s (sub_active_bal a n s) 0 n.
Proof.
  intros W Hle. unfold sub_active_bal, upd_acct.
  eapply delta_weaken; [apply set_acct_delta; [exact W|reflexivity|reflexivity]|].
  unfold worth. cbn [with_active general active debonding bal]. lia.
Qed.

Lemma add_deb_bal_delta a n s : WF s -> Delta s (add_deb_bal a n s) n 0.
Proof.
  intros W. unfold add_deb_bal, upd_acct.
  eapply delta_weaken; [apply set_acct_delta; [exact W|reflexivity|reflexivity]|].
  unfold worth. cbn [with_debonding general active debonding bal]. lia.
Qed.

Lemma sub_deb_bal_delta a n s : WF s -> n <= bal (debonding (acct s a)) -> Delta s (sub_deb_bal a n s) 0 n.
Proof.
  intros W Hle. unfold sub_deb_bal, upd_acct.
  eapply delta_weaken; [apply set_acct_delta; [exact W|reflexivity|reflexivity]|].
  unfold worth. cbn [with_debonding general active debonding bal]. lia.
Qed.

(* nonce / allowance changes *)
Lemma set_acct_neutral a x s : WF s ->
  general x = general (acct s a) -> active x = active (acct s a) -> debonding x = debonding (acct s a) ->
  Delta s (set_acct a x s) 0 0.
Proof.
  intros W Eg Ea Ed.
  eapply delta_weaken; [apply set_acct_delta; [exact W|rewrite Ea; reflexivity|rewrite Ed; reflexivity]|].
  unfold worth. rewrite Eg, Ea, Ed. lia.
Qed.

(* ---------- scalar updates ---------- *)
Lemma with_common_delta s v : WF s -> Delta s (with_common s v) v (common_pool s).
Proof.
  intros W. split; [exact W|split; [|reflexivity]].
  unfold buckets, sum_general, sum_active, sum_debonding, live_lbf. cbn. lia.
Qed.

Lemma with_gov_delta s v : WF s -> Delta s (with_gov s v) v (gov_deposits s).
Proof.
  intros W. split; [exact W|split; [|reflexivity]].
  unfold buckets, sum_general, sum_active, sum_debonding, live_lbf. cbn. lia.
Qed.

Lemma with_feeacc_delta s v : WF s -> Delta s (with_feeacc s v) v (fee_acc s).
Proof.
  intros W. split; [exact W|split; [|reflexivity]].
  unfold buckets, sum_general, sum_active, sum_debonding, live_lbf. cbn. lia.
Qed.

Lemma with_lbf_delta s v b : WF s ->
  Delta s (with_lbf s v b) (if b then 0 else v) (live_lbf s).
Proof.
  intros W. split; [exact W|split; [|reflexivity]].
  unfold buckets, sum_general, sum_active, sum_debonding, live_lbf. cbn. destruct b; lia.
Qed.

(* ---------- share updates ---------- *)
Lemma fo_dget e d e' s :
  fo (fun (k : k2) v => if fst k =? e' then v else 0) (e, d) (mget k2_eqb (e, d) (deleg s))
  = if e =? e' then dget s e d else 0.
Proof.
  unfold dget, fo. cbn [fst]. destruct (mget k2_eqb (e, d) (deleg s)); [reflexivity|].
  destruct (e =? e'); reflexivity.
Qed.

Lemma dsum_set_deleg e d v s e' : NoDup (keys (deleg s)) ->
  dsum e' (set_deleg e d v s) + (if e =? e' then dget s e d else 0)
  = dsum e' s + (if e =? e' then v else 0).
Proof.
  intros Hnd. unfold dsum. cbn [set_deleg deleg]. rewrite <- fo_dget.
  destruct (N.eqb_spec v 0) as [->|Hv].
  - pose proof (msum_mdel k2_eqb k2_eqb_spec (fun (k : k2) v => if fst k =? e' then v else 0) (e, d) (deleg s) Hnd) as H.
    destruct (e =? e'); lia.
  - pose proof (msum_mset k2_eqb k2_eqb_spec (fun (k : k2) v => if fst k =? e' then v else 0) (e, d) v (deleg s) Hnd) as H.
    cbn [fst] in H. exact H.
Qed.

Lemma nodup_set_deleg e d v s : NoDup (keys (deleg s)) -> NoDup (keys (deleg (set_deleg e d v s))).
Proof.
  intros H. cbn [set_deleg deleg]. destruct (v =? 0).
  - apply (nodup_mdel k2_eqb k2_eqb_spec). exact H.
  - apply (nodup_mset k2_eqb k2_eqb_spec). exact H.
Qed.

Lemma dget_le_dsum s e d : dget s e d <= dsum e s.
Proof.
  unfold dget, dsum. destruct (mget k2_eqb (e, d) (deleg s)) as [v|] eqn:E; [|lia].
  pose proof (mget_le_msum k2_eqb k2_eqb_spec (fun (k : k2) v => if fst k =? e then v else 0) (e, d) v (deleg s) E) as H.
  cbn [fst] in H. rewrite N.eqb_refl in H. exact H.
Qed.

Lemma fo_bget e d ep e' s :
  fo (fun (k : k3) v => if fst (fst k) =? e' then v else 0) (e, d, ep) (mget k3_eqb (e, d, ep) (debdeleg s))
  = if e =? e' then bget s e d ep else 0.
Proof.
  unfold bget, fo. cbn [fst]. destruct (mget k3_eqb (e, d, ep) (debdeleg s)); [reflexivity|].
  destruct (e =? e'); reflexivity.
Qed.

Lemma bsum_set_deb e d ep v s e' : NoDup (keys (debdeleg s)) ->
  bsum e' (set_deb e d ep v s) + (if e =? e' then bget s e d ep else 0)
  = bsum e' s + (if e =? e' then v else 0).
Proof.
  intros Hnd. unfold bsum. cbn [set_deb debdeleg]. rewrite <- fo_bget.
  pose proof (msum_mset k3_eqb k3_eqb_spec (fun (k : k3) v => if fst (fst k) =? e' then v else 0) (e, d, ep) v (debdeleg s) Hnd) as H.
  cbn [fst] in H. exact H.
Qed.

Lemma bsum_del_deb e d ep s e' : NoDup (keys (debdeleg s)) ->
  bsum e' (del_deb e d ep s) + (if e =? e' then bget s e d ep else 0) = bsum e' s.
Proof.
  intros Hnd. unfold bsum. cbn [del_deb debdeleg]. rewrite <- fo_bget.
  exact (msum_mdel k3_eqb k3_eqb_spec (fun (k : k3) v => if fst (fst k) =? e' then v else 0) (e, d, ep) (debdeleg s) Hnd).
Qed.

Lemma bget_le_bsum s e d ep : bget s e d ep <= bsum e s.
Proof.
  unfold bget, bsum. destruct (mget k3_eqb (e, d, ep) (debdeleg s)) as [v|] eqn:E; [|lia].
  pose proof (mget_le_msum k3_eqb k3_eqb_spec (fun (k : k3) v => if fst (fst k) =? e then v else 0) (e, d, ep) v (debdeleg s) E) as H.
  cbn [fst] in H. rewrite N.eqb_refl in H. exact H.
Qed.

(* generic: change the active share total of e by the same amount as delegation (e,d) *)
Lemma active_shares_delta e d (t v : N) s : WF s ->
  t + dget s e d = tsh (active (acct s e)) + v ->
  Delta s (set_deleg e d v (upd_acct e (fun x => with_active x (mkPool (bal (active x)) t)) s)) 0 0.
Proof.
  intros (N1 & N2 & N3 & HA & HD) Ht.
  set (s1 := upd_acct e (fun x => with_active x (mkPool (bal (active x)) t)) s).
  split; [|split].
  - repeat split.
    + cbn [set_deleg accts]. unfold s1, upd_acct. cbn [set_acct accts].
      apply (nodup_mset N.eqb neqb_spec). exact N1.
    + apply nodup_set_deleg. exact N2.
    + exact N3.
    + intros e'.
      pose proof (dsum_set_deleg e d v s1 e' N2) as H.
      change (dget s1 e d) with (dget s e d) in H. change (dsum e' s1) with (dsum e' s) in H.
      change (acct (set_deleg e d v s1) e') with (acct s1 e').
      subst s1. destruct (N.eqb_spec e e') as [Heq|Hne]; [subst e'|].
      * rewrite acct_upd_same. cbn [with_active active tsh]. specialize (HA e). lia.
      * rewrite acct_upd_other by congruence. specialize (HA e'). lia.
    + intros e'. change (acct (set_deleg e d v s1) e') with (acct s1 e').
      change (bsum e' (set_deleg e d v s1)) with (bsum e' s).
      subst s1. destruct (N.eqb_spec e' e) as [->|Hne].
      * rewrite acct_upd_same. cbn [with_active debonding]. apply HD.
      * rewrite acct_upd_other by exact Hne. apply HD.
  - change (buckets (set_deleg e d v s1)) with (buckets s1).
    unfold s1, upd_acct.
    pose proof (buckets_set_acct e ((fun x => with_active x (mkPool (bal (active x)) t)) (acct s e)) s N1) as H.
    unfold worth in H. cbn [with_active general active debonding bal] in H. lia.
  - reflexivity.
Qed.

Lemma mint_active_delta e d m s : WF s -> Delta s (mint_active e d m s) 0 0.
Proof.
  intros W. unfold mint_active.
  change (dget (upd_acct e (fun x => with_active x (mkPool (bal (active x)) (tsh (active x) + m))) s) e d)
    with (dget s e d).
  apply (active_shares_delta e d (tsh (active (acct s e)) + m) (dget s e d + m) s W). lia.
Qed.

Lemma burn_active_delta e d m s : WF s -> m <= dget s e d -> Delta s (burn_active e d m s) 0 0.
Proof.
  intros W Hle. unfold burn_active.
  pose proof (dget_le_dsum s e d) as H1. destruct W as (N1 & N2 & N3 & HA & HD).
  pose proof (HA e) as H2.
  apply (active_shares_delta e d (tsh (active (acct s e)) - m) (dget s e d - m) s); [repeat split; assumption|lia].
Qed.

Lemma deb_shares_wf e d ep (t : N) s (s2 : state) (v : N) : WF s ->
  accts s2 = accts (upd_acct e (fun x => with_debonding x (mkPool (bal (debonding x)) t)) s) ->
  deleg s2 = deleg s ->
  NoDup (keys (debdeleg s2)) ->
  (forall e', bsum e' s2 + (if e =? e' then bget s e d ep else 0) = bsum e' s + (if e =? e' then v else 0)) ->
  t + bget s e d ep = tsh (debonding (acct s e)) + v ->
  WF s2.
Proof.
  intros (N1 & N2 & N3 & HA & HD) Eacc Edel Hnd Hsum Ht.
  assert (Hacct : forall e', acct s2 e' = acct (upd_acct e (fun x => with_debonding x (mkPool (bal (debonding x)) t)) s) e').
  { intros e'. unfold acct. rewrite Eacc. reflexivity. }
  repeat split.
  - rewrite Eacc. unfold upd_acct. cbn [set_acct accts]. apply (nodup_mset N.eqb neqb_spec). exact N1.
  - rewrite Edel. exact N2.
  - exact Hnd.
  - intros e'. rewrite Hacct. unfold dsum. rewrite Edel. fold (dsum e' s).
    destruct (N.eqb_spec e' e) as [->|Hne].
    + rewrite acct_upd_same. cbn [with_debonding active]. apply HA.
    + rewrite acct_upd_other by exact Hne. apply HA.
  - intros e'. rewrite Hacct. specialize (Hsum e').
    destruct (N.eqb_spec e e') as [Heq|Hne]; [subst e'|].
    + rewrite acct_upd_same. cbn [with_debonding debonding tsh]. specialize (HD e). lia.
    + rewrite acct_upd_other by congruence. specialize (HD e'). lia.
Qed.

Lemma deb_shares_buckets e t s (s2 : state) : NoDup (keys (accts s)) ->
  accts s2 = accts (upd_acct e (fun x => with_debonding x (mkPool (bal (debonding x)) t)) s) ->
  common_pool s2 = common_pool s -> gov_deposits s2 = gov_deposits s -> fee_acc s2 = fee_acc s ->
  vq_done s2 = vq_done s -> last_block_fees s2 = last_block_fees s ->
  buckets s2 = buckets s.
Proof.
  intros N1 Eacc E1 E2 E3 E4 E5.
  pose proof (buckets_set_acct e ((fun x => with_debonding x (mkPool (bal (debonding x)) t)) (acct s e)) s N1) as H.
  unfold worth in H. cbn [with_debonding general active debonding bal] in H.
  unfold buckets, sum_general, sum_active, sum_debonding, live_lbf in *.
  rewrite Eacc, E1, E2, E3, E4, E5. unfold upd_acct.
  cbn [set_acct accts common_pool gov_deposits fee_acc vq_done last_block_fees] in H.
  cbn [set_acct accts]. lia.
Qed.

Lemma mint_deb_delta e d ep m s : WF s -> Delta s (mint_deb e d ep m s) 0 0.
Proof.
  intros W. unfold mint_deb.
  set (s1 := upd_acct e (fun x => with_debonding x (mkPool (bal (debonding x)) (tsh (debonding x) + m))) s).
  change (bget s1 e d ep) with (bget s e d ep).
  pose proof W as (N1 & N2 & N3 & HA & HD).
  split; [|split].
  - apply (deb_shares_wf e d ep (tsh (debonding (acct s e)) + m) s _ (bget s e d ep + m) W); try reflexivity.
    + cbn [set_deb debdeleg]. apply (nodup_mset k3_eqb k3_eqb_spec). exact N3.
    + intros e'. pose proof (bsum_set_deb e d ep (bget s e d ep + m) s1 e' N3) as H.
      change (bget s1 e d ep) with (bget s e d ep) in H. change (bsum e' s1) with (bsum e' s) in H. exact H.
    + lia.
  - rewrite (deb_shares_buckets e (tsh (debonding (acct s e)) + m) s _ N1); try reflexivity; try lia.
  - reflexivity.
Qed.

Lemma burn_deb_delta e d ep m s : WF s -> m = bget s e d ep -> Delta s (burn_deb e d ep m s) 0 0.
Proof.
  intros W Hm. unfold burn_deb.
  set (s1 := upd_acct e (fun x => with_debonding x (mkPool (bal (debonding x)) (tsh (debonding x) - m))) s).
  pose proof W as (N1 & N2 & N3 & HA & HD).
  pose proof (bget_le_bsum s e d ep) as Hle. pose proof (HD e) as He.
  split; [|split].
  - apply (deb_shares_wf e d ep (tsh (debonding (acct s e)) - m) s _ 0 W); try reflexivity.
    + cbn [del_deb debdeleg]. apply (nodup_mdel k3_eqb k3_eqb_spec). exact N3.
    + intros e'. pose proof (bsum_del_deb e d ep s1 e' N3) as H.
      change (bget s1 e d ep) with (bget s e d ep) in H. change (bsum e' s1) with (bsum e' s) in H.
      destruct (e =? e'); lia.
    + lia.
  - rewrite (deb_shares_buckets e (tsh (debonding (acct s e)) - m) s _ N1); try reflexivity; try lia.
  - reflexivity.
Qed.

(* ---------- operations ---------- *)
Ltac caseif :=
  match goal with
  | |- context [if ?c then _ else _] => destruct c eqn:?
  end.
Ltac failb := cbn [snd fst]; first [apply delta_refl; assumption | assumption].

Definition Keep (s s' : state) : Prop := Delta s s' 0 0.

Lemma keep_refl s : WF s -> Keep s s.
Proof. apply delta_refl. Qed.

Lemma keep_trans s s1 s2 : Keep s s1 -> Keep s1 s2 -> Keep s s2.
Proof. intros A B. exact (delta_trans _ _ _ _ _ _ _ A B). Qed.

Lemma keep_wf s s' : Keep s s' -> WF s'.
Proof. intros H. exact (proj1 H). Qed.

Lemma auth_keep p s signer n fee : WF s -> Keep s (snd (auth p s signer n fee)).
Proof.
  intros W. unfold auth, qmove.
  repeat (caseif; [failb|]). cbn [snd].
  set (a := acct s signer).
  assert (D1 : Delta s (with_feeacc s (fee_acc s + fee)) (fee_acc s + fee) (fee_acc s))
    by (apply with_feeacc_delta; exact W).
  assert (D2 : Delta (with_feeacc s (fee_acc s + fee))
                 (set_acct signer (with_nonce (with_general a (general a - fee)) ((nonce a + 1) mod two64))
                    (with_feeacc s (fee_acc s + fee)))
                 (worth (with_nonce (with_general a (general a - fee)) ((nonce a + 1) mod two64))) (worth a)).
  { apply (set_acct_delta signer _ (with_feeacc s (fee_acc s + fee)) (proj1 D1)); reflexivity. }
  eapply delta_weaken; [exact (delta_trans _ _ _ _ _ _ _ D1 D2)|].
  unfold worth. cbn [with_nonce with_general general active debonding]. subst a. lia.
Qed.

Lemma general_le_buckets s a : NoDup (keys (accts s)) -> general (acct s a) <= buckets s.
Proof.
  intros Hnd. unfold buckets, sum_general.
  assert (general (acct s a) <= msum (fun _ x => general x) (accts s)); [|lia].
  unfold acct. destruct (mget N.eqb a (accts s)) as [x|] eqn:E; [|cbn; lia].
  exact (mget_le_msum N.eqb neqb_spec (fun _ y => general y) a x (accts s) E).
Qed.

(* burn: buckets and recorded supply both drop by the amount *)
Lemma burn_impl_inv p s from amt :
  Inv s ->
  Inv (snd (burn_impl p s from amt)) /\
  total_supply s = total_supply (snd (burn_impl p s from amt))
                   + (match fst (burn_impl p s from amt) with ROk => amt | _ => 0 end).
Proof.
  intros [W E]. unfold burn_impl.
  repeat (caseif; [cbn [snd fst]; split; [split; assumption|lia]|]).
  cbn [snd fst].
  pose proof (general_le_buckets s from (proj1 W)) as Hle.
  pose proof (sub_general_delta from amt s W ltac:(lia)) as (W1 & B1 & T1).
  destruct (total_supply s <? amt) eqn:Hts; [lia|].
  split; [split|].
  - exact W1.
  - change (buckets (with_supply (sub_general from amt s) (total_supply s - amt)))
      with (buckets (sub_general from amt s)). cbn [with_supply total_supply]. lia.
  - cbn [with_supply total_supply]. lia.
Qed.

Lemma transfer_impl_keep p s from to amt : WF s -> Keep s (snd (transfer_impl p s from to amt)).
Proof.
  intros W. unfold transfer_impl, qmove.
  caseif; [failb|]. caseif.
  - caseif; [failb|]. cbn [snd]. apply N.eqb_eq in Heqb0. subst to.
    apply set_acct_neutral; [exact W|reflexivity..].
  - caseif; [failb|]. repeat (caseif; [failb|]). cbn [snd].
    apply N.eqb_neq in Heqb0.
    assert (D1 : Delta s (add_general to amt s) amt 0) by (apply add_general_delta; exact W).
    assert (D2 : Delta (add_general to amt s) (sub_general from amt (add_general to amt s)) 0 amt).
    { apply sub_general_delta; [exact (proj1 D1)|].
      unfold add_general. rewrite acct_upd_other by exact Heqb0. lia. }
    eapply delta_weaken; [exact (delta_trans _ _ _ _ _ _ _ D1 D2)|lia].
Qed.

Lemma add_escrow_keep p s from escrow amt g : WF s -> Keep s (snd (add_escrow p s from escrow amt g)).
Proof.
  intros W. unfold add_escrow.
  repeat (caseif; [failb|]).
  destruct (shares_for_stake (active (acct s escrow)) amt) as [m|]; [|failb].
  repeat (caseif; [failb|]). cbn [snd].
  assert (D1 : Delta s (sub_general from amt s) 0 amt) by (apply sub_general_delta; [exact W|lia]).
  assert (D2 := add_active_bal_delta escrow amt _ (proj1 D1)).
  assert (D3 := mint_active_delta escrow from m _ (proj1 D2)).
  eapply delta_weaken; [exact (delta_trans _ _ _ _ _ _ _ (delta_trans _ _ _ _ _ _ _ D1 D2) D3)|lia].
Qed.

Lemma reclaim_keep p s to escrow shares epoch g : WF s -> Keep s (snd (reclaim_escrow p s to escrow shares epoch g)).
Proof.
  intros W. unfold reclaim_escrow.
  repeat (caseif; [failb|]).
  destruct (shares_for_stake (debonding (acct s escrow)) _) as [m|]; [|failb].
  cbn [snd].
  set (pay := stake_for_shares (active (acct s escrow)) shares) in *.
  assert (D1 : Delta s (sub_active_bal escrow pay s) 0 pay) by (apply sub_active_bal_delta; [exact W|lia]).
  assert (D2 : Delta (sub_active_bal escrow pay s) (burn_active escrow to shares (sub_active_bal escrow pay s)) 0 0).
  { apply burn_active_delta; [exact (proj1 D1)|].
    change (dget (sub_active_bal escrow pay s) escrow to) with (dget s escrow to). lia. }
  assert (D3 := add_deb_bal_delta escrow pay _ (proj1 D2)).
  assert (D4 := mint_deb_delta escrow to (epoch + p_deb_interval p) m _ (proj1 D3)).
  eapply delta_weaken;
    [exact (delta_trans _ _ _ _ _ _ _ (delta_trans _ _ _ _ _ _ _ (delta_trans _ _ _ _ _ _ _ D1 D2) D3) D4)|lia].
Qed.

Lemma allow_keep p s addr benef neg amt g : WF s -> Keep s (snd (allow_op p s addr benef neg amt g)).
Proof.
  intros W. unfold allow_op.
  repeat (caseif; [failb|]). cbn zeta.
  repeat (caseif; [failb|]). cbn [snd].
  apply set_acct_neutral; [exact W|reflexivity..].
Qed.

Lemma withdraw_keep p s to from amt g : WF s -> Keep s (snd (withdraw_op p s to from amt g)).
Proof.
  intros W. unfold withdraw_op, qmove.
  repeat (caseif; [failb|]).
  destruct (aget to (allow (acct s from))) as [cur|]; [|failb].
  repeat (caseif; [failb|]). cbn zeta.
  repeat (caseif; [failb|]). cbn [snd].
  apply N.eqb_neq in Heqb3.
  assert (D1 : Delta s (add_general to amt s) amt 0) by (apply add_general_delta; exact W).
  assert (D2 : Delta (add_general to amt s) (sub_general from amt (add_general to amt s)) 0 amt).
  { apply sub_general_delta; [exact (proj1 D1)|].
    unfold add_general. rewrite acct_upd_other by congruence. lia. }
  match goal with |- Keep s (upd_acct from ?f ?s2) =>
    assert (D3 : Delta s2 (upd_acct from f s2) 0 0)
      by (unfold upd_acct; apply set_acct_neutral; [exact (proj1 D2)|reflexivity..])
  end.
  eapply delta_weaken;
    [exact (delta_trans _ _ _ _ _ _ _ (delta_trans _ _ _ _ _ _ _ D1 D2) D3)|lia].
Qed.

Lemma gov_submit_keep p s from dep b1 b2 g : WF s -> Keep s (snd (gov_submit p s from dep b1 b2 g)).
Proof.
  intros W. unfold gov_submit.
  repeat (caseif; [failb|]). cbn [snd].
  assert (D1 : Delta s (sub_general from dep s) 0 dep) by (apply sub_general_delta; [exact W|lia]).
  assert (D2 := with_gov_delta (sub_general from dep s) (gov_deposits s + dep) (proj1 D1)).
  eapply delta_weaken; [exact (delta_trans _ _ _ _ _ _ _ D1 D2)|].
  change (gov_deposits (sub_general from dep s)) with (gov_deposits s). lia.
Qed.

(* ---------- block-level operations ---------- *)
Lemma pay_voters_delta voters : forall s left share s' left',
  WF s -> pay_voters s left share voters = Some (s', left') ->
  left' <= left /\ Delta s s' (left - left') 0
  /\ common_pool s' = common_pool s /\ vq_done s' = vq_done s /\ last_block_fees s' = last_block_fees s.
Proof.
  induction voters as [|v r IH]; intros s left share s' left' W H; cbn [pay_voters] in H.
  - injection H as <- <-. split; [lia|]. split; [|repeat split].
    eapply delta_weaken; [apply delta_refl; exact W|lia].
  - destruct (left <? share) eqn:E; [discriminate|].
    pose proof (add_general_delta v share s W) as D1.
    destruct (IH _ _ _ _ _ (proj1 D1) H) as (Hle & D2 & E1 & E2 & E3).
    split; [lia|]. split; [|repeat split; assumption].
    eapply delta_weaken; [exact (delta_trans _ _ _ _ _ _ _ D1 D2)|lia].
Qed.

Lemma fees_vq_keep p s pr n vs : WF s -> Keep s (snd (fees_vq p s pr n vs)).
Proof.
  intros W. unfold fees_vq.
  destruct (vq_done s) eqn:Hvq; [failb|].
  set (lbf := last_block_fees s).
  assert (D0 : Delta s (with_lbf s lbf true) 0 lbf).
  { eapply delta_weaken; [apply with_lbf_delta; exact W|]. unfold live_lbf. rewrite Hvq. subst lbf. lia. }
  caseif.
  { cbn [snd]. eapply delta_weaken; [exact D0|]. apply N.eqb_eq in Heqb. lia. }
  caseif; [failb|].
  set (s0 := with_lbf s lbf true) in *.
  set (share_next := if p_w_vote p + p_w_next p =? 0 then 0 else lbf / n * p_w_next p / (p_w_vote p + p_w_next p)) in *.
  set (share_vote := if p_w_vote p + p_w_next p =? 0 then 0 else lbf / n - share_next) in *.
  set (next_total := share_next * N.of_nat (length vs)) in *.
  clearbody next_total share_vote. clearbody share_next.
  match goal with |- Keep s (snd match ?x with _ => _ end) => set (step1 := x) end.
  assert (H1 : match step1 with
               | None => True
               | Some (s1, left1) => left1 <= lbf /\ Delta s0 s1 (lbf - left1) 0 /\ common_pool s1 = common_pool s
                                     /\ vq_done s1 = true /\ last_block_fees s1 = lbf
               end).
  { subst step1. destruct pr as [pa|].
    - caseif.
      + split; [lia|]. split; [|repeat split].
        eapply delta_weaken; [apply delta_refl; exact (proj1 D0)|lia].
      + caseif; [exact I|]. split; [lia|]. split; [|repeat split].
        eapply delta_weaken; [apply add_general_delta; exact (proj1 D0)|lia].
    - split; [lia|]. split; [|repeat split].
      eapply delta_weaken; [apply delta_refl; exact (proj1 D0)|lia]. }
  destruct step1 as [[s1 left1]|]; [|failb].
  destruct H1 as (Hle1 & D1 & C1 & V1 & L1).
  match goal with |- Keep s (snd match ?x with _ => _ end) => set (step2 := x) end.
  assert (H2 : match step2 with
               | None => True
               | Some (s2, left2) => left2 <= left1 /\ Delta s1 s2 (left1 - left2) 0
               end).
  { subst step2. caseif.
    - split; [lia|]. eapply delta_weaken; [apply delta_refl; exact (proj1 D1)|lia].
    - destruct (pay_voters s1 left1 _ vs) as [[s2 left2]|] eqn:Epv; [|exact I].
      destruct (pay_voters_delta vs _ _ _ _ _ (proj1 D1) Epv) as (Hle & D2 & _). split; assumption. }
  destruct step2 as [[s2 left2]|]; [|failb].
  destruct H2 as (Hle2 & D2). cbn [snd].
  pose proof (with_common_delta s2 (common_pool s2 + left2) (proj1 D2)) as D3.
  eapply delta_weaken;
    [exact (delta_trans _ _ _ _ _ _ _ (delta_trans _ _ _ _ _ _ _ (delta_trans _ _ _ _ _ _ _ D0 D1) D2) D3)|lia].
Qed.

Lemma fees_p_keep p s pr : WF s -> Keep s (snd (fees_p p s pr)).
Proof.
  intros W. unfold fees_p.
  destruct (vq_done s) eqn:Hvq; [|failb]. cbn [negb].
  assert (Hl : live_lbf s = 0) by (unfold live_lbf; rewrite Hvq; reflexivity).
  caseif.
  { cbn [snd]. eapply delta_weaken; [apply with_lbf_delta; exact W|]. lia. }
  repeat (caseif; [failb|]). cbn [snd].
  set (total := fee_acc s) in *.
  set (persist := total * (p_w_vote p + p_w_next p) / (p_w_vote p + p_w_next p + p_w_propose p)) in *.
  pose proof (with_lbf_delta s persist false W) as D1. cbn iota in D1. rewrite Hl in D1.
  pose proof (with_feeacc_delta _ (total - persist) (proj1 D1)) as D2.
  change (fee_acc (with_lbf s persist false)) with total in D2.
  set (s1 := with_feeacc (with_lbf s persist false) (total - persist)) in *.
  assert (D12 : Delta s s1 0 0).
  { eapply delta_weaken; [exact (delta_trans _ _ _ _ _ _ _ D1 D2)|lia]. }
  match goal with |- Keep s (with_feeacc (with_common ?x _) 0) => set (s2 := x) end.
  assert (D3 : Delta s1 s2 0 0 /\ fee_acc s2 <= total - persist).
  { subst s2. destruct pr as [pa|].
    - caseif.
      + split; [apply delta_refl; exact (proj1 D12)|]. cbn. lia.
      + pose proof (add_general_delta pa (total - persist) s1 (proj1 D12)) as Da.
        pose proof (with_feeacc_delta _ 0 (proj1 Da)) as Db.
        change (fee_acc (add_general pa (total - persist) s1)) with (total - persist) in Db.
        split; [|cbn; lia].
        eapply delta_weaken; [exact (delta_trans _ _ _ _ _ _ _ Da Db)|lia].
    - split; [apply delta_refl; exact (proj1 D12)|]. cbn. lia. }
  destruct D3 as [D3 Hf].
  pose proof (with_common_delta s2 (common_pool s2 + fee_acc s2) (proj1 D3)) as D4.
  pose proof (with_feeacc_delta _ 0 (proj1 D4)) as D5.
  change (fee_acc (with_common s2 (common_pool s2 + fee_acc s2))) with (fee_acc s2) in D5.
  eapply delta_weaken;
    [exact (delta_trans _ _ _ _ _ _ _ (delta_trans _ _ _ _ _ _ _ (delta_trans _ _ _ _ _ _ _ D12 D3) D4) D5)|lia].
Qed.

Lemma fees_p_boundary p s pr : fst (fees_p p s pr) = ROk ->
  fee_acc (snd (fees_p p s pr)) = 0 /\ vq_done (snd (fees_p p s pr)) = false.
Proof.
  unfold fees_p.
  caseif; [cbn [fst]; discriminate|].
  caseif; [intros _; apply N.eqb_eq in Heqb0; cbn; split; [exact Heqb0|reflexivity]|].
  caseif; [cbn [fst]; discriminate|].
  caseif; [cbn [fst]; discriminate|].
  intros _. cbn [snd]. split; [reflexivity|].
  destruct pr as [pa|]; [caseif|]; reflexivity.
Qed.

Lemma slash_take_le b amount total : slash_take b amount total <= b.
Proof. unfold slash_take. destruct (total =? 0); lia. Qed.

Lemma slash_keep s addr amount : WF s -> Keep s (snd (slash s addr amount)).
Proof.
  intros W. unfold slash, slash_pools.
  set (a := acct s addr).
  set (ta := slash_take (bal (active a)) amount (bal (active a) + bal (debonding a))).
  set (td := slash_take (bal (debonding a)) amount (bal (active a) + bal (debonding a))).
  pose proof (slash_take_le (bal (active a)) amount (bal (active a) + bal (debonding a))) as Ha.
  pose proof (slash_take_le (bal (debonding a)) amount (bal (active a) + bal (debonding a))) as Hd.
  fold ta in Ha. fold td in Hd.
  caseif; [failb|]. cbn [snd].
  pose proof (with_common_delta s (common_pool s + (ta + td)) W) as D1.
  pose proof (sub_active_bal_delta addr ta _ (proj1 D1) Ha) as D2.
  assert (D3 : Delta (sub_active_bal addr ta (with_common s (common_pool s + (ta + td)))) (sub_deb_bal addr td (sub_active_bal addr ta (with_common s (common_pool s + (ta + td))))) 0 td).
  { apply sub_deb_bal_delta; [exact (proj1 D2)|].
    unfold sub_active_bal. rewrite acct_upd_same. cbn [with_active debonding]. exact Hd. }
  eapply delta_weaken;
    [exact (delta_trans _ _ _ _ _ _ _ (delta_trans _ _ _ _ _ _ _ D1 D2) D3)|lia].
Qed.

Lemma reward_one_keep s addr rate q s' : WF s -> reward_one s addr rate q = Some s' -> Keep s s'.
Proof.
  intros W. unfold reward_one, commission.
  caseif; [intros H; injection H as <-; apply keep_refl; exact W|].
  caseif; [intros H; injection H as <-; apply keep_refl; exact W|].
  caseif; [discriminate|].
  set (com := q * rate / commission_den) in *.
  match goal with |- context [if (q - com) =? 0 then s else ?x] => set (sx := x) end.
  assert (D1 : Keep s (if q - com =? 0 then s else sx)).
  { caseif; [apply keep_refl; exact W|]. subst sx.
    pose proof (with_common_delta s (common_pool s - (q - com)) W) as Da.
    pose proof (add_active_bal_delta addr (q - com) _ (proj1 Da)) as Db.
    eapply delta_weaken; [exact (delta_trans _ _ _ _ _ _ _ Da Db)|lia]. }
  set (s1 := if q - com =? 0 then s else sx) in *.
  caseif; [intros H; injection H as <-; exact D1|].
  destruct (shares_for_stake _ com) as [m|]; [|discriminate].
  caseif; [discriminate|]. intros H; injection H as <-.
  pose proof (with_common_delta s1 (common_pool s1 - com) (proj1 D1)) as Da.
  pose proof (add_active_bal_delta addr com _ (proj1 Da)) as Db.
  pose proof (mint_active_delta addr addr m _ (proj1 Db)) as Dc.
  eapply delta_weaken;
    [exact (delta_trans _ _ _ _ _ _ _ (delta_trans _ _ _ _ _ _ _ (delta_trans _ _ _ _ _ _ _ D1 Da) Db) Dc)|lia].
Qed.

Lemma rewards_loop_keep factor scale who : forall s s', WF s -> rewards_loop s factor scale who = Some s' -> Keep s s'.
Proof.
  induction who as [|[addr rate] r IH]; intros s s' W; cbn [rewards_loop].
  - intros H; injection H as <-. apply keep_refl; exact W.
  - destruct (reward_one s addr rate _) as [s1|] eqn:E; [|discriminate].
    intros H. pose proof (reward_one_keep _ _ _ _ _ W E) as K1.
    exact (keep_trans _ _ _ K1 (IH _ _ (keep_wf _ _ K1) H)).
Qed.

Lemma add_rewards_keep s scale factor who : WF s -> Keep s (snd (add_rewards s scale factor who)).
Proof.
  intros W. unfold add_rewards. destruct scale as [sc|]; [|failb].
  destruct (rewards_loop s factor sc who) as [s1|] eqn:E; [|failb].
  cbn [snd]. exact (rewards_loop_keep _ _ _ _ _ W E).
Qed.

Lemma add_reward_single_keep s scale factor num den addr rate :
  WF s -> Keep s (snd (add_reward_single s scale factor num den addr rate)).
Proof.
  intros W. unfold add_reward_single. destruct scale as [sc|]; [|failb].
  caseif; [failb|].
  destruct (reward_one s addr rate _) as [s1|] eqn:E; [|failb].
  cbn [snd]. exact (reward_one_keep _ _ _ _ _ W E).
Qed.

Lemma debond_one_keep s k s' : WF s -> debond_one s k = Some s' -> Keep s s'.
Proof.
  intros W. unfold debond_one. destruct k as [[e d] ep].
  destruct (mget k3_eqb (e, d, ep) (debdeleg s)) as [sh|] eqn:E;
    [|intros H; injection H as <-; apply keep_refl; exact W].
  repeat (caseif; [discriminate|]). intros H; injection H as <-.
  set (pay := stake_for_shares (debonding (acct s e)) sh) in *.
  assert (D1 : Delta s (sub_deb_bal e pay s) 0 pay) by (apply sub_deb_bal_delta; [exact W|lia]).
  assert (D2 : Delta (sub_deb_bal e pay s) (burn_deb e d ep sh (sub_deb_bal e pay s)) 0 0).
  { apply burn_deb_delta; [exact (proj1 D1)|].
    change (bget (sub_deb_bal e pay s) e d ep) with (bget s e d ep). unfold bget. rewrite E. reflexivity. }
  pose proof (add_general_delta d pay _ (proj1 D2)) as D3.
  eapply delta_weaken;
    [exact (delta_trans _ _ _ _ _ _ _ (delta_trans _ _ _ _ _ _ _ D1 D2) D3)|lia].
Qed.

Lemma debond_list_keep ks : forall s s', WF s -> debond_list s ks = Some s' -> Keep s s'.
Proof.
  induction ks as [|k r IH]; intros s s' W; cbn [debond_list].
  - intros H; injection H as <-. apply keep_refl; exact W.
  - destruct (debond_one s k) as [s1|] eqn:E; [|discriminate].
    intros H. pose proof (debond_one_keep _ _ _ W E) as K1.
    exact (keep_trans _ _ _ K1 (IH _ _ (keep_wf _ _ K1) H)).
Qed.

Lemma debond_all_keep s ep : WF s -> Keep s (snd (debond_all s ep)).
Proof.
  intros W. unfold debond_all.
  destruct (debond_list s (expired_queue s ep)) as [s1|] eqn:E; [|failb].
  cbn [snd]. exact (debond_list_keep _ _ _ W E).
Qed.

Lemma gov_reclaim_keep s to amount : WF s -> Keep s (snd (gov_reclaim s to amount)).
Proof.
  intros W. unfold gov_reclaim. caseif; [failb|]. cbn [snd].
  pose proof (add_general_delta to amount s W) as D1.
  pose proof (with_gov_delta _ (gov_deposits s - amount) (proj1 D1)) as D2.
  change (gov_deposits (add_general to amount s)) with (gov_deposits s) in D2.
  eapply delta_weaken; [exact (delta_trans _ _ _ _ _ _ _ D1 D2)|lia].
Qed.

Lemma gov_discard_keep s amount : WF s -> Keep s (snd (gov_discard s amount)).
Proof.
  intros W. unfold gov_discard. caseif; [failb|]. cbn [snd].
  pose proof (with_common_delta s (common_pool s + amount) W) as D1.
  pose proof (with_gov_delta _ (gov_deposits s - amount) (proj1 D1)) as D2.
  change (gov_deposits (with_common s (common_pool s + amount))) with (gov_deposits s) in D2.
  eapply delta_weaken; [exact (delta_trans _ _ _ _ _ _ _ D1 D2)|lia].
Qed.

Lemma transfer_from_common_keep s to amount rate esc : WF s -> Keep s (snd (transfer_from_common s to amount rate esc)).
Proof.
  intros W. unfold transfer_from_common.
  set (moved := N.min (common_pool s) amount).
  caseif; [failb|].
  pose proof (with_common_delta s (common_pool s - moved) W) as Da.
  pose proof (add_general_delta to moved _ (proj1 Da)) as Db.
  set (s1 := add_general to moved (with_common s (common_pool s - moved))) in *.
  assert (K1 : Keep s s1).
  { eapply delta_weaken; [exact (delta_trans _ _ _ _ _ _ _ Da Db)|]. subst moved. lia. }
  destruct esc; cbn [negb]; [|exact K1].
  match goal with |- Keep s (snd match ?x with _ => _ end) => destruct x as [[com rest]|] end; [|failb].
  caseif; [failb|].
  match goal with |- context [active (acct ?x to)] => set (s2 := x) end.
  assert (K2 : Keep s s2).
  { subst s2. caseif; [exact K1|].
    assert (D1 : Delta s1 (sub_general to rest s1) 0 rest) by (apply sub_general_delta; [exact (proj1 K1)|lia]).
    pose proof (add_active_bal_delta to rest _ (proj1 D1)) as D2.
    eapply keep_trans; [exact K1|]. eapply delta_weaken; [exact (delta_trans _ _ _ _ _ _ _ D1 D2)|lia]. }
  caseif; [cbn [snd]; exact K2|].
  destruct (shares_for_stake (active (acct s2 to)) com) as [m|]; [|failb].
  caseif; [failb|]. cbn [snd].
  assert (D1 : Delta s2 (sub_general to com s2) 0 com) by (apply sub_general_delta; [exact (proj1 K2)|lia]).
  pose proof (add_active_bal_delta to com _ (proj1 D1)) as D2.
  pose proof (mint_active_delta to to m _ (proj1 D2)) as D3.
  eapply keep_trans; [exact K2|].
  eapply delta_weaken; [exact (delta_trans _ _ _ _ _ _ _ (delta_trans _ _ _ _ _ _ _ D1 D2) D3)|lia].
Qed.

(* ---------- steps and runs ---------- *)
Lemma keep_inv s s' : Inv s -> Keep s s' -> Inv s' /\ total_supply s' = total_supply s.
Proof. intros I K. split; [exact (delta_inv _ _ I K)|exact (proj2 (proj2 K))]. Qed.

Lemma keep_body p s s' b r : Inv s -> Keep s s' -> burned_body p b r = 0 ->
  Inv s' /\ total_supply s = total_supply s' + burned_body p b r.
Proof. intros I K ->. destruct (keep_inv _ _ I K) as [I' T]. split; [exact I'|lia]. Qed.

Lemma withdraw_hooked_keep p s to from amt ok g : WF s -> Keep s (snd (withdraw_hooked p s to from amt ok g)).
Proof.
  intros W. unfold withdraw_hooked, qmove.
  repeat (caseif; [failb|]). cbn [snd].
  apply N.eqb_neq in Heqb3.
  assert (D1 : Delta s (add_general to amt s) amt 0) by (apply add_general_delta; exact W).
  assert (D2 : Delta (add_general to amt s) (sub_general from amt (add_general to amt s)) 0 amt).
  { apply sub_general_delta; [exact (proj1 D1)|].
    unfold add_general. rewrite acct_upd_other by congruence. lia. }
  eapply delta_weaken; [exact (delta_trans _ _ _ _ _ _ _ D1 D2)|lia].
Qed.

Lemma exec_leaf_inv p s signer b g : Inv s ->
  Inv (snd (exec_leaf p s signer b g)) /\
  total_supply s = total_supply (snd (exec_leaf p s signer b g)) + burned_body p b (fst (exec_leaf p s signer b g)).
Proof.
  intros I. pose proof (proj1 I) as W. destruct b; cbn [exec_leaf].
  - (* transfer *) unfold transfer.
    caseif; [apply keep_body; [exact I|failb|reflexivity]|].
    caseif; [apply keep_body; [exact I|failb|reflexivity]|].
    caseif.
    + pose proof (burn_impl_inv p s signer amt I) as [I' T]. split; [exact I'|].
      cbn [burned_body]. rewrite Heqb1. destruct (fst (burn_impl p s signer amt)); exact T.
    + apply keep_body; [exact I|apply transfer_impl_keep; exact W|].
      cbn [burned_body]. rewrite Heqb1. destruct (fst _); reflexivity.
  - (* burn *) unfold burn.
    caseif; [apply keep_body; [exact I|failb|reflexivity]|].
    caseif; [apply keep_body; [exact I|failb|reflexivity]|].
    pose proof (burn_impl_inv p s signer amt I) as [I' T]. split; [exact I'|].
    cbn [burned_body]. destruct (fst (burn_impl p s signer amt)); exact T.
  - apply keep_body; [exact I|apply add_escrow_keep; exact W|reflexivity].
  - apply keep_body; [exact I|apply reclaim_keep; exact W|reflexivity].
  - apply keep_body; [exact I|apply allow_keep; exact W|reflexivity].
  - apply keep_body; [exact I|apply withdraw_keep; exact W|reflexivity].
  - apply keep_body; [exact I|apply gov_submit_keep; exact W|reflexivity].
  - apply keep_body; [exact I| |reflexivity].
    repeat (caseif; [failb|]). failb.
  - apply keep_body; [exact I|apply withdraw_hooked_keep; exact W|reflexivity].
  - apply keep_body; [exact I|failb|reflexivity].
Qed.

Lemma exec_body_inv p s signer b g : Inv s ->
  Inv (snd (exec_body p s signer b g)) /\
  total_supply s = total_supply (snd (exec_body p s signer b g)) + burned_b p b (fst (exec_body p s signer b g)).
Proof.
  intros I. destruct b; try exact (exec_leaf_inv p s signer _ g I).
  cbn [exec_body burned_b]. caseif.
  - cbn [fst snd]. split; [exact I|]. destruct b; cbn [burned_body]; lia.
  - exact (exec_leaf_inv p s caller b true I).
Qed.

Lemma burned_b_fail p b r : r <> ROk -> burned_b p b r = 0.
Proof.
  intros H. destruct b as [| | | | | | | | |c inner]; cbn [burned_b]; destruct r; try congruence;
    try reflexivity; destruct inner; reflexivity.
Qed.

Lemma auth_fail_unchanged p s signer n fee : fst (auth p s signer n fee) <> ROk -> snd (auth p s signer n fee) = s.
Proof.
  unfold auth, qmove. repeat (caseif; [reflexivity|]). cbn [fst]. congruence.
Qed.

Lemma exec_tx_inv p s signer n fee g1 g2 b : Inv s ->
  Inv (snd (exec_tx p s signer n fee g1 g2 b)) /\
  total_supply s = total_supply (snd (exec_tx p s signer n fee g1 g2 b))
                   + burned p (OTx signer n fee g1 g2 b) (fst (exec_tx p s signer n fee g1 g2 b)).
Proof.
  intros I. unfold exec_tx.
  pose proof (auth_keep p s signer n fee (proj1 I)) as K.
  pose proof (auth_fail_unchanged p s signer n fee) as F.
  destruct (auth p s signer n fee) as [r s1]. cbn [fst snd] in *.
  destruct (keep_inv _ _ I K) as [I1 T1].
  assert (Hb : forall b' r', burned p (OTx signer n fee g1 g2 b') r' = burned_b p b' r') by reflexivity.
  destruct r.
  - caseif.
    + cbn [snd fst]. split; [exact I1|]. rewrite Hb, burned_b_fail by discriminate. lia.
    + destruct (exec_body_inv p s1 signer b g2 I1) as [I2 T2]. split; [exact I2|]. rewrite Hb. lia.
  - cbn [snd fst]. split; [exact I1|]. rewrite Hb, burned_b_fail by discriminate. lia.
  - cbn [snd fst]. split; [exact I1|]. rewrite Hb, burned_b_fail by discriminate. lia.
  - cbn [snd fst]. split; [exact I1|]. rewrite Hb, burned_b_fail by discriminate. lia.
Qed.

Lemma step_inv p s o : Inv s ->
  Inv (snd (step p s o)) /\ total_supply s = total_supply (snd (step p s o)) + burned p o (fst (step p s o)).
Proof.
  intros I. pose proof (proj1 I) as W.
  assert (HK : forall s', Keep s s' -> forall r, burned p o r = 0 ->
             Inv s' /\ total_supply s = total_supply s' + burned p o r).
  { intros s' K r ->. destruct (keep_inv _ _ I K) as [I' T]. split; [exact I'|lia]. }
  destruct o; cbn [step].
  - apply exec_tx_inv. exact I.
  - apply HK; [apply fees_vq_keep; exact W|reflexivity].
  - apply HK; [apply add_reward_single_keep; exact W|reflexivity].
  - apply HK; [apply add_rewards_keep; exact W|reflexivity].
  - apply HK; [apply slash_keep; exact W|reflexivity].
  - apply HK; [apply fees_p_keep; exact W|reflexivity].
  - apply HK; [apply debond_all_keep; exact W|reflexivity].
  - apply HK; [apply gov_reclaim_keep; exact W|reflexivity].
  - apply HK; [apply gov_discard_keep; exact W|reflexivity].
  - apply HK; [apply transfer_from_common_keep; exact W|reflexivity].
Qed.

Lemma op_preserves_inv_l p s o : Inv s -> Inv (snd (step p s o)).
Proof. intros I. exact (proj1 (step_inv p s o I)). Qed.

Lemma run_preserves_inv_l p ops : forall s, Inv s -> Inv (run p s ops).
Proof.
  unfold run. induction ops as [|o r IH]; intros s I; cbn [fold_left]; [exact I|].
  apply IH. apply op_preserves_inv_l. exact I.
Qed.

Lemma run_rc_snd p ops : forall s, snd (run_rc p s ops) = run p s ops.
Proof.
  unfold run. induction ops as [|o r IH]; intros s; cbn [run_rc fold_left]; [reflexivity|].
  destruct (step p s o) as [c s1] eqn:E. specialize (IH s1).
  destruct (run_rc p s1 r) as [cs s2]. cbn [snd] in *. exact IH.
Qed.

Lemma supply_run_l p ops : forall s, Inv s ->
  total_supply s = total_supply (run p s ops) + burned_run p s ops.
Proof.
  unfold run. induction ops as [|o r IH]; intros s I; cbn [fold_left burned_run]; [lia|].
  destruct (step_inv p s o I) as [I1 T1].
  destruct (step p s o) as [c s1]. cbn [fst snd] in *.
  specialize (IH s1 I1). lia.
Qed.

Lemma supply_monotone_l p ops s : Inv s -> total_supply (run p s ops) <= total_supply s.
Proof. intros I. pose proof (supply_run_l p ops s I). lia. Qed.

(* every prefix of a run: the invariant holds at every intermediate point *)
Lemma run_prefix_inv_l p ops1 ops2 s : Inv s -> Inv (run p s ops1) /\ Inv (run p s (ops1 ++ ops2)).
Proof. intros I. split; apply run_preserves_inv_l; exact I. Qed.

(* block boundary: after a successful end-of-block fee disbursement the
   accumulator is empty and the persisted last-block-fees value is live, so
   the invariant is literally the equation of the statement *)
Definition boundary (s : state) : Prop := fee_acc s = 0 /\ vq_done s = false.

Lemma boundary_equation_l s : Inv s -> boundary s ->
  total_supply s = sum_general s + sum_active s + sum_debonding s + common_pool s
                   + gov_deposits s + last_block_fees s
  /\ (forall e, tsh (active (acct s e)) = dsum e s)
  /\ (forall e, tsh (debonding (acct s e)) = bsum e s).
Proof.
  intros [(N1 & N2 & N3 & HA & HD) E] [F V]. split; [|split; assumption].
  unfold buckets, live_lbf in E. rewrite V, F in E. lia.
Qed.

Lemma block_boundary_l p s ops pr : Inv s ->
  fst (step p (run p s ops) (OFeesP pr)) = ROk ->
  let s' := run p s (ops ++ [OFeesP pr]) in Inv s' /\ boundary s'.
Proof.
  intros I H. cbn zeta. split; [apply run_preserves_inv_l; exact I|].
  unfold run. rewrite fold_left_app. cbn [fold_left]. fold (run p s ops).
  cbn [step] in *. exact (fees_p_boundary p _ pr H).
Qed.

(* genesis-like state: any account table with consistent share totals and a
   recorded supply equal to the sum (what InitChain checks, genesis.go) *)
Lemma inv_genesis_l accs dl db cp lbf gov :
  let s := mkSt accs dl db (msum (fun _ x => general x) accs + msum (fun _ x => bal (active x)) accs
                            + msum (fun _ x => bal (debonding x)) accs + cp + gov + lbf) cp lbf gov 0 false in
  WF s -> Inv s.
Proof.
  cbn zeta. intros W. split; [exact W|].
  unfold buckets, sum_general, sum_active, sum_debonding, live_lbf. cbn. lia.
Qed.

(* ---------- non-vacuity ---------- *)
Definition ex_p := mkParams 10 10 0 8 false false 1 2 1 1 [100; 101; 102; 103] 100.
Definition ex_s0 : state :=
  mkSt [(1, mkAcct 500 0 (mkPool 1000 1000) (mkPool 100 100) []);
        (2, mkAcct 300 0 (mkPool 0 0) (mkPool 0 0) []);
        (3, mkAcct 50 0 (mkPool 0 0) (mkPool 0 0) [])]
       [((1, 1), 600); ((1, 2), 400)]
       [((1, 3, 5), 100)]
       11957 10000 7 0 0 false.
(* one block: last block's fees paid out, proposer reward, a slash, transfers,
   a burn, reclaim (starts debonding), escrow, a failing self-transfer, an
   allowance and a withdrawal, a governance deposit, end-of-block fees, the
   debonding completion of epoch 5, the rejected proposal's deposit discarded *)
Definition ex_ops : list op :=
  [OFeesVQ (Some 1) 1 [1]; ORewardSingle (Some 2000000) 1 1 1 1 5000; OSlash 1 110;
   OTx 2 0 5 true true (BTransfer 4 100); OTx 2 1 3 true true (BBurn 20);
   OTx 2 2 2 true true (BReclaim 1 100 5);
   OTx 3 0 1 true true (BAddEscrow 1 30); OTx 4 0 0 true true (BTransfer 4 200);
   OTx 4 1 0 true true (BAllow 2 false 50); OTx 2 3 0 true true (BWithdraw 4 40);
   OTx 2 4 0 true true (BGovSubmit 100 true true);
   OFeesP (Some 1); ODebondAll 5; OGovDiscard 100].

Example ex_inv : Inv ex_s0.
Proof.
  split; [|vm_compute; reflexivity].
  unfold WF. split; [|split; [|split; [|split]]].
  - cbn. repeat constructor; cbn; intuition discriminate.
  - cbn. repeat constructor; cbn; intuition discriminate.
  - cbn. repeat constructor; cbn; intuition discriminate.
  - intros e. unfold acct, dsum, ex_s0. cbn [accts deleg mget msum fst snd].
    destruct (1 =? e) eqn:E1; [cbn; lia|].
    destruct (2 =? e) eqn:E2; [cbn; lia|].
    destruct (3 =? e) eqn:E3; cbn; lia.
  - intros e. unfold acct, bsum, ex_s0. cbn [accts debdeleg mget msum fst snd].
    destruct (1 =? e) eqn:E1; [cbn; lia|].
    destruct (2 =? e) eqn:E2; [cbn; lia|].
    destruct (3 =? e) eqn:E3; cbn; lia.
Qed.

Example ex_run :
  fst (run_rc ex_p ex_s0 ex_ops) = [ROk; ROk; ROk; ROk; ROk; ROk; ROk; RFail 3; ROk; ROk; ROk; ROk; ROk; ROk]
  /\ total_supply (run ex_p ex_s0 ex_ops) = 11937
  /\ burned_run ex_p ex_s0 ex_ops = 20
  /\ common_pool (run ex_p ex_s0 ex_ops) = 10189
  /\ debdeleg (run ex_p ex_s0 ex_ops) = [((1, 2, 6), 101)]
  /\ fee_acc (run ex_p ex_s0 ex_ops) = 0 /\ vq_done (run ex_p ex_s0 ex_ops) = false.
Proof. vm_compute. repeat split; reflexivity. Qed.

(* the conclusion of the theorems on this history, by the theorems *)
Example ex_final_inv : Inv (run ex_p ex_s0 ex_ops).
Proof. apply run_preserves_inv_l. exact ex_inv. Qed.

(* ---------- consistent share totals make debonding completion total ---------- *)
Lemma stake_for_shares_le_bal pl sh : sh <= tsh pl -> stake_for_shares pl sh <= bal pl.
Proof.
  intros H. unfold stake_for_shares.
  destruct ((sh =? 0) || (bal pl =? 0) || (tsh pl =? 0)) eqn:E; [lia|].
  apply orb_false_iff in E as [E E3]. apply orb_false_iff in E as [E1 E2].
  apply N.eqb_neq in E3.
  apply N.div_le_upper_bound; [exact E3|]. apply N.mul_le_mono_r. exact H.
Qed.

Lemma debond_one_total s k : WF s -> debond_one s k <> None.
Proof.
  intros W. unfold debond_one. destruct k as [[e d] ep].
  destruct (mget k3_eqb (e, d, ep) (debdeleg s)) as [sh|] eqn:E; [|discriminate].
  assert (Hsh : sh <= tsh (debonding (acct s e))).
  { destruct W as (_ & _ & _ & _ & HD). rewrite HD.
    pose proof (bget_le_bsum s e d ep) as H. unfold bget in H. rewrite E in H. exact H. }
  pose proof (stake_for_shares_le_bal _ _ Hsh) as Hp.
  destruct (tsh (debonding (acct s e)) <? sh) eqn:E1; [lia|].
  destruct (bal (debonding (acct s e)) <? stake_for_shares (debonding (acct s e)) sh) eqn:E2; [lia|].
  discriminate.
Qed.

Lemma debond_list_total ks : forall s, WF s -> debond_list s ks <> None.
Proof.
  induction ks as [|k r IH]; intros s W; cbn [debond_list]; [discriminate|].
  destruct (debond_one s k) as [s1|] eqn:E; [|exfalso; exact (debond_one_total s k W E)].
  apply IH. exact (keep_wf _ _ (debond_one_keep _ _ _ W E)).
Qed.

Lemma debond_all_never_fatal_l s ep : Inv s -> fst (debond_all s ep) = ROk.
Proof.
  intros [W _]. unfold debond_all.
  destruct (debond_list s (expired_queue s ep)) as [s1|] eqn:E; [reflexivity|].
  exfalso. exact (debond_list_total _ _ W E).
Qed.

(* ---------- parameter changes between operations ---------- *)
Lemma run_params_preserves_inv_l ops : forall s, Inv s -> Inv (run_params s ops).
Proof.
  unfold run_params. induction ops as [|[p o] r IH]; intros s I; cbn [fold_left]; [exact I|].
  apply IH. cbn [fst snd]. apply op_preserves_inv_l. exact I.
Qed.

Lemma supply_run_params_l ops : forall s, Inv s ->
  total_supply s = total_supply (run_params s ops) + burned_run_params s ops.
Proof.
  unfold run_params. induction ops as [|[p o] r IH]; intros s I; cbn [fold_left burned_run_params]; [lia|].
  cbn [fst snd]. destruct (step_inv p s o I) as [I1 T1].
  destruct (step p s o) as [c s1]. cbn [fst snd] in *.
  specialize (IH s1 I1). lia.
Qed.

(* fee disbursement conserves for ALL weights (also all-zero sums, where the operation is
   fatal and leaves the state alone, and vote + next-propose = 0, where everything pending
   goes to the common pool) *)
Lemma fee_disbursement_conserves_l p s pr n vs :
  Inv s ->
  (Inv (snd (fees_vq p s pr n vs)) /\ total_supply (snd (fees_vq p s pr n vs)) = total_supply s) /\
  (Inv (snd (fees_p p s pr)) /\ total_supply (snd (fees_p p s pr)) = total_supply s).
Proof.
  intros I. split.
  - apply keep_inv; [exact I|apply fees_vq_keep; exact (proj1 I)].
  - apply keep_inv; [exact I|apply fees_p_keep; exact (proj1 I)].
Qed.

(* with vote + next-propose weight = 0 the pending fees all go to the common pool *)
Lemma fees_vq_zero_weights_l p s pr n vs :
  vq_done s = false -> p_w_vote p + p_w_next p = 0 -> n <> 0 ->
  snd (fees_vq p s pr n vs) = with_common (with_lbf s (last_block_fees s) true) (common_pool s + last_block_fees s)
  /\ fst (fees_vq p s pr n vs) = ROk.
Proof.
  intros Hv Hw Hn. unfold fees_vq. rewrite Hv, Hw. cbn [N.eqb].
  destruct (last_block_fees s =? 0) eqn:E0.
  - apply N.eqb_eq in E0. cbn [fst snd]. split; [|reflexivity].
    rewrite E0, N.add_0_r. destruct s; reflexivity.
  - destruct (n =? 0) eqn:En; [apply N.eqb_eq in En; contradiction|].
    change (0 =? 0) with true. cbn iota. rewrite N.mul_0_l. change (0 =? 0) with true. cbn iota.
    destruct pr; cbn [fst snd]; split; reflexivity.
Qed.
