(* Facts about the association maps of Ledger/State.v (C05). *)
From Verif Require Import Lib.Base Ledger.SharePool Ledger.State.

Section MapFacts.
  Context {K V : Type} (keq : K -> K -> bool).
  Context (keq_spec : forall a b, keq a b = true <-> a = b).

  Definition keys (l : list (K * V)) : list K := map fst l.
  Implicit Types l : list (K * V).

  Lemma keq_refl k : keq k k = true.
  Proof. apply keq_spec. reflexivity. Qed.

  Lemma keq_neq a b : a <> b -> keq a b = false.
  Proof.
    intros Hne. destruct (keq a b) eqn:E; [|reflexivity].
    apply keq_spec in E. contradiction.
  Qed.

  Lemma mget_mdel_same k l : mget keq k (mdel keq k l) = None.
  Proof.
    induction l as [|[k' v] r IH]; cbn [mdel mget]; [reflexivity|].
    destruct (keq k' k) eqn:E; [exact IH|]. cbn [mget]. rewrite E. exact IH.
  Qed.

  Lemma mget_mdel_other k k' l : k <> k' -> mget keq k (mdel keq k' l) = mget keq k l.
  Proof.
    intros Hne. induction l as [|[k2 v] r IH]; cbn [mdel mget]; [reflexivity|].
    destruct (keq k2 k') eqn:E.
    - apply keq_spec in E. subst k2. rewrite (keq_neq k' k) by congruence. exact IH.
    - cbn [mget]. destruct (keq k2 k); [reflexivity|exact IH].
  Qed.

  Lemma mget_mset_same k v l : mget keq k (mset keq k v l) = Some v.
  Proof. unfold mset. cbn [mget]. rewrite keq_refl. reflexivity. Qed.

  Lemma mget_mset_other k k' v l : k <> k' -> mget keq k (mset keq k' v l) = mget keq k l.
  Proof.
    intros Hne. unfold mset. cbn [mget]. rewrite (keq_neq k' k) by congruence.
    apply mget_mdel_other. exact Hne.
  Qed.

  Lemma in_keys_mdel k k' l : In k (keys (mdel keq k' l)) -> In k (keys l) /\ k <> k'.
  Proof.
    induction l as [|[k2 v] r IH]; cbn [mdel keys map fst In]; [tauto|].
    destruct (keq k2 k') eqn:E.
    - intros H. destruct (IH H) as [H1 H2]. split; [right; exact H1|exact H2].
    - cbn [keys map fst In]. intros [H|H].
      + subst k2. split; [left; reflexivity|]. intros ->. rewrite keq_refl in E. discriminate.
      + destruct (IH H) as [H1 H2]. split; [right; exact H1|exact H2].
  Qed.

  Lemma nodup_mdel k l : NoDup (keys l) -> NoDup (keys (mdel keq k l)).
  Proof.
    induction l as [|[k2 v] r IH]; cbn [mdel keys map fst]; intros H; [constructor|].
    inversion H as [|x xs Hn Hr]; subst.
    destruct (keq k2 k); [apply IH; exact Hr|].
    cbn [keys map fst]. constructor; [|apply IH; exact Hr].
    intros Hin. apply in_keys_mdel in Hin. tauto.
  Qed.

  Lemma nodup_mset k v l : NoDup (keys l) -> NoDup (keys (mset keq k v l)).
  Proof.
    intros H. unfold mset. cbn [keys map fst]. constructor; [|apply nodup_mdel; exact H].
    intros Hin. apply in_keys_mdel in Hin. tauto.
  Qed.

  Lemma mget_none_notin k l : ~ In k (keys l) -> mget keq k l = None.
  Proof.
    induction l as [|[k2 v] r IH]; cbn [mget keys map fst In]; intros H; [reflexivity|].
    rewrite keq_neq by tauto. apply IH. tauto.
  Qed.

  Lemma mdel_notin k l : ~ In k (keys l) -> mdel keq k l = l.
  Proof.
    induction l as [|[k2 v] r IH]; cbn [mdel keys map fst In]; intros H; [reflexivity|].
    rewrite keq_neq by tauto. f_equal. apply IH. tauto.
  Qed.

  Section Sum.
    Context (f : K -> V -> N).
    Definition fo (k : K) (o : option V) : N := match o with Some v => f k v | None => 0 end.

    Lemma msum_mdel k l : NoDup (keys l) ->
      msum f (mdel keq k l) + fo k (mget keq k l) = msum f l.
    Proof.
      induction l as [|[k2 v] r IH]; cbn [mdel mget msum keys map fst]; intros H; [reflexivity|].
      inversion H as [|x xs Hn Hr]; subst.
      destruct (keq k2 k) eqn:E.
      - apply keq_spec in E. subst k2. rewrite (mdel_notin k r Hn). cbn [fo]. lia.
      - cbn [msum]. specialize (IH Hr). lia.
    Qed.

    Lemma msum_mset k v l : NoDup (keys l) ->
      msum f (mset keq k v l) + fo k (mget keq k l) = msum f l + f k v.
    Proof.
      intros H. unfold mset. cbn [msum]. pose proof (msum_mdel k l H). lia.
    Qed.

    Lemma mget_le_msum k v l : mget keq k l = Some v -> f k v <= msum f l.
    Proof.
      induction l as [|[k2 v2] r IH]; cbn [mget msum]; [discriminate|].
      destruct (keq k2 k) eqn:E.
      - intros H. injection H as ->. apply keq_spec in E. subst k2. lia.
      - intros H. specialize (IH H). lia.
    Qed.
  End Sum.
End MapFacts.

Lemma k2_eqb_spec a b : k2_eqb a b = true <-> a = b.
Proof.
  destruct a as [a1 a2], b as [b1 b2]. unfold k2_eqb. cbn [fst snd].
  rewrite andb_true_iff, !N.eqb_eq. split; [intros [-> ->]; reflexivity|intros H; injection H; auto].
Qed.

Lemma k3_eqb_spec a b : k3_eqb a b = true <-> a = b.
Proof.
  destruct a as [[a1 a2] a3], b as [[b1 b2] b3]. unfold k3_eqb. cbn [fst snd].
  rewrite !andb_true_iff, !N.eqb_eq. split; [intros [[-> ->] ->]; reflexivity|intros H; injection H; auto].
Qed.

Lemma neqb_spec a b : N.eqb a b = true <-> a = b.
Proof. apply N.eqb_eq. Qed.
