(* Proofs about the reward / commission model (Ledger/Rewards.v). *)
From Verif Require Import Lib.Base Ledger.SharePool Ledger.SharePoolProofs Ledger.SharePoolSeq Ledger.Rewards.

Lemma compute_commission_some cd rate q com rest :
  compute_commission cd rate q = Some (com, rest) -> com + rest = q /\ com = q * rate / cd.
Proof.
  unfold compute_commission. destruct (q <? q * rate / cd) eqn:L; [discriminate|].
  intros H. injection H as <- <-. split; [lia|reflexivity].
Qed.

Lemma commission_le_rate cd rate q com rest : cd <> 0 ->
  compute_commission cd rate q = Some (com, rest) -> com * cd <= q * rate.
Proof.
  intros Hcd H. apply compute_commission_some in H as [_ ->]. apply div_mul_le. exact Hcd.
Qed.

Lemma div0 x : 0 / x = 0.
Proof. destruct x; reflexivity. Qed.

Lemma reward_amount_zero_balance rd factor scale att : reward_amount rd 0 factor scale att = 0.
Proof.
  unfold reward_amount. destruct att as [[num den]|]; rewrite ?N.mul_0_l, ?div0; reflexivity.
Qed.

(* what add_reward does, in one statement *)
Definition applied (rd cd : N) (a : racct) (common factor scale rate : N) (att : option (N * N)) (r : rres)
  : Prop :=
  exists com rest m,
    let q := reward_amount rd (bal (rapool a)) factor scale att in
    q <> 0 /\ q <= common /\ bal (rapool a) <> 0 /\
    compute_commission cd rate q = Some (com, rest) /\ com + rest = q /\
    (com = 0 -> m = 0) /\
    (com <> 0 -> shares_for_stake (mkPool (bal (rapool a) + rest) (tsh (rapool a))) com = Some m) /\
    r = mkRR COk (mkRA (mkPool (bal (rapool a) + rest + com) (tsh (rapool a) + m)) (raself a + m))
             (common - q) q com m.

Definition skipped (a : racct) (common : N) (r : rres) : Prop :=
  rracct r = a /\ rrcommon r = common /\ rrq r = 0 /\ rrcom r = 0 /\ rrminted r = 0.

Lemma add_reward_cases rd cd a common factor scale rate att :
  let r := add_reward rd cd a common factor scale rate att in
  (rrcode r = COk /\ skipped a common r /\
   (reward_amount rd (bal (rapool a)) factor scale att = 0 \/
    common < reward_amount rd (bal (rapool a)) factor scale att)) \/
  (rrcode r = CInsufficient /\ skipped a common r /\
   compute_commission cd rate (reward_amount rd (bal (rapool a)) factor scale att) = None) \/
  applied rd cd a common factor scale rate att r.
Proof.
  intros r. subst r. unfold add_reward.
  set (q := reward_amount rd (bal (rapool a)) factor scale att).
  destruct (N.eqb_spec q 0) as [Q0|Q0]; [left; repeat split; left; exact Q0|].
  destruct (N.ltb_spec common q) as [Lc|Lc]; [left; repeat split; right; exact Lc|].
  assert (HB : bal (rapool a) <> 0).
  { intros HB. apply Q0. unfold q. rewrite HB. apply reward_amount_zero_balance. }
  destruct (compute_commission cd rate q) as [[com rest]|] eqn:EC.
  2:{ right. left. repeat split. }
  pose proof (compute_commission_some _ _ _ _ _ EC) as [Hsum _].
  destruct (N.eqb_spec com 0) as [C0|C0].
  - right. right. exists com, rest, 0. cbv zeta. fold q. rewrite EC.
    repeat split; try assumption; try lia. subst com. rewrite !N.add_0_r.
    replace rest with q by lia. reflexivity.
  - set (p1 := mkPool (bal (rapool a) + rest) (tsh (rapool a))).
    destruct (shares_for_stake p1 com) as [m|] eqn:ES.
    2:{ apply sfs_none in ES as [_ Hz]. cbn [p1 bal] in Hz. lia. }
    unfold deposit. rewrite ES. destruct (N.ltb_spec (common - rest) com) as [L|L]; [lia|].
    cbn [rcode rpool rdst rsrc rret].
    right. right. exists com, rest, m. cbv zeta. fold q. rewrite EC.
    repeat split; try assumption; try lia; [intros _; exact ES|cbn [p1 bal tsh]; f_equal; lia].
Qed.

Lemma worth_mono_u p u v : u <= v -> worth p u <= worth p v.
Proof.
  intros H. unfold worth. destruct (N.eq_dec (tsh p) 0) as [S0|S0].
  - rewrite !stake_zero by lia. lia.
  - rewrite !stake_div by exact S0. apply N.div_le_mono; [exact S0|].
    apply N.mul_le_mono_r. exact H.
Qed.

(* ---------- the theorems ---------- *)
Lemma reward_split_conserves_l rd cd a common factor scale rate att :
  let r := add_reward rd cd a common factor scale rate att in
  rrcom r <= rrq r /\ rrq r <= common /\
  rrcommon r = common - rrq r /\
  bal (rapool (rracct r)) = bal (rapool a) + (rrq r - rrcom r) + rrcom r /\
  bal (rapool (rracct r)) + rrcommon r = bal (rapool a) + common /\
  tsh (rapool (rracct r)) = tsh (rapool a) + rrminted r /\
  raself (rracct r) = raself a + rrminted r /\
  (rrcode r <> COk -> rracct r = a /\ rrcommon r = common).
Proof.
  intros r. pose proof (add_reward_cases rd cd a common factor scale rate att) as C. cbv zeta in C. fold r in C.
  destruct C as [[Hc [[E1 [E2 [E3 [E4 E5]]]] _]]|[[Hc [[E1 [E2 [E3 [E4 E5]]]] _]]|[com [rest [m H]]]]].
  - rewrite E1, E2, E3, E4, E5. repeat split; try lia.
  - rewrite E1, E2, E3, E4, E5. repeat split; try lia.
  - cbv zeta in H. destruct H as [Q0 [Qc [HB [EC [Hs [_ [_ ->]]]]]]].
    cbn [rrcom rrq rrcommon rracct rapool raself rrminted rrcode bal tsh].
    repeat split; try lia; try (exfalso; congruence).
Qed.

Lemma reward_raises_price_l rd cd a common factor scale rate att :
  price_le (rapool a) (rapool (rracct (add_reward rd cd a common factor scale rate att))).
Proof.
  destruct (add_reward_cases rd cd a common factor scale rate att)
    as [[_ [[E1 _] _]]|[[_ [[E1 _] _]]|[com [rest [m H]]]]].
  - rewrite E1. unfold price_le. lia.
  - rewrite E1. unfold price_le. lia.
  - cbv zeta in H. destruct H as [Q0 [Qc [HB [EC [Hs [Hm0 [Hm ->]]]]]]].
    cbn [rracct rapool]. unfold price_le. cbn [bal tsh]. intros S0.
    destruct (N.eq_dec com 0) as [C0|C0].
    + rewrite (Hm0 C0). rewrite N.add_0_r. apply N.mul_le_mono_r. lia.
    + pose proof (sfs_bounds _ _ _ (Hm C0) S0) as [_ [L _]]. cbn [bal tsh] in L.
      rewrite N.mul_add_distr_l, !N.mul_add_distr_r in *. lia.
Qed.

Lemma commission_is_ordinary_deposit_l rd cd a common factor scale rate att :
  let r := add_reward rd cd a common factor scale rate att in
  tsh (rapool a) <> 0 ->
  (* at most pro rata at the price after the delegators' part was added *)
  rrminted r * (bal (rapool a) + (rrq r - rrcom r)) <= rrcom r * tsh (rapool a) /\
  worth (rapool (rracct r)) (rrminted r) <= rrcom r /\
  (cd <> 0 -> rrcom r * cd <= rrq r * rate).
Proof.
  intros r S0. pose proof (add_reward_cases rd cd a common factor scale rate att) as C. cbv zeta in C. fold r in C.
  destruct C as [[_ [[E1 [E2 [E3 [E4 E5]]]] _]]|[[_ [[E1 [E2 [E3 [E4 E5]]]] _]]|[com [rest [m H]]]]].
  - rewrite E3, E4, E5. unfold worth. rewrite stake_zero by lia. repeat split; lia.
  - rewrite E3, E4, E5. unfold worth. rewrite stake_zero by lia. repeat split; lia.
  - cbv zeta in H. destruct H as [Q0 [Qc [HB [EC [Hs [Hm0 [Hm ->]]]]]]].
    cbn [rrcom rrq rrcommon rracct rapool raself rrminted bal tsh].
    replace (reward_amount rd (bal (rapool a)) factor scale att - com) with rest by lia.
    destruct (N.eq_dec com 0) as [C0|C0].
    + rewrite (Hm0 C0), C0. unfold worth. rewrite stake_zero by lia. repeat split; lia.
    + pose proof (sfs_bounds _ _ _ (Hm C0) S0) as [_ [L _]]. cbn [bal tsh] in L.
      split; [exact L|]. split.
      * unfold worth. rewrite stake_div by (cbn [tsh]; lia). cbn [bal tsh].
        apply N.div_le_upper_bound; [lia|].
        rewrite !N.mul_add_distr_l, !N.mul_add_distr_r in *. lia.
      * intros Hcd. apply (commission_le_rate cd rate _ com rest Hcd EC).
Qed.

Lemma reward_holders_never_lose_l rd cd a common factor scale rate att u :
  let r := add_reward rd cd a common factor scale rate att in
  worth (rapool a) u <= worth (rapool (rracct r)) u /\
  worth (rapool a) (raself a) <= worth (rapool (rracct r)) (raself (rracct r)).
Proof.
  intros r.
  assert (G : forall v, worth (rapool a) v <= worth (rapool (rracct r)) v).
  { intros v. apply worth_mono_price; [apply reward_raises_price_l|].
    pose proof (reward_split_conserves_l rd cd a common factor scale rate att) as [_ [_ [_ [_ [_ [T _]]]]]].
    fold r in T. intros Hz. unfold worth. apply stake_zero. lia. }
  split; [apply G|].
  pose proof (reward_split_conserves_l rd cd a common factor scale rate att) as [_ [_ [_ [_ [_ [_ [T _]]]]]]].
  fold r in T. rewrite T.
  eapply N.le_trans; [apply G|]. apply worth_mono_u. lia.
Qed.

(* the reward is a plain reward followed by an ordinary deposit of the entity
   in the multi-delegator machine: every sequence theorem of SharePoolSeq
   (profit_bound, passive_holder_never_loses, conservation) therefore covers
   histories with commission rewards *)
Lemma reward_is_machine_ops_l rd cd st ent common factor scale rate att :
  let a := mkRA (mpool st) (dsh (dget ent (mdel st))) in
  let r := add_reward rd cd a common factor scale rate att in
  let ops := reward_ops rd cd (mpool st) common factor scale rate att ent in
  rrcode r = COk ->
  mpool (mfinal st ops) = rapool (rracct r) /\
  dsh (dget ent (mdel (mfinal st ops))) = raself (rracct r) /\
  (forall d, d <> ent -> Forall (passive d) ops /\ dget d (mdel (mfinal st ops)) = dget d (mdel st)) /\
  Forall (actor_in (N.eqb ent)) ops.
Proof.
  intros a r ops Hok.
  pose proof (add_reward_cases rd cd a common factor scale rate att) as C. cbv zeta in C. fold r in C.
  destruct C as [[_ [[E1 _] Hwhy]]|[[Hc _]|[com [rest [m H]]]]].
  - (* skipped: ops = [] *)
    assert (ops = []) as ->.
    { subst ops. unfold reward_ops. cbn [a rapool] in Hwhy.
      destruct (N.eqb_spec (reward_amount rd (bal (mpool st)) factor scale att) 0); [reflexivity|].
      destruct (N.ltb_spec common (reward_amount rd (bal (mpool st)) factor scale att)); [reflexivity|].
      lia. }
    rewrite E1. cbn [a rapool raself]. rewrite mfinal_nil. repeat split; try constructor.
  - congruence.
  - cbv zeta in H. cbn [a rapool raself] in H. destruct H as [Q0 [Qc [HB [EC [Hs [Hm0 [Hm Er]]]]]]].
    assert (Eops : ops = OReward rest :: (if com =? 0 then [] else [ODeposit ent com])).
    { subst ops. unfold reward_ops. destruct (N.eqb_spec (reward_amount rd (bal (mpool st)) factor scale att) 0); [contradiction|].
      destruct (N.ltb_spec common (reward_amount rd (bal (mpool st)) factor scale att)); [lia|].
      rewrite EC. reflexivity. }
    rewrite Eops, Er. cbn [rracct rapool raself].
    rewrite mfinal_cons. set (st1 := mnext st (OReward rest)).
    assert (P1 : mpool st1 = mkPool (bal (mpool st) + rest) (tsh (mpool st))) by reflexivity.
    assert (D1 : mdel st1 = mdel st) by reflexivity.
    destruct (N.eqb_spec com 0) as [C0|C0].
    + rewrite mfinal_nil, P1, D1, (Hm0 C0), C0, !N.add_0_r.
      repeat split; try (repeat constructor; fail).
    + rewrite mfinal_cons, mfinal_nil.
      assert (E2 : shares_for_stake (mpool st1) com = Some m) by (rewrite P1; apply Hm; exact C0).
      rewrite (mnext_deposit_ok _ _ _ _ E2). cbn [mpool mdel]. rewrite P1, D1. cbn [bal tsh].
      rewrite dget_aset_same. cbn [dsh].
      split; [reflexivity|]. split; [reflexivity|]. split.
      * intros d Hd. split; [repeat constructor; cbn [passive]; congruence|].
        apply dget_aset_other. exact Hd.
      * repeat constructor. cbn [actor_in]. apply N.eqb_refl.
Qed.

(* ---------- the address loop of AddRewards ---------- *)
Fixpoint sumbal (l : list racct) : N :=
  match l with [] => 0 | a :: r => bal (rapool a) + sumbal r end.

Definition no_worse (a a' : racct) : Prop :=
  price_le (rapool a) (rapool a') /\
  (forall u, worth (rapool a) u <= worth (rapool a') u) /\
  worth (rapool a) (raself a) <= worth (rapool a') (raself a').

Lemma no_worse_refl a : no_worse a a.
Proof. unfold no_worse, price_le. repeat split; lia. Qed.

Lemma forall2_refl (l : list (racct * N)) : Forall2 (fun x a' => no_worse (fst x) a') l (map fst l).
Proof. induction l as [|x r IH]; cbn [map]; constructor; [apply no_worse_refl|exact IH]. Qed.

Lemma add_rewards_loop_spec rd cd factor scale accts : forall common,
  let '(c, out, cm) := add_rewards_loop rd cd accts common factor scale in
  Forall2 (fun x a' => no_worse (fst x) a') accts out /\
  (c = COk -> sumbal out + cm = sumbal (map fst accts) + common).
Proof.
  destruct scale as [sc|].
  2:{ intros common. destruct accts; cbn [add_rewards_loop]; split; try (intros _; reflexivity); apply forall2_refl. }
  induction accts as [|[a rate] rest IH]; intros common; cbn [add_rewards_loop].
  - split; [constructor|intros _; reflexivity].
  - pose proof (reward_split_conserves_l rd cd a common factor sc rate None) as [_ [_ [_ [_ [Hc _]]]]].
    pose proof (reward_holders_never_lose_l rd cd a common factor sc rate None) as Hw.
    pose proof (reward_raises_price_l rd cd a common factor sc rate None) as Hp.
    set (r := add_reward rd cd a common factor sc rate None) in *.
    destruct (rrcode r) eqn:Ec.
    + specialize (IH (rrcommon r)). destruct (add_rewards_loop rd cd rest (rrcommon r) factor (Some sc)) as [[c out] cm].
      destruct IH as [F Hs]. split.
      * constructor; [|exact F]. cbn [fst]. unfold no_worse. split; [exact Hp|]. split.
        { intros u. apply (Hw u). } { apply (Hw 0). }
      * intros Hok. specialize (Hs Hok). cbn [sumbal map fst]. lia.
    + split; [apply (forall2_refl ((a, rate) :: rest))|discriminate].
    + split; [apply (forall2_refl ((a, rate) :: rest))|discriminate].
Qed.

Lemma add_rewards_conserves_l rd cd accts common factor scale :
  let '(c, out, cm) := add_rewards rd cd accts common factor scale in
  Forall2 (fun x a' => no_worse (fst x) a') accts out /\
  (c = COk -> sumbal out + cm = sumbal (map fst accts) + common) /\
  (c <> COk -> cm = common).
Proof.
  unfold add_rewards. pose proof (add_rewards_loop_spec rd cd factor scale accts common) as H.
  destruct (add_rewards_loop rd cd accts common factor scale) as [[c out] cm].
  destruct H as [F Hs]. split; [exact F|]. split.
  - intros ->. apply Hs. reflexivity.
  - destruct c; [intros Hn; contradiction| |]; intros _; reflexivity.
Qed.

(* non-vacuity *)
Example ex_reward :
  add_reward 100000000 100000 (mkRA (mkPool 1000 300) 100) 5000 2000000 50 20000 None
  = mkRR COk (mkRA (mkPool 2000 333) 133) 4000 1000 200 33.
Proof. vm_compute. reflexivity. Qed.
Example ex_reward_att :
  add_reward 100000000 100000 (mkRA (mkPool 1000 300) 100) 5000 2000000 50 20000 (Some (1, 3))
  = mkRR COk (mkRA (mkPool 1333 315) 115) 4667 333 66 15.
Proof. vm_compute. reflexivity. Qed.
Example ex_reward_skip_poor :
  rrq (add_reward 100000000 100000 (mkRA (mkPool 1000 300) 100) 999 2000000 50 20000 None) = 0.
Proof. vm_compute. reflexivity. Qed.
Example ex_reward_rate_over :
  rrcode (add_reward 100000000 100000 (mkRA (mkPool 1000 300) 100) 5000 2000000 50 100100 None) = CInsufficient.
Proof. vm_compute. reflexivity. Qed.
Example ex_reward_big :
  rrminted (add_reward 100000000 100000 (mkRA (mkPool (2^128+1) (2^127)) 5) (2^200) 3 7 33333 None) = 11909762076029396415187180375303.
Proof. vm_compute. reflexivity. Qed.
Example ex_rate : current_rate 10 [(0, 5); (10, 7); (11, 9)] = Some 7 /\ current_rate 3 [(5, 1)] = None /\
  active_scale 30 [(30, 1000); (40, 500)] = Some 500 /\ active_scale 40 [(30, 1000); (40, 500)] = None.
Proof. vm_compute. repeat split; reflexivity. Qed.

(* ---------- TransferFromCommon ---------- *)
Lemma tfc_spec cd a common amount escrow rate :
  let r := transfer_from_common cd a common amount escrow rate in
  let t := N.min common amount in
  (* nothing moved, nothing changed *)
  ((t = 0 \/ trcode r <> COk) -> tracct r = a /\ trcommon r = common /\ trmoved r = 0) /\
  (trcode r = COk -> t <> 0 ->
     trmoved r = t /\ trcommon r = common - t /\
     (* conservation *)
     tagen (tracct r) + bal (tapool (tracct r)) + trcommon r = tagen a + bal (tapool a) + common /\
     tsh (tapool (tracct r)) = tsh (tapool a) + trminted r /\
     taself (tracct r) = taself a + trminted r /\
     (escrow = false -> tracct r = mkTA (tagen a + t) (tapool a) (taself a)) /\
     (escrow = true ->
        trcom r <= t /\
        (* the entity receives exactly the commission share unless the pool has NO shares *)
        (tsh (tapool a) <> 0 -> trcom r = t * rate / cd) /\
        (tsh (tapool a) = 0 -> trcom r = t) /\
        (* the non-commission part goes to the pool balance, without shares *)
        bal (tapool a) + (t - trcom r) <= bal (tapool (tracct r)) /\
        (* the commission is either deposited (shares at most pro rata) or, for a
           pool that is still dead, left in the general balance *)
        ((tagen (tracct r) = tagen a /\ bal (tapool (tracct r)) = bal (tapool a) + t /\
          (tsh (tapool a) <> 0 ->
           trminted r * (bal (tapool a) + (t - trcom r)) <= trcom r * tsh (tapool a))) \/
         (tagen (tracct r) = tagen a + trcom r /\ trminted r = 0 /\
          bal (tapool a) = 0 /\ t - trcom r = 0 /\ tsh (tapool a) <> 0 /\
          bal (tapool (tracct r)) = 0)))).
Proof.
  intros r t. subst r. unfold transfer_from_common. fold t.
  destruct (N.eqb_spec t 0) as [T0|T0].
  { cbn [trcode tracct trcommon trmoved]. split; [intros _; repeat split|intros _ Hn; contradiction]. }
  destruct escrow; cbn [negb].
  2:{ cbn [trcode tracct trcommon trmoved trminted tagen tapool taself]. split.
      - intros [H|H]; contradiction.
      - intros _ _. assert (t <= common) by (unfold t; lia). repeat split; try lia; try discriminate. }
  set (cc := if tsh (tapool a) =? 0 then Some (t, 0) else compute_commission cd rate t).
  assert (Hcc : forall com rest, cc = Some (com, rest) ->
            com + rest = t /\ (tsh (tapool a) <> 0 -> com = t * rate / cd) /\ (tsh (tapool a) = 0 -> com = t /\ rest = 0)).
  { intros com rest. unfold cc. destruct (N.eqb_spec (tsh (tapool a)) 0) as [S0|S0].
    - intros E. injection E as <- <-. repeat split; try lia; contradiction.
    - intros E. apply compute_commission_some in E as [E1 E2]. repeat split; try lia; try exact E2; contradiction. }
  destruct cc as [[com rest]|].
  2:{ cbn [trcode tracct trcommon trmoved]. split; [intros _; repeat split|intros Hc; discriminate]. }
  destruct (Hcc com rest eq_refl) as [Hsum [Hs1 Hs0]]. clear Hcc.
  assert (Htc : t <= common) by (unfold t; lia).
  set (p1 := mkPool (bal (tapool a) + rest) (tsh (tapool a))).
  set (g1 := tagen a + t - rest).
  destruct ((com =? 0) || ((bal p1 =? 0) && negb (tsh p1 =? 0))) eqn:Skip.
  - cbn [trcode tracct trcommon trmoved trminted trcom tagen tapool taself]. split; [intros [H|H]; contradiction|].
    intros _ _. cbn [p1 bal tsh]. unfold g1.
    split; [reflexivity|]. split; [reflexivity|]. split; [lia|]. split; [lia|]. split; [lia|].
    split; [discriminate|].
    intros _. split; [lia|]. split; [exact Hs1|]. split; [intros H; apply (Hs0 H)|]. split; [lia|].
    destruct (N.eqb_spec com 0) as [C0|C0].
    + left. subst com. repeat split; try lia.
    + cbn [orb] in Skip. cbn [p1 bal tsh] in Skip. right. repeat split; lia.
  - apply orb_false_iff in Skip as [C0 Dd]. apply N.eqb_neq in C0.
    assert (Hnd : shares_for_stake p1 com <> None).
    { intros Hn. apply sfs_none in Hn as [H1 H2]. cbn [p1 bal tsh] in *. lia. }
    destruct (shares_for_stake p1 com) as [m|] eqn:ES; [|contradiction].
    unfold deposit. rewrite ES. destruct (N.ltb_spec g1 com) as [L|L]; [unfold g1 in L; lia|].
    cbn [rcode rpool rsrc rdst rret trcode tracct trcommon trmoved trminted trcom tagen tapool taself].
    split; [intros [H|H]; contradiction|]. intros _ _. cbn [p1 bal tsh]. unfold g1.
    split; [reflexivity|]. split; [reflexivity|]. split; [lia|]. split; [lia|]. split; [lia|].
    split; [discriminate|].
    intros _. split; [lia|]. split; [exact Hs1|]. split; [intros H; apply (Hs0 H)|]. split; [lia|].
    left. repeat split; try lia. intros S0.
    pose proof (sfs_bounds _ _ _ ES S0) as [_ [Lm _]]. cbn [p1 bal tsh] in Lm.
    replace (t - com) with rest by lia. exact Lm.
Qed.

(* fairness: the price does not fall, no holder's worth falls, and with shares
   outstanding every holder gets its pro-rata part of the non-commission part,
   a pool slashed to zero included *)
Lemma tfc_holders_get_noncommission_l cd a common amount escrow rate u :
  let r := transfer_from_common cd a common amount escrow rate in
  price_le (tapool a) (tapool (tracct r)) /\
  worth (tapool a) u <= worth (tapool (tracct r)) u /\
  (trcode r = COk -> escrow = true -> tsh (tapool a) <> 0 ->
   u * (bal (tapool a) + (trmoved r - trcom r)) / tsh (tapool a) <= worth (tapool (tracct r)) u).
Proof.
  intros r. pose proof (tfc_spec cd a common amount escrow rate) as [H0 H1]. cbv zeta in H0, H1. fold r in H0, H1.
  set (t := N.min common amount) in *.
  destruct (N.eq_dec t 0) as [T0|T0].
  { destruct (H0 (or_introl T0)) as [E [_ Em]]. rewrite E, Em.
    split; [unfold price_le; lia|]. split; [lia|]. intros _ _ S0. rewrite N.sub_0_l, N.add_0_r. unfold worth. rewrite stake_div by exact S0. lia. }
  destruct (code_eqb (trcode r) COk) eqn:Ec.
  2:{ assert (Hn : trcode r <> COk) by (intros Hc; rewrite Hc in Ec; discriminate).
      destruct (H0 (or_intror Hn)) as [E _]. rewrite E.
      split; [unfold price_le; lia|]. split; [lia|]. intros Hc; contradiction. }
  assert (Hok : trcode r = COk) by (destruct (trcode r); try discriminate; reflexivity).
  destruct (H1 Hok T0) as [Em [_ [_ [Hs [_ [Hf He]]]]]].
  destruct escrow.
  2:{ rewrite (Hf eq_refl). cbn [tapool].
      split; [unfold price_le; lia|]. split; [lia|]. intros _ Hc; discriminate. }
  destruct (He eq_refl) as [Hct [_ [_ [Hb Hcase]]]].
  (* cross-multiplied price after >= (B + rest) / S *)
  assert (Hx : tsh (tapool a) <> 0 ->
               (bal (tapool a) + (t - trcom r)) * tsh (tapool (tracct r)) <= bal (tapool (tracct r)) * tsh (tapool a)).
  { intros S0. rewrite Hs. destruct Hcase as [[_ [Eb Hm]]|[_ [Em0 [_ [_ [_ _]]]]]].
    - specialize (Hm S0). rewrite Eb. rewrite N.mul_add_distr_l.
      replace (bal (tapool a) + t) with (bal (tapool a) + (t - trcom r) + trcom r) by lia.
      rewrite (N.mul_add_distr_r _ (trcom r)). lia.
    - rewrite Em0, N.add_0_r. apply N.mul_le_mono_r. exact Hb. }
  assert (Hp : price_le (tapool a) (tapool (tracct r))).
  { unfold price_le. intros S0. specialize (Hx S0).
    assert (bal (tapool a) * tsh (tapool (tracct r)) <= (bal (tapool a) + (t - trcom r)) * tsh (tapool (tracct r)))
      by (apply N.mul_le_mono_r; lia). lia. }
  split; [exact Hp|]. split.
  - apply worth_mono_price; [exact Hp|]. intros Hz. unfold worth. apply stake_zero. lia.
  - intros _ _ S0. rewrite Em. unfold worth.
    assert (S1 : tsh (tapool (tracct r)) <> 0) by lia.
    rewrite (stake_div _ _ S1). apply div_le_cross; [exact S0|exact S1|].
    specialize (Hx S0).
    assert (u * ((bal (tapool a) + (t - trcom r)) * tsh (tapool (tracct r))) <= u * (bal (tapool (tracct r)) * tsh (tapool a)))
      by (apply N.mul_le_mono_l; exact Hx). lia.
Qed.

(* the scenario of a pool slashed to zero: 200 shares outstanding, reward 100
   with 20% commission: 80 revive the pool for all holders, 20 are deposited
   for the entity at the new price (50 shares); with 100% commission the pool
   stays dead and the commission stays liquid; no shares: all commission *)
Example ex_tfc_dead_pool :
  transfer_from_common 100000 (mkTA 0 (mkPool 0 200) 50) 1000 100 true 20000
  = mkTR COk (mkTA 0 (mkPool 100 250) 100) 900 100 20 50 /\
  transfer_from_common 100000 (mkTA 0 (mkPool 0 200) 50) 1000 100 true 100000
  = mkTR COk (mkTA 100 (mkPool 0 200) 50) 900 100 100 0 /\
  transfer_from_common 100000 (mkTA 7 (mkPool 0 0) 0) 1000 100 true 20000
  = mkTR COk (mkTA 7 (mkPool 100 100) 100) 900 100 100 100 /\
  transfer_from_common 100000 (mkTA 7 (mkPool 300 100) 10) 60 100 true 50000
  = mkTR COk (mkTA 7 (mkPool 360 109) 19) 0 60 30 9 /\
  transfer_from_common 100000 (mkTA 7 (mkPool 300 100) 10) 60 100 false 50000
  = mkTR COk (mkTA 67 (mkPool 300 100) 10) 0 60 0 0.
Proof. vm_compute. repeat split; reflexivity. Qed.
