(* Operation-sequence theorems about the multi-delegator machine of
   Ledger/SharePool.v: well-formedness, conservation, and the profit bound
   (no set of acting delegators gets out more than it put in plus its
   pro-rata part of the rewards, whatever the passive holders hold). *)
From Verif Require Import Lib.Base Ledger.SharePool Ledger.SharePoolProofs.

(* ---------- sums over the delegator table ---------- *)
Definition keys (l : list (N * deleg)) : list N := map fst l.

Fixpoint sumA (A : N -> bool) (f : deleg -> N) (l : list (N * deleg)) : N :=
  match l with
  | [] => 0
  | (k, x) :: r => (if A k then f x else 0) + sumA A f r
  end.

Lemma aget_notin (k : N) (l : list (N * deleg)) : ~ In k (keys l) -> aget k l = None.
Proof.
  induction l as [|[k' x] r IH]; cbn [aget keys map fst In]; [reflexivity|].
  intros H. destruct (N.eqb_spec k' k) as [E|E]; [exfalso; apply H; left; exact E|].
  apply IH. intros Hc. apply H. right. exact Hc.
Qed.

Lemma adel_notin (k : N) (l : list (N * deleg)) : ~ In k (keys l) -> adel k l = l.
Proof.
  induction l as [|[k' x] r IH]; cbn [adel keys map fst In]; [reflexivity|].
  intros H. destruct (N.eqb_spec k' k) as [E|E]; [exfalso; apply H; left; exact E|].
  f_equal. apply IH. intros Hc. apply H. right. exact Hc.
Qed.

Lemma adel_keys_in (k k' : N) (l : list (N * deleg)) :
  In k' (keys (adel k l)) -> In k' (keys l) /\ k' <> k.
Proof.
  induction l as [|[k2 x] r IH]; cbn [adel keys map fst In]; [tauto|].
  destruct (N.eqb_spec k2 k) as [E|E].
  - intros H. destruct (IH H) as [H1 H2]. split; [right; exact H1|exact H2].
  - cbn [keys map fst In]. intros [H|H].
    + split; [left; exact H|congruence].
    + destruct (IH H) as [H1 H2]. split; [right; exact H1|exact H2].
Qed.

Lemma adel_nodup (k : N) (l : list (N * deleg)) : NoDup (keys l) -> NoDup (keys (adel k l)).
Proof.
  induction l as [|[k2 x] r IH]; cbn [adel keys map fst]; [intros H; exact H|].
  intros H. inversion H as [|? ? Hn Hr]; subst.
  destruct (N.eqb_spec k2 k) as [E|E]; [apply IH; exact Hr|].
  cbn [keys map fst]. constructor; [|apply IH; exact Hr].
  intros Hc. apply adel_keys_in in Hc. tauto.
Qed.

Lemma aset_nodup (k : N) (v : deleg) (l : list (N * deleg)) :
  NoDup (keys l) -> NoDup (keys (aset k v l)).
Proof.
  intros H. unfold aset. cbn [keys map fst]. constructor; [|apply adel_nodup; exact H].
  intros Hc. apply adel_keys_in in Hc. tauto.
Qed.

Lemma dget_aset_same k v l : dget k (aset k v l) = v.
Proof. unfold dget. rewrite aget_aset_same. reflexivity. Qed.

Lemma dget_aset_other k k' v l : k <> k' -> dget k (aset k' v l) = dget k l.
Proof. intros H. unfold dget. rewrite aget_aset_other by exact H. reflexivity. Qed.

Section SumLemmas.
  Variable A : N -> bool.
  Variable f : deleg -> N.
  Hypothesis f0 : f deleg0 = 0.

  Lemma sumA_adel k l : NoDup (keys l) ->
    sumA A f l = (if A k then f (dget k l) else 0) + sumA A f (adel k l).
  Proof.
    induction l as [|[k2 x] r IH]; cbn [sumA adel keys map fst].
    - intros _. unfold dget. cbn [aget]. rewrite f0. destruct (A k); reflexivity.
    - intros H. inversion H as [|? ? Hn Hr]; subst. unfold dget. cbn [aget].
      destruct (N.eqb_spec k2 k) as [E|E].
      + subst k2. rewrite (adel_notin k r Hn). reflexivity.
      + cbn [sumA]. specialize (IH Hr). unfold dget in IH. lia.
  Qed.

  Lemma sumA_aset k v l : NoDup (keys l) ->
    sumA A f (aset k v l) + (if A k then f (dget k l) else 0)
    = sumA A f l + (if A k then f v else 0).
  Proof.
    intros H. unfold aset. cbn [sumA]. rewrite (sumA_adel k l H). lia.
  Qed.

  Lemma sumA_ge k l : NoDup (keys l) -> A k = true -> f (dget k l) <= sumA A f l.
  Proof. intros H Hk. rewrite (sumA_adel k l H), Hk. lia. Qed.
End SumLemmas.

Definition allA : N -> bool := fun _ => true.

Lemma sumA_le_all A f l : sumA A f l <= sumA allA f l.
Proof.
  induction l as [|[k x] r IH]; cbn [sumA]; [lia|]. unfold allA at 1. destruct (A k); lia.
Qed.

(* ---------- machine steps ---------- *)
Definition mnext (st : mstate) (o : mop) : mstate := fst (mstep st o).

Lemma mfinal_cons st o r : mfinal st (o :: r) = mfinal (mnext st o) r.
Proof.
  unfold mfinal, mnext. cbn [mrun]. destruct (mstep st o) as [st1 ob]. cbn [fst].
  destruct (mrun st1 r) as [st2 obs]. reflexivity.
Qed.

Lemma mfinal_nil st : mfinal st [] = st.
Proof. reflexivity. Qed.

(* well-formed: distinct delegator keys and the shares held add up to the
   pool's total shares (what the ledger maintains: C05's share accounting) *)
Definition wfm (st : mstate) : Prop :=
  NoDup (keys (mdel st)) /\ sumA allA dsh (mdel st) = tsh (mpool st).

Definition uA A st := sumA A dsh (mdel st).
Definition inA A st := sumA A din (mdel st).
Definition outA A st := sumA A dout (mdel st).

Lemma mnext_deposit_err st d a :
  shares_for_stake (mpool st) a = None -> mnext st (ODeposit d a) = st.
Proof.
  intros H. unfold mnext, mstep, deposit. rewrite H. reflexivity.
Qed.

Lemma mnext_deposit_ok st d a m :
  shares_for_stake (mpool st) a = Some m ->
  mnext st (ODeposit d a) =
  mkM (mkPool (bal (mpool st) + a) (tsh (mpool st) + m))
      (aset d (mkDeleg (dsh (dget d (mdel st)) + m) (din (dget d (mdel st)) + a) (dout (dget d (mdel st)))) (mdel st))
      (mrew st) (mslashed st).
Proof.
  intros H. unfold mnext, mstep, deposit. rewrite H. rewrite N.ltb_irrefl. reflexivity.
Qed.

Lemma mnext_withdraw_err st d s :
  ~ (s <= dsh (dget d (mdel st)) /\ s <= tsh (mpool st)) -> mnext st (OWithdraw d s) = st.
Proof.
  intros H. unfold mnext, mstep.
  destruct (rcode (withdraw (mpool st) 0 (dsh (dget d (mdel st))) s)) eqn:E; try reflexivity.
  apply withdraw_ok_iff in E. contradiction.
Qed.

Lemma mnext_withdraw_ok st d s :
  s <= dsh (dget d (mdel st)) -> s <= tsh (mpool st) ->
  mnext st (OWithdraw d s) =
  mkM (mkPool (bal (mpool st) - worth (mpool st) s) (tsh (mpool st) - s))
      (aset d (mkDeleg (dsh (dget d (mdel st)) - s) (din (dget d (mdel st)))
                       (dout (dget d (mdel st)) + worth (mpool st) s)) (mdel st))
      (mrew st) (mslashed st).
Proof.
  intros H1 H2. unfold mnext, mstep. rewrite (withdraw_ok_eq _ _ _ _ H1 H2). reflexivity.
Qed.

Lemma slash_single b a : fst (slash_pools b 0 a) = N.min b a.
Proof.
  unfold slash_pools. cbn [fst]. rewrite N.add_0_r. unfold slash_take.
  destruct (N.eqb_spec b 0) as [E|E]; [lia|].
  rewrite (N.mul_comm b a), N.div_mul by exact E. reflexivity.
Qed.

(* ---------- wfm is invariant ---------- *)
Lemma wfm_step st o : wfm st -> wfm (mnext st o).
Proof.
  intros [Hk Hs]. destruct o as [d a|d s|a|a].
  - destruct (shares_for_stake (mpool st) a) as [m|] eqn:E.
    + rewrite (mnext_deposit_ok _ _ _ _ E). split; cbn [mdel mpool tsh].
      * apply aset_nodup; exact Hk.
      * pose proof (sumA_aset allA dsh eq_refl d
          (mkDeleg (dsh (dget d (mdel st)) + m) (din (dget d (mdel st)) + a) (dout (dget d (mdel st))))
          (mdel st) Hk) as X. change (allA d) with true in X; cbv iota in X. cbn [dsh] in X. lia.
    + rewrite (mnext_deposit_err _ _ _ E). split; assumption.
  - destruct (N.le_gt_cases s (dsh (dget d (mdel st)))) as [H1|H1];
    [destruct (N.le_gt_cases s (tsh (mpool st))) as [H2|H2]|].
    + rewrite (mnext_withdraw_ok _ _ _ H1 H2). split; cbn [mdel mpool tsh].
      * apply aset_nodup; exact Hk.
      * pose proof (sumA_aset allA dsh eq_refl d
          (mkDeleg (dsh (dget d (mdel st)) - s) (din (dget d (mdel st)))
                   (dout (dget d (mdel st)) + worth (mpool st) s))
          (mdel st) Hk) as X. change (allA d) with true in X; cbv iota in X. cbn [dsh] in X. lia.
    + rewrite mnext_withdraw_err by lia. split; assumption.
    + rewrite mnext_withdraw_err by lia. split; assumption.
  - unfold mnext, mstep. cbn [fst]. split; cbn [mdel mpool tsh]; assumption.
  - unfold mnext, mstep. cbn [fst]. split; cbn [mdel mpool tsh]; assumption.
Qed.

Lemma wfm_run ops : forall st, wfm st -> wfm (mfinal st ops).
Proof.
  induction ops as [|o r IH]; intros st H; [exact H|].
  rewrite mfinal_cons. apply IH. apply wfm_step. exact H.
Qed.

(* a holder never has more shares than the pool's total, so the partial
   failure of Withdraw (api.go:715, holder's shares already reduced) cannot
   happen in a well-formed ledger: Withdraw fails iff the holder lacks shares *)
Lemma wfm_holder_le st d : wfm st -> dsh (dget d (mdel st)) <= tsh (mpool st).
Proof.
  intros [Hk Hs]. rewrite <- Hs. apply (sumA_ge allA dsh eq_refl d _ Hk). reflexivity.
Qed.

Lemma withdraw_partial_failure_unreachable_l st0 ops d s :
  wfm st0 -> let st := mfinal st0 ops in
  let r := withdraw (mpool st) 0 (dsh (dget d (mdel st))) s in
  (rcode r = COk <-> s <= dsh (dget d (mdel st))) /\
  (rcode r <> COk -> rpool r = mpool st /\ rsrc r = dsh (dget d (mdel st))).
Proof.
  intros H st r. pose proof (wfm_holder_le st d (wfm_run ops st0 H)) as L.
  subst r. split.
  - rewrite withdraw_ok_iff. lia.
  - intros Hn. apply (withdraw_fails_exactly_l (mpool st) 0 _ s) in Hn.
    assert (Hlt : dsh (dget d (mdel st)) < s) by lia.
    destruct (withdraw_fails_exactly_l (mpool st) 0 (dsh (dget d (mdel st))) s) as [_ [X _]].
    specialize (X Hlt). tauto.
Qed.

(* ---------- conservation ---------- *)
(* paid out + balance + slashed = paid in + rewards + initial: nothing is
   created or destroyed, whatever the rounding *)
Definition conserved (c : N) (st : mstate) : Prop :=
  outA allA st + bal (mpool st) + mslashed st = inA allA st + mrew st + c.

Lemma conserved_step c st o : wfm st -> conserved c st -> conserved c (mnext st o).
Proof.
  intros [Hk Hs] Hc. unfold conserved, outA, inA in *. destruct o as [d a|d s|a|a].
  - destruct (shares_for_stake (mpool st) a) as [m|] eqn:E.
    + rewrite (mnext_deposit_ok _ _ _ _ E). cbn [mdel mpool bal mrew mslashed].
      set (v := mkDeleg _ _ _).
      pose proof (sumA_aset allA din eq_refl d v (mdel st) Hk) as X1.
      pose proof (sumA_aset allA dout eq_refl d v (mdel st) Hk) as X2.
      change (allA d) with true in X1; cbv iota in X1. change (allA d) with true in X2; cbv iota in X2. subst v. cbn [din dout] in X1, X2. lia.
    + rewrite (mnext_deposit_err _ _ _ E). exact Hc.
  - destruct (N.le_gt_cases s (dsh (dget d (mdel st)))) as [H1|H1];
    [destruct (N.le_gt_cases s (tsh (mpool st))) as [H2|H2]|].
    + rewrite (mnext_withdraw_ok _ _ _ H1 H2). cbn [mdel mpool bal mrew mslashed].
      set (v := mkDeleg _ _ _).
      pose proof (sumA_aset allA din eq_refl d v (mdel st) Hk) as X1.
      pose proof (sumA_aset allA dout eq_refl d v (mdel st) Hk) as X2.
      change (allA d) with true in X1; cbv iota in X1. change (allA d) with true in X2; cbv iota in X2. subst v. cbn [din dout] in X1, X2.
      pose proof (stake_le_bal (mpool st) s H2) as Lb. unfold worth in *. lia.
    + rewrite mnext_withdraw_err by lia. exact Hc.
    + rewrite mnext_withdraw_err by lia. exact Hc.
  - unfold mnext, mstep. cbn [fst mdel mpool bal mrew mslashed]. lia.
  - unfold mnext, mstep. cbn [fst mdel mpool bal mrew mslashed]. rewrite slash_single. lia.
Qed.

Lemma conservation_l ops : forall st c, wfm st -> conserved c st -> conserved c (mfinal st ops).
Proof.
  induction ops as [|o r IH]; intros st c Hw Hc; [exact Hc|].
  rewrite mfinal_cons. apply IH; [apply wfm_step; exact Hw|apply conserved_step; assumption].
Qed.

(* ---------- the profit bound ---------- *)
Definition actor_in (A : N -> bool) (o : mop) : Prop :=
  match o with
  | ODeposit d _ | OWithdraw d _ => A d = true
  | _ => True
  end.

Definition cdiv (x y : N) : N := (x + (y - 1)) / y.

Lemma cdiv_ge x y : y <> 0 -> x <= y * cdiv x y.
Proof.
  intros H. unfold cdiv. pose proof (N.div_mod (x + (y - 1)) y H) as E.
  pose proof (N.mod_lt (x + (y - 1)) y H) as L. lia.
Qed.

(* A's pro-rata part of one reward, rounded up to a base unit; a reward that
   arrives while nobody holds shares (orphan balance) is counted in full: it
   goes to whoever deposits next *)
Definition rstep (A : N -> bool) (st : mstate) (o : mop) : N :=
  match o with
  | OReward a => if tsh (mpool st) =? 0 then a else cdiv (uA A st * a) (tsh (mpool st))
  | _ => 0
  end.

Fixpoint rshare (A : N -> bool) (st : mstate) (ops : list mop) : N :=
  match ops with
  | [] => 0
  | o :: r => rstep A st o + rshare A (mnext st o) r
  end.

Local Open Scope Z_scope.
Definition z := Z.of_N.

Lemma dep_step q u B S K m a :
  0 <= q -> 0 <= u -> 0 <= B -> 0 < S -> 0 <= K -> 0 <= m -> 0 <= a ->
  q*u*B <= S*K -> m*B <= a*S -> u <= S ->
  q*(u+m)*(B+a) <= (S+m)*(K+q*a).
Proof.
  intros Hq Hu HB HS HK Hm Ha H1 H2 H3.
  assert (E: S * (q*(u+m)*(B+a)) <= S * ((S+m)*(K+q*a))).
  { assert (A1: m * (q*u*B) <= m * (S*K)) by (apply Z.mul_le_mono_nonneg_l; lia).
    assert (A2: q*(S-u) * (m*B) <= q*(S-u) * (a*S)) by (apply Z.mul_le_mono_nonneg_l; nia).
    assert (A3: S * (q*u*B) <= S * (S*K)) by (apply Z.mul_le_mono_nonneg_l; lia).
    nia. }
  apply Z.mul_le_mono_pos_l in E; lia.
Qed.

Lemma wd_step q u B S K s pay :
  0 <= q -> 0 <= B -> 0 < S -> 0 <= s -> 0 <= pay ->
  q*u*B <= S*K -> pay*S <= s*B -> s <= u -> u <= S -> pay <= B ->
  q*pay <= K /\ q*(u-s)*(B-pay) <= (S-s)*(K-q*pay).
Proof.
  intros Hq HB HS Hs Hp H1 H2 H3 H4 H5.
  assert (P1: q*pay <= K).
  { assert (A: S*(q*pay) <= S*K).
    { assert (q*(pay*S) <= q*(s*B)) by (apply Z.mul_le_mono_nonneg_l; lia).
      assert (q*(s*B) <= q*(u*B)) by (apply Z.mul_le_mono_nonneg_l; nia). nia. }
    apply Z.mul_le_mono_pos_l in A; lia. }
  split; [exact P1|].
  assert (E: S * (q*(u-s)*(B-pay)) <= S * ((S-s)*(K-q*pay))).
  { assert (A1: q*(S-u)*(pay*S) <= q*(S-u)*(s*B)) by (apply Z.mul_le_mono_nonneg_l; nia).
    assert (A2: (S-s)*(q*u*B) <= (S-s)*(S*K)) by (apply Z.mul_le_mono_nonneg_l; lia).
    nia. }
  apply Z.mul_le_mono_pos_l in E; lia.
Qed.

(* The potential-function invariant, for a set A of delegators, a rational
   allowance p/q (q > 0: the value A started with) and the reward part rs
   credited so far. K/q is what A may still take out; A's shares are worth at
   most that (cross-multiplied, no division). *)
Definition Kz (A : N -> bool) (p q : Z) (st : mstate) (rs : N) : Z :=
  q * (z (inA A st) + z rs) + p - q * z (outA A st).

Definition Inv (A : N -> bool) (p q : Z) (st : mstate) (rs : N) : Prop :=
  z (uA A st) <= z (tsh (mpool st)) /\
  0 <= Kz A p q st rs /\
  (tsh (mpool st) = 0%N -> q * z (bal (mpool st)) <= Kz A p q st rs) /\
  q * z (uA A st) * z (bal (mpool st)) <= z (tsh (mpool st)) * Kz A p q st rs.

Lemma Inv_step A p q st rs o :
  0 < q -> wfm st -> actor_in A o -> Inv A p q st rs -> Inv A p q (mnext st o) (rs + rstep A st o)%N.
Proof.
  intros Hq [Hk Hs] Hact [I1 [I2 [I3 I4]]].
  assert (HuS : (uA A st <= tsh (mpool st))%N) by (unfold z in I1; lia).
  destruct o as [d a|d s|a|a]; cbn [actor_in rstep] in *.
  - (* deposit by a member of A *)
    rewrite N.add_0_r.
    destruct (shares_for_stake (mpool st) a) as [m|] eqn:E.
    2:{ rewrite (mnext_deposit_err _ _ _ E). repeat split; assumption. }
    rewrite (mnext_deposit_ok _ _ _ _ E). set (v := mkDeleg _ _ _).
    pose proof (sumA_aset A dsh eq_refl d v (mdel st) Hk) as X1.
    pose proof (sumA_aset A din eq_refl d v (mdel st) Hk) as X2.
    pose proof (sumA_aset A dout eq_refl d v (mdel st) Hk) as X3.
    rewrite Hact in X1, X2, X3. subst v. cbn [dsh din dout] in X1, X2, X3.
    set (st' := mkM _ _ _ _).
    assert (U : uA A st' = (uA A st + m)%N) by (unfold uA; cbn [st' mdel]; lia).
    assert (IN : inA A st' = (inA A st + a)%N) by (unfold inA; cbn [st' mdel]; lia).
    assert (OUT : outA A st' = outA A st) by (unfold outA; cbn [st' mdel]; lia).
    assert (KK : Kz A p q st' rs = Kz A p q st rs + q * z a).
    { unfold Kz. rewrite IN, OUT. unfold z. lia. }
    unfold Inv. rewrite KK, U. cbn [st' mpool bal tsh]. unfold Kz in *. fold (Kz A p q st rs) in *.
    set (K := Kz A p q st rs) in *.
    destruct (N.eq_dec (tsh (mpool st)) 0) as [S0|S0].
    + (* no shares yet: 1:1 *)
      destruct (sfs_some _ _ _ E) as [[_ ->]|[Hc _]]; [|contradiction].
      specialize (I3 S0). assert (U0 : uA A st = 0%N) by lia. rewrite U0, S0 in *.
      unfold z in *. repeat split; try nia.
    + pose proof (sfs_bounds _ _ _ E S0) as [Hb [L1 _]].
      assert (D := dep_step q (z (uA A st)) (z (bal (mpool st))) (z (tsh (mpool st))) K (z m) (z a)).
      unfold z in *. repeat split; try nia.
  - (* withdrawal by a member of A *)
    rewrite N.add_0_r.
    destruct (N.le_gt_cases s (dsh (dget d (mdel st)))) as [H1|H1].
    2:{ rewrite mnext_withdraw_err by lia. repeat split; assumption. }
    assert (Hd : (dsh (dget d (mdel st)) <= uA A st)%N)
      by (apply (sumA_ge A dsh eq_refl d _ Hk Hact)).
    assert (H2 : (s <= tsh (mpool st))%N) by lia.
    rewrite (mnext_withdraw_ok _ _ _ H1 H2). set (v := mkDeleg _ _ _).
    pose proof (sumA_aset A dsh eq_refl d v (mdel st) Hk) as X1.
    pose proof (sumA_aset A din eq_refl d v (mdel st) Hk) as X2.
    pose proof (sumA_aset A dout eq_refl d v (mdel st) Hk) as X3.
    rewrite Hact in X1, X2, X3. subst v. cbn [dsh din dout] in X1, X2, X3.
    set (pay := worth (mpool st) s) in *.
    set (st' := mkM _ _ _ _).
    assert (U : uA A st' = (uA A st - s)%N) by (unfold uA; cbn [st' mdel]; lia).
    assert (IN : inA A st' = inA A st) by (unfold inA; cbn [st' mdel]; lia).
    assert (OUT : outA A st' = (outA A st + pay)%N) by (unfold outA; cbn [st' mdel]; lia).
    assert (KK : Kz A p q st' rs = Kz A p q st rs - q * z pay).
    { unfold Kz. rewrite IN, OUT. unfold z. lia. }
    pose proof (stake_le_cross (mpool st) s) as C1. fold (worth (mpool st) s) in C1. fold pay in C1.
    pose proof (stake_le_bal (mpool st) s H2) as C2. fold (worth (mpool st) s) in C2. fold pay in C2.
    unfold Inv. rewrite KK, U. cbn [st' mpool bal tsh].
    set (K := Kz A p q st rs) in *.
    destruct (N.eq_dec (tsh (mpool st)) 0) as [S0|S0].
    + assert (s = 0%N) by lia. subst s.
      assert (P0 : pay = 0%N) by (unfold pay, worth; apply stake_zero; lia).
      rewrite P0, !N.sub_0_r. unfold z in *. replace (q * Z.of_N 0) with 0 by lia.
      rewrite Z.sub_0_r. repeat split; try assumption.
    + unfold z in *.
      assert (W : q * Z.of_N pay <= K /\
                  q * (Z.of_N (uA A st) - Z.of_N s) * (Z.of_N (bal (mpool st)) - Z.of_N pay)
                  <= (Z.of_N (tsh (mpool st)) - Z.of_N s) * (K - q * Z.of_N pay)).
      { apply wd_step; try lia; nia. }
      destruct W as [W1 W2].
      rewrite !N2Z.inj_sub by lia.
      split; [lia|]. split; [lia|]. split; [|exact W2].
      intros Hz. assert (s = tsh (mpool st)) by lia. subst s.
      assert (pay = bal (mpool st)) by (unfold pay, worth; apply stake_all; exact S0). lia.
  - (* reward *)
    unfold mnext, mstep. cbn [fst]. set (st' := mkM _ _ _ _).
    assert (U : uA A st' = uA A st) by reflexivity.
    assert (IN : inA A st' = inA A st) by reflexivity.
    assert (OUT : outA A st' = outA A st) by reflexivity.
    unfold Inv, Kz. rewrite U, IN, OUT. cbn [st' mpool bal tsh]. unfold Kz in *.
    destruct (N.eqb_spec (tsh (mpool st)) 0) as [S0|S0].
    + specialize (I3 S0). rewrite S0 in *. unfold z in *. repeat split; try nia.
    + pose proof (cdiv_ge (uA A st * a) (tsh (mpool st)) S0) as C.
      set (sh := cdiv (uA A st * a) (tsh (mpool st))) in *.
      unfold z in *. repeat split; try nia; try contradiction.
  - (* slash *)
    unfold mnext, mstep. cbn [fst]. rewrite slash_single, N.add_0_r. set (st' := mkM _ _ _ _).
    assert (U : uA A st' = uA A st) by reflexivity.
    assert (IN : inA A st' = inA A st) by reflexivity.
    assert (OUT : outA A st' = outA A st) by reflexivity.
    unfold Inv, Kz. rewrite U, IN, OUT. cbn [st' mpool bal tsh]. unfold Kz in *.
    unfold z in *. repeat split; try nia.
Qed.

Lemma Inv_run A p q ops : 0 < q -> Forall (actor_in A) ops ->
  forall st rs, wfm st -> Inv A p q st rs -> Inv A p q (mfinal st ops) (rs + rshare A st ops)%N.
Proof.
  intros Hq HF. induction HF as [|o r Ho Hr IH]; intros st rs Hw HI.
  - cbn [rshare]. rewrite N.add_0_r. exact HI.
  - rewrite mfinal_cons. cbn [rshare]. rewrite N.add_assoc.
    apply IH; [apply wfm_step; exact Hw|apply Inv_step; assumption].
Qed.

Local Close Scope Z_scope.
Local Open Scope N_scope.

(* what the set A can claim at the start: the worth of its shares, or the
   whole (orphan) balance when nobody holds shares *)
Definition start_value (A : N -> bool) (st : mstate) : N :=
  if tsh (mpool st) =? 0 then bal (mpool st) else worth (mpool st) (uA A st).

Lemma profit_bound_l A st0 ops :
  wfm st0 -> Forall (actor_in A) ops ->
  let st := mfinal st0 ops in
  outA A st + worth (mpool st) (uA A st) + inA A st0
  <= inA A st + outA A st0 + rshare A st0 ops + start_value A st0.
Proof.
  intros Hw HF st.
  (* allowance p/q *)
  set (q := if tsh (mpool st0) =? 0 then 1%Z else z (tsh (mpool st0))).
  set (p0 := if tsh (mpool st0) =? 0 then z (bal (mpool st0)) else (z (uA A st0) * z (bal (mpool st0)))%Z).
  (* shift by the initial counters so that K starts at p0 *)
  set (p := (p0 + q * z (outA A st0) - q * z (inA A st0))%Z).
  assert (Hq : (0 < q)%Z).
  { unfold q. destruct (N.eqb_spec (tsh (mpool st0)) 0); unfold z; lia. }
  assert (HuS : uA A st0 <= tsh (mpool st0)).
  { destruct Hw as [_ Hs]. rewrite <- Hs. apply sumA_le_all. }
  assert (I0 : Inv A p q st0 0).
  { unfold Inv, Kz, p, p0, q. destruct (N.eqb_spec (tsh (mpool st0)) 0) as [S0|S0]; unfold z in *.
    - assert (uA A st0 = 0) by lia. repeat split; try nia.
    - repeat split; try nia; try contradiction. }
  pose proof (Inv_run A p q ops Hq HF st0 0 Hw I0) as [J1 [J2 [J3 J4]]].
  fold st in J1, J2, J3, J4. rewrite N.add_0_l in *.
  set (rs := rshare A st0 ops) in *.
  (* q * worth <= K *)
  assert (HW : (q * z (worth (mpool st) (uA A st)) <= Kz A p q st rs)%Z).
  { destruct (N.eq_dec (tsh (mpool st)) 0) as [S0|S0].
    - unfold worth. rewrite stake_zero by lia. unfold z. lia.
    - pose proof (stake_le_cross (mpool st) (uA A st)) as C. fold (worth (mpool st) (uA A st)) in C.
      set (w := worth (mpool st) (uA A st)) in *.
      assert (E : (z (tsh (mpool st)) * (q * z w) <= z (tsh (mpool st)) * Kz A p q st rs)%Z).
      { unfold z in *. nia. }
      apply Z.mul_le_mono_pos_l in E; unfold z in *; lia. }
  unfold Kz, p in HW. set (w := worth (mpool st) (uA A st)) in *.
  (* q * (out + w + in0) <= q * (in + out0 + rs) + p0, then divide *)
  assert (HX : (q * (z (outA A st) + z w + z (inA A st0) - z (inA A st) - z (outA A st0) - z rs) <= p0)%Z) by lia.
  assert (HV : (z (outA A st) + z w + z (inA A st0) - z (inA A st) - z (outA A st0) - z rs
                <= z (start_value A st0))%Z).
  { unfold start_value, p0, q in *. destruct (N.eqb_spec (tsh (mpool st0)) 0) as [S0|S0].
    - lia.
    - unfold worth. rewrite stake_div by exact S0. unfold z. rewrite N2Z.inj_div, N2Z.inj_mul.
      apply Z.div_le_lower_bound; [lia|]. unfold z in HX. lia. }
  unfold z in HV. lia.
Qed.

(* no rewards, no slashes in the list *)
Definition plain (o : mop) : Prop :=
  match o with ODeposit _ _ | OWithdraw _ _ => True | _ => False end.

Lemma rshare_plain A ops : Forall plain ops -> forall st, rshare A st ops = 0.
Proof.
  intros HF. induction HF as [|o r Ho Hr IH]; intros st; cbn [rshare]; [reflexivity|].
  rewrite IH. destruct o; cbn [plain rstep] in *; try contradiction; reflexivity.
Qed.

Lemma sumA_minit_zero A f (hold : list (N * N)) : (forall x, f (mkDeleg x 0 0) = 0) ->
  sumA A f (map (fun x => (fst x, mkDeleg (snd x) 0 0)) hold) = 0.
Proof.
  intros Hf. induction hold as [|[k x] r IH]; cbn [map sumA fst snd]; [reflexivity|].
  rewrite Hf, IH. destruct (A k); reflexivity.
Qed.

Lemma no_profit_without_rewards_l A b s hold ops :
  wfm (minit b s hold) -> (s = 0 -> b = 0) ->
  Forall plain ops -> Forall (actor_in A) ops ->
  let st0 := minit b s hold in
  let st := mfinal st0 ops in
  outA A st + worth (mpool st) (uA A st) <= inA A st + worth (mpool st0) (uA A st0).
Proof.
  intros Hw Ho Hp Ha st0 st.
  pose proof (profit_bound_l A st0 ops Hw Ha) as P. fold st in P.
  rewrite (rshare_plain A ops Hp) in P.
  assert (Z1 : forall f, (forall x, f (mkDeleg x 0 0) = 0) -> sumA A f (mdel st0) = 0).
  { intros f Hf. unfold st0, minit. cbn [mdel]. apply sumA_minit_zero. exact Hf. }
  assert (I0 : inA A st0 = 0) by (apply Z1; reflexivity).
  assert (O0 : outA A st0 = 0) by (apply Z1; reflexivity).
  assert (SV : start_value A st0 = worth (mpool st0) (uA A st0)).
  { unfold start_value, st0, minit. cbn [mpool bal tsh].
    destruct (N.eqb_spec s 0) as [S0|S0]; [|reflexivity].
    rewrite (Ho S0). unfold worth. rewrite stake_zero by (cbn [bal]; lia). reflexivity. }
  cbv zeta in P. rewrite I0, O0, SV in P. lia.
Qed.

(* ---------- a single acting delegator ---------- *)
Lemma sumA_none A f l : (forall k, In k (keys l) -> A k = false) -> sumA A f l = 0.
Proof.
  induction l as [|[k x] r IH]; cbn [sumA keys map fst In]; [reflexivity|].
  intros H. rewrite (H k) by (left; reflexivity). rewrite IH; [reflexivity|].
  intros k' Hk. apply H. right. exact Hk.
Qed.

Lemma sumA_single d f l : f deleg0 = 0 -> NoDup (keys l) -> sumA (N.eqb d) f l = f (dget d l).
Proof.
  intros f0 H. rewrite (sumA_adel (N.eqb d) f f0 d l H), N.eqb_refl.
  rewrite sumA_none; [lia|]. intros k Hk. apply adel_keys_in in Hk. lia.
Qed.

Definition only_actor (d : N) (o : mop) : Prop := actor_in (N.eqb d) o.

Lemma only_actor_in d o : only_actor d o <->
  match o with ODeposit d' _ | OWithdraw d' _ => d' = d | _ => True end.
Proof. unfold only_actor. destruct o; cbn [actor_in]; try tauto; split; lia. Qed.

Lemma sole_actor_no_profit_l d b s hold ops :
  wfm (minit b s hold) -> (s = 0 -> b = 0) ->
  Forall plain ops -> Forall (only_actor d) ops ->
  let st0 := minit b s hold in
  let st := mfinal st0 ops in
  dout (dget d (mdel st)) + worth (mpool st) (dsh (dget d (mdel st)))
  <= din (dget d (mdel st)) + worth (mpool st0) (dsh (dget d (mdel st0))).
Proof.
  intros Hw Ho Hp Ha st0 st.
  pose proof (no_profit_without_rewards_l (N.eqb d) b s hold ops Hw Ho Hp Ha) as P.
  cbv zeta in P. fold st0 in P. fold st in P.
  pose proof (wfm_run ops st0 Hw) as [Hk _]. fold st in Hk. destruct Hw as [Hk0 _].
  unfold outA, inA, uA in P.
  rewrite !(sumA_single d _ (mdel st)) in P by (try reflexivity; exact Hk).
  rewrite (sumA_single d _ (mdel st0)) in P by (try reflexivity; exact Hk0).
  exact P.
Qed.

(* ---------- price and passive holders, machine level ---------- *)
Definition is_slash (o : mop) : Prop := match o with OSlash _ => True | _ => False end.

Lemma price_step st o : ~ is_slash o -> price_le (mpool st) (mpool (mnext st o)).
Proof.
  intros Hn. destruct o as [d a|d s|a|a]; cbn [is_slash] in Hn; [| | |tauto].
  - destruct (shares_for_stake (mpool st) a) as [m|] eqn:E.
    + rewrite (mnext_deposit_ok _ _ _ _ E). cbn [mpool].
      unfold price_le. cbn [bal tsh]. intros Hs.
      pose proof (sfs_bounds _ _ _ E Hs) as [_ [L _]].
      rewrite N.mul_add_distr_l, N.mul_add_distr_r. lia.
    + rewrite (mnext_deposit_err _ _ _ E). unfold price_le. lia.
  - destruct (N.le_gt_cases s (dsh (dget d (mdel st)))) as [H1|H1];
    [destruct (N.le_gt_cases s (tsh (mpool st))) as [H2|H2]|].
    + rewrite (mnext_withdraw_ok _ _ _ H1 H2). cbn [mpool].
      unfold price_le, worth. cbn [bal tsh]. intros _.
      pose proof (stake_le_cross (mpool st) s) as L. pose proof (stake_le_bal (mpool st) s H2) as Lb.
      rewrite N.mul_sub_distr_l, N.mul_sub_distr_r. lia.
    + rewrite mnext_withdraw_err by lia. unfold price_le. lia.
    + rewrite mnext_withdraw_err by lia. unfold price_le. lia.
  - unfold mnext, mstep. cbn [fst mpool]. unfold price_le. cbn [bal tsh]. intros _.
    rewrite N.mul_add_distr_r. lia.
Qed.

Lemma slash_step st a :
  price_le (mpool (mnext st (OSlash a))) (mpool st) /\
  tsh (mpool (mnext st (OSlash a))) = tsh (mpool st) /\
  bal (mpool (mnext st (OSlash a))) = bal (mpool st) - N.min (bal (mpool st)) a /\
  mdel (mnext st (OSlash a)) = mdel st.
Proof.
  unfold mnext, mstep. cbn [fst mpool mdel bal tsh]. rewrite slash_single.
  repeat split. unfold price_le. cbn [bal tsh]. intros _. apply N.mul_le_mono_r. lia.
Qed.

Lemma pair_le_total d d' l : d <> d' -> NoDup (keys l) ->
  dsh (dget d l) + dsh (dget d' l) <= sumA allA dsh l.
Proof.
  intros Hne H. rewrite (sumA_adel allA dsh eq_refl d l H). change (allA d) with true. cbv iota.
  pose proof (sumA_ge allA dsh eq_refl d' (adel d l) (adel_nodup d l H) eq_refl) as L.
  unfold dget in L at 1. rewrite aget_adel_other in L by congruence. fold (dget d' l) in L. lia.
Qed.

Definition passive (d : N) (o : mop) : Prop :=
  match o with
  | ODeposit d' _ | OWithdraw d' _ => d' <> d
  | OReward _ => True
  | OSlash _ => False
  end.

Lemma passive_step st o d : wfm st -> passive d o ->
  dget d (mdel (mnext st o)) = dget d (mdel st) /\
  worth (mpool st) (dsh (dget d (mdel st))) <= worth (mpool (mnext st o)) (dsh (dget d (mdel st))).
Proof.
  intros [Hk Hs] Hp.
  assert (Hpr : price_le (mpool st) (mpool (mnext st o))).
  { apply price_step. destruct o; cbn [passive is_slash] in *; tauto. }
  destruct o as [d' a|d' s|a|a]; cbn [passive] in Hp; [| | |tauto].
  - destruct (shares_for_stake (mpool st) a) as [m|] eqn:E.
    + rewrite (mnext_deposit_ok _ _ _ _ E) in *. cbn [mdel mpool] in *.
      split; [apply dget_aset_other; congruence|].
      apply worth_mono_price; [exact Hpr|]. cbn [tsh]. intros Hz. unfold worth. apply stake_zero. lia.
    + rewrite (mnext_deposit_err _ _ _ E). split; [reflexivity|lia].
  - destruct (N.le_gt_cases s (dsh (dget d' (mdel st)))) as [H1|H1];
    [destruct (N.le_gt_cases s (tsh (mpool st))) as [H2|H2]|].
    + rewrite (mnext_withdraw_ok _ _ _ H1 H2) in *. cbn [mdel mpool] in *.
      split; [apply dget_aset_other; congruence|].
      apply worth_mono_price; [exact Hpr|]. cbn [tsh]. intros Hz.
      pose proof (pair_le_total d d' (mdel st) (not_eq_sym Hp) Hk) as L.
      unfold worth. apply stake_zero. lia.
    + rewrite mnext_withdraw_err by lia. split; [reflexivity|lia].
    + rewrite mnext_withdraw_err by lia. split; [reflexivity|lia].
  - split; [reflexivity|].
    apply worth_mono_price; [exact Hpr|]. unfold mnext, mstep. cbn [fst mpool tsh].
    intros Hz. unfold worth. apply stake_zero. lia.
Qed.

Lemma passive_holder_never_loses_l d ops : Forall (passive d) ops ->
  forall st, wfm st ->
  dget d (mdel (mfinal st ops)) = dget d (mdel st) /\
  worth (mpool st) (dsh (dget d (mdel st))) <= worth (mpool (mfinal st ops)) (dsh (dget d (mdel st))).
Proof.
  intros HF. induction HF as [|o r Ho Hr IH]; intros st Hw; [split; [reflexivity|rewrite mfinal_nil; lia]|].
  rewrite mfinal_cons. destruct (passive_step st o d Hw Ho) as [E L].
  destruct (IH (mnext st o) (wfm_step st o Hw)) as [E2 L2]. rewrite E in E2, L2.
  split; [exact E2|lia].
Qed.

(* only a slash lowers the price: along any run without slashes the price is
   non-decreasing from each state to the next *)
Lemma price_falls_only_by_slash_l st o :
  (~ is_slash o -> price_le (mpool st) (mpool (mnext st o))) /\
  (is_slash o -> price_le (mpool (mnext st o)) (mpool st) /\ tsh (mpool (mnext st o)) = tsh (mpool st)).
Proof.
  split; [apply price_step|]. destruct o; cbn [is_slash]; try tauto. intros _.
  destruct (slash_step st a) as [H1 [H2 _]]. split; assumption.
Qed.

(* ---------- no orphan balance ---------- *)
(* rewards as the code computes them are proportional to the balance
   (state.go:1226-1240, 1355): a pool without balance gets none *)
Fixpoint prop_rewards (st : mstate) (ops : list mop) : Prop :=
  match ops with
  | [] => True
  | o :: r =>
      match o with OReward a => bal (mpool st) = 0 -> a = 0 | _ => True end /\
      prop_rewards (mnext st o) r
  end.

Definition no_orphan (st : mstate) : Prop := tsh (mpool st) = 0 -> bal (mpool st) = 0.

Lemma no_orphan_step st o : wfm st -> no_orphan st ->
  match o with OReward a => bal (mpool st) = 0 -> a = 0 | _ => True end ->
  no_orphan (mnext st o).
Proof.
  intros Hw Hn Hr. unfold no_orphan in *. destruct o as [d a|d s|a|a].
  - destruct (shares_for_stake (mpool st) a) as [m|] eqn:E.
    + rewrite (mnext_deposit_ok _ _ _ _ E). cbn [mpool bal tsh]. intros Hz.
      destruct (sfs_some _ _ _ E) as [[S0 ->]|[S0 _]]; lia.
    + rewrite (mnext_deposit_err _ _ _ E). exact Hn.
  - destruct (N.le_gt_cases s (dsh (dget d (mdel st)))) as [H1|H1];
    [destruct (N.le_gt_cases s (tsh (mpool st))) as [H2|H2]|].
    + rewrite (mnext_withdraw_ok _ _ _ H1 H2). cbn [mpool bal tsh]. intros Hz.
      destruct (N.eq_dec (tsh (mpool st)) 0) as [S0|S0]; [specialize (Hn S0); lia|].
      assert (s = tsh (mpool st)) by lia. subst s. unfold worth. rewrite (stake_all _ S0). lia.
    + rewrite mnext_withdraw_err by lia. exact Hn.
    + rewrite mnext_withdraw_err by lia. exact Hn.
  - unfold mnext, mstep. cbn [fst mpool bal tsh]. intros Hz. specialize (Hn Hz). specialize (Hr Hn). lia.
  - unfold mnext, mstep. cbn [fst mpool bal tsh]. intros Hz. specialize (Hn Hz). lia.
Qed.

Lemma no_orphan_invariant_l ops : forall st, wfm st -> no_orphan st -> prop_rewards st ops ->
  no_orphan (mfinal st ops).
Proof.
  induction ops as [|o r IH]; intros st Hw Hn Hp; [exact Hn|].
  rewrite mfinal_cons. destruct Hp as [Hr Hp]. apply IH; [apply wfm_step; exact Hw| |exact Hp].
  apply no_orphan_step; assumption.
Qed.
