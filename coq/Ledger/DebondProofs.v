(* Proofs about the debonding model (Ledger/Debond.v): over every history of
   escrow additions, reclaims, epoch transitions, rewards and slashes, every
   reclaimed delegation is paid exactly once, at the first epoch transition at
   or after its end epoch and not before, at the debonding pool's price. *)
From Verif Require Import Lib.Base Ledger.SharePool Ledger.SharePoolProofs Ledger.Debond.

Fixpoint qsorted (q : list dentry) : Prop :=
  match q with
  | [] => True
  | x :: r => match r with [] => True | y :: _ => klt (eend x) (edel x) y = true end /\ qsorted r
  end.

(* what is recorded about a completed debonding *)
Definition plog_ok (r : payout) : Prop :=
  pend r <= pat r /\ pamt r = worth (ppool r) (psh r) /\ psh r <= tsh (ppool r) /\
  pamt r * tsh (ppool r) <= psh r * bal (ppool r).

Definition wfD (st : dst) : Prop :=
  dhalt st = false /\
  qsorted (dq st) /\
  qtotal (dq st) = tsh (ddeb st) /\
  Forall (fun x => depoch st <= eend x) (dq st) /\
  (forall e d, ksum e d (dminted st) = lsum e d (dlog st) + ksum e d (dq st)) /\
  Forall plog_ok (dlog st).

(* ---------- qinsert ---------- *)
Lemma keq_true e d x : keq e d x = true <-> (e = eend x /\ d = edel x).
Proof. unfold keq. lia. Qed.

Lemma ksum_qinsert e' d' e d sh q :
  ksum e' d' (qinsert e d sh q) = ksum e' d' q + (if (e' =? e) && (d' =? d) then sh else 0).
Proof.
  induction q as [|x r IH]; cbn [qinsert ksum].
  - unfold keq. cbn [eend edel esh]. lia.
  - destruct (keq e d x) eqn:K.
    + apply keq_true in K as [-> ->]. cbn [ksum]. unfold keq. cbn [eend edel esh].
      destruct ((e' =? eend x) && (d' =? edel x)); lia.
    + destruct (klt e d x); cbn [ksum].
      * unfold keq at 1. cbn [eend edel esh]. lia.
      * rewrite IH. lia.
Qed.

Lemma qtotal_qinsert e d sh q : qtotal (qinsert e d sh q) = qtotal q + sh.
Proof.
  induction q as [|x r IH]; cbn [qinsert qtotal esh]; [lia|].
  destruct (keq e d x); [cbn [qtotal esh]; lia|].
  destruct (klt e d x); cbn [qtotal esh]; [lia|]. rewrite IH. lia.
Qed.

Lemma forall_qinsert c e d sh q : c <= e ->
  Forall (fun x => c <= eend x) q -> Forall (fun x => c <= eend x) (qinsert e d sh q).
Proof.
  intros Hc H. induction H as [|x r Hx Hr IH]; cbn [qinsert].
  - constructor; [exact Hc|constructor].
  - destruct (keq e d x).
    + constructor; [exact Hc|exact Hr].
    + destruct (klt e d x).
      * constructor; [exact Hc|]. constructor; assumption.
      * constructor; assumption.
Qed.

Lemma qinsert_head e d sh q :
  (exists sh' t, qinsert e d sh q = mkE e d sh' :: t) \/
  (exists y r t, q = y :: r /\ qinsert e d sh q = y :: t /\ keq e d y = false /\ klt e d y = false).
Proof.
  destruct q as [|y r]; cbn [qinsert]; [left; eauto|].
  destruct (keq e d y) eqn:K; [left; eauto|]. destruct (klt e d y) eqn:L; [left; eauto|].
  right. exists y, r, (qinsert e d sh r). repeat split; assumption.
Qed.

Lemma qsorted_qinsert e d sh q : qsorted q -> qsorted (qinsert e d sh q).
Proof.
  induction q as [|x r IH]; cbn [qinsert]; [intros _; cbn; tauto|].
  intros [Hx Hr]. destruct (keq e d x) eqn:K.
  - apply keq_true in K as [E1 E2]. cbn [qsorted]. split; [|exact Hr].
    destruct r as [|y r']; [exact I|]. cbn [eend edel]. rewrite E1, E2. exact Hx.
  - destruct (klt e d x) eqn:L.
    + cbn [qsorted]. cbn [eend edel]. split; [exact L|]. split; assumption.
    + specialize (IH Hr). cbn [qsorted]. split; [|exact IH].
      destruct (qinsert_head e d sh r) as [[sh' [t E]]|[y [r' [t [E1 [E2 _]]]]]].
      * rewrite E. unfold klt, keq in *. cbn [eend edel]. lia.
      * rewrite E2. subst r. exact Hx.
Qed.

Lemma sorted_ends x r : qsorted (x :: r) -> Forall (fun y => eend x <= eend y) r.
Proof.
  revert x. induction r as [|y r IH]; intros x H; [constructor|].
  destruct H as [Hx Hr]. constructor.
  - unfold klt in Hx. lia.
  - specialize (IH y Hr). eapply Forall_impl; [|exact IH].
    intros z Hz. cbn beta in Hz. unfold klt in Hx. lia.
Qed.

Lemma filter_all (e : N) q : Forall (fun x => e < eend x) q -> filter (fun x => e <? eend x) q = q.
Proof.
  intros H. induction H as [|x r Hx Hr IH]; cbn [filter]; [reflexivity|].
  destruct (N.ltb_spec e (eend x)); [f_equal; exact IH|lia].
Qed.

(* ---------- one epoch transition ---------- *)
Lemma pay_expired_spec e q : forall deb log q' deb' log' h,
  pay_expired e q deb log = (q', deb', log', h) ->
  qtotal q = tsh deb -> qsorted q -> Forall plog_ok log ->
  h = false /\ qtotal q' = tsh deb' /\ qsorted q' /\
  Forall (fun x => e < eend x) q' /\
  q' = filter (fun x => e <? eend x) q /\
  (forall e0 d0, lsum e0 d0 log' + ksum e0 d0 q' = lsum e0 d0 log + ksum e0 d0 q) /\
  Forall plog_ok log' /\
  (* every new record is a payment made now, for an entry that was due *)
  (exists new, log' = new ++ log /\ Forall (fun r => pat r = e) new /\
               length new = length (filter (fun x => eend x <=? e) q)).
Proof.
  induction q as [|x r IH]; intros deb log q' deb' log' h E Ht Hs Hl; cbn [pay_expired] in E.
  - injection E as <- <- <- <-. repeat split; try assumption; try constructor.
    exists []. repeat split. constructor.
  - destruct (eend x <=? e) eqn:Hdue; [apply N.leb_le in Hdue|apply N.leb_gt in Hdue; rename Hdue into Hnot].
    + cbn [qtotal] in Ht. destruct Hs as [Hx Hr].
      assert (Hok : rcode (withdraw deb 0 (esh x) (esh x)) = COk) by (apply withdraw_ok_iff; lia).
      rewrite Hok in E.
      pose proof (withdraw_pays_at_most_prorata_l deb 0 (esh x) (esh x) Hok)
        as [W1 [W2 [_ [_ [W5 [_ [W7 _]]]]]]].
      set (w := withdraw deb 0 (esh x) (esh x)) in *.
      assert (Hl2 : Forall plog_ok (mkP e (eend x) (edel x) (esh x) (rret w) deb :: log)).
      { constructor; [|exact Hl]. unfold plog_ok. cbn [pend pat pamt ppool psh]. repeat split; assumption. }
      assert (Ht2 : qtotal r = tsh (rpool w)) by (rewrite W7; cbn [tsh]; lia).
      destruct (IH _ _ _ _ _ _ E Ht2 Hr Hl2) as [A1 [A2 [A3 [A4 [A5 [A6 [A7 [new [B1 [B2 B3]]]]]]]]]].
      repeat split; try assumption.
      * cbn [filter]. destruct (N.ltb_spec e (eend x)); [lia|exact A5].
      * intros e0 d0. rewrite A6. cbn [lsum ksum pend pdel psh]. unfold keq. lia.
      * exists (new ++ [mkP e (eend x) (edel x) (esh x) (rret w) deb]). split.
        { rewrite <- app_assoc. exact B1. }
        split.
        { apply Forall_app. split; [exact B2|]. constructor; [reflexivity|constructor]. }
        { rewrite app_length, B3. cbn [filter length].
          destruct (N.leb_spec (eend x) e); [cbn [length]; lia|lia]. }
    + injection E as <- <- <- <-.
      assert (Hall : Forall (fun y => e < eend y) (x :: r)).
      { constructor; [exact Hnot|]. pose proof (sorted_ends x r Hs) as F.
        eapply Forall_impl; [|exact F]. intros z Hz. cbn beta in Hz. lia. }
      pose proof Hs as [Hx Hr].
      repeat split; try assumption.
      * symmetry. apply filter_all. exact Hall.
      * exists []. split; [reflexivity|]. split; [constructor|].
        cbn [length]. symmetry.
        assert (G : forall l, Forall (fun y => e < eend y) l -> length (filter (fun x0 => eend x0 <=? e) l) = 0%nat).
        { intros l Fl. induction Fl as [|z l Hz Hl' IHl]; cbn [filter]; [reflexivity|].
          destruct (N.leb_spec (eend z) e); [lia|exact IHl]. }
        apply G. exact Hall.
Qed.

(* ---------- the invariant ---------- *)
Lemma wfD_step st o : wfD st -> wfD (dnext st o).
Proof.
  intros [H0 [H1 [H2 [H3 [H4 H5]]]]]. unfold dnext, dstep. rewrite H0.
  destruct o as [d a|d s iv|e|a|a].
  - destruct (rcode (deposit (dact st) (sget d (ddels st)) a a)) eqn:E; cbn [fst];
      unfold wfD; cbn [dhalt dq ddeb depoch dminted dlog]; repeat split; assumption.
  - destruct (s =? 0); [cbn [fst]; repeat split; assumption|].
    destruct (rcode (withdraw (dact st) 0 (sget d (ddels st)) s)) eqn:Ew; cbn [fst];
      try (repeat split; assumption).
    set (w := withdraw (dact st) 0 (sget d (ddels st)) s) in *.
    destruct (rcode (deposit (ddeb st) 0 (rret w) (rret w))) eqn:Ed; cbn [fst];
      try (repeat split; assumption).
    pose proof (deposit_mints_at_most_prorata_l (ddeb st) 0 (rret w) (rret w) Ed) as [D1 _].
    set (r := deposit (ddeb st) 0 (rret w) (rret w)) in *.
    unfold wfD. cbn [dhalt dq ddeb depoch dminted dlog].
    split; [reflexivity|]. split; [apply qsorted_qinsert; exact H1|].
    split; [rewrite qtotal_qinsert, D1; cbn [tsh]; lia|].
    split; [apply forall_qinsert; [lia|exact H3]|].
    split; [|exact H5].
    intros e0 d0. rewrite ksum_qinsert. cbn [ksum]. unfold keq at 1. cbn [eend edel esh].
    rewrite H4. lia.
  - destruct (pay_expired e (dq st) (ddeb st) (dlog st)) as [[[q deb] log] h] eqn:E. cbn [fst].
    destruct (pay_expired_spec e (dq st) _ _ _ _ _ _ E H2 H1 H5) as [A1 [A2 [A3 [A4 [_ [A6 [A7 _]]]]]]].
    unfold wfD. cbn [dhalt dq ddeb depoch dminted dlog].
    split; [exact A1|]. split; [exact A3|]. split; [exact A2|].
    split; [eapply Forall_impl; [|exact A4]; intros z Hz; cbn beta in Hz; lia|].
    split; [|exact A7]. intros e0 d0. rewrite A6. apply H4.
  - cbn [fst]. unfold wfD. cbn [dhalt dq ddeb depoch dminted dlog]. repeat split; assumption.
  - destruct (slash_pools (bal (dact st)) (bal (ddeb st)) a) as [ta td]. cbn [fst].
    unfold wfD. cbn [dhalt dq ddeb depoch dminted dlog tsh]. repeat split; assumption.
Qed.

Lemma wfD_run ops : forall st, wfD st -> wfD (drun st ops).
Proof.
  induction ops as [|o r IH]; intros st H; [exact H|]. cbn [drun]. apply IH. apply wfD_step. exact H.
Qed.

Lemma wfD_init epoch : wfD (dinit epoch).
Proof.
  unfold wfD, dinit. cbn. repeat split; try constructor.
Qed.

(* ---------- the theorems ---------- *)
(* Over every history: (1) the chain never halts in onEpochChange; (2) nothing
   that is due is outstanding: every debonding delegation still queued ends at
   or after the epoch of the last transition (so it was not yet reached by any
   transition since its creation, and the transition that reaches it pays it);
   (3) per debonding delegation key the shares minted by reclaims equal the
   shares redeemed by pay-outs plus the shares still queued: no share is paid
   twice, none is lost; (4) every pay-out happened at a transition at or after
   the delegation's end epoch, for the worth of its shares in the debonding
   pool at that moment (at most pro rata). *)
Lemma reclaim_paid_exactly_once_l st0 ops :
  wfD st0 ->
  let st := drun st0 ops in
  dhalt st = false /\
  Forall (fun x => depoch st <= eend x) (dq st) /\
  (forall e d, ksum e d (dminted st) = lsum e d (dlog st) + ksum e d (dq st)) /\
  Forall plog_ok (dlog st).
Proof.
  intros H st. destruct (wfD_run ops st0 H) as [A [_ [_ [B [C D]]]]]. repeat split; assumption.
Qed.

(* One transition to epoch e pays exactly the queued delegations with end
   epoch <= e (one pay-out record each, stamped e) and leaves every other one
   untouched. *)
Lemma epoch_pays_exactly_due_l st e :
  wfD st ->
  let st' := dnext st (DEpoch e) in
  dq st' = filter (fun x => e <? eend x) (dq st) /\
  depoch st' = e /\ dact st' = dact st /\
  exists new, dlog st' = new ++ dlog st /\ Forall (fun r => pat r = e) new /\
              length new = length (filter (fun x => eend x <=? e) (dq st)).
Proof.
  intros [H0 [H1 [H2 [H3 [H4 H5]]]]] st'. subst st'. unfold dnext, dstep. rewrite H0.
  destruct (pay_expired e (dq st) (ddeb st) (dlog st)) as [[[q deb] log] h] eqn:E. cbn [fst].
  destruct (pay_expired_spec e (dq st) _ _ _ _ _ _ E H2 H1 H5) as [_ [_ [_ [_ [A5 [_ [_ A8]]]]]]].
  cbn [dq depoch dact dlog]. repeat split; assumption.
Qed.

(* A reclaim at epoch c with interval iv moves exactly the redeemed stake from
   the active into the debonding pool and queues the minted debonding shares
   under end epoch c + iv; nothing is paid to the delegator at that time. *)
Lemma reclaim_moves_stake_l st d s iv :
  wfD st -> snd (dstep st (DReclaim d s iv)) = COk ->
  let st' := dnext st (DReclaim d s iv) in
  let p := worth (dact st) s in
  s <> 0 /\ s <= sget d (ddels st) /\
  dact st' = mkPool (bal (dact st) - p) (tsh (dact st) - s) /\
  bal (ddeb st') = bal (ddeb st) + p /\
  dlog st' = dlog st /\ depoch st' = depoch st /\
  exists m, tsh (ddeb st') = tsh (ddeb st) + m /\
            dq st' = qinsert (depoch st + iv) d m (dq st) /\
            (~ orphan (ddeb st) -> m * bal (ddeb st) <= p * tsh (ddeb st)).
Proof.
  intros [H0 _]. unfold dnext, dstep. rewrite H0.
  destruct (N.eqb_spec s 0) as [S0|S0]; [cbn [snd]; discriminate|].
  destruct (rcode (withdraw (dact st) 0 (sget d (ddels st)) s)) eqn:Ew; cbn [snd]; try discriminate.
  pose proof (withdraw_pays_at_most_prorata_l (dact st) 0 (sget d (ddels st)) s Ew)
    as [W1 [_ [_ [_ [_ [W6 [W7 _]]]]]]].
  set (w := withdraw (dact st) 0 (sget d (ddels st)) s) in *.
  destruct (rcode (deposit (ddeb st) 0 (rret w) (rret w))) eqn:Ed; cbn [snd]; try discriminate.
  pose proof (deposit_mints_at_most_prorata_l (ddeb st) 0 (rret w) (rret w) Ed) as [D1 [_ [_ [_ [_ D6]]]]].
  set (r := deposit (ddeb st) 0 (rret w) (rret w)) in *.
  intros _. cbn [fst dact ddeb dlog depoch dq]. rewrite D1, W7, <- W1. cbn [bal tsh].
  repeat split; try assumption. exists (rret r). repeat split.
  intros Ho. apply D6. exact Ho.
Qed.

Lemma debond_wf_reachable_l epoch ops : wfD (drun (dinit epoch) ops).
Proof. apply wfD_run. apply wfD_init. Qed.

Lemma wfD_init2 epoch b s : wfD (dinit2 epoch b s).
Proof. unfold wfD, dinit2. cbn. repeat split; try constructor. Qed.

(* the same over histories that start from an existing active pool (the
   multiplexer stream starts from a genesis validator entity) *)
Lemma debond_wf_reachable2_l epoch b s ops : wfD (drun (dinit2 epoch b s) ops).
Proof. apply wfD_run. apply wfD_init2. Qed.
