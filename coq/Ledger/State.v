(* Staking ledger: state of the model (shared model C of DESIGN.md, C05).

   Ported state (pinned /repo):
   - go/staking/api/api.go:1002  Account{General{Balance,Nonce,Allowances},
                                  Escrow{Active,Debonding : SharePool}}
   - go/consensus/cometbft/apps/staking/state/state.go:31-70
       accounts, delegations (escrow, delegator) -> shares, debonding
       delegations (delegator, escrow, end epoch) -> shares (+ queue with the
       same key set), total supply, common pool, last block fees,
       governance deposits
   - state/gas.go:21 feeAccumulator (block context, not in the MKVS state)

   Quantities are non-negative big integers in the code: [N] is exact.
   Addresses are numbers; the harness numbers the addresses of a case in
   byte order, so that [N] order = key order of the MKVS iterators.

   Executable definitions only; proofs are in Conserve.v. *)
From Verif Require Import Lib.Base Ledger.SharePool.

(* ---------- association maps over an arbitrary key type ---------- *)
Section Map.
  Context {K V : Type} (keq : K -> K -> bool).
  Fixpoint mget (k : K) (l : list (K * V)) : option V :=
    match l with
    | [] => None
    | (k', v) :: r => if keq k' k then Some v else mget k r
    end.
  Fixpoint mdel (k : K) (l : list (K * V)) : list (K * V) :=
    match l with
    | [] => []
    | (k', v) :: r => if keq k' k then mdel k r else (k', v) :: mdel k r
    end.
  Definition mset (k : K) (v : V) (l : list (K * V)) : list (K * V) :=
    (k, v) :: mdel k l.
  Fixpoint msum (f : K -> V -> N) (l : list (K * V)) : N :=
    match l with
    | [] => 0
    | (k, v) :: r => f k v + msum f r
    end.
End Map.

Definition k2 := (N * N)%type.
Definition k3 := (N * N * N)%type.
Definition k2_eqb (a b : k2) : bool := (fst a =? fst b) && (snd a =? snd b).
Definition k3_eqb (a b : k3) : bool :=
  (fst (fst a) =? fst (fst b)) && (snd (fst a) =? snd (fst b)) && (snd a =? snd b).

(* ---------- accounts ---------- *)
Record account := mkAcct {
  general : N;                  (* General.Balance *)
  nonce : N;                    (* General.Nonce (uint64) *)
  active : pool;                (* Escrow.Active  {Balance, TotalShares} *)
  debonding : pool;             (* Escrow.Debonding *)
  allow : list (N * N)          (* General.Allowances: beneficiary -> amount *)
}.
Definition acct0 := mkAcct 0 0 (mkPool 0 0) (mkPool 0 0) [].

Definition with_general (x : account) (g : N) := mkAcct g (nonce x) (active x) (debonding x) (allow x).
Definition with_nonce (x : account) (n : N) := mkAcct (general x) n (active x) (debonding x) (allow x).
Definition with_active (x : account) (p : pool) := mkAcct (general x) (nonce x) p (debonding x) (allow x).
Definition with_debonding (x : account) (p : pool) := mkAcct (general x) (nonce x) (active x) p (allow x).
Definition with_allow (x : account) (l : list (N * N)) := mkAcct (general x) (nonce x) (active x) (debonding x) l.

Record state := mkSt {
  accts : list (N * account);
  deleg : list (k2 * N);        (* (escrow, delegator) -> active shares; zero entries are removed (state.go:668) *)
  debdeleg : list (k3 * N);     (* (escrow, delegator, end epoch) -> debonding shares; zero entries are kept *)
  total_supply : N;
  common_pool : N;
  last_block_fees : N;          (* persisted value (state.go lastBlockFeesKeyFmt) *)
  gov_deposits : N;
  fee_acc : N;                  (* block context fee accumulator (gas.go:21) *)
  vq_done : bool                (* block phase: disburseFeesVQ of this block has run, so the
                                   persisted last_block_fees value is stale (fees.go never writes it
                                   back in disburseFeesVQ; disburseFeesP overwrites it at EndBlock) *)
}.

Definition acct (s : state) (a : N) : account :=
  match mget N.eqb a (accts s) with Some x => x | None => acct0 end.
Definition dget (s : state) (e d : N) : N :=
  match mget k2_eqb (e, d) (deleg s) with Some v => v | None => 0 end.
Definition bget (s : state) (e d ep : N) : N :=
  match mget k3_eqb (e, d, ep) (debdeleg s) with Some v => v | None => 0 end.

(* ---------- primitive updates (the persistence points of the code) ---------- *)
(* SetAccount (state.go:612) *)
Definition set_acct (a : N) (x : account) (s : state) : state :=
  mkSt (mset N.eqb a x (accts s)) (deleg s) (debdeleg s) (total_supply s) (common_pool s)
       (last_block_fees s) (gov_deposits s) (fee_acc s) (vq_done s).
Definition upd_acct (a : N) (f : account -> account) (s : state) : state :=
  set_acct a (f (acct s a)) s.
(* SetDelegation (state.go:662): removes the entry when the shares are zero *)
Definition set_deleg (e d v : N) (s : state) : state :=
  mkSt (accts s)
       (if v =? 0 then mdel k2_eqb (e, d) (deleg s) else mset k2_eqb (e, d) v (deleg s))
       (debdeleg s) (total_supply s) (common_pool s)
       (last_block_fees s) (gov_deposits s) (fee_acc s) (vq_done s).
(* SetDebondingDelegation (state.go:684): the caller passes the merged value; nil removes *)
Definition set_deb (e d ep v : N) (s : state) : state :=
  mkSt (accts s) (deleg s) (mset k3_eqb (e, d, ep) v (debdeleg s)) (total_supply s) (common_pool s)
       (last_block_fees s) (gov_deposits s) (fee_acc s) (vq_done s).
Definition del_deb (e d ep : N) (s : state) : state :=
  mkSt (accts s) (deleg s) (mdel k3_eqb (e, d, ep) (debdeleg s)) (total_supply s) (common_pool s)
       (last_block_fees s) (gov_deposits s) (fee_acc s) (vq_done s).
Definition with_supply (s : state) (v : N) :=
  mkSt (accts s) (deleg s) (debdeleg s) v (common_pool s) (last_block_fees s) (gov_deposits s) (fee_acc s) (vq_done s).
Definition with_common (s : state) (v : N) :=
  mkSt (accts s) (deleg s) (debdeleg s) (total_supply s) v (last_block_fees s) (gov_deposits s) (fee_acc s) (vq_done s).
Definition with_lbf (s : state) (v : N) (done : bool) :=
  mkSt (accts s) (deleg s) (debdeleg s) (total_supply s) (common_pool s) v (gov_deposits s) (fee_acc s) done.
Definition with_gov (s : state) (v : N) :=
  mkSt (accts s) (deleg s) (debdeleg s) (total_supply s) (common_pool s) (last_block_fees s) v (fee_acc s) (vq_done s).
Definition with_feeacc (s : state) (v : N) :=
  mkSt (accts s) (deleg s) (debdeleg s) (total_supply s) (common_pool s) (last_block_fees s) (gov_deposits s) v (vq_done s).

(* derived single-field updates of one account *)
Definition add_general (a n : N) := upd_acct a (fun x => with_general x (general x + n)).
Definition sub_general (a n : N) := upd_acct a (fun x => with_general x (general x - n)).
Definition add_active_bal (a n : N) := upd_acct a (fun x => with_active x (mkPool (bal (active x) + n) (tsh (active x)))).
Definition sub_active_bal (a n : N) := upd_acct a (fun x => with_active x (mkPool (bal (active x) - n) (tsh (active x)))).
Definition add_deb_bal (a n : N) := upd_acct a (fun x => with_debonding x (mkPool (bal (debonding x) + n) (tsh (debonding x)))).
Definition sub_deb_bal (a n : N) := upd_acct a (fun x => with_debonding x (mkPool (bal (debonding x) - n) (tsh (debonding x)))).
(* mint / burn shares of delegator d in pool e: pool total and the delegation move together *)
Definition mint_active (e d m : N) (s : state) : state :=
  set_deleg e d (dget s e d + m)
    (upd_acct e (fun x => with_active x (mkPool (bal (active x)) (tsh (active x) + m))) s).
Definition burn_active (e d m : N) (s : state) : state :=
  set_deleg e d (dget s e d - m)
    (upd_acct e (fun x => with_active x (mkPool (bal (active x)) (tsh (active x) - m))) s).
Definition mint_deb (e d ep m : N) (s : state) : state :=
  set_deb e d ep (bget s e d ep + m)
    (upd_acct e (fun x => with_debonding x (mkPool (bal (debonding x)) (tsh (debonding x) + m))) s).
(* completion removes the whole entry (staking.go:300) holding m shares *)
Definition burn_deb (e d ep m : N) (s : state) : state :=
  del_deb e d ep
    (upd_acct e (fun x => with_debonding x (mkPool (bal (debonding x)) (tsh (debonding x) - m))) s).

(* ---------- the sums of the invariant ---------- *)
Definition sum_general (s : state) : N := msum (fun _ x => general x) (accts s).
Definition sum_active (s : state) : N := msum (fun _ x => bal (active x)) (accts s).
Definition sum_debonding (s : state) : N := msum (fun _ x => bal (debonding x)) (accts s).
(* shares delegated into escrow account e *)
Definition dsum (e : N) (s : state) : N :=
  msum (fun (k : k2) v => if fst k =? e then v else 0) (deleg s).
Definition bsum (e : N) (s : state) : N :=
  msum (fun (k : k3) v => if fst (fst k) =? e then v else 0) (debdeleg s).

(* everything that is accounted for; the persisted last-block-fees value only
   counts while it has not been paid out by this block's BeginBlock *)
Definition live_lbf (s : state) : N := if vq_done s then 0 else last_block_fees s.
Definition buckets (s : state) : N :=
  sum_general s + sum_active s + sum_debonding s + common_pool s + gov_deposits s
  + live_lbf s + fee_acc s.

(* ---------- consensus parameters that matter ---------- *)
Record params := mkParams {
  p_min_transfer : N;           (* MinTransferAmount *)
  p_min_deleg : N;              (* MinDelegationAmount *)
  p_min_transact : N;           (* MinTransactBalance *)
  p_max_allow : N;              (* MaxAllowances *)
  p_disable_transfers : bool;   (* DisableTransfers (UndisableTransfersFrom not modelled: empty) *)
  p_disable_deleg : bool;       (* DisableDelegation *)
  p_deb_interval : N;           (* DebondingInterval *)
  p_w_propose : N;              (* FeeSplitWeightPropose *)
  p_w_vote : N;                 (* FeeSplitWeightVote *)
  p_w_next : N;                 (* FeeSplitWeightNextPropose *)
  p_reserved : list N;          (* reserved addresses (address.go:80) *)
  p_burn_addr : N               (* staking.BurnAddress *)
}.

Definition reserved (p : params) (a : N) : bool := existsb (N.eqb a) (p_reserved p).

Definition commission_den : N := 100000.      (* commission.go:23 CommissionRateDenominator *)
Definition reward_den : N := 100000000.       (* rewards.go RewardAmountDenominator *)
Definition two64 : N := 18446744073709551616.
