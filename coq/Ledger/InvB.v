(* C05: the executable invariant [inv_b] decides [Inv]. *)
From Verif Require Import Lib.Base Ledger.SharePool Ledger.State Ledger.Ops Ledger.ConserveMap Ledger.Conserve.

Section NoDupB.
  Context {K : Type} (keq : K -> K -> bool).
  Context (keq_spec : forall a b, keq a b = true <-> a = b).

  Lemma existsb_keq_in x (l : list K) : existsb (keq x) l = true <-> In x l.
  Proof.
    rewrite existsb_exists. split.
    - intros (y & Hy & E). apply keq_spec in E. subst y. exact Hy.
    - intros H. exists x. split; [exact H|]. apply keq_spec. reflexivity.
  Qed.

  Lemma nodupb_spec (l : list K) : nodupb keq l = true <-> NoDup l.
  Proof.
    induction l as [|x r IH]; cbn [nodupb].
    - split; [constructor|reflexivity].
    - rewrite andb_true_iff, negb_true_iff, IH. split.
      + intros [H1 H2]. constructor; [|exact H2].
        intros Hin. apply existsb_keq_in in Hin. congruence.
      + intros H. inversion H as [|y ys Hn Hr]; subst. split; [|exact Hr].
        destruct (existsb (keq x) r) eqn:E; [|reflexivity].
        apply existsb_keq_in in E. contradiction.
  Qed.
End NoDupB.

Lemma msum_all_zero {K V} (f : K -> V -> N) (l : list (K * V)) :
  (forall k v, In (k, v) l -> f k v = 0) -> msum f l = 0.
Proof.
  induction l as [|[k v] r IH]; intros H; cbn [msum]; [reflexivity|].
  rewrite (H k v) by (left; reflexivity). rewrite IH; [reflexivity|].
  intros k' v' Hin. apply H. right. exact Hin.
Qed.

Lemma outside_escrows s e : ~ In e (escrows s) ->
  acct s e = acct0 /\ dsum e s = 0 /\ bsum e s = 0.
Proof.
  unfold escrows. intros H. rewrite !in_app_iff in H. split; [|split].
  - unfold acct. rewrite (mget_none_notin N.eqb neqb_spec); [reflexivity|]. tauto.
  - unfold dsum. apply msum_all_zero. intros [e' d] v Hin. cbn [fst].
    destruct (N.eqb_spec e' e) as [->|]; [|reflexivity]. exfalso. apply H. right. left.
    apply in_map_iff. exists ((e, d), v). split; [reflexivity|exact Hin].
  - unfold bsum. apply msum_all_zero. intros [[e' d] ep] v Hin. cbn [fst].
    destruct (N.eqb_spec e' e) as [->|]; [|reflexivity]. exfalso. apply H. right. right.
    apply in_map_iff. exists ((e, d, ep), v). split; [reflexivity|exact Hin].
Qed.

Lemma shares_ok_all s :
  forallb (shares_ok_b s) (escrows s) = true <->
  (forall e, tsh (active (acct s e)) = dsum e s) /\ (forall e, tsh (debonding (acct s e)) = bsum e s).
Proof.
  rewrite forallb_forall. unfold shares_ok_b. split.
  - intros H.
    assert (H' : forall e, tsh (active (acct s e)) = dsum e s /\ tsh (debonding (acct s e)) = bsum e s).
    { intros e. destruct (in_dec N.eq_dec e (escrows s)) as [Hin|Hout].
      - specialize (H e Hin). apply andb_true_iff in H as [H1 H2].
        apply N.eqb_eq in H1, H2. split; assumption.
      - destruct (outside_escrows s e Hout) as (-> & -> & ->). split; reflexivity. }
    split; intros e; apply H'.
  - intros [HA HD] e _. rewrite HA, HD, !N.eqb_refl. reflexivity.
Qed.

Lemma inv_b_correct_l s : inv_b s = true <-> Inv s.
Proof.
  unfold inv_b, Inv, WF, keys.
  rewrite !andb_true_iff, (nodupb_spec N.eqb neqb_spec), (nodupb_spec k2_eqb k2_eqb_spec),
    (nodupb_spec k3_eqb k3_eqb_spec), shares_ok_all, N.eqb_eq.
  tauto.
Qed.

(* so a failing evaluation on a dump is a counterexample to the invariant *)
Lemma inv_b_false_l s : inv_b s = false -> ~ Inv s.
Proof. intros H I. apply inv_b_correct_l in I. congruence. Qed.

Example inv_b_example : inv_b ex_s0 = true /\ inv_b (run ex_p ex_s0 ex_ops) = true.
Proof. split; vm_compute; reflexivity. Qed.
