(* Model of the escrow handlers at the level of STATE WRITES, for runtime
   messages that are not rolled back.

   Ported code (pinned /repo):
   - go/consensus/cometbft/apps/staking/transactions.go:254-374 addEscrow,
     376-531 reclaimEscrow: the handler loads copies of the accounts and the
     delegation, mutates the COPIES (SharePool.Deposit / Withdraw), runs its
     checks, and then writes the copies back one by one (SetAccount,
     SetDelegation, SetDebondingDelegation);
   - go/consensus/cometbft/apps/staking/staking.go:138-165 ExecuteMessage and
     go/consensus/cometbft/apps/roothash/messages.go:107-180: runtime messages
     are dispatched one after the other on the context of the executor-commit
     transaction WITHOUT a per-message checkpoint: whatever a failing handler
     has written stays. A transaction (ExecuteTx) runs in an overlay that is
     dropped on failure.

   A handler is a list of steps over (store, working copy): [SCheck] works on
   the working copy only and may fail, [SWrite] copies one component of the
   working copy into the store. [run_steps] stops at the first failing check
   and returns the store AS IT IS. The step lists below follow the order of
   the source; the generated Gen/AtomicConsts.v (go/ast) ties the number and
   position of the writes to the current source (Props/C15.v).

   No proofs in this file. *)
From Verif Require Import Lib.Base Ledger.SharePool Ledger.Debond.

Inductive mcode := MOk | MInvalidArgument | MInsufficient | MForbidden | MUnderMin | MBalanceTooLow.

Definition mcode_eqb (a b : mcode) : bool :=
  match a, b with
  | MOk, MOk | MInvalidArgument, MInvalidArgument | MInsufficient, MInsufficient
  | MForbidden, MForbidden | MUnderMin, MUnderMin | MBalanceTooLow, MBalanceTooLow => true
  | _, _ => false
  end.

Definition of_code (c : code) : mcode :=
  match c with COk => MOk | CInvalidArgument => MInvalidArgument | CInsufficient => MInsufficient end.

Record mparams := mkMP {
  p_min_transact : N;        (* MinTransactBalance *)
  p_min_deleg : N;           (* MinDelegationAmount *)
  p_allow_msgs : bool        (* AllowEscrowMessages *)
}.

(* the ledger around one escrow account *)
Record led := mkL {
  lgen : list (N * N);       (* account -> general balance *)
  lact : pool;
  ldeb : pool;
  ldels : list (N * N);      (* delegator -> active shares *)
  lq : list dentry;          (* debonding delegations / queue *)
  lepoch : N
}.

Inductive wkind := WGeneral (d : N) | WEscrow | WDeleg (d : N) | WQueue.

(* copy one component of the working copy [w] into the store [s] *)
Definition apply_write (k : wkind) (s w : led) : led :=
  match k with
  | WGeneral d => mkL (aset d (sget d (lgen w)) (lgen s)) (lact s) (ldeb s) (ldels s) (lq s) (lepoch s)
  | WEscrow => mkL (lgen s) (lact w) (ldeb w) (ldels s) (lq s) (lepoch s)
  | WDeleg d => mkL (lgen s) (lact s) (ldeb s) (aset d (sget d (ldels w)) (ldels s)) (lq s) (lepoch s)
  | WQueue => mkL (lgen s) (lact s) (ldeb s) (ldels s) (lq w) (lepoch s)
  end.

Inductive step :=
| SCheck (f : led -> mcode * led)     (* on the working copy; MOk = go on *)
| SWrite (k : wkind).

Fixpoint run_steps (s w : led) (steps : list step) : led * mcode :=
  match steps with
  | [] => (s, MOk)
  | SCheck f :: r =>
      let '(c, w') := f w in
      match c with MOk => run_steps s w' r | _ => (s, c) end
  | SWrite k :: r => run_steps (apply_write k s w) w r
  end.

(* event kinds as in Gen/AtomicConsts.v: 8 = fallible return, 4 = write
   through the received handle (followed by the 8 of its storage error) *)
Definition events_of (steps : list step) : list N :=
  flat_map (fun st => match st with SCheck _ => [8] | SWrite _ => [4; 8] end) steps.

(* ---------- addEscrow (transactions.go:254-374) ---------- *)
Definition chk_allow (pr : mparams) (is_msg : bool) (w : led) : mcode * led :=
  if is_msg && negb (p_allow_msgs pr) then (MForbidden, w) else (MOk, w).

Definition chk_min_deleg (pr : mparams) (a : N) (w : led) : mcode * led :=
  if a <? p_min_deleg pr then (MUnderMin, w) else (MOk, w).

(* to.Escrow.Active.Deposit(&delegation.Shares, &from.General.Balance, &amount) on the copies *)
Definition chk_deposit (d a : N) (w : led) : mcode * led :=
  let r := deposit (lact w) (sget d (ldels w)) (sget d (lgen w)) a in
  match rcode r with
  | COk => (MOk, mkL (aset d (rsrc r) (lgen w)) (rpool r) (ldeb w) (aset d (rdst r) (ldels w)) (lq w) (lepoch w))
  | c => (of_code c, w)
  end.

Definition chk_min_transact (pr : mparams) (d : N) (w : led) : mcode * led :=
  if sget d (lgen w) <? p_min_transact pr then (MBalanceTooLow, w) else (MOk, w).

(* check order: gas, AllowEscrowMessages (271), MinDelegationAmount (282),
   Deposit (319), MinTransactBalance (331); then SetAccount(from) (341),
   SetAccount(to) (345), SetDelegation (350) *)
Definition add_escrow_steps (pr : mparams) (is_msg : bool) (d a : N) : list step :=
  [SCheck (chk_allow pr is_msg); SCheck (chk_min_deleg pr a); SCheck (chk_deposit d a);
   SCheck (chk_min_transact pr d);
   SWrite (WGeneral d); SWrite WEscrow; SWrite (WDeleg d)].

(* ---------- reclaimEscrow (transactions.go:376-531) ---------- *)
Definition chk_nonzero (s : N) (w : led) : mcode * led :=
  if s =? 0 then (MInvalidArgument, w) else (MOk, w).

(* Active.Withdraw(&baseUnits, &delegation.Shares, &shares) then
   Debonding.Deposit(&deb.Shares, &baseUnits, stakeAmount), merged into the
   debonding delegation of (epoch + interval, d) *)
Definition chk_reclaim (d s iv : N) (w : led) : mcode * led :=
  let x := withdraw (lact w) 0 (sget d (ldels w)) s in
  match rcode x with
  | COk =>
      let r := deposit (ldeb w) 0 (rret x) (rret x) in
      match rcode r with
      | COk => (MOk, mkL (lgen w) (rpool x) (rpool r) (aset d (rsrc x) (ldels w))
                         (qinsert (lepoch w + iv) d (rret r) (lq w)) (lepoch w))
      | c => (of_code c, w)
      end
  | c => (of_code c, w)
  end.

(* check order: zero shares (378), AllowEscrowMessages (396), Withdraw (457),
   Debonding.Deposit (469); then SetDebondingDelegation (489), SetDelegation
   (493), SetAccount(to = caller) (496), SetAccount(escrow) (500) *)
Definition reclaim_steps (pr : mparams) (is_msg : bool) (d s iv : N) : list step :=
  [SCheck (chk_nonzero s); SCheck (chk_allow pr is_msg); SCheck (chk_reclaim d s iv);
   SWrite WQueue; SWrite (WDeleg d); SWrite (WGeneral d); SWrite WEscrow].

(* ---------- operations ---------- *)
Inductive lop :=
| LAdd (is_msg : bool) (d a : N)
| LReclaim (is_msg : bool) (d s iv : N)
| LEpoch (e : N)
| LReward (a : N)
| LSlash (a : N).

(* debonding completion: pay-outs are credited to the delegators' general balances *)
Fixpoint pay_due (e : N) (q : list dentry) (deb : pool) (gen : list (N * N))
  : list dentry * pool * list (N * N) :=
  match q with
  | [] => ([], deb, gen)
  | x :: r =>
      if eend x <=? e then
        let w := withdraw deb 0 (esh x) (esh x) in
        match rcode w with
        | COk => pay_due e r (rpool w) (aset (edel x) (sget (edel x) gen + rret w) gen)
        | _ => (x :: r, deb, gen)
        end
      else (x :: r, deb, gen)
  end.

(* a transaction runs in an overlay that is dropped on failure; a message does not *)
Definition run_handler (is_msg : bool) (s : led) (steps : list step) : led * mcode :=
  let '(s', c) := run_steps s s steps in
  match c with
  | MOk => (s', MOk)
  | _ => if is_msg then (s', c) else (s, c)
  end.

Definition lstep (pr : mparams) (s : led) (o : lop) : led * mcode :=
  match o with
  | LAdd m d a => run_handler m s (add_escrow_steps pr m d a)
  | LReclaim m d sh iv => run_handler m s (reclaim_steps pr m d sh iv)
  | LEpoch e =>
      let '(q, deb, gen) := pay_due e (lq s) (ldeb s) (lgen s) in
      (mkL gen (lact s) deb (ldels s) q e, MOk)
  | LReward a => (mkL (lgen s) (mkPool (bal (lact s) + a) (tsh (lact s))) (ldeb s) (ldels s) (lq s) (lepoch s), MOk)
  | LSlash a =>
      let '(ta, td) := slash_pools (bal (lact s)) (bal (ldeb s)) a in
      (mkL (lgen s) (mkPool (bal (lact s) - ta) (tsh (lact s))) (mkPool (bal (ldeb s) - td) (tsh (ldeb s)))
           (ldels s) (lq s) (lepoch s), MOk)
  end.

(* ---------- correspondence ---------- *)
(* observed after every operation: code, [general 1..3; act B S; deb B S;
   shares 1..3], queue *)
Definition lobs (s : led) : list N * list (N * N * N) :=
  ([sget 1 (lgen s); sget 2 (lgen s); sget 3 (lgen s);
    bal (lact s); tsh (lact s); bal (ldeb s); tsh (ldeb s);
    sget 1 (ldels s); sget 2 (ldels s); sget 3 (ldels s)],
   map (fun x => (eend x, edel x, esh x)) (lq s)).

Definition lout := (mcode * (list N * list (N * N * N)))%type.

Fixpoint lrun_obs (pr : mparams) (s : led) (ops : list lop) : list lout :=
  match ops with
  | [] => []
  | o :: r => let '(s', c) := lstep pr s o in (c, lobs s') :: lrun_obs pr s' r
  end.

(* case: (params, epoch, general balances 1..3, (B, S) of the active pool held
   by a passive delegator) *)
Definition run_msgs (c : (mparams * N * (N * N * N) * (N * N)) * list lop) : list lout :=
  let '((pr, epoch, (g1, g2, g3), (b, s)), ops) := c in
  lrun_obs pr (mkL [(1, g1); (2, g2); (3, g3)] (mkPool b s) (mkPool 0 0) [] [] epoch) ops.

Definition lout_eqb (a b : lout) : bool :=
  mcode_eqb (fst a) (fst b) && list_eqb N.eqb (fst (snd a)) (fst (snd b))
  && list_eqb triple_eqb (snd (snd a)) (snd (snd b)).

Definition msgs_eqb (a b : list lout) : bool := list_eqb lout_eqb a b.
