(* Model of the escrow share-pool arithmetic.

   Ported code (pinned /repo):
   - go/staking/api/api.go:602-720      SharePool, sharesForStake, Deposit,
                                        StakeForShares, Withdraw
   - go/common/quantity/quantity.go     Add/Sub/Mul/Quo/Move/MoveUpTo on
                                        non-negative big integers (model: N)
   - go/consensus/cometbft/apps/staking/state/state.go:768-855
                                        slashPool / SlashEscrow (arithmetic
                                        on the two pool balances only)

   Quantities are arbitrary-precision non-negative integers in the code
   (math/big), so [N] is exact: no wrap-around anywhere.

   Two layers:
   - the API layer ([deposit], [withdraw], [stake_for_shares], [slash_pools])
     mirrors each exported call including what is left behind on errors;
   - a small multi-delegator state machine ([mstate], [mstep], [mrun]) over
     one pool with per-delegator shares and paid-in / paid-out ghost counters.

   No proofs in this file. *)
From Verif Require Import Lib.Base.

Record pool := mkPool { bal : N; tsh : N }.

(* error classes of the code: staking.ErrInvalidArgument (api.go:635),
   quantity.ErrInsufficientBalance (quantity.go:118) *)
Inductive code := COk | CInvalidArgument | CInsufficient.

Definition code_eqb (a b : code) : bool :=
  match a, b with
  | COk, COk | CInvalidArgument, CInvalidArgument | CInsufficient, CInsufficient => true
  | _, _ => false
  end.

(* api.go:626-652 sharesForStake: check order TotalShares.IsZero, then
   Balance.IsZero, then amount*totalShares/balance (Mul before Quo). *)
Definition shares_for_stake (p : pool) (a : N) : option N :=
  if tsh p =? 0 then Some a
  else if bal p =? 0 then None
  else Some (a * tsh p / bal p).

(* api.go:681-701 StakeForShares: zero when any of amount, balance, total
   shares is zero, else shares*balance/totalShares (Mul before Quo). *)
Definition stake_for_shares (p : pool) (s : N) : N :=
  if (s =? 0) || (bal p =? 0) || (tsh p =? 0) then 0
  else s * bal p / tsh p.

(* Result of an API call: error class, resulting pool, resulting destination
   and source quantities, and the returned number (minted shares / paid base
   units; 0 on error). *)
Record res := mkRes { rcode : code; rpool : pool; rdst : N; rsrc : N; rret : N }.

(* api.go:659-678 Deposit(shareDst, stakeSrc, baseUnitsAmount):
   1. sharesForStake (ErrInvalidArgument when shares>0 and balance=0) —
      nothing touched;
   2. quantity.Move(&p.Balance, stakeSrc, amount): ErrInsufficientBalance
      when stakeSrc < amount — nothing touched (quantity.go:216-229);
   3. TotalShares += shares; shareDst += shares. *)
Definition deposit (p : pool) (dst src a : N) : res :=
  match shares_for_stake p a with
  | None => mkRes CInvalidArgument p dst src 0
  | Some m =>
      if src <? a then mkRes CInsufficient p dst src 0
      else mkRes COk (mkPool (bal p + a) (tsh p + m)) (dst + m) (src - a) m
  end.

(* api.go:705-720 Withdraw(stakeDst, shareSrc, shareAmount):
   1. baseUnits = StakeForShares(shareAmount);
   2. shareSrc.Sub(shareAmount): ErrInsufficientBalance, nothing touched;
   3. p.TotalShares.Sub(shareAmount): ErrInsufficientBalance with shareSrc
      ALREADY reduced ("left in an invalid state", api.go:704);
   4. quantity.Move(stakeDst, &p.Balance, baseUnits): ErrInsufficientBalance
      when balance < baseUnits with shareSrc and TotalShares already reduced. *)
Definition withdraw (p : pool) (dst src s : N) : res :=
  let pay := stake_for_shares p s in
  if src <? s then mkRes CInsufficient p dst src 0
  else if tsh p <? s then mkRes CInsufficient p dst (src - s) 0
  else if bal p <? pay then mkRes CInsufficient (mkPool (bal p) (tsh p - s)) dst (src - s) 0
  else mkRes COk (mkPool (bal p - pay) (tsh p - s)) (dst + pay) (src - s) pay.

(* state.go:768-787 slashPool on one pool given the common [total]:
   nothing when total = 0, else MoveUpTo(min(balance, amount*balance/total)). *)
Definition slash_take (b amount total : N) : N :=
  if total =? 0 then 0 else N.min b (b * amount / total).

(* state.go:795-855 SlashEscrow: total = active+debonding computed once,
   before either pool is reduced (state.go:815-818); returns the amounts taken
   from the active and the debonding balance. Shares are not touched. *)
Definition slash_pools (ba bd amount : N) : N * N :=
  let total := ba + bd in
  (slash_take ba amount total, slash_take bd amount total).

(* ---------- API-level correspondence cases ---------- *)
Inductive call :=
| KDeposit (b s dst src a : N)
| KWithdraw (b s dst src sh : N)
| KStake (b s sh : N)
| KSlash (ba sa bd sd amount : N).   (* observable: total slashed, then both pools *)

Definition out := (code * list N)%type.

Definition res_out (r : res) : out :=
  (rcode r, [bal (rpool r); tsh (rpool r); rdst r; rsrc r; rret r]).

Definition run_call (c : call) : out :=
  match c with
  | KDeposit b s dst src a => res_out (deposit (mkPool b s) dst src a)
  | KWithdraw b s dst src sh => res_out (withdraw (mkPool b s) dst src sh)
  | KStake b s sh => (COk, [stake_for_shares (mkPool b s) sh])
  | KSlash ba sa bd sd amount =>
      let '(ta, td) := slash_pools ba bd amount in
      (COk, [ta + td; td; ba - ta; sa; bd - td; sd])
  end.

Definition out_eqb (a b : out) : bool :=
  code_eqb (fst a) (fst b) && list_eqb N.eqb (snd a) (snd b).

(* ---------- multi-delegator state machine ---------- *)
(* per-delegator record: shares held, total base units paid in, paid out *)
Record deleg := mkDeleg { dsh : N; din : N; dout : N }.
Definition deleg0 := mkDeleg 0 0 0.

Record mstate := mkM {
  mpool : pool;
  mdel : list (N * deleg);      (* delegator id -> record; absent = deleg0 *)
  mrew : N;                     (* total rewards added (ghost) *)
  mslashed : N                  (* total slashed (ghost) *)
}.

Definition dget (d : N) (l : list (N * deleg)) : deleg :=
  match aget d l with Some x => x | None => deleg0 end.

Inductive mop :=
| ODeposit (d a : N)        (* delegator d escrows a base units (AddEscrow -> Active.Deposit) *)
| OWithdraw (d s : N)       (* delegator d redeems s shares (Withdraw) *)
| OReward (a : N)           (* AddRewards: balance += a, no shares (state.go:1254-1256) *)
| OSlash (a : N).           (* SlashEscrow with an empty debonding pool *)

(* observation after one step: error class and [balance; total shares;
   actor's shares after; minted or paid amount] *)
Definition mstep (st : mstate) (o : mop) : mstate * out :=
  let p := mpool st in
  match o with
  | ODeposit d a =>
      let x := dget d (mdel st) in
      (* the source is a fresh quantity holding exactly [a] *)
      let r := deposit p (dsh x) a a in
      match rcode r with
      | COk => (mkM (rpool r) (aset d (mkDeleg (rdst r) (din x + a) (dout x)) (mdel st)) (mrew st) (mslashed st),
                (COk, [bal (rpool r); tsh (rpool r); rdst r; rret r]))
      | c => (st, (c, [bal p; tsh p; dsh x; 0]))
      end
  | OWithdraw d s =>
      let x := dget d (mdel st) in
      let r := withdraw p 0 (dsh x) s in
      match rcode r with
      | COk => (mkM (rpool r) (aset d (mkDeleg (rsrc r) (din x) (dout x + rret r)) (mdel st)) (mrew st) (mslashed st),
                (COk, [bal (rpool r); tsh (rpool r); rsrc r; rret r]))
      | c =>
          (* the harness aborts a sequence on a partial failure; the machine
             keeps the pre-state so that it stays total *)
          (st, (c, [bal (rpool r); tsh (rpool r); rsrc r; 0]))
      end
  | OReward a =>
      (mkM (mkPool (bal p + a) (tsh p)) (mdel st) (mrew st + a) (mslashed st),
       (COk, [bal p + a; tsh p; 0; 0]))
  | OSlash a =>
      let t := fst (slash_pools (bal p) 0 a) in
      (mkM (mkPool (bal p - t) (tsh p)) (mdel st) (mrew st) (mslashed st + t),
       (COk, [bal p - t; tsh p; 0; t]))
  end.

Fixpoint mrun (st : mstate) (ops : list mop) : mstate * list out :=
  match ops with
  | [] => (st, [])
  | o :: r =>
      let '(st1, ob) := mstep st o in
      let '(st2, obs) := mrun st1 r in
      (st2, ob :: obs)
  end.

Definition mfinal (st : mstate) (ops : list mop) : mstate := fst (mrun st ops).

(* initial state from a pool and a list of (delegator, shares) holdings *)
Definition minit (b s : N) (hold : list (N * N)) : mstate :=
  mkM (mkPool b s) (map (fun x => (fst x, mkDeleg (snd x) 0 0)) hold) 0 0.

(* sequence correspondence case: ((b, s, holdings), ops) -> observations *)
Definition run_seq (c : (N * N * list (N * N)) * list mop) : list out :=
  let '((b, s, hold), ops) := c in snd (mrun (minit b s hold) ops).

Definition seq_eqb (a b : list out) : bool := list_eqb out_eqb a b.

(* redeemable value of u shares *)
Definition worth (p : pool) (u : N) : N := stake_for_shares p u.
