(* Proofs about the write-order model of the escrow handlers (Ledger/Msg.v):
   a handler whose checks all precede its writes leaves the store untouched
   when it fails, even without a rollback; addEscrow and reclaimEscrow have
   that shape, and the generated step orders of the current source
   (Gen/AtomicConsts.v) agree with the model on the write part. *)
From Verif Require Import Lib.Base Ledger.SharePool Ledger.SharePoolProofs Ledger.Debond Ledger.Msg.
From Verif Require Import Gen.AtomicConsts.

(* after the first write (4) the only fallible returns (8) are the storage
   errors of the writes themselves (the 8 right after a 4) *)
Fixpoint tail_ok (prev_write : bool) (l : list N) : bool :=
  match l with
  | [] => true
  | x :: r =>
      if x =? 8 then prev_write && tail_ok false r
      else if x =? 4 then tail_ok true r
      else tail_ok false r
  end.

Fixpoint no_check_after_write (l : list N) : bool :=
  match l with
  | [] => true
  | x :: r => if x =? 4 then tail_ok true r else no_check_after_write r
  end.

Fixpoint from_first_write (l : list N) : list N :=
  match l with
  | [] => []
  | x :: r => if x =? 4 then x :: r else from_first_write r
  end.

Lemma only_writes_ok steps : tail_ok false (events_of steps) = true ->
  forall s w, snd (run_steps s w steps) = MOk.
Proof.
  induction steps as [|st r IH]; intros H s w; [reflexivity|].
  destruct st as [f|k]; cbn [events_of flat_map app] in H.
  - cbn [tail_ok] in H. rewrite N.eqb_refl in H. discriminate.
  - change (tail_ok false (4 :: 8 :: events_of r) = true) in H.
    cbn [tail_ok] in H. change (4 =? 8) with false in H. change (4 =? 4) with true in H.
    change (8 =? 8) with true in H. cbn [andb] in H. cbn [run_steps]. apply IH. exact H.
Qed.

(* the generic statement: no rollback needed *)
Lemma checks_before_writes_atomic steps : no_check_after_write (events_of steps) = true ->
  forall s w s' c, run_steps s w steps = (s', c) -> c <> MOk -> s' = s.
Proof.
  induction steps as [|st r IH]; intros H s w s' c E Hc.
  - cbn [run_steps] in E. injection E as <- <-. contradiction.
  - destruct st as [f|k].
    + cbn [events_of flat_map app] in H. change (no_check_after_write (8 :: events_of r) = true) in H.
      cbn [no_check_after_write] in H. change (8 =? 4) with false in H.
      cbn [run_steps] in E. destruct (f w) as [c1 w1].
      destruct c1; try (injection E as <- <-; reflexivity).
      apply (IH H s w1 s' c E Hc).
    + cbn [events_of flat_map app] in H. change (no_check_after_write (4 :: 8 :: events_of r) = true) in H.
      cbn [no_check_after_write tail_ok] in H. change (4 =? 4) with true in H. change (8 =? 8) with true in H.
      cbn [andb] in H. cbn [run_steps] in E.
      pose proof (only_writes_ok r H (apply_write k s w) w) as Ok. rewrite E in Ok. cbn [snd] in Ok. contradiction.
Qed.

Lemma add_escrow_events_model pr m d a :
  events_of (add_escrow_steps pr m d a) = [8; 8; 8; 8; 4; 8; 4; 8; 4; 8].
Proof. reflexivity. Qed.

Lemma reclaim_events_model pr m d s iv :
  events_of (reclaim_steps pr m d s iv) = [8; 8; 8; 4; 8; 4; 8; 4; 8; 4; 8].
Proof. reflexivity. Qed.

Lemma failed_message_changes_nothing_l pr s o s' c :
  lstep pr s o = (s', c) -> c <> MOk -> s' = s.
Proof.
  intros E Hc. destruct o as [m d a|m d sh iv|e|a|a]; cbn [lstep] in E.
  - unfold run_handler in E. destruct (run_steps s s (add_escrow_steps pr m d a)) as [s1 c1] eqn:R.
    assert (c1 <> MOk -> s1 = s).
    { intros Hn. apply (checks_before_writes_atomic (add_escrow_steps pr m d a) eq_refl s s s1 c1 R Hn). }
    destruct c1; try (injection E as <- <-; contradiction);
      destruct m; injection E as <- <-; try reflexivity; apply H; discriminate.
  - unfold run_handler in E. destruct (run_steps s s (reclaim_steps pr m d sh iv)) as [s1 c1] eqn:R.
    assert (c1 <> MOk -> s1 = s).
    { intros Hn. apply (checks_before_writes_atomic (reclaim_steps pr m d sh iv) eq_refl s s s1 c1 R Hn). }
    destruct c1; try (injection E as <- <-; contradiction);
      destruct m; injection E as <- <-; try reflexivity; apply H; discriminate.
  - destruct (pay_due e (lq s) (ldeb s) (lgen s)) as [[q deb] gen]. injection E as <- <-. contradiction.
  - injection E as <- <-. contradiction.
  - destruct (slash_pools (bal (lact s)) (bal (ldeb s)) a) as [ta td]. injection E as <- <-. contradiction.
Qed.

(* a message and a transaction therefore behave alike *)
Lemma message_equals_transaction_l pr s d a :
  lstep pr s (LAdd true d a) = lstep (mkMP (p_min_transact pr) (p_min_deleg pr) true) s (LAdd false d a) \/
  snd (lstep pr s (LAdd true d a)) = MForbidden.
Proof.
  destruct (p_allow_msgs pr) eqn:A.
  - left. destruct pr as [mt md al]. cbn [p_allow_msgs] in A. subst al. cbn [p_min_transact p_min_deleg lstep].
    unfold run_handler, add_escrow_steps. cbn [run_steps]. unfold chk_allow at 1 2. cbn [p_allow_msgs negb andb].
    destruct (chk_min_deleg _ a s) as [c1 w1]. destruct c1; try reflexivity.
    destruct (chk_deposit d a w1) as [c2 w2]. destruct c2; try reflexivity.
    destruct (chk_min_transact _ d w2) as [c3 w3]. destruct c3; reflexivity.
  - right. cbn [lstep]. unfold run_handler, add_escrow_steps. cbn [run_steps]. unfold chk_allow. rewrite A. reflexivity.
Qed.

Lemma sget_aset_same d v (l : list (N * N)) : sget d (aset d v l) = v.
Proof. unfold sget. rewrite aget_aset_same. reflexivity. Qed.

(* the sender is debited exactly when the pool is credited *)
Lemma add_escrow_debit_credit_l pr s m d a s' :
  lstep pr s (LAdd m d a) = (s', MOk) ->
  sget d (lgen s') + a = sget d (lgen s) /\
  bal (lact s') = bal (lact s) + a /\
  p_min_transact pr <= sget d (lgen s') /\ p_min_deleg pr <= a /\
  exists minted, tsh (lact s') = tsh (lact s) + minted /\
                 sget d (ldels s') = sget d (ldels s) + minted /\
                 ldeb s' = ldeb s /\ lq s' = lq s.
Proof.
  cbn [lstep]. unfold run_handler, add_escrow_steps. cbn [run_steps].
  unfold chk_allow. destruct (m && negb (p_allow_msgs pr)); [destruct m; discriminate|].
  unfold chk_min_deleg. destruct (N.ltb_spec a (p_min_deleg pr)) as [L1|L1]; [destruct m; discriminate|].
  unfold chk_deposit.
  destruct (rcode (deposit (lact s) (sget d (ldels s)) (sget d (lgen s)) a)) eqn:Ed;
    try (destruct m; discriminate).
  pose proof (deposit_mints_at_most_prorata_l (lact s) (sget d (ldels s)) (sget d (lgen s)) a Ed)
    as [D1 [D2 [D3 _]]].
  set (r := deposit (lact s) (sget d (ldels s)) (sget d (lgen s)) a) in *.
  unfold chk_min_transact. cbn [lgen]. rewrite sget_aset_same.
  destruct (N.ltb_spec (rsrc r) (p_min_transact pr)) as [L2|L2]; [destruct m; discriminate|].
  intros E. injection E as <-. cbn [apply_write lgen lact ldeb ldels lq].
  rewrite !sget_aset_same.
  rewrite D1. cbn [bal tsh]. repeat split; try lia. exists (rret r). repeat split; lia.
Qed.

(* source tie: the step orders extracted from the current source have no
   fallible check after the first write, and their write part is the model's *)
Lemma escrow_handlers_write_after_last_check_l :
  no_check_after_write add_escrow_events = true /\
  no_check_after_write reclaim_escrow_events = true /\
  (forall pr m d a, from_first_write add_escrow_events
                    = from_first_write (events_of (add_escrow_steps pr m d a))) /\
  (forall pr m d s iv, from_first_write reclaim_escrow_events
                       = from_first_write (events_of (reclaim_steps pr m d s iv))).
Proof. repeat split. Qed.

(* non-vacuity / why the order matters: with the escrow account and the
   delegation written before the MinTransactBalance check, a rejected message
   leaves minted shares and pool balance behind while the sender keeps its
   stake *)
Definition bad_add_steps (pr : mparams) (m : bool) (d a : N) : list step :=
  [SCheck (chk_allow pr m); SCheck (chk_min_deleg pr a); SCheck (chk_deposit d a);
   SWrite WEscrow; SWrite (WDeleg d); SCheck (chk_min_transact pr d); SWrite (WGeneral d)].

Definition ex_led : led := mkL [(1, 10000)] (mkPool 5000 5000) (mkPool 0 0) [] [] 1.

Example ex_write_before_check_leaks :
  no_check_after_write (events_of (bad_add_steps (mkMP 1000 0 true) true 1 9500)) = false /\
  run_steps ex_led ex_led (bad_add_steps (mkMP 1000 0 true) true 1 9500)
  = (mkL [(1, 10000)] (mkPool 14500 14500) (mkPool 0 0) [(1, 9500)] [] 1, MBalanceTooLow) /\
  run_steps ex_led ex_led (add_escrow_steps (mkMP 1000 0 true) true 1 9500) = (ex_led, MBalanceTooLow) /\
  lstep (mkMP 1000 0 true) ex_led (LAdd true 1 9000)
  = (mkL [(1, 1000)] (mkPool 14000 14000) (mkPool 0 0) [(1, 9000)] [] 1, MOk).
Proof. vm_compute. repeat split; reflexivity. Qed.
