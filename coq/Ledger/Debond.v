(* Model of one escrow account with its active and debonding share pools, the
   delegations, the debonding delegations / debonding queue and epoch
   transitions.

   Ported code (pinned /repo):
   - go/consensus/cometbft/apps/staking/transactions.go:376-531 reclaimEscrow
   - go/consensus/cometbft/apps/staking/state/state.go:481-509
     ExpiredDebondingQueue, 684-746 SetDebondingDelegation (merge by
     (delegator, escrow, end epoch)) / RemoveFromDebondingQueue
   - go/consensus/cometbft/apps/staking/staking.go:245-324 onEpochChange
     (debonding completion)
   - AddEscrow (transactions.go:319), AddRewards (state.go:1255), SlashEscrow.

   One escrow account; delegators are numbers (queue order = key order
   (end epoch, delegator), as debondingQueueKeyFmt sorts). The debonding
   delegation map and the queue have the same key set in the code (both are
   written by SetDebondingDelegation and removed together in onEpochChange), so
   the model keeps ONE sorted list [dq]. General balances are ghost: pay-outs
   are appended to a log. No proofs in this file. *)
From Verif Require Import Lib.Base Ledger.SharePool.

Record dentry := mkE { eend : N; edel : N; esh : N }.

(* a completed debonding: paid at the transition to epoch [pat], for the
   delegation (pend, pdel) of [psh] debonding shares, [pamt] base units, from
   the debonding pool [ppool] as it stood at that moment *)
Record payout := mkP { pat : N; pend : N; pdel : N; psh : N; pamt : N; ppool : pool }.

Record dst := mkD {
  dact : pool;
  ddeb : pool;
  ddels : list (N * N);        (* delegator -> active shares *)
  dq : list dentry;            (* debonding delegations in queue order *)
  depoch : N;                  (* epoch of the last transition *)
  dlog : list payout;          (* ghost: completed debondings, newest first *)
  dminted : list dentry;       (* ghost: one record per successful reclaim *)
  dhalt : bool                 (* onEpochChange returned an error (consensus halts) *)
}.

Definition klt (e d : N) (x : dentry) : bool :=
  (e <? eend x) || ((e =? eend x) && (d <? edel x)).
Definition keq (e d : N) (x : dentry) : bool := (e =? eend x) && (d =? edel x).

(* SetDebondingDelegation: merge with the delegation of the same key if it
   exists, else a new entry at its place in key order *)
Fixpoint qinsert (e d sh : N) (q : list dentry) : list dentry :=
  match q with
  | [] => [mkE e d sh]
  | x :: r =>
      if keq e d x then mkE e d (esh x + sh) :: r
      else if klt e d x then mkE e d sh :: x :: r
      else x :: qinsert e d sh r
  end.

Definition sget (d : N) (l : list (N * N)) : N :=
  match aget d l with Some x => x | None => 0 end.

Inductive dop :=
| DAdd (d a : N)               (* AddEscrow *)
| DReclaim (d s iv : N)        (* ReclaimEscrow of s shares; iv = DebondingInterval now *)
| DEpoch (e : N)               (* epoch transition to e *)
| DReward (a : N)
| DSlash (a : N).

(* staking.go:253-324: the expired entries (ExpiredDebondingQueue stops at the
   first key whose epoch is greater than the new epoch) are redeemed one after
   the other, each against the debonding pool left by the previous one *)
Fixpoint pay_expired (e : N) (q : list dentry) (deb : pool) (log : list payout)
  : list dentry * pool * list payout * bool :=
  match q with
  | [] => ([], deb, log, false)
  | x :: r =>
      if eend x <=? e then
        (* Debonding.Withdraw(&baseUnits, &deb.Shares, deb.Shares) *)
        let w := withdraw deb 0 (esh x) (esh x) in
        match rcode w with
        | COk => pay_expired e r (rpool w) (mkP e (eend x) (edel x) (esh x) (rret w) deb :: log)
        | _ => (x :: r, deb, log, true)
        end
      else (x :: r, deb, log, false)
  end.

Definition dstep (st : dst) (o : dop) : dst * code :=
  if dhalt st then (st, COk) else
  match o with
  | DAdd d a =>
      let r := deposit (dact st) (sget d (ddels st)) a a in
      match rcode r with
      | COk => (mkD (rpool r) (ddeb st) (aset d (rdst r) (ddels st)) (dq st) (depoch st)
                    (dlog st) (dminted st) false, COk)
      | c => (st, c)
      end
  | DReclaim d s iv =>
      (* transactions.go:378 *)
      if s =? 0 then (st, CInvalidArgument) else
      (* transactions.go:457 Active.Withdraw(&baseUnits, &delegation.Shares, shares) *)
      let w := withdraw (dact st) 0 (sget d (ddels st)) s in
      match rcode w with
      | COk =>
          (* transactions.go:469 Debonding.Deposit(&deb.Shares (fresh, 0), &baseUnits, stakeAmount) *)
          let r := deposit (ddeb st) 0 (rret w) (rret w) in
          match rcode r with
          | COk =>
              let e := depoch st + iv in
              (mkD (rpool w) (rpool r) (aset d (rsrc w) (ddels st))
                   (qinsert e d (rret r) (dq st)) (depoch st) (dlog st)
                   (mkE e d (rret r) :: dminted st) false, COk)
          | c => (st, c)       (* nothing was stored: the transaction fails *)
          end
      | c => (st, c)
      end
  | DEpoch e =>
      let '(q, deb, log, halt) := pay_expired e (dq st) (ddeb st) (dlog st) in
      (mkD (dact st) deb (ddels st) q e log (dminted st) halt, COk)
  | DReward a =>
      (mkD (mkPool (bal (dact st) + a) (tsh (dact st))) (ddeb st) (ddels st) (dq st) (depoch st)
           (dlog st) (dminted st) false, COk)
  | DSlash a =>
      let '(ta, td) := slash_pools (bal (dact st)) (bal (ddeb st)) a in
      (mkD (mkPool (bal (dact st) - ta) (tsh (dact st))) (mkPool (bal (ddeb st) - td) (tsh (ddeb st)))
           (ddels st) (dq st) (depoch st) (dlog st) (dminted st) false, COk)
  end.

Definition dnext (st : dst) (o : dop) : dst := fst (dstep st o).

Fixpoint drun (st : dst) (ops : list dop) : dst :=
  match ops with
  | [] => st
  | o :: r => drun (dnext st o) r
  end.

Definition dinit (epoch : N) : dst := mkD (mkPool 0 0) (mkPool 0 0) [] [] epoch [] [] false.

(* sums of shares per debonding key *)
Fixpoint ksum (e d : N) (l : list dentry) : N :=
  match l with
  | [] => 0
  | x :: r => (if keq e d x then esh x else 0) + ksum e d r
  end.
Fixpoint lsum (e d : N) (l : list payout) : N :=
  match l with
  | [] => 0
  | x :: r => (if (e =? pend x) && (d =? pdel x) then psh x else 0) + lsum e d r
  end.
Fixpoint qtotal (l : list dentry) : N :=
  match l with [] => 0 | x :: r => esh x + qtotal r end.

(* ---------- correspondence observables ---------- *)
Definition lpaid (d : N) (l : list payout) : N :=
  fold_right (fun r acc => (if pdel r =? d then pamt r else 0) + acc) 0 l.

(* pools, active shares and total pay-outs of delegators 1..3, and the queue *)
Definition dobs (st : dst) : list N * list (N * N * N) :=
  ([bal (dact st); tsh (dact st); bal (ddeb st); tsh (ddeb st);
    sget 1 (ddels st); sget 2 (ddels st); sget 3 (ddels st);
    lpaid 1 (dlog st); lpaid 2 (dlog st); lpaid 3 (dlog st)],
   map (fun x => (eend x, edel x, esh x)) (dq st)).

Definition dobsout := (code * (list N * list (N * N * N)))%type.

Fixpoint drun_obs (st : dst) (ops : list dop) : list dobsout :=
  match ops with
  | [] => []
  | o :: r => let '(st', c) := dstep st o in (c, dobs st') :: drun_obs st' r
  end.

Definition run_debond (c : N * list dop) : list dobsout := drun_obs (dinit (fst c)) (snd c).

Definition triple_eqb (a b : N * N * N) : bool :=
  (fst (fst a) =? fst (fst b)) && (snd (fst a) =? snd (fst b)) && (snd a =? snd b).

Definition dobsout_eqb (a b : dobsout) : bool :=
  code_eqb (fst a) (fst b) && list_eqb N.eqb (fst (snd a)) (fst (snd b))
  && list_eqb triple_eqb (snd (snd a)) (snd (snd b)).

Definition debond_eqb (a b : list dobsout) : bool := list_eqb dobsout_eqb a b.

(* ---------- block-structured histories (the ABCI-multiplexer stream) ----------
   The escrow account is a validator entity whose active pool already exists
   at genesis; every block is a list of operations (rewards, commission
   deposits and slashes are taken from the block's events in order, the epoch
   transition sits where onEpochChange runs in EndBlock); observed after each
   block: the codes of its operations and [dobs]. *)
Definition dinit2 (epoch b s : N) : dst := mkD (mkPool b s) (mkPool 0 0) [] [] epoch [] [] false.

Fixpoint drun_codes (st : dst) (ops : list dop) : dst * list code :=
  match ops with
  | [] => (st, [])
  | o :: r =>
      let '(st1, c) := dstep st o in
      let '(st2, cs) := drun_codes st1 r in
      (st2, c :: cs)
  end.

Definition bobs := (list code * (list N * list (N * N * N)))%type.

Fixpoint drun_blocks (st : dst) (blocks : list (list dop)) : list bobs :=
  match blocks with
  | [] => []
  | b :: r => let '(st1, cs) := drun_codes st b in (cs, dobs st1) :: drun_blocks st1 r
  end.

Definition run_debond_blocks (c : (N * N * N) * list (list dop)) : list bobs :=
  let '((epoch, b, s), blocks) := c in drun_blocks (dinit2 epoch b s) blocks.

Fixpoint codes_eqb (a b : list code) : bool :=
  match a, b with
  | [], [] => true
  | x :: a', y :: b' => code_eqb x y && codes_eqb a' b'
  | _, _ => false
  end.

Definition bobs_eqb (a b : bobs) : bool :=
  codes_eqb (fst a) (fst b) && list_eqb N.eqb (fst (snd a)) (fst (snd b))
  && list_eqb triple_eqb (snd (snd a)) (snd (snd b)).

Definition blocks_eqb (a b : list bobs) : bool := list_eqb bobs_eqb a b.
