(* C08 — executable model of the per-transaction pipeline of the ABCI multiplexer
   and of the state-overlay ("transaction layer") machinery of the ABCI context.

   Ported from (oasis-core, /repo/go):
     storage/mkvs/overlay.go                      treeOverlay Insert/Remove/Get/Commit/Close
     consensus/cometbft/api/context.go:245-276    NewTransaction / Commit, :126-157 Close
     consensus/cometbft/api/gas.go:40-62          basicGasAccountant.UseGas
     consensus/cometbft/abci/state.go:177-222     NewContext: which tree each mode works on
     consensus/cometbft/abci/transaction.go:17-150 decodeTx / processTx / executeTx / EstimateGas
     consensus/cometbft/abci/mux.go:703-750       DeliverTx (NO rollback on error), :662-700 CheckTx
     consensus/cometbft/apps/staking/state/gas.go:32-137  AuthenticateAndPayFees
     consensus/cometbft/apps/staking/auth.go:20-55        PostExecuteTx (CheckTx only)

   What the code does (read, not assumed): DeliverTx creates a context directly
   on the block-level proposal overlay (state.go:200 [s.proposal.tree]) and
   calls executeTx; when executeTx returns an error the response carries the
   error and NOTHING is undone (mux.go:719-739; Context.Close of a top-level
   non-simulation context does nothing, context.go:127-134). The only
   checkpoints are the ones individual handlers open themselves with
   ctx.NewTransaction() (registry/transactions.go:327,709, roothash/
   transactions.go:129,337, staking/transactions.go:744, vault/transactions.go:
   39,104,236, keymanager/churp/txs.go:94, abci/subcall.go:36). Handlers are
   therefore modelled as ARBITRARY programs [prog] over the context interface
   (read, write, remove, use gas, open a transaction layer that is committed
   when its body succeeds and dropped otherwise). *)
From Verif Require Import Lib.Base.

(* ---------- values ---------- *)

(* An account record (staking/api Account): general nonce and balance are the
   two fields authentication touches; everything else (escrow, allowances,
   hooks...) is carried opaquely in [a_rest]. *)
Record acct := mkAcct { a_nonce : N; a_bal : N; a_rest : N }.
Inductive val := VAcct (a : acct) | VRaw (n : N).
Definition zero_acct := mkAcct 0 0 0.

Definition kv := list (N * val).

(* ---------- mkvs overlay (overlay.go) ----------
   Go keeps [overlay : key -> value] and [dirty : set of keys] with the invariant
   keys(overlay) ⊆ dirty (Insert sets both, :37-41; Remove sets dirty and deletes
   from overlay, :76-81). The pair is represented by one association list:
     (k, Some v)  = dirty and overlay[k] = v       (inserted)
     (k, None)    = dirty and not in overlay       (removed)
     k absent     = not dirty                      (read through, :44-53). *)
Definition ov := list (N * option val).

(* A context's state: the base tree and the stack of overlays above it, the head
   being the innermost (the one the current context writes to). DeliverTx works
   on base = last committed tree, layers = [proposal overlay]. *)
Record ctree := mkT { t_base : kv; t_layers : list ov }.

Fixpoint lget (k : N) (ls : list ov) (base : kv) : option val :=
  match ls with
  | [] => aget k base
  | o :: r => match aget k o with Some x => x | None => lget k r base end
  end.

Definition cget (k : N) (t : ctree) : option val := lget k (t_layers t) (t_base t).

Definition cput (k : N) (v : val) (t : ctree) : ctree :=
  match t_layers t with
  | [] => mkT (aset k v (t_base t)) []
  | o :: r => mkT (t_base t) (aset k (Some v) o :: r)
  end.

Definition cdel (k : N) (t : ctree) : ctree :=
  match t_layers t with
  | [] => mkT (adel k (t_base t)) []
  | o :: r => mkT (t_base t) (aset k None o :: r)
  end.

(* context.go:245-251 NewTransaction: cc.state = mkvs.NewOverlay(c.state) *)
Definition copen (t : ctree) : ctree := mkT (t_base t) ([] :: t_layers t).

(* overlay.go:110-131 Commit: every overlay item is inserted into the inner tree,
   every remaining dirty key is removed from it. (Go walks the overlay in key
   order; keys are unique, so the order is immaterial. Here the list is folded
   from its tail so that the head — the latest write — is applied last.) *)
Definition commit_kv (o : ov) (b : kv) : kv :=
  fold_right (fun e acc => match snd e with Some v => aset (fst e) v acc | None => adel (fst e) acc end) b o.
Definition commit_ov (o : ov) (p : ov) : ov :=
  fold_right (fun e acc => aset (fst e) (snd e) acc) p o.

(* context.go:257-276 Commit *)
Definition ccommit (t : ctree) : ctree :=
  match t_layers t with
  | [] => t
  | [o] => mkT (commit_kv o (t_base t)) []
  | o :: p :: r => mkT (t_base t) (commit_ov o p :: r)
  end.

(* context.go:137-141 Close of an uncommitted transaction context; overlay.go:134-143 *)
Definition cdiscard (t : ctree) : ctree :=
  match t_layers t with
  | [] => t
  | _ :: r => mkT (t_base t) r
  end.

(* ---------- gas accountant (api/gas.go:35-62) ---------- *)
Definition two64 : N := 18446744073709551616.
(* [g_nop]: the no-op accountant every context starts with (state.go:213, gas.go:82-100). *)
Record gasacc := mkGas { g_limit : N; g_used : N; g_nop : bool }.
Definition nop_gas := mkGas 0 0 true.
Definition E_OUT_OF_GAS : N := 1.
Definition E_GAS_OVERFLOW : N := 2.
Definition use_gas (amount : N) (g : gasacc) : N + gasacc :=
  if g_nop g then inr g                                                 (* :84-90 *)
  else if two64 - 1 - g_used g <? amount then inl E_GAS_OVERFLOW       (* :50-53 *)
  else if g_limit g <? g_used g + amount then inl E_OUT_OF_GAS         (* :55-57 *)
  else inr (mkGas (g_limit g) (g_used g + amount) false).                    (* :59 *)

(* ---------- handler programs ---------- *)
Inductive res := Ok | Err (code : N).

Inductive prog :=
| Ret (r : res)
| Get (k : N) (c : option val -> prog)
| Put (k : N) (v : val) (c : prog)
| Del (k : N) (c : prog)
| UseGas (amount : N) (c : prog)
  (* ctx = ctx.NewTransaction(); defer ctx.Close(); body; ctx.Commit() on the success path *)
| Tx (body : prog) (c : res -> prog).

(* The gas accountant is shared by child contexts (context.go:225) and is NOT
   rolled back with a dropped transaction layer. *)
Fixpoint run (p : prog) (g : gasacc) (t : ctree) : res * gasacc * ctree :=
  match p with
  | Ret r => (r, g, t)
  | Get k c => run (c (cget k t)) g t
  | Put k v c => run c g (cput k v t)
  | Del k c => run c g (cdel k t)
  | UseGas a c =>
      match use_gas a g with
      | inl e => (Err e, g, t)
      | inr g' => run c g' t
      end
  | Tx body c =>
      match run body g (copen t) with
      | (Ok, g1, t1) => run (c Ok) g1 (ccommit t1)
      | (Err e, g1, t1) => run (c (Err e)) g1 (cdiscard t1)
      end
  end.

(* ---------- transactions and the multiplexer ---------- *)
Record tx := mkTx {
  tx_signer : N;       (* staking address of the envelope's public key = key of its account record *)
  tx_nonce : N;
  tx_fee : N;          (* fee.Amount *)
  tx_gas : N;          (* fee.Gas *)
  tx_method : N;
  tx_critical : bool;  (* Method.IsCritical(); no method is critical at this commit *)
  tx_body : N
}.

Inductive mode := Deliver | Check | Sim.

Record params := mkP {
  p_min_transact : N;       (* staking MinTransactBalance *)
  p_byte_cost : N;          (* consensus GasCosts[tx_byte] *)
  p_min_gas_price : N;      (* consensus MinGasPrice *)
  p_local_min_price : N;    (* node-local minimum gas price (CheckTx only) *)
  p_reserved : N -> bool    (* staking Address.IsReserved *)
}.

(* Mux-level state. [m_tree] = last committed tree + the block's proposal overlay
   (state.go:199-200); [m_feeacc] = the per-block fee accumulator, which lives in
   the block context, not in the tree (gas.go:21-25,110-114); [m_check] = the
   CheckTx tree (state.go:146-148,197-198). *)
Record mstate := mkM { m_tree : ctree; m_feeacc : N; m_check : kv }.

Definition E_DECODE : N := 10.
Definition E_UNKNOWN_METHOD : N := 11.
Definition E_RESERVED : N := 12.
Definition E_STATE : N := 13.
Definition E_INVALID_NONCE : N := 14.
Definition E_BALANCE_TOO_LOW : N := 15.
Definition E_GAS_PRICE_TOO_LOW : N := 16.
Definition E_INSUFFICIENT_FEE_BALANCE : N := 17.

Definition gas_price (t : tx) : N := if (tx_fee t =? 0) || (tx_gas t =? 0) then 0 else tx_fee t / tx_gas t.

Definition paid_acct (a : acct) (fee : N) : acct :=
  mkAcct ((a_nonce a + 1) mod two64) (a_bal a - fee) (a_rest a).

(* gas.go:32-137 AuthenticateAndPayFees. Result: error, or (tree, fee accumulator, gas accountant). *)
Definition auth (P : params) (m : mode) (t : ctree) (fa : N) (x : tx) : N + (ctree * N * gasacc) :=
  match m with
  | Sim => inr (t, fa, mkGas (two64 - 1) 0 false)                             (* :40-46 *)
  | _ =>
    if p_reserved P (tx_signer x) then inl E_RESERVED                        (* :49-52 *)
    else match cget (tx_signer x) t with
    | Some (VRaw _) => inl E_STATE                                           (* :55-58 *)
    | other =>
      let a := match other with Some (VAcct a) => a | _ => zero_acct end in
      if negb (a_nonce a =? tx_nonce x) then inl E_INVALID_NONCE             (* :59-66 *)
      else if a_bal a <? tx_fee x + p_min_transact P then inl E_BALANCE_TOO_LOW   (* :72-91 *)
      else match m with
      | Check =>                                                             (* :93-108 *)
          if (0 <? tx_gas x) && (gas_price x <? p_local_min_price P) then inl E_GAS_PRICE_TOO_LOW
          else inr (t, fa, mkGas (tx_gas x) 0 false)
      | _ =>                                                                 (* :110-134 *)
          inr (cput (tx_signer x) (VAcct (paid_acct a (tx_fee x))) t, fa + tx_fee x, mkGas (tx_gas x) 0 false)
      end
    end
  end.

(* auth.go:20-55 PostExecuteTx: only CheckTx deducts the fee and bumps the nonce, after success. *)
Definition post_exec (m : mode) (t : ctree) (x : tx) : N + ctree :=
  match m with
  | Check =>
      match cget (tx_signer x) t with
      | Some (VRaw _) => inl E_STATE
      | other =>
        let a := match other with Some (VAcct a) => a | _ => zero_acct end in
        if a_bal a <? tx_fee x then inl E_INSUFFICIENT_FEE_BALANCE
        else inr (cput (tx_signer x) (VAcct (paid_acct a (tx_fee x))) t)
      end
  | _ => inr t
  end.

(* What the multiplexer knows of a handler: app.ExecuteTx(ctx, tx) as a transformer of
   (gas accountant, context tree). Handler programs [p : prog] give [run p]; the handlers
   ported in Atomic/Handlers.v give [hrun p false]. *)
Definition handler := gasacc -> ctree -> res * gasacc * ctree.

(* transaction.go:58-126 processTx. [exec m x = None]: no app serves the method
   (resolveAppForMethod, mux.go:886-907). System methods are not modelled. *)
Definition process_tx (P : params) (exec : mode -> tx -> option handler) (m : mode)
           (t : ctree) (fa : N) (x : tx) (size : N) : res * gasacc * ctree * N :=
  let g0 := nop_gas in
  match exec m x with
  | None => (Err E_UNKNOWN_METHOD, g0, t, fa)                                 (* :65-68 *)
  | Some h =>
    let a := if tx_critical x then inr (t, fa, nop_gas)                       (* :74 skips the auth handler: no-op accountant stays *)
             else auth P m t fa x in
    match a with
    | inl e => (Err e, g0, t, fa)                                             (* :75-83 *)
    | inr (t1, fa1, g1) =>
      match use_gas ((size * p_byte_cost P) mod two64) g1 with                (* :86-90 *)
      | inl e => (Err e, g1, t1, fa1)
      | inr g2 =>
        if (0 <? p_min_gas_price P) && negb (match m with Sim => true | _ => false end)
           && (gas_price x <? p_min_gas_price P)                              (* :92-100 *)
        then (Err E_GAS_PRICE_TOO_LOW, g2, t1, fa1)
        else
          match h g2 t1 with                                                  (* :108-110 *)
          | (Err e, g3, t2) => (Err e, g3, t2, fa1)
          | (Ok, g3, t2) =>
            match post_exec m t2 x with                                       (* :112-123 *)
            | inl e => (Err e, g3, t2, fa1)
            | inr t3 => (Ok, g3, t3, fa1)
            end
          end
      end
    end
  end.

(* mux.go:703-750 DeliverTx + transaction.go:128-150 executeTx. [dec] is the
   result of decodeTx (size check, envelope, signature, sanity check). On error
   the state is returned as the handler left it: there is no rollback here. *)
Definition deliver (P : params) (exec : mode -> tx -> option handler) (dec : option tx) (size : N)
           (s : mstate) : res * gasacc * mstate :=
  match dec with
  | None => (Err E_DECODE, nop_gas, s)
  | Some x =>
    match process_tx P exec Deliver (m_tree s) (m_feeacc s) x size with
    | (r, g, t', fa') => (r, g, mkM t' fa' (m_check s))
    end
  end.

(* mux.go:662-700 CheckTx: works on the check tree wrapped WITHOUT an overlay
   (state.go:197-198 NewOverlayWrapper(s.checkState)): writes go straight in. *)
Definition check_tx (P : params) (exec : mode -> tx -> option handler) (dec : option tx) (size : N)
           (s : mstate) : res * gasacc * mstate :=
  match dec with
  | None => (Err E_DECODE, nop_gas, s)
  | Some x =>
    match process_tx P exec Check (mkT (m_check s) []) (m_feeacc s) x size with
    | (r, g, t', _) => (r, g, mkM (m_tree s) (m_feeacc s) (t_base t'))
    end
  end.

(* transaction.go:152-205 EstimateGas: a separate in-memory tree at the committed
   root (state.go:203-206); errors are ignored, the tree is closed (context.go:130-134). *)
Definition estimate_gas (P : params) (exec : mode -> tx -> option handler) (x : tx) (size : N)
           (s : mstate) : N * mstate :=
  match process_tx P exec Sim (mkT (t_base (m_tree s)) []) (m_feeacc s) x size with
  | (_, g, _, _) => (g_used g, s)
  end.

(* The state a transaction leaves behind when it passed authentication and nothing else happened. *)
Definition post_auth_state (s : mstate) (x : tx) : mstate :=
  let a := match cget (tx_signer x) (m_tree s) with Some (VAcct a) => a | _ => zero_acct end in
  mkM (cput (tx_signer x) (VAcct (paid_acct a (tx_fee x))) (m_tree s)) (m_feeacc s + tx_fee x) (m_check s).
