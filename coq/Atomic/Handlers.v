(* C08 — ports of concrete handlers as programs over the context interface:
     registry  registerEntity / deregisterEntity / registerNode / registerRuntime
               (go/consensus/cometbft/apps/registry/transactions.go)
     roothash  submitMsg (go/consensus/cometbft/apps/roothash/transactions.go:294-384)
   with the REAL order of gas charges, checks, ctx.NewTransaction(), writes and
   ctx.Commit(). Key names, record contents and the verdicts of the pure
   validation routines are abstract (Section variables: the theorems hold for
   every instantiation).

   One thing the handlers do that the [prog] language of Atomic/Model.v cannot
   express had to be added here: a handler receives a state handle
   ([state *registryState.MutableState], registry.go:111, roothash.go:312) that
   was built from ctx.State() BEFORE the handler opened its transaction layer.
   mkvs handles wrap a tree (registry/state/state.go:517-522), so writes through
   that handle made after [ctx = ctx.NewTransaction()] go to the tree BELOW the
   new overlay: they are NOT rolled back when the layer is dropped. The handlers
   stay atomic only because no fallible step follows such a write. [HPutH]/[HDelH]
   model handle writes, [HPut]/[HDel] writes through a state wrapper built from
   ctx.State() at that point (stakingState.NewMutableState(ctx.State()),
   stakingState.AddStakeClaim(ctx, ..), NewStakeAccumulatorCache(ctx)). *)
From Verif Require Import Lib.Base Atomic.Model Atomic.Proofs.

Inductive hprog :=
| HRet (r : res)
| HGet (k : N) (c : option val -> hprog)     (* read through the current context *)
| HGetH (k : N) (c : option val -> hprog)    (* read through the handle captured at entry *)
| HPut (k : N) (v : val) (c : hprog)
| HDel (k : N) (c : hprog)
| HPutH (k : N) (v : val) (c : hprog)
| HDelH (k : N) (c : hprog)
| HGas (amount : N) (c : hprog)
| HSub (p : prog) (c : res -> hprog)         (* md.Publish(ctx, ..): other apps' code on the current context *)
| HOpen (c : hprog)                          (* ctx = ctx.NewTransaction(); defer ctx.Close() *)
| HCommit (c : hprog).                       (* ctx.Commit() *)

(* the tree below the innermost layer *)
Definition cput_under (k : N) (v : val) (t : ctree) : ctree :=
  match t_layers t with
  | o :: p :: r => mkT (t_base t) (o :: aset k (Some v) p :: r)
  | [o] => mkT (aset k v (t_base t)) [o]
  | [] => mkT (aset k v (t_base t)) []
  end.
Definition cdel_under (k : N) (t : ctree) : ctree :=
  match t_layers t with
  | o :: p :: r => mkT (t_base t) (o :: aset k None p :: r)
  | [o] => mkT (adel k (t_base t)) [o]
  | [] => mkT (adel k (t_base t)) []
  end.

(* [opened]: the handler's own transaction layer is open (between NewTransaction and
   Commit). On return the deferred ctx.Close() drops a layer that was not committed
   (context.go:137-141). *)
Fixpoint hrun (p : hprog) (opened : bool) (g : gasacc) (t : ctree) : res * gasacc * ctree :=
  match p with
  | HRet r => (r, g, if opened then cdiscard t else t)
  | HGet k c => hrun (c (cget k t)) opened g t
  | HGetH k c => hrun (c (cget k (if opened then cdiscard t else t))) opened g t
  | HPut k v c => hrun c opened g (cput k v t)
  | HDel k c => hrun c opened g (cdel k t)
  | HPutH k v c => hrun c opened g (if opened then cput_under k v t else cput k v t)
  | HDelH k c => hrun c opened g (if opened then cdel_under k t else cdel k t)
  | HGas a c =>
      match use_gas a g with
      | inl e => (Err e, g, if opened then cdiscard t else t)
      | inr g' => hrun c opened g' t
      end
  | HSub p c => match run p g t with (r, g1, t1) => hrun (c r) opened g1 t1 end
  | HOpen c => hrun c true g (copen t)
  | HCommit c => hrun c false g (if opened then ccommit t else t)
  end.

(* ---------- the discipline ---------- *)

(* cannot return an error: no gas charge, every return is Ok *)
Inductive hnofail : hprog -> Prop :=
| hn_ret : hnofail (HRet Ok)
| hn_get k c : (forall v, hnofail (c v)) -> hnofail (HGet k c)
| hn_geth k c : (forall v, hnofail (c v)) -> hnofail (HGetH k c)
| hn_put k v c : hnofail c -> hnofail (HPut k v c)
| hn_del k c : hnofail c -> hnofail (HDel k c)
| hn_puth k v c : hnofail c -> hnofail (HPutH k v c)
| hn_delh k c : hnofail c -> hnofail (HDelH k c)
| hn_sub p c : (forall r, hnofail (c r)) -> hnofail (HSub p c)
| hn_open c : hnofail c -> hnofail (HOpen c)
| hn_commit c : hnofail c -> hnofail (HCommit c).

(* [hsafe opened p]: before its first write that a dropped layer does not undo (any
   write while closed, a HANDLE write or the Commit while opened) the handler only
   reads, charges gas, calls other apps inside its layer and writes into its layer;
   after it, it cannot fail. *)
Inductive hsafe : bool -> hprog -> Prop :=
| hs_ret b r : hsafe b (HRet r)
| hs_get b k c : (forall v, hsafe b (c v)) -> hsafe b (HGet k c)
| hs_geth b k c : (forall v, hsafe b (c v)) -> hsafe b (HGetH k c)
| hs_gas b a c : hsafe b c -> hsafe b (HGas a c)
| hs_open c : hsafe true c -> hsafe false (HOpen c)
| hs_put_closed k v c : hnofail c -> hsafe false (HPut k v c)
| hs_del_closed k c : hnofail c -> hsafe false (HDel k c)
| hs_puth b k v c : hnofail c -> hsafe b (HPutH k v c)
| hs_delh b k c : hnofail c -> hsafe b (HDelH k c)
| hs_put_open k v c : hsafe true c -> hsafe true (HPut k v c)
| hs_del_open k c : hsafe true c -> hsafe true (HDel k c)
| hs_sub_open p c : (forall r, hsafe true (c r)) -> hsafe true (HSub p c)
| hs_commit c : hnofail c -> hsafe true (HCommit c).

Lemma hnofail_run p : hnofail p -> forall b g t e g' t', hrun p b g t <> (Err e, g', t').
Proof.
  induction 1 as [|k c _ IH|k c _ IH|k v c _ IH|k c _ IH|k v c _ IH|k c _ IH|p c _ IH|c _ IH|c _ IH];
    intros b g t e g' t'; cbn [hrun]; try apply IH.
  - discriminate.
  - destruct (run p g t) as [[r g1] t1]. apply IH.
Qed.

Lemma hsafe_run b p : hsafe b p ->
  forall g t0 t1 e g' t',
    (if b then frame (copen t0) t1 else t1 = t0) ->
    hrun p b g t1 = (Err e, g', t') -> t' = t0.
Proof.
  induction 1 as [b r|b k c _ IH|b k c _ IH|b a c _ IH|c _ IH|k v c Hn|k c Hn|b k v c Hn|b k c Hn
                  |k v c _ IH|k c _ IH|p c _ IH|c Hn];
    intros g t0 t1 e g' t' F H; cbn [hrun] in H.
  - injection H as _ _ <-. destruct b; [apply discard_after_open; exact F|exact F].
  - eapply IH; [exact F|exact H].
  - eapply IH; [exact F|exact H].
  - destruct (use_gas a g) as [e2|g2].
    + injection H as _ _ <-. destruct b; [apply discard_after_open; exact F|exact F].
    + eapply IH; [exact F|exact H].
  - subst t1. eapply IH; [|exact H]. cbn beta iota. apply frame_refl.
  - exfalso. eapply hnofail_run; [exact Hn|exact H].
  - exfalso. eapply hnofail_run; [exact Hn|exact H].
  - exfalso. eapply hnofail_run; [exact Hn|exact H].
  - exfalso. eapply hnofail_run; [exact Hn|exact H].
  - eapply IH; [|exact H]. cbn beta iota in *. eapply frame_trans; [exact F|apply frame_cput].
  - eapply IH; [|exact H]. cbn beta iota in *. eapply frame_trans; [exact F|apply frame_cdel].
  - destruct (run p g t1) as [[r g1] t2] eqn:R. eapply IH; [|exact H].
    cbn beta iota in *. eapply frame_trans; [exact F|]. eapply run_frame; exact R.
  - exfalso. eapply hnofail_run; [exact Hn|exact H].
Qed.

Theorem hsafe_atomic p : hsafe false p -> atomic (hrun p false).
Proof. intros Hs g t e g' t' H. eapply (hsafe_run false p Hs); [reflexivity|exact H]. Qed.

(* ================================================================== *)
(* The ported handlers.                                                 *)
(* ================================================================== *)
Section Ports.
  (* error codes (only their being errors matters) *)
  Definition E_INVALID_ARGUMENT : N := 101.
  Definition E_INCORRECT_SIGNER : N := 102.
  Definition E_INSUFFICIENT_STAKE : N := 103.
  Definition E_ENTITY_HAS_NODES : N := 104.
  Definition E_ENTITY_HAS_RUNTIMES : N := 105.
  Definition E_NO_SUCH_ENTITY : N := 106.
  Definition E_NODE_EXPIRED : N := 107.
  Definition E_UPDATE_NOT_ALLOWED : N := 108.
  Definition E_FORBIDDEN : N := 109.
  Definition E_RT_STATE : N := 110.
  Definition E_QUEUE_FULL : N := 111.
  Definition E_FEE_TOO_LOW : N := 112.
  Definition E_INSUFFICIENT_BALANCE : N := 113.
  Definition E_BALANCE_TOO_LOW : N := 114.

  (* abstract keys *)
  Variables (k_reg_params k_stake_params k_epoch k_features k_rh_params : N).
  Variables (k_entity k_entity_acct k_entity_nodes k_entity_runtimes : tx -> N).
  Variables (k_node k_node_index k_node_status k_node_lookups k_beacon_params : tx -> N).
  Variables (k_runtime k_suspended_runtime k_runtime_owner k_old_runtime_owner k_rt_acct k_old_rt_acct : tx -> N).
  Variables (k_rt_state k_in_meta k_in_msg k_caller_acct k_rt_staking_acct : tx -> N).

  (* abstract verdicts / record computations of the pure routines *)
  Variable cost : option val -> N -> N.                 (* params.GasCosts[op] *)
  Variable count : tx -> N.                             (* len(ent.Nodes), feeCount, ... *)
  Variable verify_entity_args : tx -> bool.             (* registry.VerifyRegisterEntityArgs *)
  Variable signer_ok : tx -> bool.
  Variable bypass_stake : option val -> bool.           (* stakeParams.DebugBypassStake *)
  Variable add_claim : option val -> tx -> option val.  (* EscrowAccount.AddStakeClaim: None = insufficient stake *)
  Variable remove_claim : option val -> tx -> val.
  Variable new_val : tx -> option val -> val.           (* the record written *)
  Variable nonempty : option val -> bool.
  Variable verify_node_args : option val -> option val -> option val -> option val -> option val -> tx -> bool.
  Variable admission_ok : option val -> tx -> bool.
  Variable node_expired : option val -> tx -> bool.
  Variable node_lookup_failed : option val -> bool.
  Variable verify_node_update : option val -> tx -> bool.
  Variable resume_needed : option val -> option val -> tx -> bool.
  Variable publish_resumed publish_new publish_updated : tx -> prog.   (* md.Publish: the subscribers' code *)
  Variable rt_registration_disabled : option val -> tx -> bool.
  Variable verify_runtime_args : option val -> option val -> option val -> tx -> bool.
  Variable verify_runtime_new_or_update : option val -> option val -> tx -> bool.
  Variable rt_signer_ok : option val -> option val -> tx -> bool.
  Variable rt_needs_stake owner_changed : option val -> tx -> bool.
  Variable rt_state_usable : option val -> bool.
  Variable max_in_zero fee_below_min : option val -> tx -> bool.
  Variable transfer_noop : tx -> bool.
  Variable move : option val -> option val -> tx -> option (val * val).   (* quantity.Move: None = insufficient *)
  Variable below_min : option val -> val -> bool.
  Variable queue_full : option val -> option val -> bool.
  Variables (k_evidence k_accused_node k_accused_acct k_caller_node : tx -> N).
  Variable validate_evidence : tx -> bool.               (* Evidence.ValidateBasic *)
  Variable rt_slashes : option val -> bool.
  Variable evidence_expired : option val -> option val -> tx -> bool.
  Variable penalty_zero : option val -> bool.
  Variable slash_escrow : option val -> tx -> option val.    (* SlashEscrow: None = error *)
  Variable slashed_nothing : option val -> tx -> bool.
  Variable distribute : option val -> tx -> prog.           (* distributeSlashedFunds *)

  Definition OP_REGISTER_ENTITY : N := 1.
  Definition OP_REGISTER_NODE : N := 2.
  Definition OP_DEREGISTER_ENTITY : N := 3.
  Definition OP_RT_EPOCH_MAINTENANCE : N := 4.
  Definition OP_REGISTER_RUNTIME : N := 5.
  Definition OP_SUBMIT_MSG : N := 6.
  Definition OP_EVIDENCE : N := 7.
  Definition E_INVALID_EVIDENCE : N := 115.
  Definition E_DUPLICATE_EVIDENCE : N := 116.
  Definition E_RT_DOES_NOT_SLASH : N := 117.

  Definition gas (params : option val) (op mult : N) : N := (cost params op * mult) mod two64.   (* gas.go:47 *)

  (* ---- registry/transactions.go:21-99 registerEntity ---- *)
  Definition h_register_entity (m : mode) (x : tx) : hprog :=
    if negb (verify_entity_args x) then HRet (Err E_INVALID_ARGUMENT) else               (* :26-29 *)
    match m with Check => HRet Ok | _ =>                                                   (* :31-33 *)
    HGetH k_reg_params (fun rp =>                                                          (* :36 *)
    HGas (gas rp OP_REGISTER_ENTITY 1) (                                                   (* :43 *)
    HGas (gas rp OP_REGISTER_NODE (count x)) (                                             (* :46 *)
    match m with Sim => HRet Ok | _ =>                                                     (* :51-53 *)
    if negb (signer_ok x) then HRet (Err E_INCORRECT_SIGNER) else                          (* :58-60 *)
    HGet k_stake_params (fun sp =>                                                         (* :62-69 *)
    let set_entity := HPutH (k_entity x) (new_val x None) (HRet Ok) in                     (* :88, then nil *)
    if bypass_stake sp then set_entity else                                                (* :71 *)
    HGet (k_entity_acct x) (fun a =>                                                       (* :73 AddStakeClaim(ctx, ..) *)
    match add_claim a x with
    | None => HRet (Err E_INSUFFICIENT_STAKE)                                              (* :79-85 *)
    | Some a' => HPut (k_entity_acct x) a' set_entity                                      (* accumulator.go:140 Commit *)
    end))
    end)))
    end.

  (* ---- :101-186 deregisterEntity ---- *)
  Definition h_deregister_entity (m : mode) (x : tx) : hprog :=
    match m with Check => HRet Ok | _ =>                                                   (* :102-104 *)
    HGetH k_reg_params (fun rp =>                                                          (* :107 *)
    HGas (gas rp OP_DEREGISTER_ENTITY 1) (                                                 (* :114 *)
    match m with Sim => HRet Ok | _ =>                                                     (* :119-121 *)
    HGetH (k_entity_nodes x) (fun ns =>                                                    (* :126 *)
    if nonempty ns then HRet (Err E_ENTITY_HAS_NODES) else                                 (* :133-138 *)
    HGetH (k_entity_runtimes x) (fun rs =>                                                 (* :140 *)
    if nonempty rs then HRet (Err E_ENTITY_HAS_RUNTIMES) else                              (* :147-152 *)
    HGetH (k_entity x) (fun en =>                                                          (* :154 RemoveEntity = RemoveExisting *)
    match en with
    | None => HRet (Err E_NO_SUCH_ENTITY)                                                  (* :157 *)
    | Some _ =>
      HDelH (k_entity x) (
      HGet k_stake_params (fun sp =>                                                       (* :163 (a storage error here is not modelled) *)
      if bypass_stake sp then HRet Ok else
      HGet (k_entity_acct x) (fun a =>                                                     (* :174 RemoveStakeClaim; an error PANICS (:175) *)
      HPut (k_entity_acct x) (remove_claim a x) (HRet Ok))))
    end)))
    end))
    end.

  (* ---- :188-500 registerNode ---- *)
  (* After the first handle write (SetNode :376) the code still has `return err` statements:
     NodeStatus of an EXISTING node not found (:384-393), beacon parameters unreadable (:418),
     SetNodeStatus / ResumeRuntime storage errors (:430,:478), unknown governance model
     (:447, "should never happen"), Publish(MessageRuntimeResumed) (:467; its only subscriber
     returns nil, roothash.go:277-279). They are state-corruption / storage failures
     (UnavailableStateError makes DeliverTx panic, mux.go:720-727) and are modelled as not
     failing; [publish_resumed]'s result is ignored accordingly. *)
  Definition h_register_node (m : mode) (x : tx) : hprog :=
    match m with Check => HRet Ok | _ =>                                                   (* :193-195 *)
    HGetH (k_entity x) (fun en =>                                                          (* :204 *)
    HGetH k_reg_params (fun rp =>                                                          (* :210 *)
    HGetH k_epoch (fun ep =>                                                               (* :216 *)
    HGet k_features (fun fv =>                                                             (* :224 *)
    HGetH (k_node_lookups x) (fun lk =>                                                    (* :230 VerifyRegisterNodeArgs reads nodes/runtimes *)
    if negb (verify_node_args en rp ep fv lk x) then HRet (Err E_INVALID_ARGUMENT) else    (* :244-246 *)
    if negb (signer_ok x) then HRet (Err E_INCORRECT_SIGNER) else                          (* :261-265 *)
    if negb (admission_ok lk x) then HRet (Err E_FORBIDDEN) else                           (* :268-272 *)
    if node_expired ep x then HRet (Err E_NODE_EXPIRED) else                               (* :280-286 *)
    HGetH (k_node x) (fun existing =>                                                      (* :294 *)
    if node_lookup_failed existing then HRet (Err E_INVALID_ARGUMENT) else                 (* :297-306 *)
    HGas (gas rp OP_RT_EPOCH_MAINTENANCE (count x)) (                                      (* :322 *)
    HOpen (                                                                                (* :327-328 *)
    HGet k_stake_params (fun sp =>                                                         (* :331-338 *)
    let rest :=
      if nonempty existing && negb (verify_node_update existing x)
      then HRet (Err E_UPDATE_NOT_ALLOWED)                                                 (* :365-375 *)
      else
      HPutH (k_node x) (new_val x existing) (                                              (* :376 SetNode (handle) *)
      HPutH (k_node_index x) (new_val x existing) (
      HGetH (k_node_status x) (fun st =>                                                   (* :384 *)
      HGet (k_beacon_params x) (fun bp =>                                                  (* :416 *)
      HPutH (k_node_status x) (new_val x st) (                                             (* :430 SetNodeStatus (handle) *)
      HGet (k_rt_acct x) (fun ra =>                                                        (* :454 CheckStakeClaims *)
      HGetH (k_suspended_runtime x) (fun srt =>
      let fin := HCommit (HRet Ok) in                                                      (* :497, :499 *)
      if resume_needed ra srt x then
        HDelH (k_suspended_runtime x) (                                                    (* :459 ResumeRuntime (handle) *)
        HPutH (k_runtime x) (new_val x srt) (
        HSub (publish_resumed x) (fun _ => fin)))                                          (* :467 *)
      else fin))))))) in
    if bypass_stake sp then rest else                                                      (* :341 *)
    HGet (k_entity_acct x) (fun a =>                                                       (* :342 NewStakeAccumulatorCache(ctx) *)
    match add_claim a x with
    | None => HRet (Err E_INSUFFICIENT_STAKE)                                              (* :351-357 *)
    | Some a' => HPut (k_entity_acct x) a' rest                                            (* :359 stakeAcc.Commit() *)
    end))))))))))
    end.

  (* ---- :577-852 registerRuntime ---- *)
  (* After SetRuntime (:788, handle) only SetRuntimeOwner/RemoveRuntimeOwner storage errors
     can be returned (:801-833): not modelled as failures. *)
  Definition h_register_runtime (m : mode) (x : tx) : hprog :=
    HGetH k_reg_params (fun rp =>                                                          (* :582 *)
    if rt_registration_disabled rp x then HRet (Err E_FORBIDDEN) else                      (* :590-592, :614-616 *)
    HGetH k_epoch (fun ep =>                                                               (* :594 *)
    HGet k_features (fun fv =>                                                             (* :603 *)
    if negb (verify_runtime_args rp ep fv x) then HRet (Err E_INVALID_ARGUMENT) else       (* :609-620 *)
    match m with Check => HRet Ok | _ =>                                                   (* :622-624 *)
    HGas (gas rp OP_REGISTER_RUNTIME 1) (                                                  (* :627 *)
    match m with Sim => HRet Ok | _ =>                                                     (* :632-634 *)
    HGetH (k_runtime x) (fun rt0 =>                                                        (* :638 *)
    HGetH (k_suspended_runtime x) (fun srt =>                                              (* :643 *)
    if negb (verify_runtime_new_or_update rt0 srt x) then HRet (Err E_UPDATE_NOT_ALLOWED) else   (* :655-667 *)
    if negb (rt_signer_ok rt0 srt x) then HRet (Err E_INCORRECT_SIGNER) else               (* :669-706 *)
    HOpen (                                                                                (* :709-710 *)
    HGet k_stake_params (fun sp =>                                                         (* :714 *)
    let tail :=
      (* :764-786 Publish new-runtime / runtime-updated: other apps' code inside the layer *)
      let after_publish :=
        HSub (publish_updated x) (fun r2 =>
        match r2 with Err e => HRet (Err e) | Ok =>
        HPutH (k_runtime x) (new_val x rt0) (                                              (* :788 SetRuntime (handle) *)
        HDelH (k_old_runtime_owner x) (                                                    (* :813 *)
        HPutH (k_runtime_owner x) (new_val x rt0) (                                        (* :801/:821/:831 *)
        HCommit (HRet Ok))))                                                               (* :849, :851 *)
        end) in
      if nonempty rt0 || nonempty srt then after_publish
      else HSub (publish_new x) (fun r1 =>
           match r1 with Err e => HRet (Err e) | Ok => after_publish end) in
    if bypass_stake sp || negb (rt_needs_stake sp x) then tail else                        (* :721 *)
    HGet (k_rt_acct x) (fun a =>                                                           (* :727 AddStakeClaim(ctx, ..) *)
    match add_claim a x with
    | None => HRet (Err E_INSUFFICIENT_STAKE)
    | Some a' =>
      HPut (k_rt_acct x) a' (
      if owner_changed rt0 x then                                                          (* :732-756 *)
        HGet (k_old_rt_acct x) (fun oa => HPut (k_old_rt_acct x) (remove_claim oa x) tail)
      else tail)
    end)))))
    end)
    end))).

  (* ---- roothash/transactions.go:294-384 submitMsg ---- *)
  Definition h_submit_msg (m : mode) (x : tx) : hprog :=
    match m with Check => HRet Ok | _ =>                                                   (* :299-301 *)
    HGetH k_rh_params (fun rp =>                                                           (* :304 *)
    HGas (gas rp OP_SUBMIT_MSG 1) (                                                        (* :311 *)
    match m with Sim => HRet Ok | _ =>                                                     (* :316-318 *)
    HGetH (k_rt_state x) (fun rs =>                                                        (* :320 getRuntimeState :21-42 *)
    if negb (rt_state_usable rs) then HRet (Err E_RT_STATE) else
    if max_in_zero rs x then HRet (Err E_QUEUE_FULL) else                                  (* :326-328 *)
    if fee_below_min rs x then HRet (Err E_FEE_TOO_LOW) else                               (* :331-333 *)
    HOpen (                                                                                (* :336-337 *)
    (* :345 st := stakingState.NewMutableState(ctx.State()) — built AFTER the layer was opened
       (Gen.AtomicConsts checks this order): st.Transfer writes into the layer (state.go:858-905) *)
    let enqueue :=
      HGetH (k_in_meta x) (fun meta =>                                                     (* :352 (handle read) *)
      if queue_full rs meta then HRet (Err E_QUEUE_FULL) else                              (* :358-360 *)
      HPutH (k_in_msg x) (new_val x meta) (                                                (* :371 (handle) *)
      HPutH (k_in_meta x) (new_val x meta) (                                               (* :378 (handle) *)
      HCommit (HRet Ok)))) in                                                              (* :382, :384 *)
    if transfer_noop x then enqueue else                                                   (* state.go:859 *)
    HGet (k_caller_acct x) (fun from =>
    HGet (k_rt_staking_acct x) (fun to =>
    match move from to x with
    | None => HRet (Err E_INSUFFICIENT_BALANCE)                                            (* state.go:872 *)
    | Some (from', to') =>
      HGet k_stake_params (fun sp =>
      if below_min sp from' || below_min sp to' then HRet (Err E_BALANCE_TOO_LOW) else     (* state.go:881-896 *)
      HPut (k_caller_acct x) from' (HPut (k_rt_staking_acct x) to' enqueue))
    end))))
    end))
    end.


  (* ---- roothash/transactions.go submitEvidence, after the repair 583b4f4: the evidence hash
     and the slashing are done in a transaction layer, the state wrapper is REBUILT from the
     layer's ctx.State() (so SetEvidenceHash writes into the layer), Commit only on success ---- *)
  Definition h_submit_evidence (m : mode) (x : tx) : hprog :=
    if negb (validate_evidence x) then HRet (Err E_INVALID_EVIDENCE) else                  (* ValidateBasic *)
    match m with Check => HRet Ok | _ =>
    HGetH k_rh_params (fun rp =>
    HGas (gas rp OP_EVIDENCE 1) (
    match m with Sim => HRet Ok | _ =>
    HGetH (k_rt_state x) (fun rs =>                                                        (* getRuntimeState *)
    if negb (rt_state_usable rs) then HRet (Err E_RT_STATE) else
    if negb (rt_slashes rs) then HRet (Err E_RT_DOES_NOT_SLASH) else                       (* no slashing / zero amount *)
    if evidence_expired rp rs x then HRet (Err E_INVALID_EVIDENCE) else                    (* MaxEvidenceAge *)
    HGetH (k_evidence x) (fun ev =>                                                        (* EvidenceHashExists *)
    if nonempty ev then HRet (Err E_DUPLICATE_EVIDENCE) else
    HOpen (                                                                                (* ctx = ctx.NewTransaction(); defer ctx.Close() *)
    (* state = roothashState.NewMutableState(ctx.State()): a wrapper of the LAYER *)
    HPut (k_evidence x) (new_val x ev) (                                                   (* SetEvidenceHash *)
    if penalty_zero rs then HCommit (HRet Ok) else                                         (* slashing.go:47-49 *)
    HGet (k_accused_node x) (fun nd =>                                                     (* slashing.go:54 *)
    match nd with
    | None => HRet (Err E_INVALID_EVIDENCE)                                                (* :55-63 fake-but-valid evidence *)
    | Some _ =>
      HGet (k_accused_acct x) (fun a =>                                                    (* :67 SlashEscrow *)
      match slash_escrow a x with
      | None => HRet (Err E_INVALID_EVIDENCE)                                              (* :68-70 *)
      | Some a' =>
        HPut (k_accused_acct x) a' (
        if slashed_nothing a x then HCommit (HRet Ok) else                                 (* :72-78 *)
        HGet (k_caller_node x) (fun cn =>                                                  (* :83 *)
        HSub (distribute cn x) (fun r =>                                                   (* :96 *)
        match r with Err e => HRet (Err e) | Ok => HCommit (HRet Ok) end)))
      end)
    end)))))
    end))
    end.

  (* the order BEFORE the repair: the hash is stored through the received handle with no layer,
     then the slashing may fail *)
  Definition h_submit_evidence_old (x : tx) : hprog :=
    HGetH (k_evidence x) (fun ev =>
    if nonempty ev then HRet (Err E_DUPLICATE_EVIDENCE) else
    HPutH (k_evidence x) (new_val x ev) (
    HGet (k_accused_node x) (fun nd =>
    match nd with
    | None => HRet (Err E_INVALID_EVIDENCE)
    | Some _ => HRet Ok
    end))).

  (* The seeded change C08-1: `st` is built from ctx.State() BEFORE the layer is opened, so
     the transfer goes through a handle of the tree below the layer. *)
  Definition h_submit_msg_c08_1 (x : tx) : hprog :=
    HGetH k_rh_params (fun rp => HGas (gas rp OP_SUBMIT_MSG 1) (
    HGetH (k_rt_state x) (fun rs =>
    HOpen (
    HGetH (k_caller_acct x) (fun from => HGetH (k_rt_staking_acct x) (fun to =>
    match move from to x with
    | None => HRet (Err E_INSUFFICIENT_BALANCE)
    | Some (from', to') =>
      HPutH (k_caller_acct x) from' (HPutH (k_rt_staking_acct x) to' (
      HGetH (k_in_meta x) (fun meta =>
      if queue_full rs meta then HRet (Err E_QUEUE_FULL) else
      HPutH (k_in_msg x) (new_val x meta) (HPutH (k_in_meta x) (new_val x meta) (HCommit (HRet Ok))))))
    end)))))).

  (* ---------- every ported handler obeys the discipline ---------- *)
  Ltac hs := repeat (first
    [ apply hs_ret | apply hs_get; intro | apply hs_geth; intro | apply hs_gas | apply hs_open
    | apply hs_commit | apply hs_put_open | apply hs_del_open | apply hs_sub_open; intro
    | apply hs_puth | apply hs_delh | apply hs_put_closed | apply hs_del_closed
    | apply hn_ret | apply hn_get; intro | apply hn_geth; intro | apply hn_put | apply hn_del
    | apply hn_puth | apply hn_delh | apply hn_sub; intro | apply hn_commit
    | match goal with
      | |- hsafe _ (if ?b then _ else _) => destruct b
      | |- hnofail (if ?b then _ else _) => destruct b
      | |- hsafe _ (match ?m with Deliver => _ | Check => _ | Sim => _ end) => destruct m
      | |- hsafe _ (match ?o with Some _ => _ | None => _ end) => destruct o
      | |- hnofail (match ?o with Some _ => _ | None => _ end) => destruct o
      | |- hsafe _ (match ?r with Ok => _ | Err _ => _ end) => destruct r
      | |- hsafe _ (let (_, _) := ?p in _) => destruct p
      end ]).

  Lemma register_entity_safe m x : hsafe false (h_register_entity m x).
  Proof. unfold h_register_entity. hs. Qed.
  Lemma deregister_entity_safe m x : hsafe false (h_deregister_entity m x).
  Proof. unfold h_deregister_entity. hs. Qed.
  Lemma register_node_safe m x : hsafe false (h_register_node m x).
  Proof. unfold h_register_node. hs. Qed.
  Lemma register_runtime_safe m x : hsafe false (h_register_runtime m x).
  Proof. unfold h_register_runtime. hs. Qed.
  Lemma submit_msg_safe m x : hsafe false (h_submit_msg m x).
  Proof. unfold h_submit_msg. hs. Qed.

  Lemma submit_evidence_safe m x : hsafe false (h_submit_evidence m x).
  Proof. unfold h_submit_evidence. hs. Qed.

  Definition submitevidence_exec (m : mode) (x : tx) : option handler :=
    if tx_method x =? 6 then Some (hrun (h_submit_evidence m x) false) else None.

  Lemma submitevidence_handler_atomic m x h : submitevidence_exec m x = Some h -> atomic h.
  Proof.
    unfold submitevidence_exec.
    destruct (tx_method x =? 6); [intros H; replace h with (hrun (h_submit_evidence m x) false) by congruence; apply hsafe_atomic, submit_evidence_safe|discriminate].
  Qed.

  Lemma failed_tx_effect_submitevidence P dec size s e g s' :
    deliver P submitevidence_exec dec size s = (Err e, g, s') ->
    s' = s \/ (exists x, dec = Some x /\ s' = post_auth_state s x).
  Proof.
    intros H.
    destruct (failed_tx_effect_generic _ _ _ _ _ _ _ _ H) as [->|[x [g1 [t1 [fa1 [Hd [_ [_ ->]]]]]]]].
    - intros x h _ Hx. eapply submitevidence_handler_atomic; exact Hx.
    - left; reflexivity.
    - right. exists x. auto.
  Qed.

  Definition registry_exec (m : mode) (x : tx) : option handler :=
    if tx_method x =? 1 then Some (hrun (h_register_entity m x) false)
    else if tx_method x =? 2 then Some (hrun (h_deregister_entity m x) false)
    else if tx_method x =? 3 then Some (hrun (h_register_node m x) false)
    else if tx_method x =? 4 then Some (hrun (h_register_runtime m x) false)
    else None.
  Definition submitmsg_exec (m : mode) (x : tx) : option handler :=
    if tx_method x =? 5 then Some (hrun (h_submit_msg m x) false) else None.

  Lemma registry_handlers_atomic m x h : registry_exec m x = Some h -> atomic h.
  Proof.
    unfold registry_exec.
    destruct (tx_method x =? 1); [intros H; replace h with (hrun (h_register_entity m x) false) by congruence; apply hsafe_atomic, register_entity_safe|].
    destruct (tx_method x =? 2); [intros H; replace h with (hrun (h_deregister_entity m x) false) by congruence; apply hsafe_atomic, deregister_entity_safe|].
    destruct (tx_method x =? 3); [intros H; replace h with (hrun (h_register_node m x) false) by congruence; apply hsafe_atomic, register_node_safe|].
    destruct (tx_method x =? 4); [intros H; replace h with (hrun (h_register_runtime m x) false) by congruence; apply hsafe_atomic, register_runtime_safe|].
    discriminate.
  Qed.

  Lemma submitmsg_handler_atomic m x h : submitmsg_exec m x = Some h -> atomic h.
  Proof.
    unfold submitmsg_exec.
    destruct (tx_method x =? 5); [intros H; replace h with (hrun (h_submit_msg m x) false) by congruence; apply hsafe_atomic, submit_msg_safe|discriminate].
  Qed.

  Lemma failed_tx_effect_registry P dec size s e g s' :
    deliver P registry_exec dec size s = (Err e, g, s') ->
    s' = s \/ (exists x, dec = Some x /\ s' = post_auth_state s x).
  Proof.
    intros H.
    destruct (failed_tx_effect_generic _ _ _ _ _ _ _ _ H) as [->|[x [g1 [t1 [fa1 [Hd [_ [_ ->]]]]]]]].
    - intros x h _ Hx. eapply registry_handlers_atomic; exact Hx.
    - left; reflexivity.
    - right. exists x. auto.
  Qed.

  Lemma failed_tx_effect_submitmsg P dec size s e g s' :
    deliver P submitmsg_exec dec size s = (Err e, g, s') ->
    s' = s \/ (exists x, dec = Some x /\ s' = post_auth_state s x).
  Proof.
    intros H.
    destruct (failed_tx_effect_generic _ _ _ _ _ _ _ _ H) as [->|[x [g1 [t1 [fa1 [Hd [_ [_ ->]]]]]]]].
    - intros x h _ Hx. eapply submitmsg_handler_atomic; exact Hx.
    - left; reflexivity.
    - right. exists x. auto.
  Qed.
End Ports.

(* ================================================================== *)
(* Staking addEscrow / reclaimEscrow / allow / withdraw and the vault   *)
(* handlers create / authorizeAction / cancelAction.                    *)
(* ================================================================== *)
Section Ports2.
  (* generic abstract parameters: the i-th key / check / computed record of a handler *)
  Variable key : N -> tx -> N.
  Variable chk : N -> list (option val) -> tx -> bool.                 (* a validation verdict *)
  Variable calc : N -> list (option val) -> tx -> option val.          (* a computed record; None = the step fails *)
  Variable newv : N -> list (option val) -> tx -> val.
  Variable gcost : option val -> N.
  Variable withdraw_hook : tx -> prog.        (* md.Publish(MessageAccountHook): the vault's invokeAccountHook *)
  Variable execute_action : tx -> prog.       (* vault executeAction (suspend/resume/execute message/...) *)

  Definition E2 (n : N) : res := Err (200 + n).

  (* ---- staking/transactions.go addEscrow: validate, compute in memory, then three handle writes ---- *)
  Definition h_add_escrow (m : mode) (x : tx) : hprog :=
    match m with Check => HRet Ok | _ =>
    HGetH (key 0 x) (fun pa =>                                   (* consensus parameters *)
    HGas (gcost pa) (
    if chk 1 [pa] x then HRet (E2 1) else                        (* reserved / delegation disabled: ErrForbidden *)
    match m with Sim => HRet Ok | _ =>
    if chk 2 [pa] x then HRet (E2 2) else                        (* below MinDelegationAmount *)
    HGetH (key 1 x) (fun from =>
    HGetH (key 2 x) (fun to =>
    HGetH (key 3 x) (fun del =>
    match calc 1 [pa; from; to; del] x, calc 2 [pa; from; to; del] x, calc 3 [pa; from; to; del] x with
    | Some from', Some to', Some del' =>                         (* Deposit ok, balances above the minimum *)
      HPutH (key 1 x) from' (HPutH (key 2 x) to' (HPutH (key 3 x) del' (HRet Ok)))
    | _, _, _ => HRet (E2 3)
    end)))
    end))
    end.

  (* ---- reclaimEscrow: same shape, four handle writes (debonding delegation, delegation, accounts) ---- *)
  Definition h_reclaim_escrow (m : mode) (x : tx) : hprog :=
    if chk 10 [] x then HRet (E2 10) else                        (* zero shares: ErrInvalidArgument *)
    match m with Check => HRet Ok | _ =>
    HGetH (key 0 x) (fun pa =>
    HGas (gcost pa) (
    if chk 11 [pa] x then HRet (E2 11) else
    match m with Sim => HRet Ok | _ =>
    if chk 12 [pa] x then HRet (E2 12) else
    HGetH (key 1 x) (fun to =>
    HGetH (key 2 x) (fun from =>
    HGetH (key 3 x) (fun del =>
    HGetH (key 4 x) (fun epoch =>
    match calc 11 [pa; to; from; del; epoch] x with              (* share arithmetic: any failure before the writes *)
    | None => HRet (E2 13)
    | Some deb =>
      HPutH (key 5 x) deb (
      HPutH (key 3 x) (newv 12 [pa; to; from; del] x) (
      HPutH (key 1 x) (newv 13 [pa; to; from; del] x) (
      HPutH (key 2 x) (newv 14 [pa; to; from; del] x) (HRet Ok))))
    end))))
    end))
    end.

  (* ---- allow ---- *)
  Definition h_allow (m : mode) (x : tx) : hprog :=
    match m with Check => HRet Ok | _ =>
    HGetH (key 0 x) (fun pa =>
    HGas (gcost pa) (
    match m with Sim => HRet Ok | _ =>
    if chk 20 [pa] x then HRet (E2 20) else                      (* allowances disabled, reserved, self *)
    HGetH (key 1 x) (fun acct =>
    HGetH (key 6 x) (fun supply =>
    match calc 20 [pa; acct; supply] x with                      (* over supply / too many allowances *)
    | None => HRet (E2 21)
    | Some acct' => HPutH (key 1 x) acct' (HRet Ok)
    end))
    end))
    end.

  (* ---- withdraw (:700-830): the layer is opened BEFORE the authorization step, because a
     withdraw hook (vault accounts) writes through ctx.State(); the two account writes go through
     the received handle, right before Commit ---- *)
  Definition h_withdraw (m : mode) (x : tx) : hprog :=
    match m with Check => HRet Ok | _ =>
    HGetH (key 0 x) (fun pa =>
    HGas (gcost pa) (
    match m with Sim => HRet Ok | _ =>
    if chk 30 [pa] x then HRet (E2 30) else                      (* below MinTransferAmount *)
    if chk 31 [pa] x then HRet (E2 31) else                      (* allowances disabled *)
    if chk 32 [pa] x then HRet (E2 32) else                      (* reserved addresses *)
    if chk 33 [pa] x then HRet (E2 33) else                      (* from = to *)
    HOpen (                                                      (* ctx = ctx.NewTransaction(); defer ctx.Close() *)
    HGetH (key 2 x) (fun from =>
    let rest :=
      HGetH (key 1 x) (fun to =>
      match calc 30 [pa; from; to] x, calc 31 [pa; from; to] x with   (* Move + minimum balances *)
      | Some to', Some from' => HPutH (key 1 x) to' (HPutH (key 2 x) from' (HCommit (HRet Ok)))
      | _, _ => HRet (E2 36)
      end) in
    if chk 34 [from] x then                                      (* the source account has a withdraw hook *)
      HSub (withdraw_hook x) (fun r => match r with Err e => HRet (E2 34) | Ok => rest end)
    else if chk 35 [from] x then HRet (E2 35)                    (* no / insufficient allowance *)
    else rest))
    end))
    end.

  (* the seeded change C08-4: the hook runs BEFORE the layer is opened *)
  Definition h_withdraw_c08_4 (x : tx) : hprog :=
    HGetH (key 2 x) (fun from =>
    HSub (withdraw_hook x) (fun r => match r with Err e => HRet (E2 34) | Ok =>
    HOpen (
    HGetH (key 1 x) (fun to =>
    match calc 30 [from; to] x, calc 31 [from; to] x with
    | Some to', Some from' => HPutH (key 1 x) to' (HPutH (key 2 x) from' (HCommit (HRet Ok)))
    | _, _ => HRet (E2 36)
    end)) end)).

  (* ---- vault/transactions.go create (:13-65). NOTE `state := vaultState.NewMutableState(ctx.State())`
     is built at the TOP (:14), before the layer: CreateVault writes below the layer, last. ---- *)
  Definition h_vault_create (m : mode) (x : tx) : hprog :=
    HGetH (key 0 x) (fun pa =>
    if chk 40 [pa] x then HRet (E2 40) else                      (* create.Validate *)
    match m with Check => HRet Ok | _ =>
    HGas (gcost pa) (
    match m with Sim => HRet Ok | _ =>
    HOpen (
    HGet (key 1 x) (fun caller =>                                (* stakeState built inside the layer *)
    HPutH (key 7 x) (newv 40 [caller] x) (                       (* CreateVault: vault record + account hook *)
    HPutH (key 8 x) (newv 41 [caller] x) (
    HCommit (HRet Ok)))))
    end)
    end).

  (* ---- authorizeAction (:67-191) ---- *)
  Definition h_vault_authorize (m : mode) (x : tx) : hprog :=
    HGetH (key 0 x) (fun pa =>
    if chk 50 [pa] x then HRet (E2 50) else                      (* authAction.Validate *)
    HGetH (key 7 x) (fun vlt =>
    if chk 51 [vlt] x then HRet (E2 51) else                     (* no such vault *)
    if chk 52 [vlt] x then HRet (E2 52) else                     (* ErrInvalidNonce *)
    if chk 53 [vlt] x then HRet (E2 53) else                     (* not authorized: ErrForbidden *)
    match m with Check => HRet Ok | _ =>
    HGas (gcost pa) (
    HOpen (
    HGetH (key 9 x) (fun pend =>
    if chk 54 [pend] x then HRet (E2 54) else                    (* a different action is pending at this nonce *)
    let exec_part :=
      if negb (chk 56 [vlt; pend] x) then HCommit (HRet Ok)      (* not enough authorizations yet *)
      else HSub (execute_action x) (fun _ =>                     (* its (non state) error is only recorded in the event *)
           HDelH (key 9 x) (HPutH (key 7 x) (newv 51 [vlt] x) (HCommit (HRet Ok)))) in
    if chk 55 [pend] x then exec_part                            (* already contains the caller's authorization *)
    else HPutH (key 9 x) (newv 50 [pend] x) exec_part)))
    end)).

  (* ---- cancelAction (:193-267) ---- *)
  Definition h_vault_cancel (m : mode) (x : tx) : hprog :=
    if chk 60 [] x then HRet (E2 60) else
    HGetH (key 7 x) (fun vlt =>
    if chk 61 [vlt] x then HRet (E2 61) else
    if chk 62 [vlt] x then HRet (E2 62) else
    if chk 63 [vlt] x then HRet (E2 63) else
    match m with Check => HRet Ok | _ =>
    HGetH (key 0 x) (fun pa =>
    HGas (gcost pa) (
    match m with Sim => HRet Ok | _ =>
    HOpen (
    HGetH (key 9 x) (fun pend =>
    if chk 64 [vlt; pend] x then HRet (E2 64) else               (* :247 ErrForbidden *)
    HDelH (key 9 x) (HPutH (key 7 x) (newv 60 [vlt] x) (HCommit (HRet Ok)))))
    end))
    end).

  Ltac hs2 := repeat (first
    [ apply hs_ret | apply hs_get; intro | apply hs_geth; intro | apply hs_gas | apply hs_open
    | apply hs_commit | apply hs_put_open | apply hs_del_open | apply hs_sub_open; intro
    | apply hs_puth | apply hs_delh | apply hs_put_closed | apply hs_del_closed
    | apply hn_ret | apply hn_get; intro | apply hn_geth; intro | apply hn_put | apply hn_del
    | apply hn_puth | apply hn_delh | apply hn_sub; intro | apply hn_commit
    | match goal with
      | |- hsafe _ (if ?b then _ else _) => destruct b
      | |- hnofail (if ?b then _ else _) => destruct b
      | |- hsafe _ (match ?m with Deliver => _ | Check => _ | Sim => _ end) => destruct m
      | |- hsafe _ (match ?o with Some _ => _ | None => _ end) => destruct o
      | |- hnofail (match ?o with Some _ => _ | None => _ end) => destruct o
      | |- hsafe _ (match ?r with Ok => _ | Err _ => _ end) => destruct r
      end ]).

  Lemma add_escrow_safe m x : hsafe false (h_add_escrow m x).  Proof. unfold h_add_escrow. hs2. Qed.
  Lemma reclaim_escrow_safe m x : hsafe false (h_reclaim_escrow m x).  Proof. unfold h_reclaim_escrow. hs2. Qed.
  Lemma allow_safe m x : hsafe false (h_allow m x).  Proof. unfold h_allow. hs2. Qed.
  Lemma withdraw_safe m x : hsafe false (h_withdraw m x).  Proof. unfold h_withdraw. hs2. Qed.
  Lemma vault_create_safe m x : hsafe false (h_vault_create m x).  Proof. unfold h_vault_create. hs2. Qed.
  Lemma vault_authorize_safe m x : hsafe false (h_vault_authorize m x).  Proof. unfold h_vault_authorize. hs2. Qed.
  Lemma vault_cancel_safe m x : hsafe false (h_vault_cancel m x).  Proof. unfold h_vault_cancel. hs2. Qed.

  Definition staking_vault_prog (m : mode) (x : tx) : option hprog :=
    if tx_method x =? 10 then Some (h_add_escrow m x)
    else if tx_method x =? 11 then Some (h_reclaim_escrow m x)
    else if tx_method x =? 12 then Some (h_allow m x)
    else if tx_method x =? 13 then Some (h_withdraw m x)
    else if tx_method x =? 14 then Some (h_vault_create m x)
    else if tx_method x =? 15 then Some (h_vault_authorize m x)
    else if tx_method x =? 16 then Some (h_vault_cancel m x)
    else None.
  Definition staking_vault_exec (m : mode) (x : tx) : option handler :=
    match staking_vault_prog m x with Some p => Some (hrun p false) | None => None end.

  Lemma staking_vault_prog_safe m x p : staking_vault_prog m x = Some p -> hsafe false p.
  Proof.
    unfold staking_vault_prog.
    destruct (tx_method x =? 10); [intros H; injection H as <-; apply add_escrow_safe|].
    destruct (tx_method x =? 11); [intros H; injection H as <-; apply reclaim_escrow_safe|].
    destruct (tx_method x =? 12); [intros H; injection H as <-; apply allow_safe|].
    destruct (tx_method x =? 13); [intros H; injection H as <-; apply withdraw_safe|].
    destruct (tx_method x =? 14); [intros H; injection H as <-; apply vault_create_safe|].
    destruct (tx_method x =? 15); [intros H; injection H as <-; apply vault_authorize_safe|].
    destruct (tx_method x =? 16); [intros H; injection H as <-; apply vault_cancel_safe|].
    discriminate.
  Qed.

  Lemma failed_tx_effect_staking_vault P dec size s e g s' :
    deliver P staking_vault_exec dec size s = (Err e, g, s') ->
    s' = s \/ (exists x, dec = Some x /\ s' = post_auth_state s x).
  Proof.
    intros H.
    destruct (failed_tx_effect_generic _ _ _ _ _ _ _ _ H) as [->|[x [g1 [t1 [fa1 [Hd [_ [_ ->]]]]]]]].
    - intros x h _ Hx. unfold staking_vault_exec in Hx.
      destruct (staking_vault_prog Deliver x) as [p|] eqn:Ep; [|discriminate].
      replace h with (hrun p false) by congruence. apply hsafe_atomic. eapply staking_vault_prog_safe; exact Ep.
    - left; reflexivity.
    - right. exists x. auto.
  Qed.
End Ports2.

(* ---------- the seeded change C08-4 (hook before the layer) is NOT atomic ---------- *)
Definition c08_4_handler : hprog :=
  h_withdraw_c08_4 (fun i _ => i) (fun _ _ _ => None)
    (fun _ => Put 31 (VRaw 80) (Ret Ok)) (mkTx 20 0 0 0 13 false 0).

Lemma c08_4_not_atomic : ~ atomic (hrun c08_4_handler false).
Proof.
  intros A.
  pose (t := mkT [(2, VRaw 50)] [[]]).
  assert (H : exists e g' t', hrun c08_4_handler false nop_gas t = (Err e, g', t') /\ t' <> t).
  { eexists _, _, _. split; [vm_compute; reflexivity|]. vm_compute. discriminate. }
  destruct H as [e [g' [t' [H Hne]]]]. apply Hne. eapply A; exact H.
Qed.

(* the statements with every abstract parameter spelled out (used by Props/C08.v) *)
Lemma failed_tx_effect_registry_l :
  forall k_reg_params k_stake_params k_epoch k_features
         k_entity k_entity_acct k_entity_nodes k_entity_runtimes
         k_node k_node_index k_node_status k_node_lookups k_beacon_params
         k_runtime k_suspended_runtime k_runtime_owner k_old_runtime_owner k_rt_acct k_old_rt_acct
         cost count verify_entity_args signer_ok bypass_stake add_claim remove_claim new_val nonempty
         verify_node_args admission_ok node_expired node_lookup_failed verify_node_update resume_needed
         publish_resumed publish_new publish_updated rt_registration_disabled verify_runtime_args
         verify_runtime_new_or_update rt_signer_ok rt_needs_stake owner_changed
         P dec size s e g s',
  deliver P (registry_exec k_reg_params k_stake_params k_epoch k_features
         k_entity k_entity_acct k_entity_nodes k_entity_runtimes
         k_node k_node_index k_node_status k_node_lookups k_beacon_params
         k_runtime k_suspended_runtime k_runtime_owner k_old_runtime_owner k_rt_acct k_old_rt_acct
         cost count verify_entity_args signer_ok bypass_stake add_claim remove_claim new_val nonempty
         verify_node_args admission_ok node_expired node_lookup_failed verify_node_update resume_needed
         publish_resumed publish_new publish_updated rt_registration_disabled verify_runtime_args
         verify_runtime_new_or_update rt_signer_ok rt_needs_stake owner_changed) dec size s = (Err e, g, s') ->
  s' = s \/ (exists x, dec = Some x /\ s' = post_auth_state s x).
Proof. intros. eapply failed_tx_effect_registry; eassumption. Qed.

Lemma failed_tx_effect_submitmsg_l :
  forall k_stake_params k_rh_params k_rt_state k_in_meta k_in_msg k_caller_acct k_rt_staking_acct
         cost new_val rt_state_usable max_in_zero fee_below_min transfer_noop move below_min queue_full
         P dec size s e g s',
  deliver P (submitmsg_exec k_stake_params k_rh_params k_rt_state k_in_meta k_in_msg k_caller_acct k_rt_staking_acct
         cost new_val rt_state_usable max_in_zero fee_below_min transfer_noop move below_min queue_full) dec size s = (Err e, g, s') ->
  s' = s \/ (exists x, dec = Some x /\ s' = post_auth_state s x).
Proof. intros. eapply failed_tx_effect_submitmsg; eassumption. Qed.

(* ---------- the seeded change C08-1 is NOT atomic ---------- *)
Definition c08_1_handler : hprog :=
  h_submit_msg_c08_1 0 (fun _ => 10) (fun _ => 11) (fun _ => 12) (fun _ => 20) (fun _ => 21)
    (fun _ _ => 5)
    (fun _ _ => VRaw 1)
    (fun f t _ => match f, t with
                  | Some (VRaw a), Some (VRaw b) => if 150 <=? a then Some (VRaw (a - 150), VRaw (b + 150)) else None
                  | Some (VRaw a), None => if 150 <=? a then Some (VRaw (a - 150), VRaw 150) else None
                  | _, _ => None end)
    (fun _ meta => match meta with Some (VRaw n) => 1 <=? n | _ => false end)
    (mkTx 20 0 0 0 5 false 0).

Lemma c08_1_not_atomic : ~ atomic (hrun c08_1_handler false).
Proof.
  intros A.
  pose (t := mkT [(20, VRaw 1000); (11, VRaw 1)] [[]]).
  assert (H : exists g' t', hrun c08_1_handler false (mkGas 1000 0 false) t = (Err E_QUEUE_FULL, g', t') /\ t' <> t).
  { eexists _, _. split; [vm_compute; reflexivity|]. vm_compute. discriminate. }
  destruct H as [g' [t' [H Hne]]]. apply Hne. eapply A; exact H.
Qed.

(* ---------- submitEvidence before the repair 583b4f4 was NOT atomic ---------- *)
Definition evidence_old_handler : hprog :=
  h_submit_evidence_old (fun _ _ => VRaw 1) (fun v => match v with Some _ => true | None => false end)
    (fun _ => 30) (fun _ => 31) (mkTx 20 0 0 0 6 false 0).

Lemma evidence_old_not_atomic : ~ atomic (hrun evidence_old_handler false).
Proof.
  intros A.
  pose (t := mkT [(20, VRaw 1000)] [[]]).
  assert (H : exists g' t', hrun evidence_old_handler false (mkGas 1000 0 false) t = (Err E_INVALID_EVIDENCE, g', t') /\ t' <> t).
  { eexists _, _. split; [vm_compute; reflexivity|]. vm_compute. discriminate. }
  destruct H as [g' [t' [H Hne]]]. apply Hne. eapply A; exact H.
Qed.
