(* C08 — correspondence glue: evaluates Atomic.Model.deliver on the abstracted
   pre-state of one twin-replica case (harness/cmd/failtx) and compares with what
   the two real replicas showed.

   Input  (min_gas_price, pre_nonce, pre_bal, min_bal, decoded, known, tx_nonce, fee, gas, size,
           byte_cost, handler_costs, hkind)
     pre_nonce/pre_bal : the signer's account on the replica WITHOUT the transaction
     decoded           : mux.decodeTx succeeds (computed by the harness with the library)
     known             : some app serves the method
     hkind             : the abstract handler: 0 = charge gas, fail validation;
                         1 = charge gas, write inside NewTransaction, fail;
                         2 = charge gas, write, succeed.
   Output (failed, auth_passed, nonce', balance', fee_accumulated, other_key_changed). *)
From Verif Require Import Lib.Base Atomic.Model.

Definition SIGNER : N := 1.
Definition OTHER : N := 2.

Fixpoint charge (costs : list N) (k : prog) : prog :=
  match costs with
  | [] => k
  | c :: r => UseGas c (charge r k)
  end.

Definition handler (costs : list N) (hkind : N) : prog :=
  charge costs
    (if hkind =? 0 then Ret (Err 100)
     else if hkind =? 1 then Tx (Put OTHER (VRaw 99) (Del SIGNER (Ret (Err 100)))) Ret
     else Put OTHER (VRaw 99) (Ret Ok)).

Definition kcase := (N * N * N * N * bool * bool * N * N * N * N * N * list N * N)%type.
Definition kobs := (bool * bool * N * N * N * bool)%type.

Definition run_case (c : kcase) : kobs :=
  let '(min_price, pre_nonce, pre_bal, min_bal, decoded, known, txn, fee, gas, size, byte_cost, costs, hkind) := c in
  let P := mkP min_bal byte_cost min_price 0 (fun _ => false) in
  let s := mkM (mkT [(SIGNER, VAcct (mkAcct pre_nonce pre_bal 5)); (OTHER, VRaw 7)] [[]]) 0 [] in
  let x := mkTx SIGNER txn fee gas 0 false 0 in
  let exec := fun (_ : mode) (_ : tx) => if known then Some (run (handler costs hkind)) else None in
  let '(r, _, s') := deliver P exec (if decoded then Some x else None) size s in
  let a := match cget SIGNER (m_tree s') with Some (VAcct a) => a | _ => mkAcct 0 0 0 end in
  (match r with Ok => false | Err _ => true end,
   negb (a_nonce a =? pre_nonce),
   a_nonce a, a_bal a, m_feeacc s',
   negb (match cget OTHER (m_tree s') with Some (VRaw 7) => true | _ => false end)).

(* For a transaction that SUCCEEDED only (failed, auth, nonce) are compared: what a
   successful handler writes (possibly to the fee-flow keys too) is not the subject of C08. *)
Definition obs_eqb (a b : kobs) : bool :=
  let '(f1, p1, n1, b1, fa1, o1) := a in
  let '(f2, p2, n2, b2, fa2, o2) := b in
  Bool.eqb f1 f2 && Bool.eqb p1 p2 && (n1 =? n2) &&
  (if f1 then (fa1 =? fa2) && (b1 =? b2) && Bool.eqb o1 o2 else true).
