(* C08 — proofs about Atomic/Model.v. *)
From Verif Require Import Lib.Base Atomic.Model.

(* ---------- overlay commit = the overlay's view ---------- *)

Lemma aget_commit_kv (o : ov) (b : kv) k :
  aget k (commit_kv o b) = match aget k o with Some x => x | None => aget k b end.
Proof.
  induction o as [|[k' x] o IH]; [reflexivity|].
  unfold commit_kv in *. cbn [fold_right fst snd aget].
  destruct (k' =? k) eqn:E.
  - apply N.eqb_eq in E. subst k'. destruct x as [v|].
    + apply aget_aset_same.
    + apply aget_adel_same.
  - apply N.eqb_neq in E. destruct x as [v|].
    + rewrite aget_aset_other by congruence. exact IH.
    + rewrite aget_adel_other by congruence. exact IH.
Qed.

Lemma aget_commit_ov (o p : ov) k :
  aget k (commit_ov o p) = match aget k o with Some x => Some x | None => aget k p end.
Proof.
  induction o as [|[k' x] o IH]; [reflexivity|].
  unfold commit_ov in *. cbn [fold_right fst snd aget].
  destruct (k' =? k) eqn:E.
  - apply N.eqb_eq in E. subst k'. apply aget_aset_same.
  - apply N.eqb_neq in E. rewrite aget_aset_other by congruence. exact IH.
Qed.

(* ---------- the context interface behaves like a key-value store ---------- *)

Lemma cget_cput_same k v t : cget k (cput k v t) = Some v.
Proof.
  destruct t as [b [|o r]]; unfold cget, cput; cbn [t_layers t_base lget].
  - apply aget_aset_same.
  - rewrite aget_aset_same. reflexivity.
Qed.

Lemma cget_cput_other k k' v t : k <> k' -> cget k (cput k' v t) = cget k t.
Proof.
  intros Hne. destruct t as [b [|o r]]; unfold cget, cput; cbn [t_layers t_base lget].
  - apply aget_aset_other; exact Hne.
  - rewrite aget_aset_other by exact Hne. reflexivity.
Qed.

Lemma cget_cdel_same k t : cget k (cdel k t) = None.
Proof.
  destruct t as [b [|o r]]; unfold cget, cdel; cbn [t_layers t_base lget].
  - apply aget_adel_same.
  - rewrite aget_aset_same. reflexivity.
Qed.

Lemma cget_cdel_other k k' t : k <> k' -> cget k (cdel k' t) = cget k t.
Proof.
  intros Hne. destruct t as [b [|o r]]; unfold cget, cdel; cbn [t_layers t_base lget].
  - apply aget_adel_other; exact Hne.
  - rewrite aget_aset_other by exact Hne. reflexivity.
Qed.

Lemma cget_copen k t : cget k (copen t) = cget k t.
Proof. reflexivity. Qed.

Lemma cget_ccommit k t : cget k (ccommit t) = cget k t.
Proof.
  destruct t as [b [|o [|p r]]]; unfold cget, ccommit; cbn [t_layers t_base lget].
  - reflexivity.
  - apply aget_commit_kv.
  - rewrite aget_commit_ov. destruct (aget k o); reflexivity.
Qed.

(* ---------- frame: a program only ever touches the innermost layer ---------- *)

Definition frame (t t' : ctree) : Prop :=
  match t_layers t with
  | [] => t_layers t' = []
  | o :: ls => t_base t' = t_base t /\ exists o', t_layers t' = o' :: ls
  end.

Lemma frame_refl t : frame t t.
Proof. unfold frame. destruct (t_layers t) as [|o ls] eqn:E; [reflexivity|]. split; [reflexivity|]. exists o. reflexivity. Qed.

Lemma frame_trans t1 t2 t3 : frame t1 t2 -> frame t2 t3 -> frame t1 t3.
Proof.
  unfold frame. destruct (t_layers t1) as [|o ls].
  - intros H1. rewrite H1. auto.
  - intros [Hb [o' Hl]]. rewrite Hl. intros [Hb2 [o2 Hl2]]. split; [congruence|]. exists o2. exact Hl2.
Qed.

Lemma frame_cput k v t : frame t (cput k v t).
Proof.
  unfold frame, cput. destruct (t_layers t) as [|o ls]; cbn [t_layers t_base]; [reflexivity|].
  split; [reflexivity|]. eexists. reflexivity.
Qed.

Lemma frame_cdel k t : frame t (cdel k t).
Proof.
  unfold frame, cdel. destruct (t_layers t) as [|o ls]; cbn [t_layers t_base]; [reflexivity|].
  split; [reflexivity|]. eexists. reflexivity.
Qed.

(* Dropping the layer opened by NewTransaction restores the tree LITERALLY. *)
Lemma discard_after_open t t1 : frame (copen t) t1 -> cdiscard t1 = t.
Proof.
  unfold frame, copen, cdiscard. cbn [t_layers t_base]. intros [Hb [o' Hl]].
  rewrite Hl, Hb. destruct t; reflexivity.
Qed.

Lemma commit_after_open t t1 : frame (copen t) t1 -> frame t (ccommit t1).
Proof.
  unfold frame at 1, copen. cbn [t_layers t_base]. intros [Hb [o' Hl]].
  unfold frame, ccommit. rewrite Hl. destruct (t_layers t) as [|o ls]; cbn [t_layers t_base].
  - reflexivity.
  - split; [exact Hb|]. eexists. reflexivity.
Qed.

Lemma run_frame p : forall g t r g' t', run p g t = (r, g', t') -> frame t t'.
Proof.
  induction p as [r0|k c IH|k v c IH|k c IH|a c IH|body IHb c IHc]; intros g t r g' t' H; cbn [run] in H.
  - injection H as _ _ <-. apply frame_refl.
  - eapply IH; exact H.
  - eapply frame_trans; [apply frame_cput|]. eapply IH; exact H.
  - eapply frame_trans; [apply frame_cdel|]. eapply IH; exact H.
  - destruct (use_gas a g) as [e|g2].
    + injection H as _ _ <-. apply frame_refl.
    + eapply IH; exact H.
  - destruct (run body g (copen t)) as [[rb gb] tb] eqn:Rb.
    pose proof (IHb _ _ _ _ _ Rb) as Fb.
    destruct rb as [|e].
    + eapply frame_trans; [apply commit_after_open; exact Fb|]. eapply IHc; exact H.
    + rewrite (discard_after_open _ _ Fb) in H. eapply IHc; exact H.
Qed.

(* ---------- programs see the tree only through its view ---------- *)

Definition veq (t1 t2 : ctree) : Prop := forall k, cget k t1 = cget k t2.

Lemma veq_cput k v t1 t2 : veq t1 t2 -> veq (cput k v t1) (cput k v t2).
Proof.
  intros H k'. destruct (N.eq_dec k' k) as [->|Hne].
  - rewrite !cget_cput_same. reflexivity.
  - rewrite !cget_cput_other by exact Hne. apply H.
Qed.

Lemma veq_cdel k t1 t2 : veq t1 t2 -> veq (cdel k t1) (cdel k t2).
Proof.
  intros H k'. destruct (N.eq_dec k' k) as [->|Hne].
  - rewrite !cget_cdel_same. reflexivity.
  - rewrite !cget_cdel_other by exact Hne. apply H.
Qed.

Lemma run_veq p : forall g t1 t2 r1 g1 u1 r2 g2 u2,
  veq t1 t2 -> run p g t1 = (r1, g1, u1) -> run p g t2 = (r2, g2, u2) ->
  r1 = r2 /\ g1 = g2 /\ veq u1 u2.
Proof.
  induction p as [r0|k c IH|k v c IH|k c IH|a c IH|body IHb c IHc];
    intros g t1 t2 r1 g1 u1 r2 g2 u2 V H1 H2; cbn [run] in H1, H2.
  - injection H1 as <- <- <-. injection H2 as <- <- <-. auto.
  - rewrite (V k) in H1. eapply IH; [exact V|exact H1|exact H2].
  - eapply IH; [apply veq_cput; exact V|exact H1|exact H2].
  - eapply IH; [apply veq_cdel; exact V|exact H1|exact H2].
  - destruct (use_gas a g) as [e|g3].
    + injection H1 as <- <- <-. injection H2 as <- <- <-. auto.
    + eapply IH; [exact V|exact H1|exact H2].
  - destruct (run body g (copen t1)) as [[rb1 gb1] tb1] eqn:R1.
    destruct (run body g (copen t2)) as [[rb2 gb2] tb2] eqn:R2.
    assert (Vo : veq (copen t1) (copen t2)) by (intro k; rewrite !cget_copen; apply V).
    destruct (IHb _ _ _ _ _ _ _ _ _ Vo R1 R2) as [<- [<- Vb]].
    destruct rb1 as [|e].
    + eapply IHc; [|exact H1|exact H2]. intro k. rewrite !cget_ccommit. apply Vb.
    + rewrite (discard_after_open _ _ (run_frame _ _ _ _ _ _ R1)) in H1.
      rewrite (discard_after_open _ _ (run_frame _ _ _ _ _ _ R2)) in H2.
      eapply IHc; [exact V|exact H1|exact H2].
Qed.

(* ---------- overlay_tx_atomic ---------- *)

Lemma tx_discard_literal body g t r g1 t1 :
  run body g (copen t) = (r, g1, t1) -> cdiscard t1 = t.
Proof. intros H. apply discard_after_open. eapply run_frame; exact H. Qed.

Lemma tx_commit_exact body g t r g1 t1 r' g1' t2 :
  run body g (copen t) = (r, g1, t1) -> run body g t = (r', g1', t2) ->
  r = r' /\ g1 = g1' /\ forall k, cget k (ccommit t1) = cget k t2.
Proof.
  intros H1 H2.
  assert (V : veq (copen t) t) by (intro k; apply cget_copen).
  destruct (run_veq _ _ _ _ _ _ _ _ _ _ V H1 H2) as [Hr [Hg Vu]].
  split; [exact Hr|]. split; [exact Hg|]. intro k. rewrite cget_ccommit. apply Vu.
Qed.

(* A committed transaction layer leaves exactly the view that running its body
   directly would have left. *)
Lemma tx_commit_view body g t :
  fst (fst (run body g t)) = Ok ->
  forall k, cget k (snd (run (Tx body Ret) g t)) = cget k (snd (run body g t)).
Proof.
  intros Hok k. cbn [run].
  destruct (run body g (copen t)) as [[r g1] t1] eqn:R1.
  destruct (run body g t) as [[r' g1'] t2] eqn:R2.
  destruct (tx_commit_exact _ _ _ _ _ _ _ _ _ R1 R2) as [Hr [_ H]].
  cbn [fst] in Hok. subst r'. subst r. cbn [run snd]. apply H.
Qed.

(* The layers below the opened one (and the base, when there is a layer) are
   untouched whatever the body does, committed or not. *)
Lemma tx_lower_layers_untouched body c g t r g' t' :
  run (Tx body c) g t = (r, g', t') -> frame t t'.
Proof. apply run_frame. Qed.

(* ---------- atomic handlers ---------- *)

Definition atomic (h : handler) : Prop :=
  forall g t e g' t', h g t = (Err e, g', t') -> t' = t.

(* a handler that only ever writes the innermost layer of the tree it is given *)
Definition framed (h : handler) : Prop :=
  forall g t r g' t', h g t = (r, g', t') -> frame t t'.

(* never returns an error *)
Inductive nofail : prog -> Prop :=
| nf_ret : nofail (Ret Ok)
| nf_get k c : (forall v, nofail (c v)) -> nofail (Get k c)
| nf_put k v c : nofail c -> nofail (Put k v c)
| nf_del k c : nofail c -> nofail (Del k c)
| nf_tx body c : (forall r, nofail (c r)) -> nofail (Tx body c).

(* the two conventions the handlers follow: validate (read, charge gas) first and
   write last, or do the fallible writes inside NewTransaction()/Commit() *)
Inductive safe : prog -> Prop :=
| sf_ret r : safe (Ret r)
| sf_get k c : (forall v, safe (c v)) -> safe (Get k c)
| sf_gas a c : safe c -> safe (UseGas a c)
| sf_put k v c : nofail c -> safe (Put k v c)
| sf_del k c : nofail c -> safe (Del k c)
| sf_tx body c : nofail (c Ok) -> (forall e, safe (c (Err e))) -> safe (Tx body c).

Lemma nofail_run p : nofail p -> forall g t e g' t', run p g t <> (Err e, g', t').
Proof.
  induction 1 as [|k c _ IH|k v c _ IH|k c _ IH|body c _ IH]; intros g t e g' t'; cbn [run].
  - discriminate.
  - apply IH.
  - apply IH.
  - apply IH.
  - destruct (run body g (copen t)) as [[rb gb] tb]. destruct rb; apply IH.
Qed.

Lemma safe_atomic p : safe p -> atomic (run p).
Proof.
  induction 1 as [r|k c _ IH|a c _ IH|k v c Hn|k c Hn|body c Hn _ IH]; intros g t e g' t' H; cbn [run] in H.
  - injection H as _ _ <-. reflexivity.
  - eapply IH; exact H.
  - destruct (use_gas a g) as [e2|g2].
    + injection H as _ _ <-. reflexivity.
    + eapply IH; exact H.
  - exfalso. eapply nofail_run; [exact Hn|exact H].
  - exfalso. eapply nofail_run; [exact Hn|exact H].
  - destruct (run body g (copen t)) as [[rb gb] tb] eqn:Rb. destruct rb as [|e2].
    + exfalso. eapply nofail_run; [exact Hn|exact H].
    + rewrite (tx_discard_literal _ _ _ _ _ _ Rb) in H. eapply IH; exact H.
Qed.

(* Any body whatsoever, wrapped in a transaction layer, is atomic. *)
Lemma tx_wrapped_atomic body : atomic (run (Tx body Ret)).
Proof. apply safe_atomic. constructor; [constructor|intro e; constructor]. Qed.

Lemma run_framed p : framed (run p).
Proof. intros g t r g' t' H. eapply run_frame; exact H. Qed.

(* ---------- authentication ---------- *)

Definition signer_acct (t : ctree) (x : tx) : acct :=
  match cget (tx_signer x) t with Some (VAcct a) => a | _ => zero_acct end.

Lemma auth_deliver_ok P t fa x t1 fa1 g1 :
  auth P Deliver t fa x = inr (t1, fa1, g1) ->
  t1 = cput (tx_signer x) (VAcct (paid_acct (signer_acct t x) (tx_fee x))) t /\
  fa1 = fa + tx_fee x /\
  g1 = mkGas (tx_gas x) 0 false /\
  p_reserved P (tx_signer x) = false /\
  a_nonce (signer_acct t x) = tx_nonce x /\
  tx_fee x + p_min_transact P <= a_bal (signer_acct t x).
Proof.
  unfold auth, signer_acct. destruct (p_reserved P (tx_signer x)); [discriminate|].
  destruct (cget (tx_signer x) t) as [[a|n]|]; try discriminate.
  - destruct (a_nonce a =? tx_nonce x) eqn:En; cbn [negb]; [|discriminate].
    destruct (a_bal a <? tx_fee x + p_min_transact P) eqn:Eb; [discriminate|].
    intros H. injection H as <- <- <-. repeat split; lia.
  - destruct (a_nonce zero_acct =? tx_nonce x) eqn:En; cbn [negb]; [|discriminate].
    destruct (a_bal zero_acct <? tx_fee x + p_min_transact P) eqn:Eb; [discriminate|].
    intros H. injection H as <- <- <-. repeat split; lia.
Qed.

Lemma auth_only_pre_execution_write P t fa x t1 fa1 g1 :
  auth P Deliver t fa x = inr (t1, fa1, g1) ->
  let a := signer_acct t x in
  fa1 = fa + tx_fee x /\
  cget (tx_signer x) t1 =
    Some (VAcct (mkAcct ((a_nonce a + 1) mod two64) (a_bal a - tx_fee x) (a_rest a))) /\
  (forall k, k <> tx_signer x -> cget k t1 = cget k t) /\
  frame t t1 /\
  a_nonce a = tx_nonce x /\ tx_fee x + p_min_transact P <= a_bal a.
Proof.
  intros H a. destruct (auth_deliver_ok _ _ _ _ _ _ _ H) as [-> [-> [_ [_ [Hn Hb]]]]].
  split; [reflexivity|]. split; [apply cget_cput_same|].
  split; [intros k Hk; apply cget_cput_other; exact Hk|].
  split; [apply frame_cput|]. split; assumption.
Qed.

(* CheckTx and simulation authenticate without writing. *)
Lemma auth_check_sim_no_write P m t fa x t1 fa1 g1 :
  m <> Deliver -> auth P m t fa x = inr (t1, fa1, g1) -> t1 = t /\ fa1 = fa.
Proof.
  intros Hm. unfold auth. destruct m; [congruence| |].
  - destruct (p_reserved P (tx_signer x)); [discriminate|].
    destruct (cget (tx_signer x) t) as [[a|n]|]; try discriminate.
    + destruct (negb (a_nonce a =? tx_nonce x)); [discriminate|].
      destruct (a_bal a <? tx_fee x + p_min_transact P); [discriminate|].
      destruct ((0 <? tx_gas x) && (gas_price x <? p_local_min_price P)); [discriminate|].
      intros H; injection H as <- <- _; auto.
    + destruct (negb (a_nonce zero_acct =? tx_nonce x)); [discriminate|].
      destruct (a_bal zero_acct <? tx_fee x + p_min_transact P); [discriminate|].
      destruct ((0 <? tx_gas x) && (gas_price x <? p_local_min_price P)); [discriminate|].
      intros H; injection H as <- <- _; auto.
  - intros H; injection H as <- <- _; auto.
Qed.

(* ---------- the pipeline ---------- *)

Lemma process_tx_deliver_err P exec t fa x size e g t' fa' :
  process_tx P exec Deliver t fa x size = (Err e, g, t', fa') ->
  (forall h, exec Deliver x = Some h -> atomic h) ->
  (t' = t /\ fa' = fa) \/
  (tx_critical x = false /\ exists g1, auth P Deliver t fa x = inr (t', fa', g1)).
Proof.
  unfold process_tx. intros H Hat.
  destruct (exec Deliver x) as [h|] eqn:Ex.
  2:{ injection H as _ _ <- <-. left; auto. }
  specialize (Hat h eq_refl).
  destruct (tx_critical x) eqn:Ec.
  - (* no authentication: nothing at all may change *)
    destruct (use_gas ((size * p_byte_cost P) mod two64) nop_gas) as [e1|g2].
    { injection H as _ _ <- <-. left; auto. }
    destruct ((0 <? p_min_gas_price P) && negb false && (gas_price x <? p_min_gas_price P)).
    { injection H as _ _ <- <-. left; auto. }
    destruct (h g2 t) as [[r3 g3] t2] eqn:R. destruct r3 as [|e3].
    + cbn [post_exec] in H. discriminate.
    + injection H as _ _ <- <-. left. split; [eapply Hat; exact R|reflexivity].
  - destruct (auth P Deliver t fa x) as [e1|[[t1 fa1] g1]] eqn:Ea.
    { injection H as _ _ <- <-. left; auto. }
    right. split; [reflexivity|]. exists g1.
    destruct (use_gas ((size * p_byte_cost P) mod two64) g1) as [e2|g2].
    { injection H as _ _ <- <-. reflexivity. }
    destruct ((0 <? p_min_gas_price P) && negb false && (gas_price x <? p_min_gas_price P)).
    { injection H as _ _ <- <-. reflexivity. }
    destruct (h g2 t1) as [[r3 g3] t2] eqn:R. destruct r3 as [|e3].
    + cbn [post_exec] in H. discriminate.
    + injection H as _ _ <- <-. rewrite (Hat _ _ _ _ _ R). reflexivity.
Qed.

Lemma failed_tx_effect_generic P exec dec size s e g s' :
  deliver P exec dec size s = (Err e, g, s') ->
  (forall x h, dec = Some x -> exec Deliver x = Some h -> atomic h) ->
  s' = s \/
  (exists x g1 t1 fa1, dec = Some x /\ tx_critical x = false /\
     auth P Deliver (m_tree s) (m_feeacc s) x = inr (t1, fa1, g1) /\
     s' = post_auth_state s x).
Proof.
  unfold deliver. intros H Hat. destruct dec as [x|].
  2:{ injection H as _ _ <-. left; reflexivity. }
  destruct (process_tx P exec Deliver (m_tree s) (m_feeacc s) x size) as [[[r g2] t'] fa'] eqn:Pr.
  injection H as -> _ <-.
  destruct (process_tx_deliver_err _ _ _ _ _ _ _ _ _ _ Pr (fun h => Hat x h eq_refl)) as [[-> ->]|[Hc [g1 Ha]]].
  - left. destruct s; reflexivity.
  - right. exists x, g1, t', fa'. split; [reflexivity|]. split; [exact Hc|]. split; [exact Ha|].
    destruct (auth_deliver_ok _ _ _ _ _ _ _ Ha) as [-> [-> _]]. reflexivity.
Qed.

(* every handler follows one of the two conventions: no semantic premise left *)
Lemma failed_tx_effect_safe_handlers P exec dec size s e g s' :
  (forall x h, exec Deliver x = Some h -> exists p, h = run p /\ safe p) ->
  deliver P exec dec size s = (Err e, g, s') ->
  s' = s \/ (exists x, dec = Some x /\ s' = post_auth_state s x).
Proof.
  intros Hs H.
  destruct (failed_tx_effect_generic _ _ _ _ _ _ _ _ H) as [->|[x [g1 [t1 [fa1 [Hd [_ [_ ->]]]]]]]].
  - intros x h _ Hx. destruct (Hs _ _ Hx) as [p [-> Sp]]. apply safe_atomic. exact Sp.
  - left; reflexivity.
  - right. exists x. auto.
Qed.

Lemma rejected_up_to_auth_changes_nothing P exec dec size s :
  (dec = None \/
   exists x, dec = Some x /\
     (exec Deliver x = None \/
      (tx_critical x = false /\ exists e, auth P Deliver (m_tree s) (m_feeacc s) x = inl e))) ->
  exists e g, deliver P exec dec size s = (Err e, g, s).
Proof.
  unfold deliver, process_tx. intros [->|[x [-> [Hx|[Hc [e Ha]]]]]].
  - eexists _, _. reflexivity.
  - rewrite Hx. eexists _, _. destruct s; reflexivity.
  - destruct (exec Deliver x) as [h|].
    + rewrite Hc, Ha. eexists _, _. destruct s; reflexivity.
    + eexists _, _. destruct s; reflexivity.
Qed.

Lemma auth_failure_changes_nothing P exec x size s e :
  tx_critical x = false ->
  auth P Deliver (m_tree s) (m_feeacc s) x = inl e ->
  exists e' g, deliver P exec (Some x) size s = (Err e', g, s).
Proof.
  intros Hc Ha. apply rejected_up_to_auth_changes_nothing. right. exists x. split; [reflexivity|].
  right. split; [exact Hc|]. exists e. exact Ha.
Qed.

(* Whatever a delivered transaction does, it only writes the block's proposal
   overlay: the last committed tree is not touched before Commit. *)
Lemma deliver_frame P exec dec size s r g s' :
  (forall x h, exec Deliver x = Some h -> framed h) ->
  deliver P exec dec size s = (r, g, s') ->
  frame (m_tree s) (m_tree s') /\ m_check s' = m_check s.
Proof.
  intros Hfr. unfold deliver. destruct dec as [x|].
  2:{ intros H; injection H as _ _ <-. split; [apply frame_refl|reflexivity]. }
  destruct (process_tx P exec Deliver (m_tree s) (m_feeacc s) x size) as [[[r2 g2] t'] fa'] eqn:Pr.
  intros H; injection H as _ _ <-. cbn [m_tree m_check]. split; [|reflexivity].
  unfold process_tx in Pr. destruct (exec Deliver x) as [h|] eqn:Ex.
  2:{ injection Pr as _ _ <- _. apply frame_refl. }
  specialize (Hfr x h Ex).
  assert (Hrun : forall g0 t1 fa1 (F : frame (m_tree s) t1),
    match use_gas ((size * p_byte_cost P) mod two64) g0 with
    | inl e => (Err e, g0, t1, fa1)
    | inr g3 =>
        if (0 <? p_min_gas_price P) && negb false && (gas_price x <? p_min_gas_price P)
        then (Err E_GAS_PRICE_TOO_LOW, g3, t1, fa1)
        else match h g3 t1 with
             | (Err e, g4, t2) => (Err e, g4, t2, fa1)
             | (Ok, g4, t2) => match post_exec Deliver t2 x with
                               | inl e => (Err e, g4, t2, fa1)
                               | inr t3 => (Ok, g4, t3, fa1)
                               end
             end
    end = (r2, g2, t', fa') -> frame (m_tree s) t').
  { intros g0 t1 fa1 F. destruct (use_gas _ g0) as [e|g3].
    - intros E; injection E as _ _ <- _. exact F.
    - destruct (_ && _ && _).
      + intros E; injection E as _ _ <- _. exact F.
      + destruct (h g3 t1) as [[r3 g4] t2] eqn:R. pose proof (Hfr _ _ _ _ _ R) as F2.
        destruct r3; cbn [post_exec]; intros E; injection E as _ _ <- _; eapply frame_trans; eauto. }
  destruct (tx_critical x).
  - exact (Hrun nop_gas (m_tree s) (m_feeacc s) (frame_refl _) Pr).
  - destruct (auth P Deliver (m_tree s) (m_feeacc s) x) as [e|[[t1 fa1] g1]] eqn:Ea.
    + injection Pr as _ _ <- _. apply frame_refl.
    + refine (Hrun g1 t1 fa1 _ Pr). destruct (auth_deliver_ok _ _ _ _ _ _ _ Ea) as [-> _]. apply frame_cput.
Qed.


(* The mux-level failure classes AFTER authentication — the transaction-size gas charge and the
   consensus minimum gas price (transaction.go:86-100) — are decided BEFORE the handler runs:
   whatever the handler is (no atomicity premise), the result is exactly the post-authentication
   state. (An oversized transaction is a decode failure: [rejected_up_to_auth_changes_nothing].) *)
Lemma mux_level_failures_precede_handler P exec x h size s t1 fa1 g1 :
  tx_critical x = false ->
  exec Deliver x = Some h ->
  auth P Deliver (m_tree s) (m_feeacc s) x = inr (t1, fa1, g1) ->
  ((exists e, use_gas ((size * p_byte_cost P) mod two64) g1 = inl e) \/
   ((0 <? p_min_gas_price P) = true /\ (gas_price x <? p_min_gas_price P) = true)) ->
  exists e g, deliver P exec (Some x) size s = (Err e, g, post_auth_state s x).
Proof.
  intros Hc Hx Ha Hf. unfold deliver, process_tx. rewrite Hx, Hc, Ha.
  destruct (auth_deliver_ok _ _ _ _ _ _ _ Ha) as [-> [-> _]].
  destruct (use_gas ((size * p_byte_cost P) mod two64) g1) as [e|g2] eqn:Eg.
  - eexists _, _. reflexivity.
  - destruct Hf as [[e He]|[H0 Hp]]; [discriminate|].
    rewrite H0, Hp. cbn [negb andb]. eexists _, _. reflexivity.
Qed.

(* ---------- CheckTx / EstimateGas ---------- *)

Lemma check_and_estimate_pure P exec :
  (forall dec size s r g s', check_tx P exec dec size s = (r, g, s') ->
     m_tree s' = m_tree s /\ m_feeacc s' = m_feeacc s) /\
  (forall x size s gas s', estimate_gas P exec x size s = (gas, s') -> s' = s).
Proof.
  split.
  - intros dec size s r g s'. unfold check_tx. destruct dec as [x|].
    + destruct (process_tx P exec Check (mkT (m_check s) []) (m_feeacc s) x size) as [[[r2 g2] t'] fa'].
      intros H; injection H as _ _ <-. auto.
    + intros H; injection H as _ _ <-. auto.
  - intros x size s gas s'. unfold estimate_gas.
    destruct (process_tx P exec Sim (mkT (t_base (m_tree s)) []) (m_feeacc s) x size) as [[[r2 g2] t'] fa'].
    intros H; injection H as _ <-. reflexivity.
Qed.

(* ---------- examples (non-vacuity) and the refutation of "the mux rolls back" ---------- *)

Definition exP := mkP 0 1 0 0 (fun a => a =? 999).
Definition ex_s0 : mstate :=
  mkM (mkT [(1, VAcct (mkAcct 3 1000 77)); (2, VRaw 7)] [[(3, Some (VRaw 8))]]) 5 [(1, VAcct (mkAcct 3 1000 77))].
Definition ex_tx := mkTx 1 3 40 5000 0 false 0.

(* validate, charge gas, then a NESTED pair of transaction layers: the inner one
   commits into the outer, the outer fails. *)
Definition ex_safe : prog :=
  UseGas 50 (Get 2 (fun v =>
    Tx (Put 2 (VRaw 99) (Tx (Del 1 (Ret Ok)) (fun _ => Del 3 (Ret (Err 100))))) Ret)).
(* writes, then fails, with no layer: the multiplexer keeps the write *)
Definition ex_unsafe : prog := UseGas 50 (Put 2 (VRaw 99) (Ret (Err 100))).

Example ex_safe_is_safe : safe ex_safe.
Proof. repeat constructor. Qed.

Example ex_failed_tx_effect :
  exists g, deliver exP (fun _ _ => Some (run ex_safe)) (Some ex_tx) 200 ex_s0 = (Err 100, g, post_auth_state ex_s0 ex_tx)
  /\ post_auth_state ex_s0 ex_tx <> ex_s0.
Proof. eexists. split; [vm_compute; reflexivity|]. vm_compute. discriminate. Qed.

Example ex_auth_hypotheses :
  exists t1 fa1 g1, auth exP Deliver (m_tree ex_s0) (m_feeacc ex_s0) ex_tx = inr (t1, fa1, g1).
Proof. eexists _, _, _. vm_compute. reflexivity. Qed.

Example ex_auth_failure :
  exists e, auth exP Deliver (m_tree ex_s0) (m_feeacc ex_s0) (mkTx 1 4 40 5000 0 false 0) = inl e.
Proof. eexists. vm_compute. reflexivity. Qed.

Example ex_out_of_gas_in_handler :
  exists g, deliver exP (fun _ _ => Some (run ex_safe)) (Some (mkTx 1 3 40 249 0 false 0)) 200 ex_s0
            = (Err E_OUT_OF_GAS, g, post_auth_state ex_s0 (mkTx 1 3 40 249 0 false 0)).
Proof. eexists. vm_compute. reflexivity. Qed.

Example ex_commit_applies :
  forall k, cget k (snd (run (Tx (Put 2 (VRaw 99) (Del 3 (Ret Ok))) Ret) nop_gas (m_tree ex_s0)))
          = cget k (snd (run (Put 2 (VRaw 99) (Del 3 (Ret Ok))) nop_gas (m_tree ex_s0))).
Proof. apply tx_commit_view. vm_compute. reflexivity. Qed.

(* The multiplexer itself does NOT roll back: with a handler outside the two
   conventions a failed transaction leaves more than fee and nonce behind. *)
Lemma mux_does_not_roll_back :
  exists P exec x size s e g s',
    deliver P exec (Some x) size s = (Err e, g, s') /\ s' <> s /\ s' <> post_auth_state s x.
Proof.
  exists exP, (fun _ _ => Some (run ex_unsafe)), ex_tx, 200, ex_s0. eexists _, _, _.
  split; [vm_compute; reflexivity|]. split; vm_compute; discriminate.
Qed.

Example ex_check_estimate :
  fst (fst (check_tx exP (fun _ _ => Some (run ex_unsafe)) (Some ex_tx) 200 ex_s0)) = Err 100 /\
  m_check (snd (check_tx exP (fun _ _ => Some (run ex_unsafe)) (Some ex_tx) 200 ex_s0)) <> m_check ex_s0 /\
  fst (estimate_gas exP (fun _ _ => Some (run ex_unsafe)) ex_tx 200 ex_s0) = 250.
Proof. vm_compute. repeat split; discriminate. Qed.
Example ex_underpriced :
  exists e g, deliver (mkP 0 1 1000 0 (fun _ => false)) (fun _ _ => Some (run ex_unsafe)) (Some ex_tx) 200 ex_s0
              = (Err e, g, post_auth_state ex_s0 ex_tx) /\ e = E_GAS_PRICE_TOO_LOW.
Proof. eexists _, _. split; vm_compute; reflexivity. Qed.
