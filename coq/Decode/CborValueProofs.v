From Verif Require Import Lib.Base Decode.Cbor Decode.CborProofs Decode.CborValue Gen.MiscConsts.

Definition nofuel_gt {A} (lim off : N) (proj : A -> N) (r : wres A) : Prop :=
  match r with WOk a => off < proj a /\ off < lim | WErr _ => True | WFuel => False end.
Definition nofuel_ge {A} (off : N) (proj : A -> N) (r : wres A) : Prop :=
  match r with WOk a => off <= proj a | WErr _ => True | WFuel => False end.

Lemma head_gt data off t ai val off' : valid_head data off = WOk (t, ai, val, off') -> off < off' /\ off < dlen data.
Proof.
  intros H. pose proof (head_spec _ _ _ _ _ _ H) as [H1 H2]. lia.
Qed.

Lemma pv_spec : forall f,
  (forall data off, (N.to_nat (2 * (dlen data - off) + 1) <= f)%nat ->
     nofuel_gt (dlen data) off (fun x : N * vstate * kdesc => fst (fst x)) (pv_item f data off)) /\
  (forall n data off st, (N.to_nat (2 * (dlen data - off) + 2) <= f)%nat ->
     nofuel_ge off (fun x : N * vstate => fst x) (pv_array f n data off st)) /\
  (forall n data off st seen, (N.to_nat (2 * (dlen data - off) + 2) <= f)%nat ->
     nofuel_ge off (fun x : N * vstate => fst x) (pv_map f n data off st seen)).
Proof.
  induction f as [|f (IHi & IHa & IHm)]; repeat split; try (intros; lia).
  - intros data off Hf. cbn [pv_item].
    destruct (valid_head data off) as [[[[t ai] val] off1]|e|] eqn:Hh;
      [|exact I|exfalso; eapply head_no_fuel; exact Hh].
    apply head_gt in Hh. destruct Hh as [Ho1 Ho2].
    destruct (t =? 0); [cbn; lia|]. destruct (t =? 1); [cbn; lia|]. destruct (t =? 2); [cbn; lia|].
    destruct (t =? 3); [cbn; lia|].
    destruct (t =? 4).
    { specialize (IHa val data off1 (mkV true true) ltac:(lia)).
      destruct (pv_array f val data off1 (mkV true true)) as [[o st]|e|]; cbn in *; try exact I; try contradiction. lia. }
    destruct (t =? 5).
    { specialize (IHm val data off1 (mkV true true) [] ltac:(lia)).
      destruct (pv_map f val data off1 (mkV true true) []) as [[o st]|e|]; cbn in *; try exact I; try contradiction. lia. }
    destruct (t =? 7); [|exact I].
    destruct ((ai <? 20) || (ai =? 24)); [cbn; lia|]. destruct (ai =? 20); [cbn; lia|].
    destruct (ai =? 21); [cbn; lia|]. destruct ((ai =? 22) || (ai =? 23)); cbn; lia.
  - intros n data off st Hf. cbn [pv_array]. destruct (n =? 0); [cbn; lia|].
    specialize (IHi data off ltac:(lia)).
    destruct (pv_item f data off) as [[[o st'] k]|e|]; cbn in IHi; try exact I; try contradiction.
    specialize (IHa (n - 1) data o (v_and st st') ltac:(lia)).
    destruct (pv_array f (n - 1) data o (v_and st st')) as [[o2 s2]|e|]; cbn in *; try exact I; try contradiction. lia.
  - intros n data off st seen Hf. cbn [pv_map]. destruct (n =? 0); [cbn; lia|].
    pose proof (IHi data off ltac:(lia)) as H1.
    destruct (pv_item f data off) as [[[o1 stk] k]|e|]; cbn in H1; try exact I; try contradiction.
    pose proof (IHi data o1 ltac:(lia)) as H2.
    destruct (pv_item f data o1) as [[[o2 stv] k2]|e|]; cbn in H2; try exact I; try contradiction.
    match goal with |- nofuel_ge _ _ (pv_map f (n - 1) data o2 ?s ?l) =>
      specialize (IHm (n - 1) data o2 s l ltac:(lia));
      destruct (pv_map f (n - 1) data o2 s l) as [[o3 s3]|e|]; cbn in *; try exact I; try contradiction end.
    lia.
Qed.

(* the verdict function is total (linear fuel), for every byte string *)
Lemma cbor_unmarshal_verdict_total_l : forall data, cbor_unmarshal_verdict data <> WFuel.
Proof.
  intros data. unfold cbor_unmarshal_verdict.
  pose proof (cbor_recognizer_total_l data) as Hv.
  destruct (cbor_valid data) as [x|e|]; [|discriminate|contradiction].
  pose proof (proj1 (pv_spec (N.to_nat (4 * dlen data + 4))) data 0 ltac:(lia)) as H.
  destruct (pv_item (N.to_nat (4 * dlen data + 4)) data 0) as [[[o st] k]|e|]; cbn in H;
    [discriminate|discriminate|contradiction].
Qed.

(* rejected by the validity pass => rejected *)
Lemma cbor_verdict_refines_valid_l : forall data e,
  cbor_valid data = WErr e -> cbor_unmarshal_verdict data = WOk (Some false).
Proof. intros data e H. unfold cbor_unmarshal_verdict. rewrite H. reflexivity. Qed.

Example cbor_verdict_examples :
  cbor_unmarshal_verdict [162; 1; 2; 1; 3] = WOk (Some false) /\            (* duplicate key 1 *)
  cbor_unmarshal_verdict [162; 1; 2; 24; 1; 3] = WOk (Some false) /\        (* 1 and non-minimal 1 *)
  cbor_unmarshal_verdict [162; 1; 2; 225; 3] = WOk (Some false) /\          (* 1 and simple(1) *)
  cbor_unmarshal_verdict [162; 1; 2; 32; 3] = WOk (Some true) /\            (* 1 and -1 *)
  cbor_unmarshal_verdict [161; 65; 0; 1] = WOk (Some false) /\              (* byte-string key *)
  cbor_unmarshal_verdict [161; 128; 1] = WOk (Some false) /\                (* array key *)
  cbor_unmarshal_verdict [98; 195; 40] = WOk (Some false) /\                (* invalid UTF-8 *)
  cbor_unmarshal_verdict [98; 195; 169] = WOk (Some true) /\
  cbor_unmarshal_verdict [162; 246; 1; 247; 2] = WOk (Some false) /\        (* null and undefined *)
  cbor_unmarshal_verdict [161; 249; 60; 0; 1] = WOk None /\                 (* float key: undetermined *)
  cbor_unmarshal_verdict [1; 255; 255] = WOk (Some true).                   (* trailing bytes ignored *)
Proof. repeat split; vm_compute; reflexivity. Qed.
