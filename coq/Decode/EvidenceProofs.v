From Verif Require Import Lib.Base Decode.GoSlice Decode.Evidence.

Lemma commit_vb_no_panic c : commit_validate_basic c <> Panic.
Proof.
  unfold commit_validate_basic.
  repeat match goal with |- context [if ?x then _ else _] => destruct x end; discriminate.
Qed.

Lemma prechecks_no_panic a b : prechecks a b <> Panic.
Proof.
  unfold prechecks.
  repeat match goal with |- context [if ?x then _ else _] => destruct x end; discriminate.
Qed.

Lemma commit_vb_ok_fields c : commit_validate_basic c = Ok tt -> c_failure c =? 0 = true ->
  is_some (r_io (c_hdr c)) = true /\ is_some (r_state (c_hdr c)) = true /\ is_some (r_msgs (c_hdr c)) = true.
Proof.
  unfold commit_validate_basic. intros H F. rewrite F in H.
  destruct (is_some (r_io (c_hdr c))); [|discriminate].
  destruct (is_some (r_state (c_hdr c))); [|discriminate].
  destruct (is_some (r_msgs (c_hdr c))); [|discriminate]. repeat split.
Qed.

(* for EVERY combination of present / absent optional fields, failure codes,
   messages and signature outcomes: an error or acceptance, never a panic *)
Lemma evidence_validate_basic_total_l : forall sigs_ok a b, evidence_validate_basic sigs_ok a b <> Panic.
Proof.
  intros sigs_ok a b. unfold evidence_validate_basic.
  destruct (prechecks a b) as [[]|e|] eqn:Hp; cbn [rbind];
    [| discriminate | exfalso; eapply prechecks_no_panic; exact Hp].
  unfold validate_commits.
  destruct (commit_validate_basic a) as [[]|ea|] eqn:Ha; cbn [rbind]; try discriminate;
    [|exfalso; eapply commit_vb_no_panic; exact Ha].
  destruct (commit_validate_basic b) as [[]|eb|] eqn:Hb; cbn [rbind]; try discriminate;
    [|exfalso; eapply commit_vb_no_panic; exact Hb].
  unfold headers_conflict.
  destruct ((c_failure a =? 0) && (c_failure b =? 0)) eqn:Hf.
  - apply andb_true_iff in Hf as [Fa Fb].
    destruct (commit_vb_ok_fields a Ha Fa) as (A1 & A2 & A3).
    destruct (commit_vb_ok_fields b Hb Fb) as (B1 & B2 & B3).
    destruct (r_io (c_hdr a)), (r_state (c_hdr a)), (r_msgs (c_hdr a)); try discriminate.
    destruct (r_io (c_hdr b)), (r_state (c_hdr b)), (r_msgs (c_hdr b)); try discriminate.
    cbn [hash_equal rbind].
    repeat match goal with |- context [if ?x then _ else _] => destruct x; cbn [rbind negb] end; discriminate.
  - destruct (c_failure a =? c_failure b); cbn [rbind]; destruct sigs_ok; discriminate.
Qed.

(* with the comparisons first the function DOES panic: commit A without IORoot *)
Lemma evidence_reordered_panics_l :
  exists a b, evidence_validate_basic_reordered true a b = Panic /\
              evidence_validate_basic true a b = Err V_COMMIT_A.
Proof.
  exists (mkEc [1] [2] 0 (mkCrh 5 [9] None (Some [1]) (Some [2]) (Some [3]) 0) false 0 true),
         (mkEc [1] [2] 0 (mkCrh 5 [9] (Some [7]) (Some [1]) (Some [2]) (Some [3]) 0) false 0 true).
  split; vm_compute; reflexivity.
Qed.

Example evidence_accepts :
  evidence_validate_basic true
    (mkEc [1] [2] 0 (mkCrh 5 [9] (Some [6]) (Some [1]) (Some [2]) (Some [3]) 0) false 0 true)
    (mkEc [1] [2] 0 (mkCrh 5 [9] (Some [7]) (Some [1]) (Some [2]) (Some [3]) 0) false 0 true) = Ok tt.
Proof. vm_compute. reflexivity. Qed.
