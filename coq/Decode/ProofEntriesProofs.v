(* Totality, bounded recursion depth and bounded allocation of the proof
   verifier walk (ProofEntries.v). *)
From Verif Require Import Lib.Base Decode.GoSlice Decode.GoSliceFacts Decode.Node
  Decode.NodeProofs Decode.ProofEntries Gen.DecodeConsts.

Definition esize (e : option bytes) : N := match e with Some b => glen b | None => 0 end.
Definition rem (es : entries) (idx : N) : N := total_len (skipn (N.to_nat idx) es).

Lemma skipn_nth_error {A} (l : list A) n x :
  nth_error l n = Some x -> skipn n l = x :: skipn (S n) l.
Proof.
  revert l. induction n as [|n IH]; intros [|y l] H; cbn in H; try discriminate.
  - injection H as ->. reflexivity.
  - cbn [skipn]. apply IH. exact H.
Qed.

Lemma rem_step es idx e :
  nth_error es (N.to_nat idx) = Some e -> rem es idx = esize e + rem es (idx + 1).
Proof.
  intros H. unfold rem. rewrite (skipn_nth_error _ _ _ H).
  replace (N.to_nat (idx + 1)) with (S (N.to_nat idx)) by lia. reflexivity.
Qed.

Definition walk_post (v : N) (es : entries) (idx s : N) (out : res (N * ptr) * N) : Prop :=
  match out with
  | (Ok (idx', p), s') =>
      idx < idx' /\ idx' <= elen es /\ s' + rem es idx' <= s + rem es idx /\
      ptr_entries v p = idx' - idx
  | (Err e, s') => e <> E_FUEL /\ s' <= s + rem es idx
  | (Panic, _) => False
  end.

Lemma gen_proof_consts_expected :
  maxProofDepth = 128 /\ proofEntryFull = 1 /\ proofEntryHash = 2 /\
  MinimumProofVersion = 0 /\ LatestProofVersion = 1.
Proof. repeat split; reflexivity. Qed.

Ltac errcase := cbn [walk_post]; unfold E_FUEL in *; split; [try discriminate; lia | try lia].

Lemma walk_spec : forall f v es idx depth s,
  v <= 1 -> depth <= maxProofDepth + 1 ->
  (N.to_nat (maxProofDepth + 2 - depth) <= f)%nat ->
  walk_post v es idx s (walk f v es idx depth s).
Proof.
  induction f as [|f IH]; intros v es idx depth s Hv Hd Hf; [lia|].
  cbn [walk].
  destruct (elen es <=? idx) eqn:H1; [errcase|].
  destruct (maxProofDepth <? depth) eqn:H2; [errcase|].
  unfold eindex.
  destruct (nth_error es (N.to_nat idx)) as [e|] eqn:Hn;
    [|apply nth_error_None in Hn; unfold elen in H1; lia].
  rewrite bind_lift_ok.
  pose proof (rem_step es idx e Hn) as Hrem.
  destruct e as [entry|]; cbn [esize] in Hrem.
  2:{ cbn [ret walk_post ptr_entries]. repeat split; lia. }
  destruct (glen entry =? 0) eqn:H3; [errcase|].
  rewrite index_ok by lia. rewrite bind_lift_ok.
  destruct (nth (N.to_nat 0) entry 0 =? proofEntryFull) eqn:Hk.
  - unfold slice_from. rewrite slice_ok by lia. rewrite bind_lift_ok.
    rewrite bind_unfold.
    pose proof (node_spec (sl entry 1 (glen entry)) s) as HN.
    assert (glen (sl entry 1 (glen entry)) = glen entry - 1) as Hb by (rewrite glen_sl; lia).
    destruct (node_unmarshal (sl entry 1 (glen entry)) s) as [[n|e|] s1]; cbn [node_post] in HN;
      [|errcase|contradiction].
    destruct n as [l|nd].
    + cbn [ret walk_post ptr_entries]. repeat split; lia.
    + (* first child position: embedded leaf (v0) or its own entries (v1) *)
      rewrite bind_unfold.
      assert (match (if v =? 0 then ret (idx + 1, oleaf_ptr (ileaf nd))
                     else if v =? 1 then walk f v es (idx + 1) (depth + 1)
                     else lift Panic) s1 with
              | (Ok (pos', lf), s2) =>
                  idx + 1 <= pos' /\ pos' <= elen es /\ s2 + rem es pos' <= s1 + rem es (idx + 1) /\
                  (if v =? 0 then 0 else ptr_entries v lf) = pos' - (idx + 1)
              | (Err e, s2) => e <> E_FUEL /\ s2 <= s1 + rem es (idx + 1)
              | (Panic, _) => False
              end) as Hfirst.
      { destruct (v =? 0) eqn:Hv0.
        - cbn [ret]. repeat split; lia.
        - destruct (v =? 1) eqn:Hv1; [|lia].
          pose proof (IH v es (idx + 1) (depth + 1) s1 Hv ltac:(lia) ltac:(lia)) as H.
          destruct (walk f v es (idx + 1) (depth + 1) s1) as [[[p' lf]|e|] s2];
            cbn [walk_post] in H; [|exact H|contradiction].
          repeat split; lia. }
      destruct ((if v =? 0 then ret (idx + 1, oleaf_ptr (ileaf nd))
                 else if v =? 1 then walk f v es (idx + 1) (depth + 1)
                 else lift Panic) s1) as [[[pos1 lf]|e|] s2];
        [|destruct Hfirst; errcase|contradiction].
      destruct Hfirst as (Hp1a & Hp1b & Hs2 & Hcnt1).
      rewrite bind_unfold.
      pose proof (IH v es pos1 (depth + 1) s2 Hv ltac:(lia) ltac:(lia)) as HL.
      destruct (walk f v es pos1 (depth + 1) s2) as [[[pos2 pl]|e|] s3];
        cbn [walk_post] in HL; [|destruct HL; errcase|contradiction].
      destruct HL as (Hp2a & Hp2b & Hs3 & Hcnt2).
      rewrite bind_unfold.
      pose proof (IH v es pos2 (depth + 1) s3 Hv ltac:(lia) ltac:(lia)) as HR.
      destruct (walk f v es pos2 (depth + 1) s3) as [[[pos3 pr]|e|] s4];
        cbn [walk_post] in HR; [|destruct HR; errcase|contradiction].
      destruct HR as (Hp3a & Hp3b & Hs4 & Hcnt3).
      cbn [ret walk_post ptr_entries].
      repeat split; lia.
  - destruct (nth (N.to_nat 0) entry 0 =? proofEntryHash) eqn:Hk2; [|errcase].
    unfold slice_from. rewrite slice_ok by lia. rewrite bind_lift_ok.
    unfold hash_unmarshal.
    destruct (negb (glen (sl entry 1 (glen entry)) =? HashSize)); [errcase|].
    cbn [ret bind walk_post ptr_entries]. repeat split; lia.
Qed.

(* ---------- exported statements ---------- *)
Lemma verify_walk_total_l : forall v es idx depth s,
  v <= LatestProofVersion -> depth <= maxProofDepth + 1 ->
  fst (walk (walk_fuel depth) v es idx depth s) <> Panic.
Proof.
  intros v es idx depth s Hv Hd.
  pose proof (walk_spec (walk_fuel depth) v es idx depth s Hv Hd ltac:(unfold walk_fuel; lia)) as H.
  destruct (walk (walk_fuel depth) v es idx depth s) as [[[i p]|e|] s1]; cbn in *;
    try discriminate. contradiction.
Qed.

(* the recursion never nests deeper than maxProofDepth + 2 - depth frames:
   that much fuel (one unit per nested call) is never exhausted *)
Lemma verify_depth_bounded_l : forall v es idx depth s,
  v <= LatestProofVersion -> depth <= maxProofDepth + 1 ->
  fst (walk (walk_fuel depth) v es idx depth s) <> Err E_FUEL.
Proof.
  intros v es idx depth s Hv Hd.
  pose proof (walk_spec (walk_fuel depth) v es idx depth s Hv Hd ltac:(unfold walk_fuel; lia)) as H.
  destruct (walk (walk_fuel depth) v es idx depth s) as [[[i p]|e|] s1]; cbn in *;
    try discriminate. intros E. injection E as ->. tauto.
Qed.

(* every successful (sub)walk consumes at least one and at most the remaining
   entries, builds exactly one pointer per consumed entry, and allocates at most
   the bytes of the entries it consumed *)
Lemma verify_walk_bounded_l : forall v es idx depth s idx' p s',
  v <= LatestProofVersion -> depth <= maxProofDepth + 1 ->
  walk (walk_fuel depth) v es idx depth s = (Ok (idx', p), s') ->
  idx < idx' /\ idx' <= elen es /\ ptr_entries v p = idx' - idx /\
  s' + rem es idx' <= s + rem es idx.
Proof.
  intros v es idx depth s idx' p s' Hv Hd E.
  pose proof (walk_spec (walk_fuel depth) v es idx depth s Hv Hd ltac:(unfold walk_fuel; lia)) as H.
  rewrite E in H. cbn in H. tauto.
Qed.

Lemma rem_0 es : rem es 0 = total_len es.
Proof. reflexivity. Qed.

Lemma rem_le es idx : rem es idx <= total_len es.
Proof.
  unfold rem. generalize (N.to_nat idx) as n. intros n. revert es.
  induction n as [|n IH]; intros es; [cbn [skipn]; lia|].
  destruct es as [|e es]; [cbn [skipn]; lia|]. cbn [skipn].
  specialize (IH es). unfold total_len in *. cbn [fold_right]. lia.
Qed.

Definition vopts_post (es : entries) (s : N) (out : res ptr * N) : Prop :=
  match out with
  | (Ok p, s') => s' <= s + total_len es
  | (Err e, s') => e <> E_FUEL /\ s' <= s + total_len es
  | (Panic, _) => False
  end.

(* for EVERY version number, including unsupported ones: the version check at
   proof.go:302 is what keeps the panic at :392 unreachable *)
Lemma verify_opts_spec : forall v rm es s, vopts_post es s (verify_opts v rm es s).
Proof.
  intros v rm es s. unfold verify_opts.
  destruct ((v <? MinimumProofVersion) || (LatestProofVersion <? v)) eqn:Hv;
    [cbn; split; [discriminate|lia]|].
  destruct (negb rm); [cbn; split; [discriminate|lia]|].
  destruct (elen es =? 0); [cbn; split; [discriminate|lia]|].
  rewrite bind_unfold.
  assert (v <= 1) as Hv1 by (unfold MinimumProofVersion, LatestProofVersion in Hv; lia).
  pose proof (walk_spec (walk_fuel 0) v es 0 0 s Hv1 ltac:(unfold maxProofDepth; lia)
                ltac:(unfold walk_fuel; lia)) as H.
  pose proof (rem_le es) as Hrl.
  destruct (walk (walk_fuel 0) v es 0 0 s) as [[[i p]|e|] s1]; cbn [walk_post] in H;
    [| |contradiction].
  - rewrite rem_0 in H.
    destruct (negb (i =? elen es)); cbn; [split; [discriminate|]|]; specialize (Hrl i); lia.
  - rewrite rem_0 in H. cbn. tauto.
Qed.

Lemma verify_opts_total_l : forall v rm es s,
  fst (verify_opts v rm es s) <> Panic /\ fst (verify_opts v rm es s) <> Err E_FUEL /\
  snd (verify_opts v rm es s) <= s + total_len es.
Proof.
  intros v rm es s. pose proof (verify_opts_spec v rm es s) as H.
  destruct (verify_opts v rm es s) as [[p|e|] s1]; cbn in *; repeat split; try discriminate;
    try lia; try tauto.
  intros E. injection E as ->. tauto.
Qed.

(* all entries are consumed by an accepted proof, one pointer per entry *)
Lemma verify_opts_consumes_all_l : forall v rm es s p s',
  verify_opts v rm es s = (Ok p, s') -> ptr_entries v p = elen es.
Proof.
  intros v rm es s p s'. unfold verify_opts.
  destruct ((v <? MinimumProofVersion) || (LatestProofVersion <? v)) eqn:Hv; [discriminate|].
  destruct (negb rm); [discriminate|].
  destruct (elen es =? 0); [discriminate|].
  rewrite bind_unfold.
  assert (v <= 1) as Hv1 by (unfold MinimumProofVersion, LatestProofVersion in Hv; lia).
  pose proof (walk_spec (walk_fuel 0) v es 0 0 s Hv1 ltac:(unfold maxProofDepth; lia)
                ltac:(unfold walk_fuel; lia)) as H.
  destruct (walk (walk_fuel 0) v es 0 0 s) as [[[i q]|e|] s1]; cbn [walk_post] in H;
    try discriminate.
  destruct (i =? elen es) eqn:Ei; cbn [negb]; [|discriminate].
  cbn [ret]. intros E. injection E as -> ->. apply N.eqb_eq in Ei. lia.
Qed.

(* without the version guard the walk does panic: the guard is necessary *)
Example walk_panics_on_unsupported_version :
  fst (run (walk (walk_fuel 0) 2 [Some [1; 1; 0; 0; 2]; None; None] 0 0)) = Panic.
Proof. vm_compute. reflexivity. Qed.

(* non-vacuity: a version-1 proof of an internal node with a leaf and two hash children *)
Example walk_accepts_v1 :
  exists p, fst (run (verify_opts 1 true
     [Some [1; 1; 0; 0; 2]; Some [1; 0; 1; 0; 7; 1; 0; 0; 0; 9]; None; None])) = Ok p
     /\ ptr_entries 1 p = 4.
Proof. eexists. vm_compute. split; reflexivity. Qed.

(* a chain nested deeper than maxProofDepth is rejected with the depth error *)
Fixpoint deep_chain (n : nat) : entries :=
  match n with
  | O => [None; None]
  | S n => Some [1; 1; 0; 0; 2] :: deep_chain n ++ [None]
  end.
Example walk_rejects_deep :
  fst (run (verify_opts 0 true (deep_chain 200))) = Err E_PROOF_DEPTH.
Proof. vm_compute. reflexivity. Qed.

(* ---------- the depth counter must be carried through ALL three child positions ---------- *)
(* for the real walk, chains nested through the leaf, left or right position beyond the limit
   are rejected with the depth error, for both versions *)
Example walk_rejects_deep_every_position :
  fst (run (verify_opts 1 true (chain_pos 1 0 200))) = Err E_PROOF_DEPTH /\
  fst (run (verify_opts 1 true (chain_pos 1 1 200))) = Err E_PROOF_DEPTH /\
  fst (run (verify_opts 1 true (chain_pos 1 2 200))) = Err E_PROOF_DEPTH /\
  fst (run (verify_opts 0 true (chain_pos 0 1 200))) = Err E_PROOF_DEPTH /\
  fst (run (verify_opts 0 true (chain_pos 0 2 200))) = Err E_PROOF_DEPTH /\
  match fst (run (verify_opts 1 true (chain_pos 1 0 128))) with Ok p => ptr_nesting p | _ => 0 end = 128.
Proof. repeat split; vm_compute; reflexivity. Qed.

(* the variant that does not count the leaf position is NOT depth-bounded: a chain of 300
   internal nodes nested through the leaf position passes the depth check at every level and
   exhausts any fuel proportional to maxProofDepth; with enough fuel it is accepted with
   nesting 300 > maxProofDepth + 1 *)
Lemma walk_leaf_same_depth_unbounded_l :
  fst (run (walk_leaf_same_depth (walk_fuel 0) 1 (chain_pos 1 0 300) 0 0)) = Err E_FUEL /\
  match fst (run (walk_leaf_same_depth 400 1 (chain_pos 1 0 300) 0 0)) with
  | Ok (_, p) => ptr_nesting p | _ => 0 end = 300 /\
  fst (run (walk (walk_fuel 0) 1 (chain_pos 1 0 300) 0 0)) = Err E_PROOF_DEPTH.
Proof.
  repeat split; vm_compute; reflexivity.
Qed.

(* accepted subtrees are never nested deeper than maxProofDepth (through any position) *)
Lemma walk_nesting_spec : forall f v es idx depth s,
  v <= 1 -> depth <= maxProofDepth + 1 ->
  match walk f v es idx depth s with
  | (Ok (_, p), _) => depth + ptr_nesting p <= maxProofDepth
  | _ => True
  end.
Proof.
  induction f as [|f IH]; intros v es idx depth s Hv Hd; [cbn; exact I|].
  cbn [walk].
  destruct (elen es <=? idx); [exact I|].
  destruct (maxProofDepth <? depth) eqn:H2; [exact I|].
  unfold eindex. destruct (nth_error es (N.to_nat idx)) as [e|]; [|exact I].
  rewrite bind_lift_ok. destruct e as [entry|]; [|cbn; lia].
  destruct (glen entry =? 0) eqn:H3; [exact I|].
  rewrite index_ok by lia. rewrite bind_lift_ok.
  destruct (nth (N.to_nat 0) entry 0 =? proofEntryFull).
  - unfold slice_from. rewrite slice_ok by lia. rewrite bind_lift_ok. rewrite bind_unfold.
    destruct (node_unmarshal (sl entry 1 (glen entry)) s) as [[n|e|] s1]; try exact I.
    destruct n as [l|nd]; [cbn; lia|].
    rewrite bind_unfold.
    assert (match (if v =? 0 then ret (idx + 1, oleaf_ptr (ileaf nd))
                   else if v =? 1 then walk f v es (idx + 1) (depth + 1)
                   else lift Panic) s1 with
            | (Ok (_, lf), _) => ptr_nesting lf = 0 \/ depth + 1 + ptr_nesting lf <= maxProofDepth
            | _ => True end) as Hlf.
    { destruct (v =? 0).
      - cbn [ret]. left. destruct (ileaf nd); reflexivity.
      - destruct (v =? 1); [|exact I].
        pose proof (IH v es (idx + 1) (depth + 1) s1 Hv ltac:(lia)) as H.
        destruct (walk f v es (idx + 1) (depth + 1) s1) as [[[p' lf]|e|] s2]; try exact I. right. exact H. }
    destruct ((if v =? 0 then ret (idx + 1, oleaf_ptr (ileaf nd))
               else if v =? 1 then walk f v es (idx + 1) (depth + 1)
               else lift Panic) s1) as [[[pos1 lf]|e|] s2]; try exact I.
    rewrite bind_unfold.
    pose proof (IH v es pos1 (depth + 1) s2 Hv ltac:(lia)) as HL.
    destruct (walk f v es pos1 (depth + 1) s2) as [[[pos2 pl]|e|] s3]; try exact I.
    rewrite bind_unfold.
    pose proof (IH v es pos2 (depth + 1) s3 Hv ltac:(lia)) as HR.
    destruct (walk f v es pos2 (depth + 1) s3) as [[[pos3 pr]|e|] s4]; try exact I.
    cbn [ret ptr_nesting]. lia.
  - destruct (nth (N.to_nat 0) entry 0 =? proofEntryHash); [|exact I].
    unfold slice_from. rewrite slice_ok by lia. rewrite bind_lift_ok.
    unfold hash_unmarshal.
    destruct (negb (glen (sl entry 1 (glen entry)) =? HashSize)); [exact I|].
    cbn [ret bind ptr_nesting]. lia.
Qed.

Lemma verify_nesting_bounded_l : forall v es idx s idx' p s' fuel,
  v <= LatestProofVersion ->
  walk fuel v es idx 0 s = (Ok (idx', p), s') -> ptr_nesting p <= maxProofDepth.
Proof.
  intros v es idx s idx' p s' fuel Hv E.
  pose proof (walk_nesting_spec fuel v es idx 0 s Hv ltac:(lia)) as H. rewrite E in H. lia.
Qed.
