(* Second stage of the strict CBOR profile: the checks cbor.Unmarshal(data, &any)
   performs WHILE BUILDING the value, after the validity pass of Cbor.v
   (fxamacker/cbor v2.4.0 decode.go parse / parseArray / parseMap):
     - text strings must be valid UTF-8;
     - map keys must be hashable Go values: byte strings, arrays, maps and
       negative integers below -2^63 (decoded to big.Int) are rejected;
     - duplicate map keys are rejected (DupMapKeyEnforcedAPF), where two keys
       are equal when they decode to equal Go values: unsigned integers AND
       simple values share uint64; negative integers are int64; text by bytes;
       booleans; null and undefined are both nil.
   Floating-point keys compare by IEEE value (+0 = -0, NaN <> NaN, widths are
   converted to float64); that comparison is not modelled: a map with a float
   key makes the verdict [None] (undetermined), everything else gets an exact
   accept/reject verdict.  SPECIFICATION only: the library is not verified, the
   verdict is compared with the real cbor.Unmarshal by the correspondence stream.
   Executable definitions only. *)
From Verif Require Import Lib.Base Decode.Cbor Gen.MiscConsts.

(* ---------- unicode/utf8.Valid ---------- *)
Definition cont (b : N) : bool := (128 <=? b) && (b <=? 191).
Fixpoint utf8_valid_f (fuel : nat) (s : bytes) : bool :=
  match fuel with
  | O => match s with [] => true | _ => false end
  | S f =>
    match s with
    | [] => true
    | a :: r =>
      if a <? 128 then utf8_valid_f f r
      else if (194 <=? a) && (a <=? 223) then
        match r with b :: r' => cont b && utf8_valid_f f r' | _ => false end
      else if a =? 224 then
        match r with b :: c :: r' => (160 <=? b) && (b <=? 191) && cont c && utf8_valid_f f r' | _ => false end
      else if ((225 <=? a) && (a <=? 236)) || (a =? 238) || (a =? 239) then
        match r with b :: c :: r' => cont b && cont c && utf8_valid_f f r' | _ => false end
      else if a =? 237 then
        match r with b :: c :: r' => (128 <=? b) && (b <=? 159) && cont c && utf8_valid_f f r' | _ => false end
      else if a =? 240 then
        match r with b :: c :: d :: r' => (144 <=? b) && (b <=? 191) && cont c && cont d && utf8_valid_f f r' | _ => false end
      else if (241 <=? a) && (a <=? 243) then
        match r with b :: c :: d :: r' => cont b && cont c && cont d && utf8_valid_f f r' | _ => false end
      else if a =? 244 then
        match r with b :: c :: d :: r' => (128 <=? b) && (b <=? 143) && cont c && cont d && utf8_valid_f f r' | _ => false end
      else false
    end
  end.
Definition utf8_valid (s : bytes) : bool := utf8_valid_f (length s) s.

(* ---------- decoded map-key classes ---------- *)
Inductive kdesc : Type :=
| KU (n : N)            (* uint64: major type 0 and simple values *)
| KI (n : N)            (* int64 -1-n *)
| KS (b : bytes)        (* string *)
| KB (b : bool)
| KNil
| KFloat                (* float64: comparison not modelled *)
| KUnhashable.          (* []byte, []interface{}, map, big.Int *)

Definition kdesc_eqb (a b : kdesc) : bool :=
  match a, b with
  | KU x, KU y => x =? y
  | KI x, KI y => x =? y
  | KS x, KS y => bytes_eqb x y
  | KB x, KB y => Bool.eqb x y
  | KNil, KNil => true
  | _, _ => false
  end.

(* verdict so far: ok (no error yet), det (no float key met) *)
Record vstate := mkV { v_ok : bool; v_det : bool }.
Definition v_and (a b : vstate) : vstate := mkV (v_ok a && v_ok b) (v_det a && v_det b).

Definition sub (data : bytes) (off len : N) : bytes :=
  firstn (N.to_nat len) (skipn (N.to_nat off) data).

(* parse(): returns (offset after the item, state, key class of the item) *)
Fixpoint pv_item (fuel : nat) (data : bytes) (off : N) {struct fuel} : wres (N * vstate * kdesc) :=
  match fuel with
  | O => WFuel
  | S f =>
    match valid_head data off with
    | WErr e => WErr e
    | WFuel => WFuel
    | WOk (t, ai, val, off) =>
      if t =? 0 then WOk (off, mkV true true, KU val)
      else if t =? 1 then WOk (off, mkV true true, if two63 <=? val then KUnhashable else KI val)
      else if t =? 2 then WOk (off + val, mkV true true, KUnhashable)
      else if t =? 3 then
        let s := sub data off val in
        WOk (off + val, mkV (utf8_valid s) true, KS s)
      else if t =? 4 then
        match pv_array f val data off (mkV true true) with
        | WOk (off', st) => WOk (off', st, KUnhashable)
        | WErr e => WErr e
        | WFuel => WFuel
        end
      else if t =? 5 then
        match pv_map f val data off (mkV true true) [] with
        | WOk (off', st) => WOk (off', st, KUnhashable)
        | WErr e => WErr e
        | WFuel => WFuel
        end
      else if t =? 7 then
        if (ai <? 20) || (ai =? 24) then WOk (off, mkV true true, KU val)
        else if ai =? 20 then WOk (off, mkV true true, KB false)
        else if ai =? 21 then WOk (off, mkV true true, KB true)
        else if (ai =? 22) || (ai =? 23) then WOk (off, mkV true true, KNil)
        else WOk (off, mkV true true, KFloat)
      else WErr C_TAG
    end
  end
with pv_array (fuel : nat) (n : N) (data : bytes) (off : N) (st : vstate) {struct fuel} : wres (N * vstate) :=
  match fuel with
  | O => WFuel
  | S f =>
    if n =? 0 then WOk (off, st) else
    match pv_item f data off with
    | WOk (off', st', _) => pv_array f (n - 1) data off' (v_and st st')
    | WErr e => WErr e
    | WFuel => WFuel
    end
  end
with pv_map (fuel : nat) (n : N) (data : bytes) (off : N) (st : vstate) (seen : list kdesc) {struct fuel}
  : wres (N * vstate) :=
  match fuel with
  | O => WFuel
  | S f =>
    if n =? 0 then WOk (off, st) else
    match pv_item f data off with
    | WOk (off1, stk, k) =>
      match pv_item f data off1 with
      | WOk (off2, stv, _) =>
          let hashable := match k with KUnhashable => false | _ => true end in
          let isfloat := match k with KFloat => true | _ => false end in
          let dup := existsb (kdesc_eqb k) seen in
          let st' := v_and (v_and st (v_and stk stv)) (mkV (hashable && negb dup) (negb isfloat)) in
          pv_map f (n - 1) data off2 st' (k :: seen)
      | WErr e => WErr e
      | WFuel => WFuel
      end
    | WErr e => WErr e
    | WFuel => WFuel
    end
  end.

(* verdict of cbor.Unmarshal(data, &any): Some true = accepted, Some false =
   rejected, None = undetermined (float map key) *)
Definition cbor_unmarshal_verdict (data : bytes) : wres (option bool) :=
  match cbor_valid data with
  | WErr _ => WOk (Some false)
  | WFuel => WFuel
  | WOk _ =>
    match pv_item (N.to_nat (4 * dlen data + 4)) data 0 with
    | WOk (_, st, _) => WOk (if v_ok st then (if v_det st then Some true else None) else Some false)
    | WErr _ => WOk (Some false)
    | WFuel => WFuel
    end
  end.
