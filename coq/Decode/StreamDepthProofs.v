From Verif Require Import Lib.Base Decode.StreamDepth Gen.MiscConsts.

Lemma repeat_cons {A} (x : A) n : repeat x (S n) = x :: repeat x n.
Proof. reflexivity. Qed.

(* one byte per read: the nesting depth is the number of missing bytes + 1 *)
Lemma decode_frames_trickle : forall n need have,
  need <= have + N.of_nat n -> have <= need ->
  decode_frames (repeat 1 n) need have = need - have + 1.
Proof.
  induction n as [|n IH]; intros need have Hn Hh.
  - cbn [repeat decode_frames]. destruct (need <=? have) eqn:E; lia.
  - rewrite repeat_cons. cbn [decode_frames].
    destruct (need <=? have) eqn:E; [lia|].
    change (1 =? 0) with false. cbn iota.
    rewrite IH by lia. lia.
Qed.

(* the depth is not bounded by anything but the item length the peer declares *)
Lemma stream_depth_unbounded_l : forall need,
  decode_frames (repeat 1 (N.to_nat need)) need 0 = trickle_frames need.
Proof.
  intros need. unfold trickle_frames. rewrite decode_frames_trickle by lia. lia.
Qed.

(* any chunking: the depth never exceeds the number of chunks + 1 *)
Lemma decode_frames_le_chunks : forall chunks need have,
  decode_frames chunks need have <= N.of_nat (length chunks) + 1.
Proof.
  induction chunks as [|c rest IH]; intros need have; cbn [decode_frames length].
  - destruct (need <=? have); lia.
  - destruct (need <=? have); [lia|]. destruct (c =? 0); [lia|]. specialize (IH need (have + c)). lia.
Qed.

Lemma usable_default : usable_stack defaultMaxStack = 536870912.
Proof. vm_compute. reflexivity. Qed.

(* KNOWN FINDING, derived: with the default 1 GB stack limit, for every frame
   size of at least 9 bytes (an activation holds at least a return address and
   a frame pointer), a single frame that respects maxMessageSize (64 MiB) and
   is delivered one byte per read makes the decoder overflow the stack. *)
Lemma rhp_stack_overflow_reachable_l : forall frame base, 9 <= frame ->
  exists need, need <= maxMessageSize /\
    overflows defaultMaxStack frame base (decode_frames (repeat 1 (N.to_nat need)) need 0) = true.
Proof.
  intros frame base Hf. exists (maxMessageSize - 5). split; [lia|].
  rewrite stream_depth_unbounded_l. unfold overflows, stack_needed, trickle_frames.
  rewrite usable_default. unfold maxMessageSize.
  apply N.ltb_lt. nia.
Qed.

(* and below the computed depth it survives: the classification is by depth *)
Lemma death_depth_spec_l : forall maxstack frame base frames, 0 < frame -> base <= usable_stack maxstack ->
  (overflows maxstack frame base frames = true <-> death_depth maxstack frame base < frames).
Proof.
  intros maxstack frame base frames Hf Hb. unfold overflows, death_depth, stack_needed.
  rewrite N.ltb_lt. split.
  - intros H. apply N.div_lt_upper_bound; lia.
  - intros H. assert ((usable_stack maxstack - base) / frame + 1 <= frames) as H1 by lia.
    pose proof (N.div_mod (usable_stack maxstack - base) frame ltac:(lia)) as Hdm.
    pose proof (N.mod_lt (usable_stack maxstack - base) frame ltac:(lia)) as Hm.
    nia.
Qed.

Example death_depth_default : death_depth defaultMaxStack 56 4096 = 9586907.
Proof. vm_compute. reflexivity. Qed.
