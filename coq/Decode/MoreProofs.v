(* Totality / boundedness of the decoders of More.v. *)
From Verif Require Import Lib.Base Decode.GoSlice Decode.GoSliceFacts Decode.Node Decode.NodeProofs
  Decode.KeyFormat Decode.KeyFormatProofs Decode.Quote Decode.QuoteProofs Decode.More
  Gen.DecodeConsts Gen.QuoteConsts Gen.MiscConsts.

(* ---------- hex ---------- *)
Definition hex_post (s : bytes) (r : res bytes) : Prop :=
  match r with
  | Ok b => 2 * glen b = glen s
  | Err _ => True
  | Panic => False
  end.

Lemma hex_decode_spec : forall s, hex_post s (hex_decode s) /\ forall c, hex_post (c :: s) (hex_decode (c :: s)).
Proof.
  induction s as [|b s [IH1 IH2]].
  - split; [cbn; reflexivity|]. intros c. cbn. destruct (hex_val c); exact I.
  - split; [apply IH2|]. intros c. cbn [hex_decode].
    destruct (hex_val c); [|exact I]. destruct (hex_val b); [|exact I].
    unfold hex_post in *. destruct (hex_decode s) as [r|e|]; cbn [rbind]; try exact I; try contradiction.
    rewrite !glen_cons. lia.
Qed.

Lemma hex_decode_total_l : forall s, hex_decode s <> Panic /\ (forall b, hex_decode s = Ok b -> 2 * glen b = glen s).
Proof.
  intros s. pose proof (proj1 (hex_decode_spec s)) as H. split.
  - intros E. rewrite E in H. exact H.
  - intros b E. rewrite E in H. exact H.
Qed.

Ltac step2 :=
  lazymatch goal with
  | |- safe _ _ _ (bind (lift (hex_decode ?t)) _ ?s) =>
      let r := fresh "r" in let E := fresh "E" in
      pose proof (proj1 (hex_decode_spec t)) as E; destruct (hex_decode t) as [r| |];
      [rewrite bind_lift_ok | apply safe_err; lia | contradiction]
  | |- safe _ _ _ (bind (lift (le16 ?b)) _ _) => rewrite (le16_ok b) by (qconsts; rewrite ?glen_sl by lia; lia); rewrite bind_lift_ok
  | |- safe _ _ _ (bind (lift (le32 ?b)) _ _) => rewrite (le32_ok b) by (qconsts; rewrite ?glen_sl by lia; lia); rewrite bind_lift_ok
  | |- safe _ _ _ (bind (lift (le64 ?b)) _ _) =>
      let v := fresh "v" in let E := fresh "E" in
      destruct (le64_ok b) as [v E]; [qconsts; rewrite ?glen_sl by lia; lia|]; rewrite E, bind_lift_ok; clear E
  | |- safe _ _ _ (bind (lift (be32 ?b)) _ _) =>
      let v := fresh "v" in let E := fresh "E" in
      destruct (be32_ok b) as [v E]; [qconsts; rewrite ?glen_sl, ?glen_gcopy, ?glen_zeros by lia; lia|]; rewrite E, bind_lift_ok; clear E
  | |- safe _ _ _ (bind (lift (be64 ?b)) _ _) =>
      let v := fresh "v" in let E := fresh "E" in
      destruct (be64_ok b) as [v E]; [qconsts; rewrite ?glen_sl by lia; lia|]; rewrite E, bind_lift_ok; clear E
  | |- safe _ _ _ (bind (lift (index ?a ?i)) _ _) => rewrite (index_ok a i) by lia; rewrite bind_lift_ok
  | |- _ => step
  end.

Lemma fixed_safe size kind data s :
  safe (fun d : bytes => d = data /\ glen data = size) 0 s (fixed_unmarshal size kind data s).
Proof.
  pose proof (fixed_unmarshal_spec size kind data s) as H.
  destruct (fixed_unmarshal size kind data s) as [[d|e|] s1]; cbn in *; try contradiction; repeat split; try lia; tauto.
Qed.

Ltac callf := eapply (safe_bind2 _ _ _ _ 0); [apply fixed_safe | lia | intros ? ? ? ?].

Lemma unmarshal_hex_safe size kind text s : safe anyv 0 s (unmarshal_hex size kind text s).
Proof. unfold unmarshal_hex. step2. eapply safe_rebase; [apply fixed_safe | lia | intros; exact I]. Qed.

Lemma unmarshal_b64_safe size kind b64 s : safe anyv 0 s (unmarshal_b64 size kind b64 s).
Proof.
  unfold unmarshal_b64. destruct b64; cbv beta iota; [|step2].
  eapply safe_rebase; [apply fixed_safe | lia | intros; exact I].
Qed.

Lemma unmarshal_hex_or_b64_safe size kind b64 text s :
  safe anyv 0 s (unmarshal_hex_or_b64 size kind b64 text s).
Proof.
  unfold unmarshal_hex_or_b64. pose proof (unmarshal_hex_safe size kind text s) as H.
  destruct (unmarshal_hex size kind text s) as [[b|e|] s1]; cbn in H; try contradiction.
  - cbn. split; [lia|exact I].
  - eapply safe_rebase; [apply unmarshal_b64_safe | lia | auto].
Qed.

Lemma enclave_identity_safe decoded s : decoded <> Panic -> safe anyv 0 s (enclave_identity decoded s).
Proof.
  intros Hd. unfold enclave_identity. destruct decoded as [b|e|]; [|rewrite bind_unfold; cbn; lia|contradiction].
  rewrite bind_lift_ok. step2; [step2|].
  assert (glen b = 64) by (qconsts; lia). qconsts.
  do 2 step2. callf. callf. step2.
Qed.

Lemma akid_safe data s : safe anyv 0 s (akid data s).
Proof.
  unfold akid. step2; [step2|]. assert (158 <= glen data) by lia.
  do 3 step2; [step2|]. qconsts.
  assert (le16v (sl data 4 6) = 32) as E by lia. rewrite E.
  step2. callf. repeat step2.
Qed.

Lemma qe_masks_safe rm rf rx ms msm att attm s : safe anyv 0 s (qe_masks rm rf rx ms msm att attm s).
Proof.
  unfold qe_masks.
  step2. step2; [step2|]. step2. step2; [step2|].
  do 2 step2. step2; [step2|].
  step2. step2; [step2|]. step2. step2; [step2|].
  repeat step2.
Qed.

(* ---------- pathbadger ---------- *)
Lemma pb_ptr_safe data s :
  safe (fun x : N * (bytes * N * N) => fst x = 44 /\ 44 <= glen data) 0 s (pb_ptr data s).
Proof.
  unfold pb_ptr. unfold HashSize. step2; [step2|]. assert (44 <= glen data) by lia.
  step2. unfold hash_unmarshal.
  eapply (safe_bind2 anyv _ _ _ 0); [| lia |].
  { unfold wrap. rewrite glen_sl by lia. replace (32 - 0 =? HashSize) with true by (unfold HashSize; lia).
    cbn. split; [lia|exact I]. }
  intros h s2 _ Hs2. step2; [step2|]. repeat step2.
  apply safe_ret; [lia|]. cbn. lia.
Qed.

Lemma key_safe c data s :
  safe (fun x : bytes * N => 2 <= snd x /\ snd x <= glen data) (glen data) s
       (wrap c (key_sized_unmarshal data) s).
Proof.
  rewrite wrap_unfold. pose proof (key_spec data s) as H.
  destruct (key_sized_unmarshal data s) as [[[k n]|e|] s1]; cbn [key_post] in H; try contradiction;
    cbn; repeat split; lia.
Qed.

Lemma depth_safe c data s :
  safe (fun x : N * N => snd x = 2 /\ 2 <= glen data) 0 s (wrap c (depth_unmarshal data) s).
Proof.
  rewrite wrap_unfold. pose proof (depth_spec data s) as H.
  destruct (depth_unmarshal data s) as [[[k n]|e|] s1]; cbn [depth_post] in H; try contradiction;
    cbn; repeat split; lia.
Qed.

Lemma pb_node_safe value s : safe anyv (3 * glen value) s (pb_node value s).
Proof.
  unfold pb_node. step2; [step2|]. assert (2 <= glen value) as Hv by lia.
  step2. step2.
  - (* leaf *)
    step2.
    eapply (safe_bind2 _ _ _ _ _); [apply key_safe | rewrite glen_sl by lia; lia |].
    intros [key size] s1 [Hk1 Hk2] Hs1. cbn [snd] in *. rewrite glen_sl in * by lia.
    cbv zeta. step2. step2. rewrite glen_sl by lia. step2.
  - step2; [|step2].
    step2.
    eapply (safe_bind2 _ _ _ _ _); [apply key_safe | rewrite glen_sl by lia; lia |].
    intros [label size] s1 [Hk1 Hk2] Hs1. cbn [snd] in *. rewrite glen_sl in * by lia.
    cbv zeta. step2.
    eapply (safe_bind2 _ _ _ _ 0); [apply depth_safe | lia |].
    intros [lbl size2] s2 [Hd1 Hd2] Hs2. cbn [snd] in *. rewrite glen_sl in Hd2 by lia. subst size2.
    cbv zeta.
    (* left pointer *)
    eapply (safe_bind2 (fun x : option (bytes * N * N) * N => 1 + size + 2 <= snd x /\ snd x <= glen value) _ _ _ 0);
      [| lia |].
    { step2.
      - step2. eapply (safe_bind2 _ _ _ _ 0); [apply pb_ptr_safe | lia |].
        intros [sz p] s3 [Hp1 Hp2] Hs3. cbn [fst] in *. subst sz. rewrite glen_sl in Hp2 by lia.
        apply safe_ret; [lia | cbn [snd]; lia].
      - apply safe_ret; [lia | cbn [snd]; lia]. }
    intros [lptr pos1] s3 [Hl1 Hl2] Hs3. cbn [snd] in *.
    eapply (safe_bind2 (fun x : option (bytes * N * N) * N => pos1 <= snd x /\ snd x <= glen value) _ _ _ 0);
      [| lia |].
    { step2.
      - step2. eapply (safe_bind2 _ _ _ _ 0); [apply pb_ptr_safe | lia |].
        intros [sz p] s4 [Hp1 Hp2] Hs4. cbn [fst] in *. subst sz. rewrite glen_sl in Hp2 by lia.
        apply safe_ret; [lia | cbn [snd]; lia].
      - apply safe_ret; [lia | cbn [snd]; lia]. }
    intros [rptr pos2] s4 [Hr1 Hr2] Hs4. cbn [snd] in *.
    step2; [|step2].
    step2.
    eapply (safe_bind2 _ _ _ _ _); [apply key_safe | rewrite glen_sl by lia; lia |].
    intros [lkey size3] s5 [Hk3 Hk4] Hs5. cbn [snd] in *. rewrite glen_sl in * by lia.
    cbv zeta. step2. step2. rewrite glen_sl by lia. step2.
Qed.

(* ---------- frame ---------- *)
Lemma frame_read_safe stream dec s :
  safe (fun n : N => n <= maxMessageSize) 4 s (frame_read stream dec s).
Proof.
  unfold frame_read. step2. step2; [step2|]. step2.
  assert (glen (gcopy (zeros 4) (sl stream 0 4)) = 4) as Hg by (rewrite glen_gcopy, glen_zeros; lia).
  destruct (be32_ok (gcopy (zeros 4) (sl stream 0 4))) as [v Ev]; [lia|]. rewrite Ev, bind_lift_ok.
  step2; [step2|]. destruct dec as [rem|]; [|step2]. step2; [step2|].
  apply safe_ret; [lia|lia].
Qed.

(* ---------- enum text ---------- *)
Lemma enum_text_total_l : forall table text, enum_text table text <> Panic.
Proof.
  induction table as [|[n v] t IH]; intros text; cbn; [discriminate|].
  destruct (bytes_eqb n text); [discriminate|apply IH].
Qed.

(* ---------- sigstruct ---------- *)
Lemma gen_sigstruct_layout_expected :
  sigstructSize = 1808 /\ Forall (fun ow => fst ow + snd ow <= sigstructSize) sigstruct_offs.
Proof. split; [reflexivity|]. repeat constructor; vm_compute; discriminate. Qed.

Lemma sigstruct_reads_safe : forall offs buf s,
  Forall (fun ow => fst ow + snd ow <= sigstructSize) offs ->
  safe anyv 0 s (sigstruct_reads offs buf s).
Proof.
  intros offs buf s Hall. unfold sigstruct_reads. step2; [step2|].
  assert (glen buf = sigstructSize) as Hl by lia. clear Heqb.
  induction Hall as [|[o w] l Hx Hl' IH]; cbn [fold_right]; [step2|].
  cbn [fst snd] in *. destruct (w =? 0) eqn:Ew.
  - rewrite slice_ok by lia. rewrite bind_lift_ok. exact IH.
  - rewrite slice_ok by lia. rewrite bind_lift_ok. exact IH.
Qed.

(* ---------- exported ---------- *)
Ltac nopanic H := match type of H with safe _ _ _ ?x => destruct x as [[?|?|] ?]; cbn in *; try discriminate; try contradiction end.

Lemma decode_text_total_l : forall size kind b64 text s,
  fst (unmarshal_hex size kind text s) <> Panic /\ snd (unmarshal_hex size kind text s) <= s /\
  fst (unmarshal_b64 size kind b64 s) <> Panic /\
  fst (unmarshal_hex_or_b64 size kind b64 text s) <> Panic.
Proof.
  intros. pose proof (unmarshal_hex_safe size kind text s) as H1.
  pose proof (unmarshal_b64_safe size kind b64 s) as H2.
  pose proof (unmarshal_hex_or_b64_safe size kind b64 text s) as H3.
  destruct (unmarshal_hex size kind text s) as [[?|?|] ?]; destruct (unmarshal_b64 size kind b64 s) as [[?|?|] ?];
  destruct (unmarshal_hex_or_b64 size kind b64 text s) as [[?|?|] ?]; cbn in *; try contradiction;
  repeat split; try discriminate; lia.
Qed.

Lemma decode_sgx_misc_total_l : forall decoded data rm rf rx ms msm att attm s, decoded <> Panic ->
  fst (enclave_identity decoded s) <> Panic /\ fst (akid data s) <> Panic /\
  fst (qe_masks rm rf rx ms msm att attm s) <> Panic /\ fst (quantity_unmarshal_binary data s) <> Panic.
Proof.
  intros decoded data rm rf rx ms msm att attm s Hd.
  pose proof (enclave_identity_safe decoded s Hd) as H1. pose proof (akid_safe data s) as H2.
  pose proof (qe_masks_safe rm rf rx ms msm att attm s) as H3.
  destruct (enclave_identity decoded s) as [[?|?|] ?]; destruct (akid data s) as [[?|?|] ?];
  destruct (qe_masks rm rf rx ms msm att attm s) as [[?|?|] ?]; cbn in *; try contradiction;
  repeat split; discriminate.
Qed.

Lemma decode_pathbadger_total_l : forall data s,
  fst (pb_ptr data s) <> Panic /\ fst (pb_node data s) <> Panic /\
  snd (pb_node data s) <= s + 3 * glen data.
Proof.
  intros data s. pose proof (pb_ptr_safe data s) as H1. pose proof (pb_node_safe data s) as H2.
  destruct (pb_ptr data s) as [[?|?|] ?]; destruct (pb_node data s) as [[?|?|] ?]; cbn in *; try contradiction;
  repeat split; try discriminate; lia.
Qed.

(* the frame reader allocates 4 bytes whatever length the prefix declares *)
Lemma frame_read_total_l : forall stream dec s,
  fst (frame_read stream dec s) <> Panic /\ snd (frame_read stream dec s) <= s + 4 /\
  (forall n, fst (frame_read stream dec s) = Ok n -> n <= maxMessageSize).
Proof.
  intros stream dec s. pose proof (frame_read_safe stream dec s) as H.
  destruct (frame_read stream dec s) as [[n|e|] s1]; cbn in *; try contradiction.
  - repeat split; try discriminate; try lia. intros n' E. injection E as <-. lia.
  - repeat split; try discriminate; try lia.
Qed.

Lemma sigstruct_reads_total_l : forall buf s, fst (sigstruct_reads sigstruct_offs buf s) <> Panic.
Proof.
  intros buf s. pose proof (sigstruct_reads_safe sigstruct_offs buf s (proj2 gen_sigstruct_layout_expected)) as H.
  destruct (sigstruct_reads sigstruct_offs buf s) as [[?|?|] ?]; cbn in *; try discriminate. contradiction.
Qed.

Example hex_examples :
  hex_decode [48; 97; 70; 102] = Ok [10; 255] /\ hex_decode [48] = Err E_HEX_LEN /\
  hex_decode [48; 103] = Err E_HEX_BYTE /\ hex_decode [103] = Err E_HEX_BYTE /\
  hex_decode [48; 48; 120] = Err E_HEX_BYTE.
Proof. repeat split; vm_compute; reflexivity. Qed.
