(* Statement-by-statement port of the hand-written MKVS binary decoders and
   encoders:
     go/storage/mkvs/node/depth.go   Depth.{ToBytes,MarshalBinary,UnmarshalBinary}
     go/storage/mkvs/node/key.go     Key.{MarshalBinary,SizedUnmarshalBinary}
     go/storage/mkvs/node/node.go    LeafNode / InternalNode {Compact}MarshalBinary*,
                                     SizedUnmarshalBinary, UnmarshalBinary, node.UnmarshalBinary
     go/common/crypto/hash/hash.go   Hash.UnmarshalBinary, IsEmpty
   over GoSlice, so that every slice expression / index / LittleEndian read is a
   checked operation that yields [Panic] when its bounds check fails, and every
   make() bumps the allocation counter.  Go [int] is taken to be 64 bit (all
   sums below stay under 2^33).  Node hashes (UpdateHash) are not computed:
   they do not influence control flow of the decoders.
   Executable definitions only. *)
From Verif Require Import Lib.Base Decode.GoSlice Gen.DecodeConsts.

(* error classes *)
Definition E_NODE : N := 1.      (* node.ErrMalformedNode *)
Definition E_KEY : N := 2.       (* node.ErrMalformedKey *)
Definition E_HASH : N := 3.      (* hash.ErrMalformed *)
Definition W_LBL : N := 100.     (* "mkvs: failed to unmarshal LabelBitLength: %w" *)
Definition W_LEAF : N := 200.    (* "mkvs: failed to unmarshal leaf node: %w" *)
Definition W_LEFT : N := 300.    (* "mkvs: failed to unmarshal left hash: %w" *)
Definition W_RIGHT : N := 400.   (* "mkvs: failed to unmarshal right hash: %w" *)

Record leaf := mkLeaf { lkey : bytes; lvalue : bytes }.

(* Left/Right: None = nil pointer, Some h = &Pointer{Clean: true, Hash: h} *)
Record inode := mkInode {
  ilbl : N;                 (* LabelBitLength *)
  ilabel : bytes;           (* Label *)
  ileaf : option leaf;      (* LeafNode *)
  ileft : option bytes;
  iright : option bytes
}.

Inductive node := NLeaf (l : leaf) | NInternal (n : inode).

(* ---------- depth.go ---------- *)
(* depth.go:17-23  (uint16 arithmetic; size+1 <= 8192 cannot wrap) *)
Definition depth_to_bytes (dt : N) : N :=
  let size := dt / 8 in
  if negb (dt mod 8 =? 0) then size + 1 else size.

(* depth.go:26-30 *)
Definition depth_marshal (dt : N) : bytes := put16 dt.

(* depth.go:33-40 *)
Definition depth_unmarshal (data : bytes) : M (N * N) :=
  if glen data <? DepthSize then fail E_NODE else
  d <- lift (slice data 0 DepthSize) ;;
  v <- lift (le16 d) ;;
  ret (v, DepthSize).

(* ---------- key.go ---------- *)
(* key.go:20-27 *)
Definition key_marshal (k : bytes) : bytes := put16 (glen k) ++ k.

(* key.go:36-55; the int returned next to an error is not used by any caller *)
Definition key_sized_unmarshal (data : bytes) : M (bytes * N) :=
  if glen data <? DepthSize then fail E_KEY else
  d <- lift (slice data 0 DepthSize) ;;
  keyLen <- lift (le16 d) ;;
  if glen data <? DepthSize + keyLen then fail E_KEY else
  if 0 <? keyLen then
    k <- alloc keyLen ;;
    src <- lift (slice data DepthSize (DepthSize + keyLen)) ;;
    ret (gcopy k src, DepthSize + keyLen)
  else
    ret ([], DepthSize + keyLen).

(* ---------- hash.go ---------- *)
(* hash.go:43-51; Hash is a [32]byte array: no allocation *)
Definition hash_unmarshal (data : bytes) : M bytes :=
  if negb (glen data =? HashSize) then fail E_HASH else ret data.
Definition hash_is_empty (h : bytes) : bool := bytes_eqb h emptyHash.

(* ---------- node.go: LeafNode ---------- *)
(* node.go:633-651 (CompactMarshalBinaryV0 = V1 = MarshalBinary) *)
Definition leaf_marshal (l : leaf) : bytes :=
  [PrefixLeafNode] ++ key_marshal (lkey l) ++ put32 (glen (lvalue l)) ++ lvalue l.

(* node.go:660-694 *)
Definition leaf_sized_unmarshal (data : bytes) : M (leaf * N) :=
  if glen data <? 1 + DepthSize + ValueLengthSize then fail E_NODE else
  b0 <- lift (index data 0) ;;
  if negb (b0 =? PrefixLeafNode) then fail E_NODE else
  let pos := 1 in
  rest <- lift (slice_from data pos) ;;
  '(key, keySize) <- key_sized_unmarshal rest ;;
  let pos := pos + keySize in
  if glen data <? pos + ValueLengthSize then fail E_NODE else
  vs <- lift (slice data pos (pos + ValueLengthSize)) ;;
  valueSize <- lift (le32 vs) ;;
  let pos := pos + ValueLengthSize in
  if glen data <? pos + valueSize then fail E_NODE else
  value <- alloc valueSize ;;
  src <- lift (slice data pos (pos + valueSize)) ;;
  let pos := pos + valueSize in
  ret (mkLeaf key (gcopy value src), pos).

(* ---------- node.go: InternalNode ---------- *)
Definition hash_or_empty (p : option bytes) : bytes :=
  match p with Some h => h | None => emptyHash end.
Definition leaf_or_nil (l : option leaf) : bytes :=
  match l with Some l => leaf_marshal l | None => [PrefixNilNode] end.

(* node.go:442-466 *)
Definition inode_marshal (n : inode) : bytes :=
  [PrefixInternalNode] ++ depth_marshal (ilbl n) ++ ilabel n ++ leaf_or_nil (ileaf n)
    ++ hash_or_empty (ileft n) ++ hash_or_empty (iright n).
(* node.go:408-427 *)
Definition inode_compact_marshal_v0 (n : inode) : bytes :=
  [PrefixInternalNode] ++ depth_marshal (ilbl n) ++ ilabel n ++ leaf_or_nil (ileaf n).
(* node.go:431-439 *)
Definition inode_compact_marshal_v1 (n : inode) : bytes :=
  [PrefixInternalNode] ++ depth_marshal (ilbl n) ++ ilabel n ++ [PrefixNilNode].

(* node.go:516-546: "Hashes are only present in non-compact serialization." *)
Definition inode_hashes (data : bytes) (lbl : N) (label : bytes) (lf : option leaf) (pos : N)
  : M (inode * N) :=
  if pos + HashSize * 2 <=? glen data then
    lsrc <- lift (slice data pos (pos + HashSize)) ;;
    leftHash <- wrap W_LEFT (hash_unmarshal lsrc) ;;
    let pos := pos + HashSize in
    rsrc <- lift (slice data pos (pos + HashSize)) ;;
    rightHash <- wrap W_RIGHT (hash_unmarshal rsrc) ;;
    let pos := pos + HashSize in
    let left := if hash_is_empty leftHash then None else Some leftHash in
    let right := if hash_is_empty rightHash then None else Some rightHash in
    ret (mkInode lbl label lf left right, pos)
  else
    ret (mkInode lbl label lf None None, pos).

(* node.go:502-514: the embedded leaf *)
Definition inode_leaf (data : bytes) (pos : N) : M (option leaf * N) :=
  b <- lift (index data pos) ;;
  if b =? PrefixNilNode then ret (None, pos + 1)
  else
    rest <- lift (slice_from data pos) ;;
    '(l, sz) <- wrap W_LEAF (leaf_sized_unmarshal rest) ;;
    ret (Some l, pos + sz).

(* node.go:475-547.  A fresh receiver is assumed (Left = Right = nil before the
   call), as at every call site (node.UnmarshalBinary, nodedb, proof verifier). *)
Definition inode_sized_unmarshal (data : bytes) : M (inode * N) :=
  if glen data <? 1 + DepthSize + 1 then fail E_NODE else
  let pos := 0 in
  b0 <- lift (index data pos) ;;
  if negb (b0 =? PrefixInternalNode) then fail E_NODE else
  let pos := pos + 1 in
  rest <- lift (slice_from data pos) ;;
  '(lbl, _) <- wrap W_LBL (depth_unmarshal rest) ;;
  let labelLen := depth_to_bytes lbl in
  let pos := pos + DepthSize in
  if glen data <? pos + labelLen then fail E_NODE else
  label0 <- alloc labelLen ;;
  src <- lift (slice data pos (pos + labelLen)) ;;
  let label := gcopy label0 src in
  let pos := pos + labelLen in
  if glen data <=? pos then fail E_NODE else
  '(lf, pos) <- inode_leaf data pos ;;
  inode_hashes data lbl label lf pos.

(* ---------- node.go:715-740 ---------- *)
Definition node_unmarshal (data : bytes) : M node :=
  if 1 <? glen data then
    b0 <- lift (index data 0) ;;
    if b0 =? PrefixLeafNode then
      '(l, _) <- leaf_sized_unmarshal data ;; ret (NLeaf l)
    else if b0 =? PrefixInternalNode then
      '(n, _) <- inode_sized_unmarshal data ;; ret (NInternal n)
    else fail E_NODE
  else fail E_NODE.

Definition node_marshal (n : node) : bytes :=
  match n with NLeaf l => leaf_marshal l | NInternal n => inode_marshal n end.

(* ---------- comparison helpers for the correspondence files ---------- *)
Definition obytes_eqb (a b : option bytes) : bool :=
  match a, b with
  | None, None => true
  | Some x, Some y => bytes_eqb x y
  | _, _ => false
  end.
Definition leaf_eqb (a b : leaf) : bool :=
  bytes_eqb (lkey a) (lkey b) && bytes_eqb (lvalue a) (lvalue b).
Definition oleaf_eqb (a b : option leaf) : bool :=
  match a, b with
  | None, None => true
  | Some x, Some y => leaf_eqb x y
  | _, _ => false
  end.
Definition inode_eqb (a b : inode) : bool :=
  (ilbl a =? ilbl b) && bytes_eqb (ilabel a) (ilabel b) && oleaf_eqb (ileaf a) (ileaf b)
  && obytes_eqb (ileft a) (ileft b) && obytes_eqb (iright a) (iright b).
Definition node_eqb (a b : node) : bool :=
  match a, b with
  | NLeaf x, NLeaf y => leaf_eqb x y
  | NInternal x, NInternal y => inode_eqb x y
  | _, _ => false
  end.
Definition res_eqb {A} (eqb : A -> A -> bool) (a b : res A) : bool :=
  match a, b with
  | Ok x, Ok y => eqb x y
  | Err e, Err f => e =? f
  | Panic, Panic => true
  | _, _ => false
  end.
