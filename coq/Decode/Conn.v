(* State machine of the runtime-host protocol connection's message handling,
   go/runtime/host/protocol/connection.go:
     call            :241-294  (allocates the request id, registers a 1-slot response
                                channel in pendingRequests, deferred delete on return)
     readResponse    :307-321  (select: response / closeCh / ctx)
     handleMessage   :369-409  (Request -> handler; Response -> look the id up AND DELETE it
                                under the lock (:393-396), unknown id -> warning, dropped
                                (:398-402), known id -> respCh <- body (:404); other -> ignored)
     workerIncoming  :412-447  (one goroutine per frame; a codec.Read error ends the loop,
                                closes conn and closeCh; wg.Wait() for the handlers)
     Close           :200-218  (state Closed, conn.Close, quitWg.Wait)
   The model records, per request id, how many handler goroutines have executed the
   send on that id's response channel.  The channel has capacity 1 and its single
   reader (readResponse) receives at most once, so the first send is received, a
   second one would sit in the buffer and a third one blocks FOREVER (the handler
   goroutine never ends, workerIncoming's wg.Wait never returns, Close hangs).
   [del] selects the real code (true: the entry is deleted at delivery) or the
   variant that leaves the deletion to call()'s deferred function (false).
   Executable definitions only. *)
From Verif Require Import Lib.Base.

Inductive inbound : Type :=
| IResponse (id : N)      (* MessageResponse *)
| IRequest (id : N)       (* MessageRequest *)
| IOther                  (* any other MessageType: ignored with a warning *)
| IMalformed.             (* codec.Read fails: truncated frame, oversize prefix, bad CBOR *)

Inductive ev : Type :=
| ECall                   (* a local goroutine enters call() *)
| EFrame (m : inbound)    (* the peer's next frame has been read and handled *)
| EClose.                 (* Close() *)

Record cstate := mkC {
  pending : list N;            (* ids in pendingRequests *)
  sends : list (N * N);        (* id -> number of sends executed on its response channel *)
  next_id : N;
  closed : bool;               (* closeCh closed / state Closed *)
  handlers : N;                (* request handlers spawned *)
  dropped : N                  (* responses with no outstanding request *)
}.

Definition init : cstate := mkC [] [] 0 false 0 0.

Definition nsends (id : N) (s : cstate) : N := match aget id (sends s) with Some n => n | None => 0 end.
Definition remove_id (id : N) (l : list N) : list N := filter (fun x => negb (x =? id)) l.
Fixpoint mem_id (id : N) (l : list N) : bool :=
  match l with [] => false | x :: r => (x =? id) || mem_id id r end.

Definition step (del : bool) (s : cstate) (e : ev) : cstate :=
  match e with
  | ECall =>
      (* after closeCh is closed call() still allocates an id, but sendMessage /
         readResponse return "connection closed" and the deferred delete runs *)
      if closed s then mkC (pending s) (sends s) (next_id s + 1) true (handlers s) (dropped s)
      else mkC (next_id s :: pending s) (sends s) (next_id s + 1) false (handlers s) (dropped s)
  | EFrame m =>
      if closed s then s else                       (* nothing is read any more *)
      match m with
      | IResponse id =>
          if mem_id id (pending s) then
            mkC (if del then remove_id id (pending s) else pending s)
                (aset id (nsends id s + 1) (sends s)) (next_id s) false (handlers s) (dropped s)
          else mkC (pending s) (sends s) (next_id s) false (handlers s) (dropped s + 1)
      | IRequest _ => mkC (pending s) (sends s) (next_id s) false (handlers s + 1) (dropped s)
      | IOther => s
      | IMalformed =>
          (* closeCh closed: every waiting call returns "connection closed" and deletes its id *)
          mkC [] (sends s) (next_id s) true (handlers s) (dropped s)
      end
  | EClose => mkC [] (sends s) (next_id s) true (handlers s) (dropped s)
  end.

Definition run (del : bool) (evs : list ev) : cstate := fold_left (step del) evs init.

(* handler goroutines blocked forever on a response channel *)
Definition blocked (s : cstate) : N := fold_right (fun kv acc => (snd kv - 2) + acc) 0 (sends s).
(* does Close() return? (workerIncoming waits for every handler goroutine) *)
Definition close_returns (s : cstate) : bool := blocked s =? 0.

(* observable outcome of the i-th call (id i): true = it got a response *)
Definition call_got_response (s : cstate) (id : N) : bool := 1 <=? nsends id s.
Definition outcomes (s : cstate) : list bool :=
  map (fun i => call_got_response s (N.of_nat i)) (seq 0 (N.to_nat (next_id s))).
