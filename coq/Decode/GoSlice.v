(* Go slice operations on byte strings with Go's run-time panics made explicit.

   [res A] is the outcome of a Go function that returns (value, error) and may
   panic: [Ok a], [Err e] (e a small error-class code), or [Panic].

   Slice expressions.  Go evaluates a[i:j] with the run-time check
   0 <= i <= j <= cap(a) and a[i] with 0 <= i < len(a).  The model has no
   capacity: [slice a i j] is [Panic] unless i <= j <= len a.  This is
   *stricter* than Go (every Go panic is a model Panic; additionally a
   re-slice beyond len but within cap, which in Go silently exposes bytes past
   the logical end, is also a model Panic).  A theorem "the model never
   returns Panic" therefore implies "the Go code never fails a bounds check
   and never reads past len".  Executable definitions only; facts are in
   GoSliceFacts.v. *)
From Verif Require Import Lib.Base.

Inductive res (A : Type) : Type :=
| Ok (a : A)
| Err (e : N)
| Panic.
Arguments Ok {A} a.
Arguments Err {A} e.
Arguments Panic {A}.

Definition rbind {A B} (r : res A) (f : A -> res B) : res B :=
  match r with
  | Ok a => f a
  | Err e => Err e
  | Panic => Panic
  end.

Definition is_panic {A} (r : res A) : bool :=
  match r with Panic => true | _ => false end.

(* ---------- slices ---------- *)
Definition glen (a : bytes) : N := N.of_nat (length a).

(* the elements i .. j-1 (no check) *)
Definition sl (a : bytes) (i j : N) : bytes :=
  firstn (N.to_nat (j - i)) (skipn (N.to_nat i) a).

(* a[i:j] *)
Definition slice (a : bytes) (i j : N) : res bytes :=
  if (i <=? j) && (j <=? glen a) then Ok (sl a i j) else Panic.
(* a[i:] *)
Definition slice_from (a : bytes) (i : N) : res bytes := slice a i (glen a).
(* a[i] *)
Definition index (a : bytes) (i : N) : res N :=
  match nth_error a (N.to_nat i) with
  | Some x => Ok x
  | None => Panic
  end.

(* binary.LittleEndian.Uint16(b): "_ = b[1]" bounds hint, then b[0] | b[1]<<8 *)
Definition le16 (b : bytes) : res N :=
  if glen b <? 2 then Panic
  else Ok (nth 0 b 0 + 256 * nth 1 b 0).
(* binary.LittleEndian.Uint32(b): "_ = b[3]" *)
Definition le32 (b : bytes) : res N :=
  if glen b <? 4 then Panic
  else Ok (nth 0 b 0 + 256 * nth 1 b 0 + 65536 * nth 2 b 0 + 16777216 * nth 3 b 0).
(* binary.LittleEndian.Uint64(b): "_ = b[7]" *)
Definition le64 (b : bytes) : res N :=
  if glen b <? 8 then Panic
  else Ok (nth 0 b 0 + 256 * nth 1 b 0 + 65536 * nth 2 b 0 + 16777216 * nth 3 b 0
           + 4294967296 * (nth 4 b 0 + 256 * nth 5 b 0 + 65536 * nth 6 b 0 + 16777216 * nth 7 b 0)).

(* binary.BigEndian.Uint16/32/64(b): the same bounds hints *)
Definition be16 (b : bytes) : res N :=
  if glen b <? 2 then Panic else Ok (256 * nth 0 b 0 + nth 1 b 0).
Definition be32 (b : bytes) : res N :=
  if glen b <? 4 then Panic
  else Ok (16777216 * nth 0 b 0 + 65536 * nth 1 b 0 + 256 * nth 2 b 0 + nth 3 b 0).
Definition be64 (b : bytes) : res N :=
  if glen b <? 8 then Panic
  else Ok (4294967296 * (16777216 * nth 0 b 0 + 65536 * nth 1 b 0 + 256 * nth 2 b 0 + nth 3 b 0)
           + (16777216 * nth 4 b 0 + 65536 * nth 5 b 0 + 256 * nth 6 b 0 + nth 7 b 0)).

(* binary.LittleEndian.PutUint16 / AppendUint32 on a value already converted
   to the fixed-width type (the conversion uint16(x) / uint32(x) is the mod) *)
Definition put16 (x : N) : bytes := [x mod 256; (x / 256) mod 256].
Definition put32 (x : N) : bytes :=
  [x mod 256; (x / 256) mod 256; (x / 65536) mod 256; (x / 16777216) mod 256].

(* make([]byte, n) and copy(dst, src) (copies min(len dst, len src) elements) *)
Definition zeros (n : N) : bytes := repeat 0 (N.to_nat n).
Definition gcopy (dst src : bytes) : bytes :=
  firstn (length dst) src ++ skipn (length src) dst.

(* ---------- the decoder monad: outcome + bytes allocated so far ----------
   [M A] threads a counter of heap bytes requested through make(); it is
   incremented *before* the following statements run, so an allocation from a
   declared length that has not been checked against the remaining input shows
   up in the counter even if the function later fails or panics. *)
Definition M (A : Type) : Type := N -> res A * N.

Definition ret {A} (a : A) : M A := fun s => (Ok a, s).
Definition fail {A} (e : N) : M A := fun s => (Err e, s).
Definition lift {A} (r : res A) : M A := fun s => (r, s).
Definition bind {A B} (m : M A) (f : A -> M B) : M B :=
  fun s =>
    match m s with
    | (Ok a, s') => f a s'
    | (Err e, s') => (Err e, s')
    | (Panic, s') => (Panic, s')
    end.
(* make([]byte, n) *)
Definition alloc (n : N) : M bytes := fun s => (Ok (zeros n), s + n).
(* fmt.Errorf("...: %w", err): the error class is offset by [c] *)
Definition wrap {A} (c : N) (m : M A) : M A :=
  fun s =>
    match m s with
    | (Err e, s') => (Err (c + e), s')
    | x => x
    end.

Declare Scope go_scope.
Delimit Scope go_scope with go.
Notation "x <- m ;; k" := (bind m (fun x => k))
  (at level 61, m at next level, right associativity) : go_scope.
Notation "' p <- m ;; k" := (bind m (fun x => match x with p => k end))
  (at level 61, p pattern, m at next level, right associativity) : go_scope.
Open Scope go_scope.

(* run a decoder from a zero allocation counter *)
Definition run {A} (m : M A) : res A * N := m 0.
