(* Port of the hand-written PCS quote binary parser:
     go/common/sgx/pcs/quote.go   Quote.UnmarshalBinaryWithTrailing (:61-139),
                                  QuoteHeaderV3/V4.UnmarshalBinary (:272-296, :339-369),
                                  CertificationData_QEReport.UnmarshalBinary (:476-542),
                                  QuoteSignatureECDSA_P256.UnmarshalBinary (:735-767),
                                  CertificationData_PPID.UnmarshalBinary (:895-906)
     go/common/sgx/pcs/report.go  SgxReport.UnmarshalBinary (:67-85), TdReport.UnmarshalBinary
                                  (:130-156), TdAttributes.UnmarshalBinary (:215-227)
   over GoSlice.  CertificationData_PCKCertificateChain.UnmarshalBinary
   (:919-937) goes through encoding/pem and crypto/x509, which are NOT modelled:
   its outcome is the oracle input [pem_ok] (the implementation's observed
   accept/reject), and the theorems hold for both values.
   copy(array[:], data[off:]) into a fixed-size array allocates nothing.
   Executable definitions only. *)
From Verif Require Import Lib.Base Decode.GoSlice Gen.QuoteConsts.

(* error classes (by message) *)
Definition Q_LEN : N := 30.        (* invalid quote length *)
Definition Q_VERSION : N := 31.    (* unsupported quote version *)
Definition Q_HDRLEN : N := 32.     (* invalid quote header length *)
Definition Q_HDRVER : N := 33.     (* invalid quote version *)
Definition Q_RESERVED : N := 34.   (* data in reserved field *)
Definition Q_TEE : N := 35.        (* unsupported TEE type *)
Definition Q_VENDOR : N := 36.     (* unsupported QE vendor *)
Definition Q_BODYLEN : N := 37.    (* invalid quote body length *)
Definition Q_TRAILING : N := 38.   (* unexpected trailing data *)
Definition Q_AKTYPE : N := 39.     (* unsupported attestation key type *)
Definition Q_REPORTLEN : N := 40.  (* invalid report length *)
Definition Q_TDATTR : N := 41.     (* malformed TDX attributes in report body *)
Definition Q_SIGLEN : N := 42.     (* invalid ECDSA-P256 quote signature length *)
Definition Q_SIG_CDSZ : N := 43.   (* invalid ECDSA-P256 quote signature certification data size *)
Definition Q_SIG_CDT : N := 44.    (* unexpected certification data *)
Definition Q_QE_BODY : N := 45.    (* missing report body *)
Definition Q_QE_SIG : N := 46.     (* missing report signature *)
Definition Q_QE_AUTHSZ : N := 47.  (* missing authentication data size *)
Definition Q_QE_AUTH : N := 48.    (* invalid authentication data size *)
Definition Q_QE_CDT : N := 49.     (* missing certification data type *)
Definition Q_QE_CDSZ : N := 50.    (* missing certification data size *)
Definition Q_QE_CD : N := 51.      (* invalid certification data size *)
Definition Q_QE_CDTYPE : N := 52.  (* unsupported certification data type *)
Definition Q_PPIDLEN : N := 53.    (* invalid PPID certification data length *)
Definition Q_PEM : N := 54.        (* bad X509 certificate in PCK chain *)

(* binary.LittleEndian.UintNN(data[off:]) *)
Definition rd16 (data : bytes) (off : N) : M N := d <- lift (slice_from data off) ;; lift (le16 d).
Definition rd32 (data : bytes) (off : N) : M N := d <- lift (slice_from data off) ;; lift (le32 d).
Definition rd64 (data : bytes) (off : N) : M N := d <- lift (slice_from data off) ;; lift (le64 d).
(* copy(arr[:], data[off:]) for a fixed-size array of n bytes *)
Definition cp (n : N) (data : bytes) (off : N) : M bytes :=
  d <- lift (slice_from data off) ;; ret (gcopy (zeros n) d).

Record header := mkHeader { h_version : N; h_tee : N; h_ak : N; h_vendor : bytes }.

(* quote.go:272-296 *)
Definition header_v3 (data : bytes) : M header :=
  if negb (glen data =? quoteHeaderLen) then fail Q_HDRLEN else
  version <- rd16 data 0 ;;
  if negb (version =? quoteVersionV3) then fail Q_HDRVER else
  ak <- rd16 data 2 ;;
  reserved <- rd32 data 4 ;;
  if negb (reserved =? 0) then fail Q_RESERVED else
  qeSvn <- rd16 data 8 ;;
  pceSvn <- rd16 data 10 ;;
  vendor <- cp 16 data 12 ;;
  userData <- cp 20 data 28 ;;
  raw <- lift (slice data 0 quoteHeaderLen) ;;
  ret (mkHeader quoteVersionV3 TeeTypeSGX ak vendor).

(* quote.go:339-369 *)
Definition header_v4 (data : bytes) : M header :=
  if negb (glen data =? quoteHeaderLen) then fail Q_HDRLEN else
  version <- rd16 data 0 ;;
  if negb (version =? quoteVersionV4) then fail Q_HDRVER else
  ak <- rd16 data 2 ;;
  tee <- rd32 data 4 ;;
  if negb ((tee =? TeeTypeSGX) || (tee =? TeeTypeTDX)) then fail Q_TEE else
  reserved1 <- rd16 data 8 ;;
  reserved2 <- rd16 data 10 ;;
  if negb (reserved1 =? 0) || negb (reserved2 =? 0) then fail Q_RESERVED else
  vendor <- cp 16 data 12 ;;
  userData <- cp 20 data 28 ;;
  raw <- lift (slice data 0 quoteHeaderLen) ;;
  ret (mkHeader quoteVersionV4 tee ak vendor).

Record report := mkReport { r_mrenclave : bytes; r_mrsigner : bytes; r_data : bytes }.

(* sgx.MrEnclave.UnmarshalBinary with the error ignored ("_ ="): a wrong length leaves zeros *)
Definition mr_unmarshal (n : N) (d : bytes) : bytes := if glen d =? n then d else zeros n.

(* report.go:67-85 *)
Definition sgx_report (data : bytes) : M report :=
  if glen data <? reportBodySgxLen then fail Q_REPORTLEN else
  cpuSvn <- cp 16 data 0 ;;
  miscSelect <- rd32 data 16 ;;
  flags <- rd64 data 48 ;;
  xfrm <- rd64 data 56 ;;
  mre <- lift (slice data 64 (64 + MrEnclaveSize)) ;;
  mrs <- lift (slice data 128 (128 + MrSignerSize)) ;;
  isvProdID <- rd16 data 256 ;;
  isvSvn <- rd16 data 258 ;;
  reportData <- cp 64 data 320 ;;
  raw <- lift (slice data 0 reportBodySgxLen) ;;
  ret (mkReport (mr_unmarshal MrEnclaveSize mre) (mr_unmarshal MrSignerSize mrs) reportData).

(* report.go:215-227 *)
Definition td_attributes (data : bytes) : M N :=
  if negb (glen data =? 8) then fail Q_TDATTR else
  d <- lift (slice_from data 0) ;;
  attrs <- lift (le64 d) ;;
  if negb (N.land attrs TdAttributeReserved =? 0) then fail Q_TDATTR else
  ret attrs.

(* report.go:130-156 *)
Definition td_report (data : bytes) : M report :=
  if glen data <? reportBodyTdLen then fail Q_REPORTLEN else
  teeTcbSvn <- cp 16 data 0 ;;
  mrSeam <- cp 48 data 16 ;;
  mrSignerSeam <- cp 48 data 64 ;;
  seamAttributes <- cp 8 data 112 ;;
  a <- lift (slice data 120 128) ;;
  tdAttributes <- td_attributes a ;;
  xfam <- cp 8 data 128 ;;
  mrTd <- cp 48 data 136 ;;
  mrConfigID <- cp 48 data 184 ;;
  mrOwner <- cp 48 data 232 ;;
  mrOwnerConfig <- cp 48 data 280 ;;
  rtmr0 <- cp 48 data 328 ;;
  rtmr1 <- cp 48 data 376 ;;
  rtmr2 <- cp 48 data 424 ;;
  rtmr3 <- cp 48 data 472 ;;
  reportData <- cp 64 data 520 ;;
  raw <- lift (slice data 0 reportBodyTdLen) ;;
  ret (mkReport [] [] reportData).

(* quote.go:895-906 *)
Definition ppid (data : bytes) : M (N * N) :=
  if negb (glen data =? ppidDataLen) then fail Q_PPIDLEN else
  p <- cp 384 data 0 ;;
  cpusvn <- cp 16 data 384 ;;
  pcesvn <- rd16 data 400 ;;
  pceid <- rd16 data 402 ;;
  ret (pcesvn, pceid).

(* quote.go:919-937: PEM + X.509, not modelled; [pem_ok] is the observed outcome *)
Definition pck_chain (pem_ok : bool) (data : bytes) : M unit :=
  if pem_ok then ret tt else fail Q_PEM.

Record qe := mkQe { qe_auth : bytes; qe_cdtype : N; qe_pcesvn : N; qe_pceid : N }.

(* quote.go:476-542 *)
Definition qe_report (pem_ok : bool) (data : bytes) : M qe :=
  let offset := 0 in
  if glen data <? reportBodySgxLen then fail Q_QE_BODY else
  rb <- lift (slice data offset (offset + reportBodySgxLen)) ;;
  rep <- sgx_report rb ;;
  let offset := offset + reportBodySgxLen in
  if glen data <? offset + 64 then fail Q_QE_SIG else
  sig <- cp 64 data offset ;;
  let offset := offset + 64 in
  if glen data <? offset + 2 then fail Q_QE_AUTHSZ else
  authDataSize <- rd16 data offset ;;
  let offset := offset + 2 in
  if glen data <? offset + authDataSize then fail Q_QE_AUTH else
  a0 <- alloc authDataSize ;;
  src <- lift (slice data offset (offset + authDataSize)) ;;
  let auth := gcopy a0 src in
  let offset := offset + authDataSize in
  if glen data <? offset + 2 then fail Q_QE_CDT else
  cdt <- rd16 data offset ;;
  let offset := offset + 2 in
  if glen data <? offset + 4 then fail Q_QE_CDSZ else
  certDataSize <- rd32 data offset ;;
  let offset := offset + 4 in
  if glen data <? offset + certDataSize then fail Q_QE_CD else
  certData <- lift (slice data offset (offset + certDataSize)) ;;
  if (cdt =? CertificationDataPPIDCleartext) || (cdt =? CertificationDataPPIDEncryptedRSA2048)
     || (cdt =? CertificationDataPPIDEncryptedRSA3072) then
    '(pcesvn, pceid) <- ppid certData ;;
    ret (mkQe auth cdt pcesvn pceid)
  else if cdt =? CertificationDataPCKCertificateChain then
    _ <- pck_chain pem_ok certData ;;
    ret (mkQe auth cdt 0 0)
  else fail Q_QE_CDTYPE.

(* quote.go:735-767 *)
Definition sig_ecdsa (pem_ok : bool) (version : N) (data : bytes) : M qe :=
  if glen data <? quoteSigEcdsaP256MinLen then fail Q_SIGLEN else
  let offset := 0 in
  sig <- cp 64 data 0 ;;
  let offset := offset + 64 in
  pk <- cp 64 data offset ;;
  let offset := offset + 64 in
  offset <-
    (if version =? quoteVersionV4 then
       cdt <- rd16 data offset ;;
       certDataSize <- rd32 data (offset + 2) ;;
       let offset := offset + 6 in
       rest <- lift (slice_from data offset) ;;
       if negb (glen rest =? certDataSize) then fail Q_SIG_CDSZ else
       if negb (cdt =? CertificationDataQEReport) then fail Q_SIG_CDT else
       ret offset
     else ret offset) ;;
  rest <- lift (slice_from data offset) ;;
  qe_report pem_ok rest.

Record quote := mkQuote {
  q_version : N; q_tee : N; q_ak : N;
  q_report : option report;
  q_qe : qe
}.

(* quote.go:61-139 *)
Definition quote_unmarshal (pem_ok allowTrailing : bool) (data : bytes) : M (quote * N) :=
  let minLen := quoteHeaderLen + reportBodySgxLen + quoteSigSizeLen in
  if glen data <? minLen then fail Q_LEN else
  let offset := 0 in
  version <- rd16 data 0 ;;
  hdr <-
    (if version =? quoteVersionV3 then
       h <- lift (slice data offset (offset + quoteHeaderLen)) ;; header_v3 h
     else if version =? quoteVersionV4 then
       h <- lift (slice data offset (offset + quoteHeaderLen)) ;; header_v4 h
     else fail Q_VERSION) ;;
  let offset := offset + quoteHeaderLen in
  if negb (bytes_eqb (h_vendor hdr) QEVendorID_Intel) then fail Q_VENDOR else
  '(rep, offset) <-
    (if h_tee hdr =? TeeTypeSGX then
       rb <- lift (slice data offset (offset + reportBodySgxLen)) ;;
       r <- sgx_report rb ;;
       ret (Some r, offset + reportBodySgxLen)
     else if h_tee hdr =? TeeTypeTDX then
       if glen data <? offset + reportBodyTdLen + quoteSigSizeLen then fail Q_BODYLEN else
       rb <- lift (slice data offset (offset + reportBodyTdLen)) ;;
       r <- td_report rb ;;
       ret (Some r, offset + reportBodyTdLen)
     else ret (None, offset)) ;;       (* the switch has no default case *)
  sigLen <- rd32 data offset ;;
  let offset := offset + quoteSigSizeLen in
  if glen data <? offset + sigLen then fail Q_TRAILING else
  if negb allowTrailing && negb (glen data =? offset + sigLen) then fail Q_TRAILING else
  if h_ak hdr =? AttestationKeyECDSA_P256 then
    sd <- lift (slice data offset (offset + sigLen)) ;;
    q <- sig_ecdsa pem_ok (h_version hdr) sd ;;
    ret (mkQuote (h_version hdr) (h_tee hdr) (h_ak hdr) rep q, offset + sigLen)
  else fail Q_AKTYPE.

(* ---------- comparison helpers ---------- *)
Definition report_eqb (a b : report) : bool :=
  bytes_eqb (r_mrenclave a) (r_mrenclave b) && bytes_eqb (r_mrsigner a) (r_mrsigner b)
  && bytes_eqb (r_data a) (r_data b).
Definition oreport_eqb (a b : option report) : bool :=
  match a, b with
  | None, None => true
  | Some x, Some y => report_eqb x y
  | _, _ => false
  end.
Definition qe_eqb (a b : qe) : bool :=
  bytes_eqb (qe_auth a) (qe_auth b) && (qe_cdtype a =? qe_cdtype b)
  && (qe_pcesvn a =? qe_pcesvn b) && (qe_pceid a =? qe_pceid b).
Definition quote_eqb (a b : quote) : bool :=
  (q_version a =? q_version b) && (q_tee a =? q_tee b) && (q_ak a =? q_ak b)
  && oreport_eqb (q_report a) (q_report b) && qe_eqb (q_qe a) (q_qe b).
