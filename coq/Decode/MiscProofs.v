(* Totality / boundedness of the decoders of Misc.v. *)
From Verif Require Import Lib.Base Decode.GoSlice Decode.GoSliceFacts Decode.Node Decode.NodeProofs
  Decode.ProofEntries Decode.ProofEntriesProofs Decode.Quote Decode.QuoteProofs Decode.Misc
  Gen.DecodeConsts Gen.QuoteConsts Gen.MiscConsts.

Lemma gen_ias_layout_expected :
  ias_quoteLen = 432 /\ ias_quoteBodyLen = 48 /\ ias_quoteReportLen = 384 /\
  ias_offsetReportReportData = 320.
Proof. repeat split; reflexivity. Qed.

Ltac iconsts := unfold ias_quoteLen, ias_quoteBodyLen, ias_quoteReportLen, ias_offsetReportReportData in *.

Lemma ias_body_safe data s : safe anyv 0 s (ias_body data s).
Proof.
  unfold ias_body. step; [step|]. assert (48 <= glen data) by (iconsts; lia).
  repeat step.
Qed.

Lemma ias_report_safe data s : safe anyv 0 s (ias_report data s).
Proof.
  unfold ias_report. step; [step|]. assert (384 <= glen data) by (iconsts; lia).
  iconsts. repeat step.
Qed.

Lemma ias_quote_safe data s : safe anyv 0 s (ias_quote data s).
Proof.
  unfold ias_quote. step; [step|]. assert (432 <= glen data) by (iconsts; lia).
  iconsts. step.
  assert (glen (sl data 0 432) = 432) as Hl by (rewrite glen_sl; lia).
  step. call ias_body_safe. step. call ias_report_safe. step.
Qed.

Lemma decode_ias_quote_total_l : forall b s,
  fst (ias_body b s) <> Panic /\ fst (ias_report b s) <> Panic /\ fst (ias_quote b s) <> Panic /\
  snd (ias_quote b s) <= s.
Proof.
  intros b s. pose proof (ias_body_safe b s) as H1. pose proof (ias_report_safe b s) as H2.
  pose proof (ias_quote_safe b s) as H3.
  destruct (ias_body b s) as [[?|?|] ?]; destruct (ias_report b s) as [[?|?|] ?];
  destruct (ias_quote b s) as [[?|?|] s3]; cbn in *; try contradiction;
  repeat split; try discriminate; lia.
Qed.

(* ---------- chunk restore ---------- *)
Definition item_bytes (ev : dec_event) : N :=
  match ev with DItem (Some b) => glen b | _ => 0 end.
Definition events_len (evs : list dec_event) : N := fold_right (fun e acc => item_bytes e + acc) 0 evs.

Lemma total_len_app a b : total_len (a ++ b) = total_len a + total_len b.
Proof.
  unfold total_len in *. induction a as [|x a IH]; cbn [app fold_right]; lia.
Qed.

Lemma chunk_collect_len : forall evs acc,
  total_len (fst (chunk_collect evs acc)) <= total_len (rev acc) + events_len evs.
Proof.
  induction evs as [|ev evs IH]; intros acc; cbn [chunk_collect events_len fold_right].
  - cbn [fst]. lia.
  - fold (events_len evs). destruct ev as [e| |]; cbn [fst item_bytes]; try lia.
    specialize (IH (e :: acc)). cbn [rev] in IH. rewrite total_len_app in IH.
    cbn [total_len fold_right] in IH. destruct e; cbn [item_bytes]; lia.
Qed.

Lemma restore_chunk_spec digest_ok evs s :
  match restore_chunk digest_ok evs s with
  | (Ok _, s') => s' <= s + events_len evs
  | (Err e, s') => e <> E_FUEL /\ e <> W_CHUNK + E_FUEL /\ s' <= s + events_len evs
  | (Panic, _) => False
  end.
Proof.
  unfold restore_chunk. pose proof (chunk_collect_len evs []) as HL. cbn [rev total_len fold_right] in HL.
  destruct (chunk_collect evs []) as [es derr]. cbn [fst] in HL.
  destruct (negb digest_ok); [cbn; repeat split; try discriminate; lia|].
  destruct derr; [cbn; repeat split; try discriminate; lia|].
  rewrite wrap_unfold. pose proof (verify_opts_spec v1ProofsVersion true es s) as HV.
  destruct (verify_opts v1ProofsVersion true es s) as [[p|e|] s1]; cbn [vopts_post] in HV; try contradiction.
  - lia.
  - destruct HV as [Hne Hs1]. unfold E_FUEL, W_CHUNK in *. repeat split; lia.
Qed.

Lemma restore_chunk_total_l : forall digest_ok evs s,
  fst (restore_chunk digest_ok evs s) <> Panic /\
  fst (restore_chunk digest_ok evs s) <> Err (W_CHUNK + E_FUEL) /\
  snd (restore_chunk digest_ok evs s) <= s + events_len evs.
Proof.
  intros digest_ok evs s. pose proof (restore_chunk_spec digest_ok evs s) as H.
  destruct (restore_chunk digest_ok evs s) as [[p|e|] s1]; cbn [fst snd] in *.
  - repeat split; try discriminate; lia.
  - repeat split; try discriminate; try lia. intros E. injection E as ->. tauto.
  - contradiction.
Qed.

Example restore_chunk_example :
  fst (run (restore_chunk true [DItem (Some [1; 1; 0; 0; 2]); DItem None; DItem None; DEof]))
  = Ok (PInt 0 [] PNil PNil PNil)
  /\ fst (run (restore_chunk true [DItem (Some [1; 1; 0; 0; 2]); DErr])) = Err E_CHUNK_DECODE
  /\ fst (run (restore_chunk false [DItem None])) = Err E_CHUNK_CORRUPTED.
Proof. repeat split; vm_compute; reflexivity. Qed.
