(* Nesting-depth model of the CBOR STREAM decoder behind the runtime-host
   protocol (go/common/cbor/codec.go:66 -> fxamacker/cbor v2.4.0 stream.go:28-50):

     func (dec *Decoder) Decode(v) error {
       ...                                   // make sure the buffer is not empty
       err := dec.d.value(v)                 // try to decode the item from the buffer
       if err == io.ErrUnexpectedEOF {       // item incomplete
         if n, e := dec.read(); n == 0 { return e }
         return dec.Decode(v)                // <- one more activation per short read
       } ... }

   One activation record stays on the goroutine stack for every Read that
   returns before the item is complete.  The Go runtime doubles a goroutine
   stack on demand and throws the unrecoverable "stack overflow" when the
   doubled size would exceed the limit (runtime/stack.go newstack:
   newsize := oldsize*2; if newsize > maxstacksize -> throw), so the usable
   stack is the largest power of two not above the limit.
   [frame] (bytes of stack per activation) is a property of the compiled
   binary: the harness measures it and passes it in.  Executable definitions only. *)
From Verif Require Import Lib.Base Gen.MiscConsts.

(* number of nested Decode activations for an item of [need] bytes when the
   reader delivers the chunk sizes [chunks], [have] bytes being buffered *)
Fixpoint decode_frames (chunks : list N) (need have : N) : N :=
  if need <=? have then 1 else
  match chunks with
  | [] => 1
  | c :: rest => if c =? 0 then 1 else 1 + decode_frames rest need (have + c)
  end.

Definition usable_stack (maxstack : N) : N := 2 ^ N.log2 maxstack.
Definition stack_needed (frame base frames : N) : N := base + frame * frames.
(* the process dies: the stack would have to grow beyond the usable size *)
Definition overflows (maxstack frame base frames : N) : bool :=
  usable_stack maxstack <? stack_needed frame base frames.

(* closed form for a peer that delivers one byte per read *)
Definition trickle_frames (need : N) : N := need + 1.
(* first item length (bytes, one byte per read) at which the process dies *)
Definition death_depth (maxstack frame base : N) : N := (usable_stack maxstack - base) / frame.

Definition defaultMaxStack : N := 1000000000.   (* runtime: 1 GB on 64-bit *)
