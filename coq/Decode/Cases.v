(* Entry point of the correspondence files written by harness/cmd/decode:
   one constructor per real Go function driven by the harness.
   Executable definitions only. *)
From Verif Require Import Lib.Base Decode.GoSlice Decode.Node Decode.ProofEntries Decode.Quote Decode.KeyFormat Decode.Misc Decode.Cbor Decode.More Decode.StreamDepth Decode.CborValue Gen.DecodeConsts.
From Verif Require Decode.Conn Decode.Evidence.

Inductive cin : Type :=
| CDepth (b : bytes)                      (* Depth.UnmarshalBinary *)
| CKey (b : bytes)                        (* Key.SizedUnmarshalBinary *)
| CLeaf (b : bytes)                       (* LeafNode.SizedUnmarshalBinary *)
| CInode (b : bytes)                      (* InternalNode.SizedUnmarshalBinary *)
| CNode (b : bytes)                       (* node.UnmarshalBinary *)
| CWalk (v : N) (es : entries)            (* ProofVerifier.verifyProof(proof, 0, 0) through the verif hook *)
| COpts (v : N) (rm : bool) (es : entries)   (* ProofVerifier.VerifyProof with the root the walk computes *)
| CEncKey (k : bytes)                     (* Key.MarshalBinary *)
| CEncLeaf (l : leaf)                     (* LeafNode.MarshalBinary *)
| CEncInode (mode : N) (n : inode)        (* 0 MarshalBinary, 1 CompactMarshalBinaryV0, 2 CompactMarshalBinaryV1 *)
| CQuote (pem_ok trailing : bool) (b : bytes)   (* pcs.Quote.UnmarshalBinaryWithTrailing; pem_ok = observed outcome of the PEM/X.509 chain parse *)
| CKeyFormat (prefix : N) (layout : list elem) (nvals : N) (b : bytes)   (* keyformat.KeyFormat.Decode *)
| CFixed (size kind : N) (b : bytes)      (* X.UnmarshalBinary of a fixed-size helper *)
| CIasQuote (b : bytes)                   (* ias.Quote.UnmarshalBinary *)
| CChunk (digest_ok : bool) (evs : list dec_event)    (* checkpoint restoreChunk via Restorer.RestoreChunk *)
| CCbor (b : bytes)                       (* DecMode.Valid with the options of cbor.go:40-48; cbor.Unmarshal(b, &any) *)
| CHex (size kind : N) (text : bytes)     (* X.UnmarshalHex *)
| CText (mode size kind : N) (b64 : option bytes) (text : bytes)   (* X.UnmarshalText: mode 0 base64, 1 hex then base64; b64 = observed base64 outcome *)
| CEncIdHex (text : bytes)                (* sgx.EnclaveIdentity.UnmarshalHex *)
| CEncIdB64 (b64 : option bytes)          (* sgx.EnclaveIdentity.UnmarshalText *)
| CAkid (b : bytes)                       (* aesm.AttestationKeyID.UnmarshalBinary *)
| CQeMasks (rmisc rflags rxfrm : N) (ms msm att attm : bytes)   (* pcs.QEIdentity.verify: the mask fields against a report *)
| CQuantity (b : bytes)                   (* quantity.Quantity.UnmarshalBinary *)
| CPbNode (b : bytes)                     (* pathbadger nodeFromDb (hook) *)
| CFrame (stream : bytes) (dec : option N)   (* cbor.MessageReader.Read *)
| CEnum (table : list (bytes * N)) (text : bytes)   (* an enum UnmarshalText *)
| CSigstruct (b : bytes)                  (* sigstruct.Verify: only "length accepted" vs "length rejected" *)
| CStreamDepth (maxstack frame base reads : N)   (* cbor.MessageCodec.Read fed one byte per read, [reads] reads, in a child process with stack limit maxstack: does it die? *)
| CConn (evs : list Conn.ev)                  (* a scripted session with the real protocol.Connection over net.Pipe *)
| CEvidence (sigs_ok : bool) (a b : Evidence.ecommit).   (* roothash EquivocationExecutorEvidence.ValidateBasic after a CBOR round trip *)

Inductive cout : Type :=
| ODepth (r : res (N * N))
| OKey (r : res (bytes * N))
| OLeaf (r : res (leaf * N))
| OInode (r : res (inode * N))
| ONode (r : res node)
| OWalk (r : res (N * ptr)) (wl : list (bytes * bytes))
| OOpts (r : res unit)
| OBytes (b : bytes)
| OQuote (r : res (quote * N))
| OKf (r : res (option (list kval)))
| OFixed (r : res bytes)
| OIas (r : res (ias_body_t * report))
| OChunk (r : res unit)
| OCbor (cls : N) (unmarshal_accepts : option bool)
| OPair (r : res (bytes * bytes))
| OAkid (r : res (N * bytes))
| OClass (r : res unit)
| ONum (r : res N)
| OPb (r : res pbnode)
| ODies (b : bool)
| OConn (call_got_response : list bool) (close_returned : bool).

Definition run_case (c : cin) : cout :=
  match c with
  | CDepth b => ODepth (fst (run (depth_unmarshal b)))
  | CKey b => OKey (fst (run (key_sized_unmarshal b)))
  | CLeaf b => OLeaf (fst (run (leaf_sized_unmarshal b)))
  | CInode b => OInode (fst (run (inode_sized_unmarshal b)))
  | CNode b => ONode (fst (run (node_unmarshal b)))
  | CWalk v es =>
      let r := fst (run (walk (walk_fuel 0) v es 0 0)) in
      OWalk r (match r with Ok (_, p) => ptr_writelog p | _ => [] end)
  | COpts v rm es =>
      OOpts (match fst (run (verify_opts v rm es)) with
             | Ok _ => Ok tt | Err e => Err e | Panic => Panic end)
  | CEncKey k => OBytes (key_marshal k)
  | CEncLeaf l => OBytes (leaf_marshal l)
  | CEncInode mode n =>
      OBytes (if mode =? 0 then inode_marshal n
              else if mode =? 1 then inode_compact_marshal_v0 n
              else inode_compact_marshal_v1 n)
  | CQuote pem_ok trailing b => OQuote (fst (run (quote_unmarshal pem_ok trailing b)))
  | CKeyFormat p l n b => OKf (fst (run (kf_decode p l n b)))
  | CFixed size kind b => OFixed (fst (run (fixed_unmarshal size kind b)))
  | CIasQuote b => OIas (fst (run (ias_quote b)))
  | CChunk d evs =>
      OChunk (match fst (run (restore_chunk d evs)) with
              | Ok _ => Ok tt | Err e => Err e | Panic => Panic end)
  | CCbor b => OCbor (wres_class (cbor_valid b))
                     (match cbor_unmarshal_verdict b with WOk v => v | _ => Some false end)
  | CHex size kind t => OFixed (fst (run (unmarshal_hex size kind t)))
  | CText mode size kind b64 t =>
      OFixed (fst (run (if mode =? 0 then unmarshal_b64 size kind b64 else unmarshal_hex_or_b64 size kind b64 t)))
  | CEncIdHex t => OPair (fst (run (enclave_identity (hex_decode t))))
  | CEncIdB64 b64 => OPair (fst (run (enclave_identity (match b64 with Some b => Ok b | None => Err E_B64 end))))
  | CAkid b => OAkid (fst (run (akid b)))
  | CQeMasks rm rf rx ms msm att attm =>
      OClass (match fst (run (qe_masks rm rf rx ms msm att attm)) with
              | Ok _ => Ok tt | Err e => Err (if e =? E_MISMATCH then 2 else 1) | Panic => Panic end)
  | CQuantity b => ONum (fst (run (quantity_unmarshal_binary b)))
  | CPbNode b => OPb (fst (run (pb_node b)))
  | CFrame st dec => ONum (fst (run (frame_read st dec)))
  | CEnum table t => ONum (enum_text table t)
  | CSigstruct b =>
      OClass (match fst (run (sigstruct_reads sigstruct_offs b)) with Ok _ => Ok tt | Err e => Err 1 | Panic => Panic end)
  (* the 4-byte length prefix is read by io.ReadAtLeast, every later read is one Decode activation *)
  | CStreamDepth maxstack frame base reads =>
      ODies (overflows maxstack frame base (trickle_frames (reads - 4)))
  | CConn evs => let s := Conn.run true evs in OConn (Conn.outcomes s) (Conn.close_returns s)
  | CEvidence sigs_ok a b => OClass (Evidence.evidence_validate_basic sigs_ok a b)
  end.

Definition pair_eqb {A B} (ea : A -> A -> bool) (eb : B -> B -> bool) (x y : A * B) : bool :=
  ea (fst x) (fst y) && eb (snd x) (snd y).

Definition cout_eqb (a b : cout) : bool :=
  match a, b with
  | ODepth x, ODepth y => res_eqb (pair_eqb N.eqb N.eqb) x y
  | OKey x, OKey y => res_eqb (pair_eqb bytes_eqb N.eqb) x y
  | OLeaf x, OLeaf y => res_eqb (pair_eqb leaf_eqb N.eqb) x y
  | OInode x, OInode y => res_eqb (pair_eqb inode_eqb N.eqb) x y
  | ONode x, ONode y => res_eqb node_eqb x y
  | OWalk x wx, OWalk y wy =>
      res_eqb (pair_eqb N.eqb ptr_eqb) x y && list_eqb (pair_eqb bytes_eqb bytes_eqb) wx wy
  | OOpts x, OOpts y => res_eqb (fun _ _ => true) x y
  | OBytes x, OBytes y => bytes_eqb x y
  | OQuote x, OQuote y => res_eqb (pair_eqb quote_eqb N.eqb) x y
  | OKf x, OKf y => res_eqb okvals_eqb x y
  | OFixed x, OFixed y => res_eqb bytes_eqb x y
  | OIas x, OIas y => res_eqb (pair_eqb ias_body_eqb report_eqb) x y
  | OChunk x, OChunk y => res_eqb (fun _ _ => true) x y
  (* a = model, b = implementation: same class of the validity pass, and the SAME accept/reject
     verdict of cbor.Unmarshal(data, &any) whenever the model's verdict is determined (None =
     a map with a float key: undetermined) *)
  | OCbor x mx, OCbor y acc =>
      (x =? y) && match mx, acc with
                  | Some v, Some a => Bool.eqb v a
                  | None, _ => true
                  | _, None => false
                  end
  | OPair x, OPair y => res_eqb (pair_eqb bytes_eqb bytes_eqb) x y
  | OAkid x, OAkid y => res_eqb (pair_eqb N.eqb bytes_eqb) x y
  | OClass x, OClass y => res_eqb (fun _ _ => true) x y && match x, y with Err a, Err b => a =? b | _, _ => true end
  | ONum x, ONum y => res_eqb N.eqb x y
  | OPb x, OPb y => res_eqb pbnode_eqb x y
  | ODies x, ODies y => Bool.eqb x y
  | OConn x cx, OConn y cy => list_eqb Bool.eqb x y && Bool.eqb cx cy
  | _, _ => false
  end.
