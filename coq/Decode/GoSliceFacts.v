(* Facts about the GoSlice primitives used by the decoder proofs. *)
From Verif Require Import Lib.Base Decode.GoSlice.

Lemma glen_nil : glen [] = 0.
Proof. reflexivity. Qed.

Lemma glen_cons x a : glen (x :: a) = 1 + glen a.
Proof. unfold glen. cbn [length]. lia. Qed.

Lemma glen_app a b : glen (a ++ b) = glen a + glen b.
Proof. unfold glen. rewrite app_length. lia. Qed.

Lemma glen_sl a i j : i <= j -> j <= glen a -> glen (sl a i j) = j - i.
Proof.
  unfold glen, sl. intros Hij Hj.
  rewrite firstn_length, skipn_length. lia.
Qed.

Lemma slice_ok a i j : i <= j -> j <= glen a -> slice a i j = Ok (sl a i j).
Proof.
  intros Hij Hj. unfold slice.
  destruct ((i <=? j) && (j <=? glen a)) eqn:E; [reflexivity|lia].
Qed.

Lemma slice_from_ok a i : i <= glen a -> slice_from a i = Ok (sl a i (glen a)).
Proof. intros H. unfold slice_from. apply slice_ok; lia. Qed.

Lemma slice_not_ok a i j : ~ (i <= j /\ j <= glen a) -> slice a i j = Panic.
Proof.
  intros H. unfold slice.
  destruct ((i <=? j) && (j <=? glen a)) eqn:E; [exfalso; apply H; lia|reflexivity].
Qed.

Lemma index_ok a i : i < glen a -> index a i = Ok (nth (N.to_nat i) a 0).
Proof.
  intros H. unfold index, glen in *.
  destruct (nth_error a (N.to_nat i)) eqn:E.
  - f_equal. symmetry. apply nth_error_nth. exact E.
  - apply nth_error_None in E. lia.
Qed.

Lemma index_panic a i : glen a <= i -> index a i = Panic.
Proof.
  intros H. unfold index, glen in *.
  destruct (nth_error a (N.to_nat i)) eqn:E; [|reflexivity].
  assert (nth_error a (N.to_nat i) <> None) as Hn by congruence.
  apply nth_error_Some in Hn. lia.
Qed.

Definition le16v (b : bytes) : N := nth 0 b 0 + 256 * nth 1 b 0.
Definition le32v (b : bytes) : N :=
  nth 0 b 0 + 256 * nth 1 b 0 + 65536 * nth 2 b 0 + 16777216 * nth 3 b 0.

Lemma le16_ok b : 2 <= glen b -> le16 b = Ok (le16v b).
Proof. intros H. unfold le16. destruct (glen b <? 2) eqn:E; [lia|reflexivity]. Qed.

Lemma le32_ok b : 4 <= glen b -> le32 b = Ok (le32v b).
Proof. intros H. unfold le32. destruct (glen b <? 4) eqn:E; [lia|reflexivity]. Qed.

Lemma glen_zeros n : glen (zeros n) = n.
Proof. unfold glen, zeros. rewrite repeat_length. lia. Qed.

Lemma glen_gcopy dst src : glen (gcopy dst src) = glen dst.
Proof.
  unfold glen, gcopy. rewrite app_length, firstn_length, skipn_length. lia.
Qed.

Lemma gcopy_exact dst src : length dst = length src -> gcopy dst src = src.
Proof.
  intros H. unfold gcopy. rewrite H, firstn_all, skipn_all2 by lia. apply app_nil_r.
Qed.

Lemma gcopy_zeros src : gcopy (zeros (glen src)) src = src.
Proof.
  apply gcopy_exact. unfold zeros, glen. rewrite repeat_length. lia.
Qed.

Lemma skipn_skipn' {A} (n m : nat) (l : list A) : skipn n (skipn m l) = skipn (m + n) l.
Proof.
  revert l. induction m as [|m IH]; intros l; [reflexivity|].
  destruct l as [|x l]; [cbn; destruct n; reflexivity|]. cbn [skipn plus]. apply IH.
Qed.

(* ---------- slices of concatenations ---------- *)
Lemma sl_app_l a b n : n = glen a -> sl (a ++ b) 0 n = a.
Proof.
  intros ->. unfold sl, glen. cbn [skipn N.to_nat].
  replace (N.to_nat (N.of_nat (length a) - 0)) with (length a + 0)%nat by lia.
  rewrite firstn_app_2. cbn [firstn]. apply app_nil_r.
Qed.

Lemma sl_app_r a b i j : i = glen a -> sl (a ++ b) i j = sl b 0 (j - i).
Proof.
  intros ->. unfold sl, glen.
  replace (N.to_nat (N.of_nat (length a))) with (length a + 0)%nat by lia.
  rewrite skipn_app, skipn_all2 by lia.
  replace (length a + 0 - length a)%nat with 0%nat by lia.
  cbn [skipn app N.to_nat]. f_equal. lia.
Qed.

Lemma sl_shift a b i j : glen a <= i -> sl (a ++ b) i j = sl b (i - glen a) (j - glen a).
Proof.
  intros H. unfold sl, glen in *.
  rewrite skipn_app, skipn_all2 by lia. cbn [app].
  f_equal; [lia|]. f_equal. lia.
Qed.

Lemma sl_all a : sl a 0 (glen a) = a.
Proof.
  unfold sl, glen. cbn [skipn N.to_nat].
  replace (N.to_nat (N.of_nat (length a) - 0)) with (length a) by lia.
  apply firstn_all.
Qed.

Lemma sl_cons x a i j : 1 <= i -> sl (x :: a) i j = sl a (i - 1) (j - 1).
Proof.
  intros H. change (x :: a) with ([x] ++ a). rewrite sl_shift by (cbn; lia).
  reflexivity.
Qed.

Lemma nth_N_cons x a i : 1 <= i -> nth (N.to_nat i) (x :: a) 0 = nth (N.to_nat (i - 1)) a 0.
Proof.
  intros H. replace (N.to_nat i) with (S (N.to_nat (i - 1))) by lia. reflexivity.
Qed.

Lemma nth_N_app_r a b i : glen a <= i ->
  nth (N.to_nat i) (a ++ b) 0 = nth (N.to_nat (i - glen a)) b 0.
Proof.
  intros H. unfold glen in *. rewrite app_nth2 by lia. f_equal. lia.
Qed.

(* ---------- little-endian round trips ---------- *)
Lemma le16v_put16 x rest : x < 65536 -> le16v (put16 x ++ rest) = x.
Proof.
  intros H. unfold le16v, put16. cbn [app nth].
  rewrite (N.mod_small (x / 256) 256) by (apply N.div_lt_upper_bound; lia).
  pose proof (N.div_mod x 256). lia.
Qed.

Lemma glen_put16 x : glen (put16 x) = 2.
Proof. reflexivity. Qed.
Lemma glen_put32 x : glen (put32 x) = 4.
Proof. reflexivity. Qed.

Lemma le32v_put32 x rest : x < 4294967296 -> le32v (put32 x ++ rest) = x.
Proof.
  intros H. unfold le32v, put32. cbn [app nth].
  rewrite (N.mod_small (x / 16777216) 256) by (apply N.div_lt_upper_bound; lia).
  pose proof (N.div_mod x 256) as H0.
  pose proof (N.div_mod (x / 256) 256) as H1.
  pose proof (N.div_mod (x / 256 / 256) 256) as H2.
  rewrite !N.div_div in H1, H2 by lia.
  change (256 * 256) with 65536 in *. change (65536 * 256) with 16777216 in *.
  specialize (H0 ltac:(lia)). specialize (H1 ltac:(lia)). specialize (H2 ltac:(lia)).
  lia.
Qed.

(* ---------- monad steps ---------- *)
Lemma bind_lift_ok {A B} (a : A) (f : A -> M B) s : bind (lift (Ok a)) f s = f a s.
Proof. reflexivity. Qed.
Lemma bind_ret {A B} (a : A) (f : A -> M B) s : bind (ret a) f s = f a s.
Proof. reflexivity. Qed.
Lemma bind_alloc {B} n (f : bytes -> M B) s : bind (alloc n) f s = f (zeros n) (s + n).
Proof. reflexivity. Qed.
Lemma bind_fail {A B} e (f : A -> M B) s : bind (fail e) f s = (Err e, s).
Proof. reflexivity. Qed.
