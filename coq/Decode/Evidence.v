(* Port, over option-typed fields, of the stateless validation of roothash
   equivocation evidence (the wire form has OPTIONAL pointer fields):
     go/roothash/api/commitment/executor.go:195-246  ExecutorCommitment.ValidateBasic
     go/roothash/api/api.go:281-336                  EquivocationExecutorEvidence.ValidateBasic
     go/common/crypto/hash/hash.go:105-110           Hash.Equal (pointer receiver): "h[:]" on a nil receiver PANICS,
                                                     a nil argument compares false
   Not modelled (oracle inputs): ComputeResultsHeader.EncodedHash (MostlyEqual is
   taken as equality of the failure code and of all header fields), message
   validation, signature verification.  The ORDER of the statements matters:
   the header comparisons dereference IORoot / StateRoot / MessagesHash and are
   safe only because both ValidateBasic calls come first; the order found in
   the source is regenerated (Gen.MiscConsts.evidence_vb_order) and pinned by
   theorem gen_evidence_order_expected.  Executable definitions only. *)
From Verif Require Import Lib.Base Decode.GoSlice.

Record crh := mkCrh {
  r_round : N; r_prev : bytes;
  r_io : option bytes; r_state : option bytes; r_msgs : option bytes; r_inmsgs : option bytes;
  r_incount : N }.

Record ecommit := mkEc {
  c_node : bytes; c_sched : bytes; c_failure : N; c_hdr : crh;
  c_rak : bool;            (* Header.RAKSignature != nil *)
  c_nmsgs : N;             (* len(Messages) *)
  c_msgs_ok : bool }.      (* every message passes ValidateBasic (oracle) *)

Definition V_EQUAL : N := 120.      (* commits are equal, no sign of equivocation *)
Definition V_NODE : N := 121.       (* signature public keys don't match *)
Definition V_SCHED : N := 122.      (* scheduler IDs don't match *)
Definition V_ROUND : N := 123.      (* commit headers not for same round *)
Definition V_MSGS : N := 124.       (* messages should be empty *)
Definition V_COMMIT_A : N := 125.   (* commit A not valid *)
Definition V_COMMIT_B : N := 126.   (* commit B not valid *)
Definition V_MATCH : N := 127.      (* headers match / failure indication fields match *)
Definition V_SIG : N := 128.        (* invalid signature *)

(* Hash.Equal (pointer receiver)(cmp): receiver dereferenced unconditionally *)
Definition hash_equal (h cmp : option bytes) : res bool :=
  match h with
  | None => Panic
  | Some a => match cmp with None => Ok false | Some b => Ok (bytes_eqb a b) end
  end.

Definition is_some {A} (o : option A) : bool := match o with Some _ => true | None => false end.

(* executor.go:195-246 *)
Definition commit_validate_basic (c : ecommit) : res unit :=
  let h := c_hdr c in
  if c_failure c =? 0 then
    if negb (is_some (r_io h)) then Err 1
    else if negb (is_some (r_state h)) then Err 2
    else if negb (is_some (r_msgs h)) then Err 3
    else if negb (is_some (r_inmsgs h)) then Err 4
    else if negb (c_msgs_ok c) then Err 5
    else Ok tt
  else if (c_failure c =? 1) || (c_failure c =? 2) then
    if is_some (r_io h) then Err 6
    else if is_some (r_state h) then Err 7
    else if is_some (r_msgs h) then Err 8
    else if is_some (r_inmsgs h) || negb (r_incount h =? 0) then Err 9
    else if c_rak c then Err 10
    else if 0 <? c_nmsgs c then Err 11
    else Ok tt
  else Err 12.

Definition obytes_eq (a b : option bytes) : bool :=
  match a, b with
  | None, None => true
  | Some x, Some y => bytes_eqb x y
  | _, _ => false
  end.
Definition crh_eqb (a b : crh) : bool :=
  (r_round a =? r_round b) && bytes_eqb (r_prev a) (r_prev b) && obytes_eq (r_io a) (r_io b)
  && obytes_eq (r_state a) (r_state b) && obytes_eq (r_msgs a) (r_msgs b)
  && obytes_eq (r_inmsgs a) (r_inmsgs b) && (r_incount a =? r_incount b).
(* ExecutorCommitmentHeader.MostlyEqual (executor.go:140-147), EncodedHash taken as injective *)
Definition mostly_equal (a b : ecommit) : bool :=
  (c_failure a =? c_failure b) && crh_eqb (c_hdr a) (c_hdr b).

(* the header comparison of api.go:312-325 *)
Definition headers_conflict (a b : ecommit) : res unit :=
  if (c_failure a =? 0) && (c_failure b =? 0) then
    let ha := c_hdr a in let hb := c_hdr b in
    (* && evaluates left to right and stops at the first false *)
    if negb (bytes_eqb (r_prev ha) (r_prev hb)) then Ok tt else
    rbind (hash_equal (r_io ha) (r_io hb)) (fun e1 =>
    if negb e1 then Ok tt else
    rbind (hash_equal (r_state ha) (r_state hb)) (fun e2 =>
    if negb e2 then Ok tt else
    rbind (hash_equal (r_msgs ha) (r_msgs hb)) (fun e3 =>
    if e3 then Err V_MATCH else Ok tt)))
  else if c_failure a =? c_failure b then Err V_MATCH else Ok tt.

Definition prechecks (a b : ecommit) : res unit :=
  if mostly_equal a b then Err V_EQUAL
  else if negb (bytes_eqb (c_node a) (c_node b)) then Err V_NODE
  else if negb (bytes_eqb (c_sched a) (c_sched b)) then Err V_SCHED
  else if negb (r_round (c_hdr a) =? r_round (c_hdr b)) then Err V_ROUND
  else if (0 <? c_nmsgs a) || (0 <? c_nmsgs b) then Err V_MSGS
  else Ok tt.

Definition validate_commits (a b : ecommit) : res unit :=
  match commit_validate_basic a with
  | Err _ => Err V_COMMIT_A
  | Panic => Panic
  | Ok _ => match commit_validate_basic b with Err _ => Err V_COMMIT_B | Panic => Panic | Ok _ => Ok tt end
  end.

(* api.go:281-336 in the order of the source: field validation BEFORE the comparisons *)
Definition evidence_validate_basic (sigs_ok : bool) (a b : ecommit) : res unit :=
  rbind (prechecks a b) (fun _ =>
  rbind (validate_commits a b) (fun _ =>
  rbind (headers_conflict a b) (fun _ =>
  if sigs_ok then Ok tt else Err V_SIG))).

(* the same statements with the comparisons FIRST (the order the model must not have) *)
Definition evidence_validate_basic_reordered (sigs_ok : bool) (a b : ecommit) : res unit :=
  rbind (prechecks a b) (fun _ =>
  rbind (headers_conflict a b) (fun _ =>
  rbind (validate_commits a b) (fun _ =>
  if sigs_ok then Ok tt else Err V_SIG))).

(* the order of the calls as they must appear in the source (see Gen.MiscConsts.evidence_vb_order) *)
Definition evidence_vb_order_expected : list N := [1; 2; 2; 3; 3; 3; 4; 4].
