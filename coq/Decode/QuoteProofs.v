(* Totality and boundedness of the PCS quote parser model (Quote.v). *)
From Verif Require Import Lib.Base Decode.GoSlice Decode.GoSliceFacts Decode.Quote Gen.QuoteConsts.

Lemma gen_quote_layout_expected :
  quoteHeaderLen = 48 /\ reportBodySgxLen = 384 /\ reportBodyTdLen = 584 /\
  quoteSigSizeLen = 4 /\ quoteSigEcdsaP256MinLen = 584 /\ ppidDataLen = 404 /\
  quoteVersionV3 = 3 /\ quoteVersionV4 = 4 /\ MrEnclaveSize = 32 /\ MrSignerSize = 32.
Proof. repeat split; reflexivity. Qed.

Ltac qconsts := unfold quoteHeaderLen, reportBodySgxLen, reportBodyTdLen, quoteSigSizeLen,
  quoteSigEcdsaP256MinLen, ppidDataLen, MrEnclaveSize, MrSignerSize in *.

Lemma le64_ok b : 8 <= glen b -> exists v, le64 b = Ok v.
Proof. intros H. unfold le64. destruct (glen b <? 8) eqn:E; [lia|]. eexists. reflexivity. Qed.

Lemma bind_assoc {A B C} (m : M A) (g : A -> M B) (f : B -> M C) s :
  bind (bind m g) f s = bind m (fun x => bind (g x) f) s.
Proof. unfold bind. destruct (m s) as [[a|e|] s']; reflexivity. Qed.

(* the reads: in range => Ok, never Panic, no allocation *)
Lemma rd16_ok data off s : off + 2 <= glen data -> exists v, rd16 data off s = (Ok v, s).
Proof.
  intros H. unfold rd16, slice_from. rewrite slice_ok by lia. rewrite bind_lift_ok.
  rewrite le16_ok by (rewrite glen_sl; lia). eexists. reflexivity.
Qed.
Lemma rd32_ok data off s : off + 4 <= glen data -> exists v, rd32 data off s = (Ok v, s).
Proof.
  intros H. unfold rd32, slice_from. rewrite slice_ok by lia. rewrite bind_lift_ok.
  rewrite le32_ok by (rewrite glen_sl; lia). eexists. reflexivity.
Qed.
Lemma rd64_ok data off s : off + 8 <= glen data -> exists v, rd64 data off s = (Ok v, s).
Proof.
  intros H. unfold rd64, slice_from. rewrite slice_ok by lia. rewrite bind_lift_ok.
  destruct (le64_ok (sl data off (glen data))) as [v Hv]; [rewrite glen_sl; lia|].
  rewrite Hv. eexists. reflexivity.
Qed.
Lemma cp_ok n data off s : off <= glen data -> exists v, cp n data off s = (Ok v, s).
Proof.
  intros H. unfold cp, slice_from. rewrite slice_ok by lia. rewrite bind_lift_ok.
  eexists. reflexivity.
Qed.

Lemma bind_ok {A B} (m : M A) (f : A -> M B) s a s' : m s = (Ok a, s') -> bind m f s = f a s'.
Proof. intros H. unfold bind. rewrite H. reflexivity. Qed.

(* generic outcome predicate: not Panic, allocation bounded by [b] *)
Definition safe {A} (b : N) (s : N) (out : res A * N) : Prop :=
  match out with
  | (Ok _, s') => s' <= s + b
  | (Err _, s') => s' <= s + b
  | (Panic, _) => False
  end.

Lemma safe_fail {A} b s s1 e : s1 <= s + b -> @safe A b s (fail e s1).
Proof. cbn. lia. Qed.
Lemma safe_ret {A} b s s1 (a : A) : s1 <= s + b -> safe b s (ret a s1).
Proof. cbn. lia. Qed.

(* a call to a sub-parser from state s1 inside a computation started at s *)
Lemma safe_bind2 {A B} (m : M A) (f : A -> M B) b1 b s s1 :
  safe b1 s1 (m s1) -> s1 + b1 <= s + b ->
  (forall a s2, s2 <= s1 + b1 -> safe b s (f a s2)) ->
  safe b s (bind m f s1).
Proof.
  intros Hm Hle Hf. unfold bind. destruct (m s1) as [[a|e|] s2] eqn:E; cbn in Hm.
  - apply Hf. exact Hm.
  - cbn. lia.
  - contradiction.
Qed.

Lemma safe_bind {A B} (m : M A) (f : A -> M B) b1 b2 s :
  safe b1 s (m s) -> (forall a s', s' <= s + b1 -> safe b2 s' (f a s')) ->
  safe (b1 + b2) s (bind m f s).
Proof.
  intros Hm Hf. unfold bind. destruct (m s) as [[a|e|] s'] eqn:E; cbn in Hm.
  - specialize (Hf a s' Hm). destruct (f a s') as [[x|x|] s2]; cbn in *; lia.
  - cbn. lia.
  - contradiction.
Qed.

Lemma safe_weaken {A} b b' s (out : res A * N) : b <= b' -> safe b s out -> safe b' s out.
Proof. intros H. destruct out as [[a|e|] s']; cbn; first [lia | tauto]. Qed.

(* one step through a read that is in range *)
Ltac rd_step H :=
  match goal with
  | |- safe _ _ (bind (rd16 ?d ?o) _ ?s) =>
      let v := fresh "v" in destruct (rd16_ok d o s H) as [v ?E]; rewrite (bind_ok _ _ _ _ _ E); clear E
  | |- safe _ _ (bind (rd32 ?d ?o) _ ?s) =>
      let v := fresh "v" in destruct (rd32_ok d o s H) as [v ?E]; rewrite (bind_ok _ _ _ _ _ E); clear E
  | |- safe _ _ (bind (rd64 ?d ?o) _ ?s) =>
      let v := fresh "v" in destruct (rd64_ok d o s H) as [v ?E]; rewrite (bind_ok _ _ _ _ _ E); clear E
  end.

Ltac step :=
  lazymatch goal with
  | |- safe _ _ ((if ?c then _ else _) _) => destruct c eqn:?
  | |- safe _ _ (fail _ _) => apply safe_fail; qconsts; lia
  | |- safe _ _ (ret _ _) => apply safe_ret; qconsts; lia
  | |- safe _ _ (bind (alloc _) _ _) => rewrite bind_alloc
  | |- safe _ _ (bind (rd16 ?d ?o) _ ?s) =>
      let v := fresh "v" in let E := fresh "E" in
      destruct (rd16_ok d o s) as [v E]; [qconsts; lia|]; rewrite (bind_ok _ _ _ _ _ E); clear E
  | |- safe _ _ (bind (rd32 ?d ?o) _ ?s) =>
      let v := fresh "v" in let E := fresh "E" in
      destruct (rd32_ok d o s) as [v E]; [qconsts; lia|]; rewrite (bind_ok _ _ _ _ _ E); clear E
  | |- safe _ _ (bind (rd64 ?d ?o) _ ?s) =>
      let v := fresh "v" in let E := fresh "E" in
      destruct (rd64_ok d o s) as [v E]; [qconsts; lia|]; rewrite (bind_ok _ _ _ _ _ E); clear E
  | |- safe _ _ (bind (cp ?n ?d ?o) _ ?s) =>
      let v := fresh "v" in let E := fresh "E" in
      destruct (cp_ok n d o s) as [v E]; [qconsts; lia|]; rewrite (bind_ok _ _ _ _ _ E); clear E
  | |- safe _ _ (bind (lift (slice ?a ?i ?j)) _ _) =>
      rewrite (slice_ok a i j) by (qconsts; lia); rewrite bind_lift_ok
  | |- safe _ _ (bind (lift (slice_from ?a ?i)) _ _) =>
      unfold slice_from; rewrite (slice_ok a i (glen a)) by (qconsts; lia); rewrite bind_lift_ok
  | |- safe _ _ (bind (lift (Ok _)) _ _) => rewrite bind_lift_ok
  end.

Ltac call L := eapply (safe_bind2 _ _ 0); [apply L | qconsts; lia | intros ? ? ?].

(* ---------- leaf parsers: no allocation ---------- *)
Lemma header_v3_safe data s : safe 0 s (header_v3 data s).
Proof.
  unfold header_v3. step; [step|]. assert (glen data = 48) by (qconsts; lia).
  repeat step.
Qed.

Lemma header_v4_safe data s : safe 0 s (header_v4 data s).
Proof.
  unfold header_v4. step; [step|]. assert (glen data = 48) by (qconsts; lia).
  repeat step.
Qed.

Lemma sgx_report_safe data s : safe 0 s (sgx_report data s).
Proof.
  unfold sgx_report. step; [step|]. assert (384 <= glen data) by (qconsts; lia).
  repeat step.
Qed.

Lemma td_attributes_safe data s : safe 0 s (td_attributes data s).
Proof.
  unfold td_attributes. step; [step|]. assert (glen data = 8) by lia.
  step. destruct (le64_ok (sl data 0 (glen data))) as [v Hv]; [rewrite glen_sl; lia|].
  rewrite Hv, bind_lift_ok. repeat step.
Qed.

Lemma td_report_safe data s : safe 0 s (td_report data s).
Proof.
  unfold td_report. step; [step|]. assert (584 <= glen data) by (qconsts; lia).
  do 5 step.
  call td_attributes_safe. repeat step.
Qed.

Lemma ppid_safe data s : safe 0 s (ppid data s).
Proof.
  unfold ppid. step; [step|]. assert (glen data = 404) by (qconsts; lia).
  repeat step.
Qed.

Lemma pck_chain_safe pem_ok data s : safe 0 s (pck_chain pem_ok data s).
Proof. unfold pck_chain. repeat step. Qed.

(* ---------- QE report certification data: allocates the authentication data ---------- *)
Lemma qe_report_safe pem_ok data s : safe (glen data) s (qe_report pem_ok data s).
Proof.
  unfold qe_report. step; [step|]. assert (384 <= glen data) by (qconsts; lia).
  step. call sgx_report_safe.
  repeat step.
  - eapply (safe_bind2 _ _ 0); [apply ppid_safe | qconsts; lia | intros [p1 p2] ? ?]. step.
  - eapply (safe_bind2 _ _ 0); [apply pck_chain_safe | qconsts; lia | intros ? ? ?]. step.
Qed.
