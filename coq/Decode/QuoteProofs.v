(* Totality and boundedness of the PCS quote parser model (Quote.v). *)
From Verif Require Import Lib.Base Decode.GoSlice Decode.GoSliceFacts Decode.Quote Gen.QuoteConsts.

Lemma gen_quote_layout_expected :
  quoteHeaderLen = 48 /\ reportBodySgxLen = 384 /\ reportBodyTdLen = 584 /\
  quoteSigSizeLen = 4 /\ quoteSigEcdsaP256MinLen = 584 /\ ppidDataLen = 404 /\
  quoteVersionV3 = 3 /\ quoteVersionV4 = 4 /\ MrEnclaveSize = 32 /\ MrSignerSize = 32.
Proof. repeat split; reflexivity. Qed.

Ltac qconsts := unfold quoteHeaderLen, reportBodySgxLen, reportBodyTdLen, quoteSigSizeLen,
  quoteSigEcdsaP256MinLen, ppidDataLen, MrEnclaveSize, MrSignerSize in *.

Lemma le64_ok b : 8 <= glen b -> exists v, le64 b = Ok v.
Proof. intros H. unfold le64. destruct (glen b <? 8) eqn:E; [lia|]. eexists. reflexivity. Qed.

Lemma bind_assoc {A B C} (m : M A) (g : A -> M B) (f : B -> M C) s :
  bind (bind m g) f s = bind m (fun x => bind (g x) f) s.
Proof. unfold bind. destruct (m s) as [[a|e|] s']; reflexivity. Qed.

(* the reads: in range => Ok, never Panic, no allocation *)
Lemma rd16_ok data off s : off + 2 <= glen data -> exists v, rd16 data off s = (Ok v, s).
Proof.
  intros H. unfold rd16, slice_from. rewrite slice_ok by lia. rewrite bind_lift_ok.
  rewrite le16_ok by (rewrite glen_sl; lia). eexists. reflexivity.
Qed.
Lemma rd32_ok data off s : off + 4 <= glen data -> exists v, rd32 data off s = (Ok v, s).
Proof.
  intros H. unfold rd32, slice_from. rewrite slice_ok by lia. rewrite bind_lift_ok.
  rewrite le32_ok by (rewrite glen_sl; lia). eexists. reflexivity.
Qed.
Lemma rd64_ok data off s : off + 8 <= glen data -> exists v, rd64 data off s = (Ok v, s).
Proof.
  intros H. unfold rd64, slice_from. rewrite slice_ok by lia. rewrite bind_lift_ok.
  destruct (le64_ok (sl data off (glen data))) as [v Hv]; [rewrite glen_sl; lia|].
  rewrite Hv. eexists. reflexivity.
Qed.
Lemma cp_ok n data off s : off <= glen data -> exists v, cp n data off s = (Ok v, s).
Proof.
  intros H. unfold cp, slice_from. rewrite slice_ok by lia. rewrite bind_lift_ok.
  eexists. reflexivity.
Qed.

Lemma bind_ok {A B} (m : M A) (f : A -> M B) s a s' : m s = (Ok a, s') -> bind m f s = f a s'.
Proof. intros H. unfold bind. rewrite H. reflexivity. Qed.

(* generic outcome predicate: not Panic, allocation bounded by [b], and [P] on the value *)
Definition safe {A} (P : A -> Prop) (b : N) (s : N) (out : res A * N) : Prop :=
  match out with
  | (Ok a, s') => s' <= s + b /\ P a
  | (Err _, s') => s' <= s + b
  | (Panic, _) => False
  end.
Definition anyv {A} : A -> Prop := fun _ => True.

Lemma safe_fail {A} (P : A -> Prop) b s s1 e : s1 <= s + b -> safe P b s (fail e s1).
Proof. cbn. lia. Qed.
Lemma safe_err {A} (P : A -> Prop) b s s1 e : s1 <= s + b -> safe P b s (Err e, s1).
Proof. cbn. lia. Qed.
Lemma safe_ret {A} (P : A -> Prop) b s s1 (a : A) : s1 <= s + b -> P a -> safe P b s (ret a s1).
Proof. cbn. tauto. Qed.

(* a call to a sub-parser from state s1 inside a computation started at s *)
Lemma safe_bind2 {A B} (Q : A -> Prop) (P : B -> Prop) (m : M A) (f : A -> M B) b1 b s s1 :
  safe Q b1 s1 (m s1) -> s1 + b1 <= s + b ->
  (forall a s2, Q a -> s2 <= s1 + b1 -> safe P b s (f a s2)) ->
  safe P b s (bind m f s1).
Proof.
  intros Hm Hle Hf. unfold bind. destruct (m s1) as [[a|e|] s2] eqn:E; cbn in Hm.
  - apply Hf; tauto.
  - cbn. lia.
  - contradiction.
Qed.

Lemma safe_rebase {A} (Q P : A -> Prop) b1 b s s1 (out : res A * N) :
  safe Q b1 s1 out -> s1 + b1 <= s + b -> (forall a, Q a -> P a) -> safe P b s out.
Proof.
  intros H Hle HQ. destruct out as [[a|e|] s2]; cbn in *; try lia; try tauto.
  destruct H. split; [lia|auto].
Qed.

Ltac step :=
  lazymatch goal with
  | |- safe _ _ _ ((if ?c then _ else _) _) => destruct c eqn:?
  | |- safe _ _ _ (fail _ _) => apply safe_fail; qconsts; lia
  | |- safe _ _ _ (Err _, _) => apply safe_err; qconsts; lia
  | |- safe anyv _ _ (ret _ _) => apply safe_ret; [qconsts; lia | exact I]
  | |- safe _ _ _ (bind (alloc _) _ _) => rewrite bind_alloc
  | |- safe _ _ _ (bind (rd16 ?d ?o) _ ?s) =>
      let v := fresh "v" in let E := fresh "E" in
      destruct (rd16_ok d o s) as [v E]; [qconsts; lia|]; rewrite (bind_ok _ _ _ _ _ E); clear E
  | |- safe _ _ _ (bind (rd32 ?d ?o) _ ?s) =>
      let v := fresh "v" in let E := fresh "E" in
      destruct (rd32_ok d o s) as [v E]; [qconsts; lia|]; rewrite (bind_ok _ _ _ _ _ E); clear E
  | |- safe _ _ _ (bind (rd64 ?d ?o) _ ?s) =>
      let v := fresh "v" in let E := fresh "E" in
      destruct (rd64_ok d o s) as [v E]; [qconsts; lia|]; rewrite (bind_ok _ _ _ _ _ E); clear E
  | |- safe _ _ _ (bind (cp ?n ?d ?o) _ ?s) =>
      let v := fresh "v" in let E := fresh "E" in
      destruct (cp_ok n d o s) as [v E]; [qconsts; lia|]; rewrite (bind_ok _ _ _ _ _ E); clear E
  | |- safe _ _ _ (bind (lift (slice ?a ?i ?j)) _ _) =>
      rewrite (slice_ok a i j) by (qconsts; lia); rewrite bind_lift_ok
  | |- safe _ _ _ (bind (lift (slice_from ?a ?i)) _ _) =>
      unfold slice_from; rewrite (slice_ok a i (glen a)) by (qconsts; lia); rewrite bind_lift_ok
  | |- safe _ _ _ (bind (lift (Ok _)) _ _) => rewrite bind_lift_ok
  | |- safe _ _ _ (bind (ret _) _ _) => rewrite bind_ret
  | |- safe _ _ _ (bind (fail _) _ _) => rewrite bind_fail
  | |- safe _ _ _ (bind (if ?c then _ else _) _ _) => destruct c eqn:?
  | |- safe _ _ _ (bind (bind _ _) _ _) => rewrite bind_assoc
  | |- _ => progress cbv zeta
  end.

Ltac call L := eapply (safe_bind2 anyv _ _ _ 0); [apply L | qconsts; lia | intros ? ? ? ?].

(* ---------- leaf parsers: no allocation ---------- *)
Lemma header_v3_safe data s : safe anyv 0 s (header_v3 data s).
Proof.
  unfold header_v3. step; [step|]. assert (glen data = 48) by (qconsts; lia).
  repeat step.
Qed.

Lemma header_v4_safe data s : safe anyv 0 s (header_v4 data s).
Proof.
  unfold header_v4. step; [step|]. assert (glen data = 48) by (qconsts; lia).
  repeat step.
Qed.

Lemma sgx_report_safe data s : safe anyv 0 s (sgx_report data s).
Proof.
  unfold sgx_report. step; [step|]. assert (384 <= glen data) by (qconsts; lia).
  repeat step.
Qed.

Lemma td_attributes_safe data s : safe anyv 0 s (td_attributes data s).
Proof.
  unfold td_attributes. step; [step|]. assert (glen data = 8) by lia.
  step. destruct (le64_ok (sl data 0 (glen data))) as [v Hv]; [rewrite glen_sl; lia|].
  rewrite Hv, bind_lift_ok. repeat step.
Qed.

Lemma td_report_safe data s : safe anyv 0 s (td_report data s).
Proof.
  unfold td_report. step; [step|]. assert (584 <= glen data) by (qconsts; lia).
  do 5 step.
  call td_attributes_safe. repeat step.
Qed.

Lemma ppid_safe data s : safe anyv 0 s (ppid data s).
Proof.
  unfold ppid. step; [step|]. assert (glen data = 404) by (qconsts; lia).
  repeat step.
Qed.

Lemma pck_chain_safe pem_ok data s : safe anyv 0 s (pck_chain pem_ok data s).
Proof. unfold pck_chain. repeat step. Qed.

(* ---------- QE report certification data: allocates the authentication data ---------- *)
Lemma qe_report_safe pem_ok data s : safe anyv (glen data) s (qe_report pem_ok data s).
Proof.
  unfold qe_report. step; [step|]. assert (384 <= glen data) by (qconsts; lia).
  step. call sgx_report_safe.
  repeat step.
  - eapply (safe_bind2 anyv _ _ _ 0); [apply ppid_safe | qconsts; lia | intros [p1 p2] ? ? ?]. step.
  - call pck_chain_safe. step.
Qed.

(* ---------- ECDSA-P256 quote signature ---------- *)
Lemma sig_ecdsa_safe pem_ok version data s : safe anyv (glen data) s (sig_ecdsa pem_ok version data s).
Proof.
  unfold sig_ecdsa. step; [step|]. assert (584 <= glen data) by (qconsts; lia).
  repeat step.
  - eapply safe_rebase; [apply qe_report_safe | rewrite glen_sl by lia; lia | auto].
  - eapply safe_rebase; [apply qe_report_safe | rewrite glen_sl by lia; lia | auto].
Qed.

(* ---------- Quote.UnmarshalBinaryWithTrailing ---------- *)
Definition quote_value_post (allowTrailing : bool) (data : bytes) (x : quote * N) : Prop :=
  snd x <= glen data /\ (allowTrailing = false -> snd x = glen data).

Lemma quote_tail_safe pem_ok allowTrailing data hdr rep offset s :
  offset + 4 <= glen data ->
  safe (quote_value_post allowTrailing data) (glen data) s
    ((sigLen <- rd32 data offset ;;
      let offset := offset + quoteSigSizeLen in
      if glen data <? offset + sigLen then fail Q_TRAILING else
      if negb allowTrailing && negb (glen data =? offset + sigLen) then fail Q_TRAILING else
      if h_ak hdr =? AttestationKeyECDSA_P256 then
        sd <- lift (slice data offset (offset + sigLen)) ;;
        q <- sig_ecdsa pem_ok (h_version hdr) sd ;;
        ret (mkQuote (h_version hdr) (h_tee hdr) (h_ak hdr) rep q, offset + sigLen)
      else fail Q_AKTYPE) s).
Proof.
  intros Hoff. do 6 step; try step.
  eapply (safe_bind2 anyv); [apply sig_ecdsa_safe | rewrite glen_sl by (qconsts; lia); qconsts; lia |].
  intros q s2 _ Hs2. apply safe_ret; [rewrite glen_sl in Hs2 by (qconsts; lia); qconsts; lia|].
  unfold quote_value_post. cbn [snd]. split; [qconsts; lia|].
  intros ->. cbn [negb andb] in *. qconsts. lia.
Qed.

Lemma quote_unmarshal_safe pem_ok allowTrailing data s :
  safe (quote_value_post allowTrailing data) (glen data) s (quote_unmarshal pem_ok allowTrailing data s).
Proof.
  unfold quote_unmarshal. step; [step|]. assert (436 <= glen data) by (qconsts; lia).
  step. cbv zeta.
  (* header *)
  eapply (safe_bind2 anyv _ _ _ 0); [| lia |].
  { repeat step.
    - eapply safe_rebase; [apply header_v3_safe | lia | auto].
    - eapply safe_rebase; [apply header_v4_safe | lia | auto]. }
  intros hdr s1 _ Hs1. step; [step|].
  (* report body *)
  eapply (safe_bind2 (fun x : option report * N => snd x + 4 <= glen data) _ _ _ 0); [| lia |].
  { step; [|step; [|]].
    - step. call sgx_report_safe. apply safe_ret; [lia | cbn [snd]; qconsts; lia].
    - step; [step|]. step. call td_report_safe. apply safe_ret; [lia | cbn [snd]; qconsts; lia].
    - apply safe_ret; [lia | cbn [snd]; qconsts; lia]. }
  intros [rep offset] s2 Hoff Hs2. cbn [snd] in Hoff.
  eapply safe_rebase; [apply (quote_tail_safe pem_ok allowTrailing data hdr rep offset s2 Hoff) | | auto].
  lia.
Qed.

(* ---------- exported statements ---------- *)
Lemma decode_quote_total_l : forall pem_ok trailing b s,
  fst (quote_unmarshal pem_ok trailing b s) <> Panic.
Proof.
  intros pem_ok trailing b s. pose proof (quote_unmarshal_safe pem_ok trailing b s) as H.
  destruct (quote_unmarshal pem_ok trailing b s) as [[a|e|] s1]; cbn in *; try discriminate.
  contradiction.
Qed.


Lemma decode_quote_bounded_l : forall pem_ok trailing b s,
  snd (quote_unmarshal pem_ok trailing b s) <= s + glen b /\
  (forall q n s', quote_unmarshal pem_ok trailing b s = (Ok (q, n), s') ->
     n <= glen b /\ (trailing = false -> n = glen b)).
Proof.
  intros pem_ok trailing b s. pose proof (quote_unmarshal_safe pem_ok trailing b s) as H.
  split.
  - destruct (quote_unmarshal pem_ok trailing b s) as [[a|e|] s1]; cbn in *; first [lia | contradiction].
  - intros q n s' E. rewrite E in H. cbn in H. unfold quote_value_post in H. cbn [snd] in H. tauto.
Qed.

Lemma decode_quote_parts_total_l : forall pem_ok version b s,
  fst (header_v3 b s) <> Panic /\ fst (header_v4 b s) <> Panic /\
  fst (sgx_report b s) <> Panic /\ fst (td_report b s) <> Panic /\
  fst (ppid b s) <> Panic /\ fst (qe_report pem_ok b s) <> Panic /\
  fst (sig_ecdsa pem_ok version b s) <> Panic.
Proof.
  intros pem_ok version b s.
  pose proof (header_v3_safe b s) as H1. pose proof (header_v4_safe b s) as H2.
  pose proof (sgx_report_safe b s) as H3. pose proof (td_report_safe b s) as H4.
  pose proof (ppid_safe b s) as H5. pose proof (qe_report_safe pem_ok b s) as H6.
  pose proof (sig_ecdsa_safe pem_ok version b s) as H7.
  repeat split.
  - destruct (header_v3 b s) as [[?|?|] ?]; cbn in *; try discriminate; contradiction.
  - destruct (header_v4 b s) as [[?|?|] ?]; cbn in *; try discriminate; contradiction.
  - destruct (sgx_report b s) as [[?|?|] ?]; cbn in *; try discriminate; contradiction.
  - destruct (td_report b s) as [[?|?|] ?]; cbn in *; try discriminate; contradiction.
  - destruct (ppid b s) as [[?|?|] ?]; cbn in *; try discriminate; contradiction.
  - destruct (qe_report pem_ok b s) as [[?|?|] ?]; cbn in *; try discriminate; contradiction.
  - destruct (sig_ecdsa pem_ok version b s) as [[?|?|] ?]; cbn in *; try discriminate; contradiction.
Qed.

(* a quote whose declared signature length exceeds the input is an error *)
Example quote_huge_siglen_is_err :
  fst (run (quote_unmarshal true false
    ([3; 0; 2; 0; 0; 0; 0; 0; 0; 0; 0; 0] ++ QEVendorID_Intel ++ repeat 0 20 ++ repeat 0 384
       ++ [255; 255; 255; 255]))) = Err Q_TRAILING.
Proof. vm_compute. reflexivity. Qed.
