(* decode (encode n) = Ok (n, length (encode n)) for well-formed nodes. *)
From Verif Require Import Lib.Base Decode.GoSlice Decode.GoSliceFacts Decode.Node Decode.NodeProofs
  Gen.DecodeConsts.

Lemma sl_at a b c i j : i = glen a -> j = glen a + glen b -> sl (a ++ b ++ c) i j = b.
Proof.
  intros -> ->. rewrite sl_shift by lia.
  replace (glen a - glen a) with 0 by lia.
  replace (glen a + glen b - glen a) with (glen b) by lia.
  apply sl_app_l. reflexivity.
Qed.

Lemma sl_tail a b j : j = glen (a ++ b) -> sl (a ++ b) (glen a) j = b.
Proof.
  intros ->. rewrite sl_shift by lia. rewrite glen_app.
  replace (glen a - glen a) with 0 by lia.
  replace (glen a + glen b - glen a) with (glen b) by lia. apply sl_all.
Qed.

Lemma le16v_app a b : 2 <= glen a -> le16v (a ++ b) = le16v a.
Proof.
  intros H. unfold le16v. destruct a as [|x [|y a]]; cbn in H; try lia. reflexivity.
Qed.

Ltac gl := repeat first [rewrite glen_put16 | rewrite glen_put32 | rewrite glen_app | rewrite glen_cons | rewrite glen_nil]; lia.
Ltac sidec := first [ reflexivity
                    | unfold key_marshal; rewrite ?glen_cons, ?glen_app, ?glen_put16, ?glen_put32; lia ].

(* ---------- keys ---------- *)
Definition wf_key (k : bytes) : Prop := glen k < 65536.

Lemma key_rt k rest s : wf_key k ->
  key_sized_unmarshal (key_marshal k ++ rest) s = (Ok (k, 2 + glen k), s + glen k).
Proof.
  unfold wf_key. intros Hk.
  pose proof (key_spec (key_marshal k ++ rest) s) as HS.
  unfold key_marshal in *. rewrite <- app_assoc in *.
  assert (le16v (put16 (glen k) ++ k ++ rest) = glen k) as Hle by (apply le16v_put16; exact Hk).
  assert (glen (put16 (glen k) ++ k ++ rest) = 2 + glen k + glen rest) as Hlen
    by (rewrite !glen_app, glen_put16; lia).
  (* rule out the error branches by running the decoder's checks *)
  unfold key_sized_unmarshal in *. unfold DepthSize in *.
  rewrite Hlen in *.
  destruct (2 + glen k + glen rest <? 2) eqn:H1; [lia|].
  rewrite slice_ok in * by lia. rewrite bind_lift_ok in *.
  rewrite le16_ok in * by (rewrite glen_sl; lia). rewrite bind_lift_ok in *.
  rewrite le16v_sl in * by lia. rewrite Hle in *.
  destruct (2 + glen k + glen rest <? 2 + glen k) eqn:H2; [lia|].
  destruct (0 <? glen k) eqn:H3.
  - rewrite bind_alloc in *. rewrite slice_ok in * by lia. rewrite bind_lift_ok in *.
    cbn [ret]. rewrite (sl_at (put16 (glen k)) k rest); [|sidec..].
    rewrite gcopy_zeros. reflexivity.
  - cbn [ret]. assert (glen k = 0) as Hz by lia.
    destruct k; [|rewrite glen_cons in Hz; lia]. rewrite !glen_nil, !N.add_0_r. reflexivity.
Qed.

(* ---------- leaves ---------- *)
Definition wf_leaf (l : leaf) : Prop := glen (lkey l) < 65536 /\ glen (lvalue l) < 4294967296.


Lemma leaf_rt l rest s : wf_leaf l ->
  leaf_sized_unmarshal (leaf_marshal l ++ rest) s
  = (Ok (l, 7 + glen (lkey l) + glen (lvalue l)), s + glen (lkey l) + glen (lvalue l)).
Proof.
  destruct l as [k v]. unfold wf_leaf. cbn [lkey lvalue]. intros [Hk Hv].
  unfold leaf_marshal. cbn [lkey lvalue]. unfold PrefixLeafNode.
  set (tail := put32 (glen v) ++ v ++ rest).
  assert (([0] ++ key_marshal k ++ put32 (glen v) ++ v) ++ rest = 0 :: key_marshal k ++ tail) as Hd.
  { unfold tail. cbn [app]. rewrite <- !app_assoc. reflexivity. }
  rewrite Hd.
  assert (glen (key_marshal k ++ tail) = 2 + glen k + 4 + glen v + glen rest) as Hlen.
  { unfold tail, key_marshal. rewrite !glen_app, glen_put16, glen_put32. lia. }
  unfold leaf_sized_unmarshal, slice_from. unfold DepthSize, ValueLengthSize, PrefixLeafNode.
  rewrite !glen_cons, !Hlen.
  destruct (1 + (2 + glen k + 4 + glen v + glen rest) <? 1 + 2 + 4) eqn:H1; [lia|].
  rewrite index_ok by (rewrite ?glen_cons, ?Hlen; lia). rewrite bind_lift_ok.
  cbn [N.to_nat nth negb N.eqb].
  change (negb (0 =? 0)) with false. cbn iota.
  rewrite slice_ok by (rewrite ?glen_cons, ?Hlen; lia). rewrite bind_lift_ok.
  rewrite sl_cons by lia.
  replace (1 - 1) with 0 by lia.
  replace (1 + (2 + glen k + 4 + glen v + glen rest) - 1) with (glen (key_marshal k ++ tail)) by lia.
  rewrite sl_all.
  rewrite bind_unfold, key_rt by exact Hk.
  cbv beta iota.
  destruct (1 + (2 + glen k + 4 + glen v + glen rest) <? 1 + (2 + glen k) + 4) eqn:H2; [lia|].
  rewrite slice_ok by (rewrite ?glen_cons, ?Hlen; lia). rewrite bind_lift_ok.
  assert (sl (0 :: key_marshal k ++ tail) (1 + (2 + glen k)) (1 + (2 + glen k) + 4) = put32 (glen v)) as Hs1.
  { rewrite sl_cons by lia. unfold tail.
    apply sl_at; sidec. }
  rewrite Hs1. rewrite le32_ok by (rewrite glen_put32; lia). rewrite bind_lift_ok.
  assert (le32v (put32 (glen v)) = glen v) as Hv32.
  { rewrite <- (app_nil_r (put32 (glen v))). apply le32v_put32. exact Hv. }
  rewrite Hv32.
  destruct (1 + (2 + glen k + 4 + glen v + glen rest) <? 1 + (2 + glen k) + 4 + glen v) eqn:H3; [lia|].
  rewrite bind_alloc. rewrite slice_ok by (rewrite ?glen_cons, ?Hlen; lia). rewrite bind_lift_ok.
  assert (sl (0 :: key_marshal k ++ tail) (1 + (2 + glen k) + 4) (1 + (2 + glen k) + 4 + glen v) = v) as Hs2.
  { rewrite sl_cons by lia. unfold tail. rewrite !app_assoc. rewrite <- (app_assoc _ v rest).
    apply sl_at; sidec. }
  rewrite Hs2, gcopy_zeros. cbn [ret].
  replace (1 + (2 + glen k) + 4 + glen v) with (7 + glen k + glen v) by lia. reflexivity.
Qed.

(* ---------- internal nodes ---------- *)
Definition wf_ohash (o : option bytes) : Prop :=
  match o with Some h => glen h = 32 /\ hash_is_empty h = false | None => True end.
Definition wf_oleaf (o : option leaf) : Prop :=
  match o with Some l => wf_leaf l | None => True end.
Definition wf_inode (n : inode) : Prop :=
  ilbl n < 65536 /\ glen (ilabel n) = depth_to_bytes (ilbl n) /\
  wf_oleaf (ileaf n) /\ wf_ohash (ileft n) /\ wf_ohash (iright n).

Lemma index_mid a x b i : i = glen a -> index (a ++ x :: b) i = Ok x.
Proof.
  intros ->. rewrite index_ok by gl.
  rewrite nth_N_app_r by lia. replace (glen a - glen a) with 0 by lia. reflexivity.
Qed.

Lemma ileaf_rt pre lf post s : wf_oleaf lf ->
  inode_leaf (pre ++ leaf_or_nil lf ++ post) (glen pre) s
  = (Ok (lf, glen pre + glen (leaf_or_nil lf)), s + oleaf_size lf).
Proof.
  intros Hwf. unfold inode_leaf. destruct lf as [l|]; cbn [leaf_or_nil oleaf_size wf_oleaf] in *.
  - unfold leaf_marshal at 1. unfold PrefixLeafNode, PrefixNilNode. cbn [app].
    rewrite index_mid by reflexivity. rewrite bind_lift_ok.
    change (0 =? 2) with false. cbn iota.
    unfold slice_from. rewrite slice_ok by gl.
    rewrite bind_lift_ok.
    change (0 :: (key_marshal (lkey l) ++ put32 (glen (lvalue l)) ++ lvalue l) ++ post)
      with (leaf_marshal l ++ post).
    rewrite sl_tail by reflexivity.
    rewrite bind_unfold, wrap_unfold, leaf_rt by exact Hwf.
    cbn [ret]. unfold leaf_size.
    assert (glen (leaf_marshal l) = 7 + glen (lkey l) + glen (lvalue l)) as Hl.
    { unfold leaf_marshal, key_marshal. rewrite !glen_app, glen_put16, glen_put32. cbn. lia. }
    rewrite Hl. unfold ret. f_equal. lia.
  - unfold PrefixNilNode. cbn [app]. rewrite index_mid by reflexivity. rewrite bind_lift_ok.
    change (2 =? 2) with true. unfold ret. change (glen [2]) with 1. rewrite N.add_0_r. reflexivity.
Qed.

Definition dec_hash (h : bytes) : option bytes := if hash_is_empty h then None else Some h.

Lemma dec_hash_or_empty o : wf_ohash o -> dec_hash (hash_or_empty o) = o.
Proof.
  destruct o as [h|]; cbn [wf_ohash hash_or_empty]; unfold dec_hash.
  - intros [_ ->]. reflexivity.
  - intros _. reflexivity.
Qed.

Lemma hashes_rt_full pre hl hr lbl label lf s :
  glen hl = 32 -> glen hr = 32 ->
  inode_hashes (pre ++ hl ++ hr) lbl label lf (glen pre) s
  = (Ok (mkInode lbl label lf (dec_hash hl) (dec_hash hr), glen pre + 64), s).
Proof.
  intros Hl Hr. unfold inode_hashes, hash_unmarshal. unfold HashSize.
  assert (glen (pre ++ hl ++ hr) = glen pre + 64) as Hlen by (rewrite !glen_app; lia).
  rewrite Hlen.
  destruct (glen pre + 32 * 2 <=? glen pre + 64) eqn:H1; [|lia].
  rewrite slice_ok by lia. rewrite bind_lift_ok.
  rewrite (sl_at pre hl hr) by lia.
  rewrite bind_unfold, wrap_unfold. rewrite Hl. change (negb (32 =? 32)) with false. cbn [ret].
  rewrite slice_ok by lia. rewrite bind_lift_ok.
  replace (pre ++ hl ++ hr) with ((pre ++ hl) ++ hr ++ []) by (rewrite app_nil_r, app_assoc; reflexivity).
  rewrite (sl_at (pre ++ hl) hr []) by (rewrite glen_app; lia).
  rewrite bind_unfold, wrap_unfold. rewrite Hr. change (negb (32 =? 32)) with false. cbn [ret].
  unfold dec_hash, ret. replace (glen pre + 32 + 32) with (glen pre + 64) by lia. reflexivity.
Qed.

Lemma hashes_rt_compact data lbl label lf s :
  inode_hashes data lbl label lf (glen data) s = (Ok (mkInode lbl label lf None None, glen data), s).
Proof.
  unfold inode_hashes. unfold HashSize.
  destruct (glen data + 32 * 2 <=? glen data) eqn:H1; [lia|]. reflexivity.
Qed.

Lemma glen_leaf_or_nil lf : 1 <= glen (leaf_or_nil lf).
Proof.
  destruct lf; cbn [leaf_or_nil]; [unfold leaf_marshal; rewrite glen_app|]; cbn; lia.
Qed.

(* the common prefix of the three encodings: decoding up to the hashes *)
Lemma inode_prefix_rt n tailb s : wf_inode n ->
  inode_sized_unmarshal
    ([PrefixInternalNode] ++ depth_marshal (ilbl n) ++ ilabel n ++ leaf_or_nil (ileaf n) ++ tailb) s
  = inode_hashes
      ([PrefixInternalNode] ++ depth_marshal (ilbl n) ++ ilabel n ++ leaf_or_nil (ileaf n) ++ tailb)
      (ilbl n) (ilabel n) (ileaf n)
      (3 + glen (ilabel n) + glen (leaf_or_nil (ileaf n)))
      (s + glen (ilabel n) + oleaf_size (ileaf n)).
Proof.
  destruct n as [lbl label lf l r]. unfold wf_inode. cbn [ilbl ilabel ileaf ileft iright].
  intros (Hlbl & Hlab & Hlf & _ & _).
  unfold depth_marshal, PrefixInternalNode. cbn [app].
  set (data := 1 :: put16 lbl ++ label ++ leaf_or_nil lf ++ tailb).
  pose proof (glen_leaf_or_nil lf) as Hln.
  assert (glen data = 3 + glen label + glen (leaf_or_nil lf) + glen tailb) as Hlen.
  { unfold data. rewrite glen_cons, !glen_app, glen_put16. lia. }
  unfold inode_sized_unmarshal, slice_from. unfold DepthSize, PrefixInternalNode.
  rewrite !Hlen.
  destruct (3 + glen label + glen (leaf_or_nil lf) + glen tailb <? 1 + 2 + 1) eqn:H1; [lia|].
  rewrite index_ok by lia. rewrite bind_lift_ok.
  change (nth (N.to_nat 0) data 0) with 1. change (negb (1 =? 1)) with false. cbn iota.
  rewrite slice_ok by lia. rewrite bind_lift_ok.
  rewrite bind_unfold, wrap_unfold.
  pose proof (depth_spec (sl data (0 + 1) (3 + glen label + glen (leaf_or_nil lf) + glen tailb)) s) as HD.
  assert (sl data (0 + 1) (3 + glen label + glen (leaf_or_nil lf) + glen tailb)
          = put16 lbl ++ label ++ leaf_or_nil lf ++ tailb) as Hrest.
  { unfold data. rewrite sl_cons by lia. rewrite <- Hlen. unfold data.
    rewrite glen_cons. replace (0 + 1 - 1) with 0 by lia.
    replace (1 + glen (put16 lbl ++ label ++ leaf_or_nil lf ++ tailb) - 1)
      with (glen (put16 lbl ++ label ++ leaf_or_nil lf ++ tailb)) by lia.
    apply sl_all. }
  rewrite Hrest in *.
  destruct (depth_unmarshal (put16 lbl ++ label ++ leaf_or_nil lf ++ tailb) s) as [[[lbl' n0]|e|] s1];
    cbn [depth_post] in HD; [| destruct HD as (_ & _ & Hshort); rewrite !glen_app, glen_put16 in Hshort; lia
                             | contradiction].
  destruct HD as (_ & _ & -> & ->).
  rewrite le16v_put16 by exact Hlbl.
  rewrite <- Hlab.
  destruct (3 + glen label + glen (leaf_or_nil lf) + glen tailb <? 0 + 1 + 2 + glen label) eqn:H2; [lia|].
  rewrite bind_alloc. rewrite slice_ok by lia. rewrite bind_lift_ok.
  assert (sl data (0 + 1 + 2) (0 + 1 + 2 + glen label) = label) as Hsl.
  { unfold data. change (1 :: put16 lbl ++ label ++ leaf_or_nil lf ++ tailb)
      with ((1 :: put16 lbl) ++ label ++ leaf_or_nil lf ++ tailb).
    apply sl_at; cbn; lia. }
  rewrite Hsl, gcopy_zeros.
  destruct (3 + glen label + glen (leaf_or_nil lf) + glen tailb <=? 0 + 1 + 2 + glen label) eqn:H3; [lia|].
  rewrite bind_unfold.
  assert (data = (1 :: put16 lbl ++ label) ++ leaf_or_nil lf ++ tailb) as Hd2.
  { unfold data. cbn [app]. rewrite <- !app_assoc. reflexivity. }
  assert (0 + 1 + 2 + glen label = glen (1 :: put16 lbl ++ label)) as Hp.
  { rewrite glen_cons, glen_app, glen_put16. lia. }
  rewrite Hp. rewrite Hd2 at 1. rewrite ileaf_rt by exact Hlf.
  cbv beta iota. rewrite <- Hp.
  f_equal; lia.
Qed.

Lemma glen_inode_prefix n tailb :
  glen ([PrefixInternalNode] ++ depth_marshal (ilbl n) ++ ilabel n ++ leaf_or_nil (ileaf n) ++ tailb)
  = 3 + glen (ilabel n) + glen (leaf_or_nil (ileaf n)) + glen tailb.
Proof. unfold depth_marshal. rewrite !glen_app, glen_put16. cbn. lia. Qed.

(* MarshalBinary *)
Lemma inode_rt_full n s : wf_inode n ->
  inode_sized_unmarshal (inode_marshal n) s
  = (Ok (n, glen (inode_marshal n)), s + glen (ilabel n) + oleaf_size (ileaf n)).
Proof.
  intros Hwf. unfold inode_marshal.
  rewrite (inode_prefix_rt n (hash_or_empty (ileft n) ++ hash_or_empty (iright n)) s Hwf).
  destruct Hwf as (_ & _ & _ & Hl & Hr).
  assert (forall o, wf_ohash o -> glen (hash_or_empty o) = 32) as H32.
  { intros [h|]; cbn; [tauto|reflexivity]. }
  rewrite glen_inode_prefix. rewrite glen_app, !H32 by assumption.
  set (pre := [PrefixInternalNode] ++ depth_marshal (ilbl n) ++ ilabel n ++ leaf_or_nil (ileaf n)).
  assert ([PrefixInternalNode] ++ depth_marshal (ilbl n) ++ ilabel n ++ leaf_or_nil (ileaf n)
            ++ hash_or_empty (ileft n) ++ hash_or_empty (iright n)
          = pre ++ hash_or_empty (ileft n) ++ hash_or_empty (iright n)) as Hd.
  { unfold pre. rewrite <- !app_assoc. reflexivity. }
  rewrite Hd.
  assert (3 + glen (ilabel n) + glen (leaf_or_nil (ileaf n)) = glen pre) as Hp.
  { unfold pre, depth_marshal. rewrite !glen_app, glen_put16. cbn. lia. }
  rewrite Hp. rewrite hashes_rt_full by (apply H32; assumption).
  rewrite !dec_hash_or_empty by assumption.
  destruct n as [n1 n2 n3 n4 n5]; cbn [ilbl ilabel ileaf ileft iright].
  cbn [ilabel ileaf] in Hp. rewrite <- Hp. repeat f_equal; lia.
Qed.

(* CompactMarshalBinaryV0: no hash pointers *)
Lemma inode_rt_compact_v0 n s : wf_inode n -> ileft n = None -> iright n = None ->
  inode_sized_unmarshal (inode_compact_marshal_v0 n) s
  = (Ok (n, glen (inode_compact_marshal_v0 n)), s + glen (ilabel n) + oleaf_size (ileaf n)).
Proof.
  intros Hwf Hl Hr. unfold inode_compact_marshal_v0.
  pose proof (inode_prefix_rt n [] s Hwf) as H. rewrite !app_nil_r in H. rewrite H.
  pose proof (glen_inode_prefix n []) as Hg. rewrite !app_nil_r in Hg. cbn [glen length] in Hg.
  replace (3 + glen (ilabel n) + glen (leaf_or_nil (ileaf n)))
    with (glen ([PrefixInternalNode] ++ depth_marshal (ilbl n) ++ ilabel n ++ leaf_or_nil (ileaf n)))
    by (rewrite Hg; unfold glen; cbn; lia).
  rewrite hashes_rt_compact. destruct n as [n1 n2 n3 n4 n5]; cbn [ilbl ilabel ileaf ileft iright] in *. subst. reflexivity.
Qed.

(* CompactMarshalBinaryV1: neither hash pointers nor the leaf *)
Lemma inode_rt_compact_v1 n s : wf_inode n -> ileft n = None -> iright n = None -> ileaf n = None ->
  inode_sized_unmarshal (inode_compact_marshal_v1 n) s
  = (Ok (n, glen (inode_compact_marshal_v1 n)), s + glen (ilabel n)).
Proof.
  intros Hwf Hl Hr Hlf.
  pose proof (inode_rt_compact_v0 n s Hwf Hl Hr) as H.
  unfold inode_compact_marshal_v0, inode_compact_marshal_v1 in *. rewrite Hlf in H.
  cbn [leaf_or_nil oleaf_size] in H. rewrite H. f_equal. lia.
Qed.

Lemma node_rt n s :
  match n with NLeaf l => wf_leaf l | NInternal i => wf_inode i end ->
  fst (node_unmarshal (node_marshal n) s) = Ok n.
Proof.
  destruct n as [l|i]; intros Hwf; unfold node_unmarshal, node_marshal.
  - assert (glen (leaf_marshal l) = 7 + glen (lkey l) + glen (lvalue l)) as Hl.
    { unfold leaf_marshal, key_marshal. rewrite !glen_app, glen_put16, glen_put32. cbn. lia. }
    rewrite Hl. destruct (1 <? 7 + glen (lkey l) + glen (lvalue l)) eqn:H1; [|lia].
    rewrite index_ok by lia. rewrite bind_lift_ok.
    unfold leaf_marshal at 1. cbn [app N.to_nat nth]. rewrite N.eqb_refl.
    rewrite bind_unfold. rewrite <- (app_nil_r (leaf_marshal l)). rewrite leaf_rt by exact Hwf.
    reflexivity.
  - pose proof (inode_rt_full i s Hwf) as H.
    assert (4 <= glen (inode_marshal i)) as Hl.
    { unfold inode_marshal. rewrite glen_inode_prefix. pose proof (glen_leaf_or_nil (ileaf i)). lia. }
    destruct (1 <? glen (inode_marshal i)) eqn:H1; [|lia].
    rewrite index_ok by lia. rewrite bind_lift_ok.
    unfold inode_marshal at 1 2. cbn [app N.to_nat nth].
    change (PrefixInternalNode =? PrefixLeafNode) with false. rewrite N.eqb_refl. cbn iota.
    rewrite bind_unfold. fold (inode_marshal i) in *.
    change (PrefixInternalNode :: depth_marshal (ilbl i) ++ ilabel i ++ leaf_or_nil (ileaf i)
              ++ hash_or_empty (ileft i) ++ hash_or_empty (iright i)) with (inode_marshal i).
    rewrite H. reflexivity.
Qed.

(* non-vacuity of the well-formedness conditions *)
Example wf_example :
  wf_inode (mkInode 12 [171; 192] (Some (mkLeaf [171; 192] [1; 2; 3])) (Some (repeat 7 32)) None)
  /\ fst (run (inode_sized_unmarshal (inode_marshal
        (mkInode 12 [171; 192] (Some (mkLeaf [171; 192] [1; 2; 3])) (Some (repeat 7 32)) None))))
     = Ok (mkInode 12 [171; 192] (Some (mkLeaf [171; 192] [1; 2; 3])) (Some (repeat 7 32)) None, 81).
Proof.
  split; [|vm_compute; reflexivity].
  unfold wf_inode, wf_oleaf, wf_leaf, wf_ohash. cbn [ilbl ilabel ileaf ileft iright lkey lvalue].
  repeat split; try (vm_compute; reflexivity).
Qed.
