(* Further hand-written decoders:
     go/common/sgx/ias/quote.go     Body.UnmarshalBinary (:44-72), Report.UnmarshalBinary (:137-152),
                                    Quote.UnmarshalBinary (:202-214)   -- the quote inside an IAS AVR
     go/storage/mkvs/checkpoint/chunk.go  restoreChunk (:262-312): the hand-written loop around the
                                    snappy/CBOR stream, up to the proof verification
   Executable definitions only. *)
From Verif Require Import Lib.Base Decode.GoSlice Decode.Node Decode.ProofEntries Decode.Quote
  Gen.DecodeConsts Gen.QuoteConsts Gen.MiscConsts.

(* ---------- IAS quote ---------- *)
Definition I_BODYLEN : N := 80.   (* ias/quote: invalid body length *)
Definition I_VERSION : N := 81.   (* ias/quote: unsupported version *)
Definition I_SIGTYPE : N := 82.   (* ias/quote: invalid signature type *)
Definition I_PCE : N := 83.       (* ias/quote: ISVSVN_PCE set for version < 2 *)
Definition I_REPORTLEN : N := 84. (* ias/quote: invalid report length *)
Definition I_QUOTELEN : N := 85.  (* ias/quote: invalid quote body length *)

Record ias_body_t := mkIasBody {
  ib_version : N; ib_sigtype : N; ib_gid : N; ib_qe : N; ib_pce : N; ib_basename : bytes }.

(* ias/quote.go:44-72 *)
Definition ias_body (data : bytes) : M ias_body_t :=
  if glen data <? ias_quoteBodyLen then fail I_BODYLEN else
  version <- rd16 data 0 ;;
  if negb ((version =? 1) || (version =? 2)) then fail I_VERSION else
  sigtype <- rd16 data 2 ;;
  if negb ((sigtype =? 0) || (sigtype =? 1)) then fail I_SIGTYPE else
  gid <- rd32 data 4 ;;
  qe <- rd16 data 8 ;;
  pce <- rd16 data 10 ;;
  if (version <? 2) && negb (pce =? 0) then fail I_PCE else
  basename <- cp 32 data 16 ;;
  ret (mkIasBody version sigtype gid qe pce basename).

(* ias/quote.go:137-152 *)
Definition ias_report (data : bytes) : M report :=
  if glen data <? ias_quoteReportLen then fail I_REPORTLEN else
  cpuSvn <- cp 16 data 0 ;;
  miscSelect <- rd32 data 16 ;;
  flags <- rd64 data 48 ;;
  xfrm <- rd64 data 56 ;;
  mre <- lift (slice data 64 (64 + MrEnclaveSize)) ;;
  mrs <- lift (slice data 128 (128 + MrSignerSize)) ;;
  isvProdID <- rd16 data 256 ;;
  isvSvn <- rd16 data 258 ;;
  reportData <- cp 64 data ias_offsetReportReportData ;;
  ret (mkReport (mr_unmarshal MrEnclaveSize mre) (mr_unmarshal MrSignerSize mrs) reportData).

(* ias/quote.go:202-214 *)
Definition ias_quote (data : bytes) : M (ias_body_t * report) :=
  if glen data <? ias_quoteLen then fail I_QUOTELEN else
  data <- lift (slice data 0 ias_quoteLen) ;;
  b <- lift (slice data 0 ias_quoteBodyLen) ;;
  body <- ias_body b ;;
  r <- lift (slice_from data ias_quoteBodyLen) ;;
  rep <- ias_report r ;;
  ret (body, rep).

Definition ias_body_eqb (a b : ias_body_t) : bool :=
  (ib_version a =? ib_version b) && (ib_sigtype a =? ib_sigtype b) && (ib_gid a =? ib_gid b)
  && (ib_qe a =? ib_qe b) && (ib_pce a =? ib_pce b) && bytes_eqb (ib_basename a) (ib_basename b).

(* ---------- checkpoint chunk restore ---------- *)
Definition E_CHUNK_CORRUPTED : N := 60.   (* ErrChunkCorrupted: digest incorrect *)
Definition E_CHUNK_DECODE : N := 61.      (* ErrChunkProofVerificationFailed: failed to decode chunk *)
Definition W_CHUNK : N := 1000.           (* ErrChunkProofVerificationFailed: <verifier error> *)

(* what the (unmodelled) snappy + CBOR stream decoder hands to the loop, one
   event per dec.Decode(&entry) call: an entry (nil for CBOR null), a decode
   error, or io.EOF *)
Inductive dec_event : Type := DItem (e : option bytes) | DErr | DEof.

(* chunk.go:272-290: entries collected so far and whether decodeErr was set *)
Fixpoint chunk_collect (evs : list dec_event) (acc : entries) : entries * bool :=
  match evs with
  | [] => (rev acc, false)
  | DEof :: _ => (rev acc, false)
  | DErr :: _ => (rev acc, true)
  | DItem e :: rest => chunk_collect rest (e :: acc)
  end.

(* chunk.go:262-312, up to (excluding) the root comparison inside VerifyProof and the import;
   p.V = v1ProofsVersion (regenerated: 0), UntrustedRoot = the root passed to VerifyProof *)
Definition restore_chunk (digest_ok : bool) (evs : list dec_event) : M ptr :=
  let '(es, derr) := chunk_collect evs [] in
  if negb digest_ok then fail E_CHUNK_CORRUPTED else
  if derr then fail E_CHUNK_DECODE else
  wrap W_CHUNK (verify_opts v1ProofsVersion true es).
