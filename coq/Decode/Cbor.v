(* Strict-profile CBOR well-formedness recogniser: a SPECIFICATION of what
   go/common/cbor.Unmarshal may accept (cbor.go:40-48: definite lengths only,
   tags forbidden, array/map sizes bounded; nesting bounded by the library
   default).  It follows the structure of the library's own validity pass
   (fxamacker/cbor v2.4.0 valid.go validInternal/validHead), which Unmarshal
   runs before building any value; the library itself is NOT verified -- the
   recogniser is tied to it only by the correspondence check.  It recognises
   the FIRST item of the input and returns the offset just past it (the
   library at this version ignores trailing bytes).  Duplicate map keys, UTF-8
   validity and map-key typing are checked by the library after this pass and
   are not part of the recogniser: acceptance here is necessary, not
   sufficient, for Unmarshal to accept.  Executable definitions only. *)
From Verif Require Import Lib.Base Gen.MiscConsts.

Inductive wres (A : Type) : Type := WOk (a : A) | WErr (e : N) | WFuel.
Arguments WOk {A} a. Arguments WErr {A} e. Arguments WFuel {A}.

Definition C_EOF : N := 90.        (* io.EOF: empty input *)
Definition C_UEOF : N := 91.       (* io.ErrUnexpectedEOF *)
Definition C_INDEF : N := 92.      (* IndefiniteLengthError *)
Definition C_TAG : N := 93.        (* TagsMdError *)
Definition C_NESTED : N := 94.     (* MaxNestedLevelError *)
Definition C_ARRAY : N := 95.      (* MaxArrayElementsError *)
Definition C_MAP : N := 96.        (* MaxMapPairsError *)
Definition C_SYNTAX : N := 97.     (* SyntaxError *)
Definition C_OVERFLOW : N := 98.   (* "length ... is too large, causing integer overflow" *)

Definition byte_at (data : bytes) (off : N) : N := nth (N.to_nat off) data 0.
Definition dlen (data : bytes) : N := N.of_nat (length data).
Fixpoint be_val (data : bytes) (off : N) (n : nat) (acc : N) : N :=
  match n with
  | O => acc
  | S k => be_val data (off + 1) k (acc * 256 + byte_at data off)
  end.

(* validHead: (major type 0..7, additional info, value, new offset) *)
Definition valid_head (data : bytes) (off : N) : wres (N * N * N * N) :=
  let avail := dlen data - off in
  if avail =? 0 then WErr C_UEOF else
  let b := byte_at data off in
  let t := b / 32 in
  let ai := b mod 32 in
  let off := off + 1 in
  if ai <? 24 then WOk (t, ai, ai, off)
  else if ai =? 24 then
    if avail <? 2 then WErr C_UEOF else
    let v := byte_at data off in
    if (t =? 7) && (v <? 32) then WErr C_SYNTAX else WOk (t, ai, v, off + 1)
  else if ai =? 25 then
    if avail <? 3 then WErr C_UEOF else WOk (t, ai, be_val data off 2 0, off + 2)
  else if ai =? 26 then
    if avail <? 5 then WErr C_UEOF else WOk (t, ai, be_val data off 4 0, off + 4)
  else if ai =? 27 then
    if avail <? 9 then WErr C_UEOF else WOk (t, ai, be_val data off 8 0, off + 8)
  else if ai =? 31 then
    if (t =? 0) || (t =? 1) || (t =? 6) || (t =? 7) then WErr C_SYNTAX else WOk (t, ai, ai, off)
  else WErr C_SYNTAX.

Definition two63 : N := 9223372036854775808.

(* validInternal(depth): returns (offset after the item, max depth reached) *)
Fixpoint valid_item (fuel : nat) (data : bytes) (off depth : N) {struct fuel} : wres (N * N) :=
  match fuel with
  | O => WFuel
  | S f =>
    match valid_head data off with
    | WErr e => WErr e
    | WFuel => WFuel
    | WOk (t, ai, val, off) =>
      if (t =? 2) || (t =? 3) then
        if ai =? 31 then
          (if decOptions_IndefLength_IndefLengthForbidden then WErr C_INDEF else WErr C_INDEF)
        else if two63 <=? val then WErr C_OVERFLOW
        else if dlen data - off <? val then WErr C_UEOF
        else WOk (off + val, depth)
      else if (t =? 4) || (t =? 5) then
        let depth := depth + 1 in
        if decOptions_MaxNestedLevels <? depth then WErr C_NESTED else
        if ai =? 31 then WErr C_INDEF
        else if two63 <=? val then WErr C_OVERFLOW
        else if (t =? 4) && (decOptions_MaxArrayElements <? val) then WErr C_ARRAY
        else if (t =? 5) && (decOptions_MaxMapPairs <? val) then WErr C_MAP
        else valid_items f (if t =? 5 then 2 * val else val) data off depth depth
      else if t =? 6 then WErr C_TAG
      else WOk (off, depth)
    end
  end
with valid_items (fuel : nat) (n : N) (data : bytes) (off depth maxd : N) {struct fuel} : wres (N * N) :=
  match fuel with
  | O => WFuel
  | S f =>
    if n =? 0 then WOk (off, maxd) else
    match valid_item f data off depth with
    | WOk (off', dpt) => valid_items f (n - 1) data off' depth (N.max maxd dpt)
    | WErr e => WErr e
    | WFuel => WFuel
    end
  end.

Definition cbor_fuel (data : bytes) : nat := N.to_nat (2 * dlen data + 2).

(* decoder.valid() *)
Definition cbor_valid (data : bytes) : wres (N * N) :=
  if dlen data =? 0 then WErr C_EOF else valid_item (cbor_fuel data) data 0 0.

Definition wres_class {A} (r : wres A) : N :=
  match r with WOk _ => 0 | WErr e => e | WFuel => 999 end.
