(* Port of the Merkle proof verifier walk:
     go/storage/mkvs/syncer/proof.go:301-345  verifyProofOpts (without the final
                                              root-hash comparison: hashing is abstract)
     go/storage/mkvs/syncer/proof.go:347-428  verifyProof
   Proof.Entries is a list of [option bytes]: [None] is a nil entry (CBOR null),
   [Some []] a non-nil empty entry.  ctx.Err() is taken to be nil.
   Recursion: the Go function recurses with depth+1; the model recurses on
   [fuel], one unit per nested call, so the fuel that suffices is a bound on
   the recursion depth.  [E_FUEL] is a result the Go code cannot produce; the
   theorems exclude it.  Executable definitions only. *)
From Verif Require Import Lib.Base Decode.GoSlice Decode.Node Gen.DecodeConsts.

Definition E_PROOF_MALFORMED : N := 20.   (* "verifier: malformed proof" *)
Definition E_PROOF_DEPTH : N := 21.       (* "verifier: max proof depth exceeded" *)
Definition E_PROOF_ENTRY : N := 22.       (* "verifier: unexpected entry in proof" *)
Definition E_PROOF_VERSION : N := 23.     (* "verifier: unsupported proof version" *)
Definition E_PROOF_ROOT : N := 24.        (* "verifier: got proof for unexpected root" *)
Definition E_PROOF_EMPTY : N := 25.       (* "verifier: empty proof" *)
Definition E_PROOF_UNUSED : N := 26.      (* "verifier: unused entries in proof" *)
Definition E_FUEL : N := 999.

(* the in-memory subtree built by the verifier: *node.Pointer *)
Inductive ptr : Type :=
| PNil                                   (* nil *)
| PHash (h : bytes)                      (* &Pointer{Clean: true, Hash: h} *)
| PLeaf (l : leaf)                       (* pointer to a LeafNode *)
| PInt (lbl : N) (label : bytes) (lf l r : ptr).   (* pointer to an InternalNode *)

Definition entries := list (option bytes).
Definition elen (es : entries) : N := N.of_nat (length es).
(* proof.Entries[idx] *)
Definition eindex (es : entries) (i : N) : res (option bytes) :=
  match nth_error es (N.to_nat i) with
  | Some e => Ok e
  | None => Panic
  end.

Definition oleaf_ptr (l : option leaf) : ptr :=
  match l with Some l => PLeaf l | None => PNil end.

(* proof.go:347-428 *)
Fixpoint walk (fuel : nat) (v : N) (es : entries) (idx depth : N) {struct fuel} : M (N * ptr) :=
  match fuel with
  | O => fail E_FUEL
  | S f =>
    if elen es <=? idx then fail E_PROOF_MALFORMED else            (* :351 *)
    if maxProofDepth <? depth then fail E_PROOF_DEPTH else         (* :354 *)
    e <- lift (eindex es idx) ;;                                   (* :358 *)
    match e with
    | None => ret (idx + 1, PNil)                                  (* :359 *)
    | Some entry =>
      if glen entry =? 0 then fail E_PROOF_MALFORMED else          (* :362 *)
      k <- lift (index entry 0) ;;                                 (* :366 *)
      if k =? proofEntryFull then
        body <- lift (slice_from entry 1) ;;
        n <- node_unmarshal body ;;                                (* :369 *)
        let pos := idx + 1 in
        match n with
        | NLeaf l => ret (pos, PLeaf l)
        | NInternal nd =>
          '(pos, lf) <-
             (if v =? 0 then ret (pos, oleaf_ptr (ileaf nd))       (* :378 *)
              else if v =? 1 then walk f v es pos (depth + 1)      (* :386 *)
              else lift Panic) ;;                                  (* :392 panic("unexpected proof version") *)
          '(pos, l) <- walk f v es pos (depth + 1) ;;              (* :396 *)
          '(pos, r) <- walk f v es pos (depth + 1) ;;              (* :401 *)
          ret (pos, PInt (ilbl nd) (ilabel nd) lf l r)
        end
      else if k =? proofEntryHash then
        body <- lift (slice_from entry 1) ;;
        h <- hash_unmarshal body ;;                                (* :420 *)
        ret (idx + 1, PHash h)
      else fail E_PROOF_ENTRY
    end
  end.

(* The same walk with the recursive call for the entry in an internal node's LEAF position
   made at [depth] instead of [depth + 1] ("the leaf is on the same depth").  verifyProof never
   checks that this entry IS a leaf, so internal nodes nested through the leaf position escape
   the depth check: the variant the model must NOT be (refuted in ProofEntriesProofs.v). *)
Fixpoint walk_leaf_same_depth (fuel : nat) (v : N) (es : entries) (idx depth : N) {struct fuel} : M (N * ptr) :=
  match fuel with
  | O => fail E_FUEL
  | S f =>
    if elen es <=? idx then fail E_PROOF_MALFORMED else
    if maxProofDepth <? depth then fail E_PROOF_DEPTH else
    e <- lift (eindex es idx) ;;
    match e with
    | None => ret (idx + 1, PNil)
    | Some entry =>
      if glen entry =? 0 then fail E_PROOF_MALFORMED else
      k <- lift (index entry 0) ;;
      if k =? proofEntryFull then
        body <- lift (slice_from entry 1) ;;
        n <- node_unmarshal body ;;
        let pos := idx + 1 in
        match n with
        | NLeaf l => ret (pos, PLeaf l)
        | NInternal nd =>
          '(pos, lf) <-
             (if v =? 0 then ret (pos, oleaf_ptr (ileaf nd))
              else if v =? 1 then walk_leaf_same_depth f v es pos depth        (* <- depth, not depth + 1 *)
              else lift Panic) ;;
          '(pos, l) <- walk_leaf_same_depth f v es pos (depth + 1) ;;
          '(pos, r) <- walk_leaf_same_depth f v es pos (depth + 1) ;;
          ret (pos, PInt (ilbl nd) (ilabel nd) lf l r)
        end
      else if k =? proofEntryHash then
        body <- lift (slice_from entry 1) ;;
        h <- hash_unmarshal body ;;
        ret (idx + 1, PHash h)
      else fail E_PROOF_ENTRY
    end
  end.

(* n internal nodes (empty label) nested through one child position: 0 = leaf (version 1
   only), 1 = left, 2 = right; every other position holds a nil entry *)
Definition chain_entry : option bytes := Some [1; 1; 0; 0; 2].
Fixpoint chain_pos (v pos : N) (n : nat) : entries :=
  match n with
  | O => [None]
  | S k =>
      let sub := chain_pos v pos k in
      if v =? 0 then
        (if pos =? 2 then chain_entry :: None :: sub else chain_entry :: sub ++ [None])
      else
        (if pos =? 0 then chain_entry :: sub ++ [None; None]
         else if pos =? 1 then chain_entry :: None :: sub ++ [None]
         else chain_entry :: None :: None :: sub)
  end.

(* nesting (through any position) of the subtree a walk built *)
Fixpoint ptr_nesting (p : ptr) : N :=
  match p with
  | PInt _ _ lf l r => 1 + N.max (ptr_nesting lf) (N.max (ptr_nesting l) (ptr_nesting r))
  | _ => 0
  end.

(* enough fuel for a walk started at [depth]: calls happen at depths
   depth .. maxProofDepth+1 (the call at maxProofDepth+1 returns at :354) *)
Definition walk_fuel (depth : N) : nat := N.to_nat (maxProofDepth + 2 - depth).

(* proof.go:301-345 up to (excluding) the root hash comparison at :328-340.
   [root_matches] is the outcome of proof.UntrustedRoot.Equal(&root). *)
Definition verify_opts (v : N) (root_matches : bool) (es : entries) : M ptr :=
  if (v <? MinimumProofVersion) || (LatestProofVersion <? v) then fail E_PROOF_VERSION else
  if negb root_matches then fail E_PROOF_ROOT else
  if elen es =? 0 then fail E_PROOF_EMPTY else
  '(idx, p) <- walk (walk_fuel 0) v es 0 0 ;;
  if negb (idx =? elen es) then fail E_PROOF_UNUSED else
  ret p.

(* number of pointers (= proof entries) a subtree was built from; the leaf
   embedded in a version-0 internal node is not an entry of its own *)
Fixpoint ptr_entries (v : N) (p : ptr) : N :=
  match p with
  | PInt _ _ lf l r =>
      1 + (if v =? 0 then 0 else ptr_entries v lf) + ptr_entries v l + ptr_entries v r
  | _ => 1
  end.

(* key/value pairs in the order VerifyProofToWriteLog appends them (:270-279,
   :380-382, :412-414): pre-order, a node's own leaf before its children *)
Fixpoint ptr_writelog (p : ptr) : list (bytes * bytes) :=
  match p with
  | PLeaf l => [(lkey l, lvalue l)]
  | PInt _ _ lf l r => ptr_writelog lf ++ ptr_writelog l ++ ptr_writelog r
  | _ => []
  end.

Definition total_len (es : entries) : N :=
  fold_right (fun e acc => match e with Some b => glen b | None => 0 end + acc) 0 es.

(* ---------- comparison helpers ---------- *)
Fixpoint ptr_eqb (a b : ptr) : bool :=
  match a, b with
  | PNil, PNil => true
  | PHash x, PHash y => bytes_eqb x y
  | PLeaf x, PLeaf y => leaf_eqb x y
  | PInt n1 l1 a1 b1 c1, PInt n2 l2 a2 b2 c2 =>
      (n1 =? n2) && bytes_eqb l1 l2 && ptr_eqb a1 a2 && ptr_eqb b1 b2 && ptr_eqb c1 c2
  | _, _ => false
  end.
