From Verif Require Import Lib.Base Decode.Conn.

Definition Inv (s : cstate) : Prop :=
  (forall id, In id (pending s) -> id < next_id s /\ aget id (sends s) = None) /\
  (forall id n, aget id (sends s) = Some n -> n <= 1 /\ id < next_id s).

Lemma mem_id_In id l : mem_id id l = true <-> In id l.
Proof.
  induction l as [|x r IH]; cbn; [split; [discriminate|tauto]|].
  rewrite orb_true_iff, IH, N.eqb_eq. tauto.
Qed.

Lemma In_remove id x l : In x (remove_id id l) -> In x l /\ x <> id.
Proof.
  unfold remove_id. rewrite filter_In. intros [H1 H2]. split; [exact H1|].
  destruct (x =? id) eqn:E; [discriminate|]. apply N.eqb_neq. exact E.
Qed.

Lemma inv_init : Inv init.
Proof. split; cbn; [tauto|discriminate]. Qed.

Lemma inv_step s e : Inv s -> Inv (step true s e).
Proof.
  intros [Hp Hs]. destruct e as [|m|]; cbn [step].
  - destruct (closed s); split; cbn [pending sends next_id].
    + intros id Hin. specialize (Hp id Hin). split; [lia|tauto].
    + intros id n Ha. specialize (Hs id n Ha). lia.
    + intros id [<- | Hin].
      * split; [lia|]. destruct (aget (next_id s) (sends s)) as [n|] eqn:E; [|reflexivity].
        specialize (Hs _ _ E). lia.
      * specialize (Hp id Hin). split; [lia|tauto].
    + intros id n Ha. specialize (Hs id n Ha). lia.
  - destruct (closed s); [split; assumption|].
    destruct m as [id|id| |]; try (split; cbn [pending sends next_id]; assumption).
    + destruct (mem_id id (pending s)) eqn:Hm.
      * apply mem_id_In in Hm. pose proof (Hp id Hm) as [Hlt Hnone].
        unfold nsends. rewrite Hnone. split; cbn [pending sends next_id].
        -- intros x Hin. apply In_remove in Hin as [Hin Hne]. specialize (Hp x Hin).
           split; [tauto|]. rewrite aget_aset_other by exact Hne. tauto.
        -- intros x n Ha. destruct (N.eq_dec x id) as [->|Hne].
           ++ rewrite aget_aset_same in Ha. injection Ha as <-. lia.
           ++ rewrite aget_aset_other in Ha by exact Hne. apply Hs. exact Ha.
      * split; cbn [pending sends next_id]; assumption.
    + split; cbn [pending sends next_id]; [intros id [] | exact Hs].
  - split; cbn [pending sends next_id]; [intros id [] | exact Hs].
Qed.

Lemma inv_run evs : Inv (run true evs).
Proof.
  unfold run. rewrite <- (rev_involutive evs). induction (rev evs) as [|e r IH]; [exact inv_init|].
  cbn [rev]. rewrite fold_left_app. cbn [fold_left]. apply inv_step. exact IH.
Qed.

Lemma blocked_list_zero : forall l : list (N * N),
  (forall kv, In kv l -> snd kv <= 1) ->
  fold_right (fun (kv : N * N) acc => (snd kv - 2) + acc) 0 l = 0.
Proof.
  induction l as [|kv l IH]; intros H; [reflexivity|].
  cbn [fold_right]. rewrite IH by (intros; apply H; right; assumption).
  specialize (H kv (or_introl eq_refl)). lia.
Qed.

(* every stored send count is reachable through aget when keys are unique; we
   avoid that detour by proving the bound on the list directly *)
Definition AllLe1 (s : cstate) : Prop := forall kv, In kv (sends s) -> snd kv <= 1.

Lemma In_adel {V} k (kv : N * V) l : In kv (adel k l) -> In kv l.
Proof.
  induction l as [|[k' v] r IH]; cbn [adel]; [tauto|].
  destruct (k' =? k); cbn [In]; tauto.
Qed.

Lemma all_le1_step s e : Inv s -> AllLe1 s -> AllLe1 (step true s e).
Proof.
  intros [Hp Hs] Hall. destruct e as [|m|]; cbn [step].
  - destruct (closed s); exact Hall.
  - destruct (closed s); [exact Hall|]. destruct m as [id|id| |]; try exact Hall.
    destruct (mem_id id (pending s)) eqn:Hm; [|exact Hall].
    apply mem_id_In in Hm. pose proof (Hp id Hm) as [_ Hnone]. unfold nsends. rewrite Hnone.
    intros kv Hin. cbn [sends] in Hin. unfold aset in Hin. destruct Hin as [<- | Hin]; [cbn; lia|].
    apply Hall. eapply In_adel. exact Hin.
  - exact Hall.
Qed.

Lemma all_le1_run evs : AllLe1 (run true evs).
Proof.
  unfold run. rewrite <- (rev_involutive evs). induction (rev evs) as [|e r IH]; [intros kv []|].
  cbn [rev]. rewrite fold_left_app. cbn [fold_left]. apply all_le1_step; [|exact IH].
  pose proof (inv_run (rev r)) as H. unfold run in H. exact H.
Qed.

Lemma filter_len {A} (f : A -> bool) l : (length (filter f l) <= length l)%nat.
Proof. induction l as [|x r IH]; cbn; [lia|]. destruct (f x); cbn; lia. Qed.

(* ---------- exported ---------- *)
(* no handler ever waits on a response channel: at most ONE send per request id,
   whatever frames the peer sends; hence nothing blocks and Close() returns *)
Lemma conn_no_block_l : forall evs,
  (forall kv, In kv (sends (run true evs)) -> snd kv <= 1) /\
  blocked (run true evs) = 0 /\ close_returns (run true evs) = true.
Proof.
  intros evs. pose proof (all_le1_run evs) as H. split; [exact H|].
  assert (blocked (run true evs) = 0) as Hb by (apply blocked_list_zero; exact H).
  split; [exact Hb|]. unfold close_returns. rewrite Hb. reflexivity.
Qed.

(* inbound frames never grow the pending table *)
Lemma conn_inbound_does_not_grow_l : forall s m,
  (length (pending (step true s (EFrame m))) <= length (pending s))%nat.
Proof.
  intros s m. cbn [step]. destruct (closed s); [lia|].
  destruct m as [id|id| |].
  - destruct (mem_id id (pending s)); cbn [pending]; [unfold remove_id; apply filter_len|lia].
  - cbn [pending]. lia.
  - lia.
  - cbn [pending length]. lia.
Qed.

(* after Close (or a malformed frame) the table is empty and stays empty *)
Lemma conn_close_empties_l : forall del s, pending (step del s EClose) = [] /\
  pending (step del s (EFrame IMalformed)) = [] \/ closed s = true.
Proof. intros del s. destruct (closed s) eqn:E; [right; reflexivity|left]. cbn [step]. rewrite E. split; reflexivity. Qed.

Lemma conn_closed_stays_empty_l : forall del s e, closed s = true -> pending s = [] ->
  closed (step del s e) = true /\ pending (step del s e) = [].
Proof.
  intros del s e Hc Hp. destruct e as [|m|]; cbn [step]; rewrite ?Hc; cbn [closed pending]; auto.
Qed.

(* the variant that does not delete at delivery blocks: three copies of one response *)
Lemma conn_nodelete_blocks_l :
  exists evs, blocked (run false evs) = 1 /\ close_returns (run false evs) = false /\
              blocked (run true evs) = 0.
Proof.
  exists [ECall; EFrame (IResponse 0); EFrame (IResponse 0); EFrame (IResponse 0); EClose].
  repeat split; vm_compute; reflexivity.
Qed.

Example conn_example :
  outcomes (run true [ECall; ECall; EFrame (IResponse 1); EFrame (IResponse 1); EFrame (IResponse 7);
                      EFrame (IRequest 3); EFrame IMalformed; ECall]) = [false; true; false].
Proof. vm_compute. reflexivity. Qed.
