(* The recogniser is total with linear fuel, consumes at most the input and
   never reports a nesting deeper than the configured bound. *)
From Verif Require Import Lib.Base Decode.Cbor Gen.MiscConsts.

Lemma gen_cbor_profile_expected :
  decOptions_IndefLength_IndefLengthForbidden = true /\ decOptions_TagsMd_TagsForbidden = true /\
  decOptions_DupMapKey_DupMapKeyEnforcedAPF = true /\ decOptions_MaxNestedLevels = 32 /\
  decOptions_MaxArrayElements = 10000000 /\ decOptions_MaxMapPairs = 10000000 /\
  maxMessageSize = 67108864.
Proof. repeat split; reflexivity. Qed.

Ltac ifs := repeat match goal with
  | H : context [if ?c then _ else _] |- _ => destruct c eqn:?
  end.

Lemma head_spec data off t ai val off' :
  valid_head data off = WOk (t, ai, val, off') -> off < off' /\ off' <= dlen data.
Proof.
  unfold valid_head. intros H. ifs; try discriminate; injection H as <- <- <- <-; lia.
Qed.

Lemma head_no_fuel data off : valid_head data off <> WFuel.
Proof. unfold valid_head. repeat match goal with |- context [if ?c then _ else _] => destruct c end; discriminate. Qed.

Definition item_post (data : bytes) (off depth : N) (r : wres (N * N)) : Prop :=
  match r with
  | WOk (off', d) => off < off' /\ off' <= dlen data /\ depth <= d /\ d <= decOptions_MaxNestedLevels
  | WErr _ => True
  | WFuel => False
  end.
Definition items_post (data : bytes) (off maxd : N) (r : wres (N * N)) : Prop :=
  match r with
  | WOk (off', d) => off <= off' /\ off' <= dlen data /\ maxd <= d /\ d <= decOptions_MaxNestedLevels
  | WErr _ => True
  | WFuel => False
  end.

Lemma valid_spec : forall f,
  (forall data off depth, off <= dlen data -> (N.to_nat (2 * (dlen data - off) + 1) <= f)%nat ->
     depth <= decOptions_MaxNestedLevels -> item_post data off depth (valid_item f data off depth)) /\
  (forall n data off depth maxd, off <= dlen data -> (N.to_nat (2 * (dlen data - off) + 2) <= f)%nat ->
     depth <= decOptions_MaxNestedLevels -> maxd <= decOptions_MaxNestedLevels ->
     items_post data off maxd (valid_items f n data off depth maxd)).
Proof.
  induction f as [|f [IHi IHs]]; split.
  - intros; lia.
  - intros; lia.
  - intros data off depth Hoff Hf Hd. cbn [valid_item].
    destruct (valid_head data off) as [[[[t ai] val] off1]|e|] eqn:Hh;
      [|exact I|exfalso; eapply head_no_fuel; exact Hh].
    apply head_spec in Hh. destruct Hh as [Ho1 Ho2].
    destruct ((t =? 2) || (t =? 3)).
    { destruct (ai =? 31); [destruct decOptions_IndefLength_IndefLengthForbidden; exact I|].
      destruct (two63 <=? val); [exact I|].
      destruct (dlen data - off1 <? val) eqn:E; [exact I|]. cbn. lia. }
    destruct ((t =? 4) || (t =? 5)).
    { destruct (decOptions_MaxNestedLevels <? depth + 1) eqn:En; [exact I|].
      destruct (ai =? 31); [exact I|].
      destruct (two63 <=? val); [exact I|].
      destruct ((t =? 4) && (decOptions_MaxArrayElements <? val)); [exact I|].
      destruct ((t =? 5) && (decOptions_MaxMapPairs <? val)); [exact I|].
      specialize (IHs (if t =? 5 then 2 * val else val) data off1 (depth + 1) (depth + 1)
                    ltac:(lia) ltac:(lia) ltac:(lia) ltac:(lia)).
      destruct (valid_items f (if t =? 5 then 2 * val else val) data off1 (depth + 1) (depth + 1))
        as [[o d]|e|]; cbn in *; try exact I; try contradiction. lia. }
    destruct (t =? 6); [exact I|]. cbn. lia.
  - intros n data off depth maxd Hoff Hf Hd Hm. cbn [valid_items].
    destruct (n =? 0); [cbn; lia|].
    specialize (IHi data off depth Hoff ltac:(lia) Hd).
    destruct (valid_item f data off depth) as [[o d]|e|]; cbn in IHi; try exact I; try contradiction.
    specialize (IHs (n - 1) data o depth (N.max maxd d) ltac:(lia) ltac:(lia) Hd ltac:(lia)).
    destruct (valid_items f (n - 1) data o depth (N.max maxd d)) as [[o2 d2]|e|]; cbn in *;
      try exact I; try contradiction. lia.
Qed.

(* exported *)
Lemma cbor_recognizer_total_l : forall data, cbor_valid data <> WFuel.
Proof.
  intros data. unfold cbor_valid. destruct (dlen data =? 0); [discriminate|].
  pose proof (proj1 (valid_spec (cbor_fuel data)) data 0 0 ltac:(lia)
                ltac:(unfold cbor_fuel; lia) ltac:(unfold decOptions_MaxNestedLevels; lia)) as H.
  intros E. rewrite E in H. exact H.
Qed.

(* accepted => the item ends inside the input and its nesting respects the bound;
   the fuel 2*len+2 bounds the number of recursive calls: linear time *)
Lemma cbor_recognizer_bounded_l : forall data off d,
  cbor_valid data = WOk (off, d) ->
  0 < off /\ off <= dlen data /\ d <= decOptions_MaxNestedLevels.
Proof.
  intros data off d. unfold cbor_valid. destruct (dlen data =? 0); [discriminate|].
  pose proof (proj1 (valid_spec (cbor_fuel data)) data 0 0 ltac:(lia)
                ltac:(unfold cbor_fuel; lia) ltac:(unfold decOptions_MaxNestedLevels; lia)) as H.
  intros E. rewrite E in H. cbn in H. lia.
Qed.

(* examples: a huge declared array / string is rejected by running out of input,
   nesting 33 deep is rejected, indefinite lengths and tags are rejected *)
Example cbor_examples :
  wres_class (cbor_valid [155; 255; 255; 255; 255; 255; 255; 255; 255]) = C_OVERFLOW /\
  wres_class (cbor_valid [154; 0; 152; 150; 129]) = C_ARRAY /\
  wres_class (cbor_valid [154; 0; 152; 150; 128; 1]) = C_UEOF /\
  wres_class (cbor_valid [91; 0; 0; 0; 1; 0; 0; 0; 0]) = C_UEOF /\
  wres_class (cbor_valid [159; 255]) = C_INDEF /\
  wres_class (cbor_valid [192; 0]) = C_TAG /\
  wres_class (cbor_valid (repeat 129 32 ++ [0])) = 0 /\
  wres_class (cbor_valid (repeat 129 33 ++ [0])) = C_NESTED /\
  cbor_valid [162; 1; 2; 1; 3; 255] = WOk (5, 1).
Proof. repeat split; vm_compute; reflexivity. Qed.
