(* Growth round 3: more hand-written decoders ported over GoSlice.
     encoding/hex.DecodeString (stdlib; small enough to state exactly: it is the front end of
       every UnmarshalHex) and the UnmarshalHex / UnmarshalText shapes built on it
     go/common/sgx/common.go        EnclaveIdentity.UnmarshalHex / UnmarshalText
     go/common/sgx/aesm/types.go    AttestationKeyID.UnmarshalBinary
     go/common/sgx/pcs/tcb.go       QEIdentity.verify: the mask parsing part (:655-700)
     go/common/quantity             Quantity.UnmarshalBinary
     go/storage/mkvs/db/pathbadger/node.go  nodeFromDb (:329-430), ptrFromDb (:441-476)
     go/common/cbor/codec.go        MessageReader.Read (:48-75): length-prefixed frame
     the "switch string(text)" enum UnmarshalText shape
     go/common/sgx/sigstruct        Verify: the fixed-offset reads after the exact length check
   base64.StdEncoding.DecodeString, big.Int.UnmarshalText and the CBOR item
   decoder are NOT modelled: their observed outcome is an oracle input.
   Executable definitions only. *)
From Verif Require Import Lib.Base Decode.GoSlice Decode.Node Decode.KeyFormat Decode.Quote
  Gen.DecodeConsts Gen.QuoteConsts Gen.MiscConsts.

Definition E_HEX_BYTE : N := 71.   (* hex.InvalidByteError *)
Definition E_HEX_LEN : N := 72.    (* hex.ErrLength *)
Definition E_B64 : N := 73.        (* base64.CorruptInputError *)
Definition E_LEN : N := 74.        (* "malformed ..." after a length check of the decoded bytes *)

(* ---------- encoding/hex ---------- *)
(* fromHexChar *)
Definition hex_val (c : N) : option N :=
  if (48 <=? c) && (c <=? 57) then Some (c - 48)
  else if (97 <=? c) && (c <=? 102) then Some (c - 97 + 10)
  else if (65 <=? c) && (c <=? 70) then Some (c - 65 + 10)
  else None.

(* hex.Decode: pairs from the left, the first bad character of a pair wins; an
   odd trailing character is checked for validity BEFORE ErrLength is reported *)
Fixpoint hex_decode (s : bytes) : res bytes :=
  match s with
  | [] => Ok []
  | [c] => match hex_val c with None => Err E_HEX_BYTE | Some _ => Err E_HEX_LEN end
  | a :: b :: rest =>
      match hex_val a with
      | None => Err E_HEX_BYTE
      | Some x =>
          match hex_val b with
          | None => Err E_HEX_BYTE
          | Some y => rbind (hex_decode rest) (fun r => Ok ((16 * x + y) :: r))
          end
      end
  end.

(* X.UnmarshalHex: hex.DecodeString then X.UnmarshalBinary
   (Hash, PublicKey, Namespace, TypedHash, MrEnclave, MrSigner, SignatureECDSA_P256) *)
Definition unmarshal_hex (size kind : N) (text : bytes) : M bytes :=
  b <- lift (hex_decode text) ;;
  fixed_unmarshal size kind b.

(* X.UnmarshalText = base64 then UnmarshalBinary (PublicKey, RawSignature, RawProof,
   TypedHash, Namespace.UnmarshalBase64); [b64] is the observed outcome of
   base64.StdEncoding.DecodeString *)
Definition unmarshal_b64 (size kind : N) (b64 : option bytes) : M bytes :=
  match b64 with
  | None => fail E_B64
  | Some b => fixed_unmarshal size kind b
  end.

(* Hash.UnmarshalText / Namespace.UnmarshalText: hex first, base64 as fallback *)
Definition unmarshal_hex_or_b64 (size kind : N) (b64 : option bytes) (text : bytes) : M bytes :=
  fun s =>
    match unmarshal_hex size kind text s with
    | (Ok b, s') => (Ok b, s')
    | (Err _, s') => unmarshal_b64 size kind b64 s'
    | (Panic, s') => (Panic, s')
    end.

(* sgx/common.go EnclaveIdentity.UnmarshalHex (hexmode) / UnmarshalText (base64):
   decoded length must be 64, then b[:32] and b[32:] *)
Definition enclave_identity (decoded : res bytes) : M (bytes * bytes) :=
  b <- lift decoded ;;
  if negb (glen b =? MrEnclaveSize + MrSignerSize) then fail E_LEN else
  mre <- lift (slice b 0 MrEnclaveSize) ;;
  mrs <- lift (slice_from b MrEnclaveSize) ;;
  mre' <- fixed_unmarshal MrEnclaveSize 0 mre ;;
  mrs' <- fixed_unmarshal MrSignerSize 0 mrs ;;
  ret (mre', mrs').

(* ---------- aesm/types.go:57-95 ---------- *)
Definition A_SIZE : N := 75.   (* malformed attestation key ID *)
Definition A_MRLEN : N := 76.  (* unsupported MRSIGNER size *)
Definition A_ALG : N := 77.    (* unsupported key algorithm *)
Definition akid (data : bytes) : M (N * bytes) :=
  if glen data <? 158 then fail A_SIZE else
  l <- lift (slice data 4 6) ;;
  mrSignerLen <- lift (le16 l) ;;
  if negb (mrSignerLen =? MrSignerSize) then fail A_MRLEN else
  m <- lift (slice data 6 (6 + mrSignerLen)) ;;
  mrSigner <- fixed_unmarshal MrSignerSize 0 m ;;
  a <- lift (slice data 154 158) ;;
  algID <- lift (le32 a) ;;
  if (algID =? 0) || (algID =? 1) || (algID =? 2) then ret (algID, mrSigner) else fail A_ALG.

(* ---------- pcs/tcb.go QEIdentity.verify (:655-700): the hex-encoded MISCSELECT / ATTRIBUTES
   fields and their masks, compared with the report's values in source order ---------- *)
Definition E_MISMATCH : N := 67.   (* invalid QE miscselect / attributes *)
Definition qe_masks (rmisc rflags rxfrm : N) (ms msm att attm : bytes) : M unit :=
  rawMs <- lift (hex_decode ms) ;;
  if negb (glen rawMs =? 4) then fail E_LEN else
  rawMsm <- lift (hex_decode msm) ;;
  if negb (glen rawMsm =? 4) then fail E_LEN else
  e <- lift (le32 rawMs) ;;
  m <- lift (le32 rawMsm) ;;
  if negb (N.land rmisc m =? e) then fail E_MISMATCH else
  rawAt <- lift (hex_decode att) ;;
  if negb (glen rawAt =? 16) then fail E_LEN else
  rawAtm <- lift (hex_decode attm) ;;
  if negb (glen rawAtm =? 16) then fail E_LEN else
  a0 <- lift (slice_from rawAt 0) ;; ef <- lift (le64 a0) ;;
  a8 <- lift (slice_from rawAt 8) ;; ex <- lift (le64 a8) ;;
  m0 <- lift (slice_from rawAtm 0) ;; fm <- lift (le64 m0) ;;
  m8 <- lift (slice_from rawAtm 8) ;; xm <- lift (le64 m8) ;;
  if negb (N.land rflags fm =? ef) then fail E_MISMATCH else
  if negb (N.land rxfrm xm =? ex) then fail E_MISMATCH else
  ret tt.

(* ---------- quantity.go:46-51: big.Int.SetBytes never fails, the value is >= 0 ---------- *)
Fixpoint be_nat (data : bytes) (acc : N) : N :=
  match data with [] => acc | b :: r => be_nat r (acc * 256 + b) end.
Definition quantity_unmarshal_binary (data : bytes) : M N := ret (be_nat data 0).

(* ---------- pathbadger/node.go ---------- *)
Definition P_PTR_SHORT : N := 78.   (* malformed pointer (not enough bytes) *)
Definition P_PTR_EMPTY : N := 79.   (* serialized empty hash encountered in pointer *)
Definition P_NODE_SHORT : N := 86.  (* malformed node (db corruption?) *)
Definition P_KIND : N := 87.        (* unsupported node kind *)
Definition W_PKEY : N := 500.       (* failed to unmarshal key / label size / leaf node size: %w *)
Definition W_PLBL : N := 600.       (* failed to unmarshal label bit length: %w *)
Definition W_PHASH : N := 700.      (* failed to unmarshal hash: %w *)

(* node.go:441-476: (size, hash, version, index) *)
Definition pb_ptr (data : bytes) : M (N * (bytes * N * N)) :=
  if glen data <? HashSize + 8 + 4 then fail P_PTR_SHORT else
  hb <- lift (slice data 0 HashSize) ;;
  h <- wrap W_PHASH (hash_unmarshal hb) ;;
  if hash_is_empty h then fail P_PTR_EMPTY else
  let pos := HashSize in
  v <- lift (slice_from data pos) ;; version <- lift (be64 v) ;;
  let pos := pos + 8 in
  i <- lift (slice_from data pos) ;; index <- lift (be32 i) ;;
  let pos := pos + 4 in
  ret (pos, (h, version, index)).

Inductive pbnode : Type :=
| PbLeaf (key value : bytes)
| PbInternal (label : bytes) (lbl : N) (left right : option (bytes * N * N)) (leaf : option (bytes * bytes)).

(* node.go:329-430; value copies allocate len(value[pos:]) *)
Definition pb_node (value : bytes) : M pbnode :=
  if glen value <? 2 then fail P_NODE_SHORT else
  let pos := 1 in
  kind <- lift (index value 0) ;;
  if kind =? 1 then
    rest <- lift (slice_from value pos) ;;
    '(key, size) <- wrap W_PKEY (key_sized_unmarshal rest) ;;
    let pos := pos + size in
    v <- lift (slice_from value pos) ;;
    v0 <- alloc (glen v) ;;
    ret (PbLeaf key (gcopy v0 v))
  else if (kind =? 2) || (kind =? 3) || (kind =? 4) then
    rest <- lift (slice_from value pos) ;;
    '(label, size) <- wrap W_PKEY (key_sized_unmarshal rest) ;;
    let pos := pos + size in
    rest <- lift (slice_from value pos) ;;
    '(lbl, size) <- wrap W_PLBL (depth_unmarshal rest) ;;
    let pos := pos + size in
    '(lptr, pos) <-
       (if (kind =? 2) || (kind =? 4) then
          rest <- lift (slice_from value pos) ;;
          '(size, p) <- pb_ptr rest ;;
          ret (Some p, pos + size)
        else ret (None, pos)) ;;
    '(rptr, pos) <-
       (if (kind =? 3) || (kind =? 4) then
          rest <- lift (slice_from value pos) ;;
          '(size, p) <- pb_ptr rest ;;
          ret (Some p, pos + size)
        else ret (None, pos)) ;;
    if pos <? glen value then
      rest <- lift (slice_from value pos) ;;
      '(lkey, size) <- wrap W_PKEY (key_sized_unmarshal rest) ;;
      let pos := pos + size in
      v <- lift (slice_from value pos) ;;
      v0 <- alloc (glen v) ;;
      ret (PbInternal label lbl lptr rptr (Some (lkey, gcopy v0 v)))
    else ret (PbInternal label lbl lptr rptr None)
  else fail P_KIND.

(* ---------- cbor/codec.go:48-75 MessageReader.Read ----------
   [stream]: the bytes the underlying reader will deliver; [dec]: the outcome of
   the (unmodelled) CBOR item decoder on the LimitedReader: None = error,
   Some n = success with n bytes of the frame left unread (LimitedReader.N) *)
Definition F_IO : N := 88.         (* io.EOF / io.ErrUnexpectedEOF reading the length prefix *)
Definition F_TOO_LARGE : N := 89.  (* codec: message too large *)
Definition F_DECODE : N := 64.     (* CBOR decode error *)
Definition F_MALFORMED : N := 65.  (* codec: message is malformed *)
Definition frame_read (stream : bytes) (dec : option N) : M N :=
  rawLength <- alloc 4 ;;
  if glen stream <? 4 then fail F_IO else
  hdr <- lift (slice stream 0 4) ;;
  length <- lift (be32 (gcopy rawLength hdr)) ;;
  if maxMessageSize <? length then fail F_TOO_LARGE else
  match dec with
  | None => fail F_DECODE
  | Some rem => if 0 <? rem then fail F_MALFORMED else ret length
  end.

(* ---------- enum UnmarshalText: switch string(text) { case NAME_i: ...; default: error } ---------- *)
Definition E_ENUM : N := 66.
Fixpoint enum_text (table : list (bytes * N)) (text : bytes) : res N :=
  match table with
  | [] => Err E_ENUM
  | (name, v) :: rest => if bytes_eqb name text then Ok v else enum_text rest text
  end.

(* ---------- sigstruct.Verify: after "len(buf) != sigstructSize => error" every read is at a
   constant offset; (offset, width) of each read, width 0 = "buf[off:]" ---------- *)
Definition sigstruct_reads (offs : list (N * N)) (buf : bytes) : M unit :=
  if negb (glen buf =? sigstructSize) then fail E_LEN else
  fold_right (fun ow acc => _ <- lift (slice buf (fst ow) (if snd ow =? 0 then glen buf else fst ow + snd ow)) ;; acc)
             (ret tt) offs.

(* ---------- comparison helpers ---------- *)
Definition optr_eqb (a b : option (bytes * N * N)) : bool :=
  match a, b with
  | None, None => true
  | Some (h1, v1, i1), Some (h2, v2, i2) => bytes_eqb h1 h2 && (v1 =? v2) && (i1 =? i2)
  | _, _ => false
  end.
Definition pbnode_eqb (a b : pbnode) : bool :=
  match a, b with
  | PbLeaf k1 v1, PbLeaf k2 v2 => bytes_eqb k1 k2 && bytes_eqb v1 v2
  | PbInternal l1 n1 a1 b1 f1, PbInternal l2 n2 a2 b2 f2 =>
      bytes_eqb l1 l2 && (n1 =? n2) && optr_eqb a1 a2 && optr_eqb b1 b2 &&
      match f1, f2 with
      | None, None => true
      | Some (k1, v1), Some (k2, v2) => bytes_eqb k1 k2 && bytes_eqb v1 v2
      | _, _ => false
      end
  | _, _ => false
  end.

(* the reads of sigstruct.Verify / hashForSignature in source order (sigstruct.go:253-301, 141-146) *)
Definition sigstruct_offs : list (N * N) :=
  [ (modulusOffset, exponentOffset - modulusOffset); (exponentOffset, 4);
    (signatureOffset, miscSelectOffset - signatureOffset);
    (0, modulusOffset); (miscSelectOffset, isvSVNOffset + 2 - miscSelectOffset);
    (q1Offset, q2Offset - q1Offset); (q2Offset, 0);
    (dateOffset, 4); (swdefinedOffset, 0); (miscSelectOffset, 4); (miscSelectMaskOffset, 4);
    (attributesOffset, 8); (attributesOffset + 8, 8); (attributesMaskOffset, 8); (attributesMaskOffset + 8, 8);
    (enclaveHashOffset, 0); (isvProdIDOffset, 2); (isvSVNOffset, 2) ].
