(* Coverage of the hand-written decoders of go/ by the model.
   Gen/DecoderInventory.v lists every function found in the CURRENT source by
   the mechanical criteria of harness/cmd/gen/inventory.go.  Each entry must be
   in [ported] (there is a Gallina port, a totality theorem in Props/C16.v and a
   correspondence case kind) or in [reviewed] (looked at by hand, with the
   reason; NOT covered by the proof).  The theorem in Props/C16.v fails to
   build -- naming the function -- as soon as a decoder appears in the source
   that is on neither list.  Executable definitions only. *)
From Coq Require Import String List Bool.
From Verif Require Import Gen.DecoderInventory.
Import ListNotations.
Open Scope string_scope.

(* entry, the model function(s) it is ported to *)
Definition ported : list (string * string) := [
  ("common/cbor:MessageReader.Read", "More.frame_read (CBOR item decoder = oracle)");
  ("common/crypto/address:Address.UnmarshalBinary", "KeyFormat.fixed_unmarshal 21 0");
  ("common/crypto/hash:Hash.UnmarshalBinary", "Node.hash_unmarshal / fixed_unmarshal 32 0");
  ("common/crypto/hash:Hash.UnmarshalHex", "More.unmarshal_hex 32 0");
  ("common/crypto/hash:Hash.UnmarshalText", "More.unmarshal_hex_or_b64 32 0 (base64 = oracle)");
  ("common/crypto/signature:PublicKey.UnmarshalBinary", "fixed_unmarshal 32 0");
  ("common/crypto/signature:PublicKey.UnmarshalHex", "More.unmarshal_hex 32 0");
  ("common/crypto/signature:PublicKey.UnmarshalText", "More.unmarshal_b64 32 0");
  ("common/crypto/signature:RawProof.UnmarshalBinary", "fixed_unmarshal ProofSize 0");
  ("common/crypto/signature:RawProof.UnmarshalText", "More.unmarshal_b64 ProofSize 0");
  ("common/crypto/signature:RawSignature.UnmarshalBinary", "fixed_unmarshal 64 0");
  ("common/crypto/signature:RawSignature.UnmarshalText", "More.unmarshal_b64 64 0");
  ("common/crypto/signature:SignerRole.UnmarshalText", "More.enum_text");
  ("common/keyformat:KeyFormat.Decode", "KeyFormat.kf_decode");
  ("common/keyformat:PreHashed.UnmarshalBinary", "fixed_unmarshal 32 0");
  ("common/keyformat:hashedFormat.UnmarshalBinary", "fixed_unmarshal 32 0 (via kf_elems EBin)");
  ("common/quantity:Quantity.UnmarshalBinary", "More.quantity_unmarshal_binary");
  ("common/sgx/aesm:AttestationKeyID.UnmarshalBinary", "More.akid");
  ("common/sgx/ias:AttestationType.UnmarshalText", "More.enum_text (map lookup)");
  ("common/sgx/ias:Body.UnmarshalBinary", "Misc.ias_body");
  ("common/sgx/ias:ISVEnclaveQuoteStatus.UnmarshalText", "More.enum_text (map lookup)");
  ("common/sgx/ias:PSEManifestStatus.UnmarshalText", "More.enum_text (map lookup)");
  ("common/sgx/ias:Quote.UnmarshalBinary", "Misc.ias_quote");
  ("common/sgx/ias:Report.UnmarshalBinary", "Misc.ias_report");
  ("common/sgx/ias:SPID.UnmarshalBinary", "fixed_unmarshal 16 0");
  ("common/sgx/pcs:CertificationData_PPID.UnmarshalBinary", "Quote.ppid");
  ("common/sgx/pcs:CertificationData_QEReport.UnmarshalBinary", "Quote.qe_report");
  ("common/sgx/pcs:QEIdentity.verify", "More.qe_masks (the hex mask parsing; comparisons are pure)");
  ("common/sgx/pcs:Quote.UnmarshalBinary", "Quote.quote_unmarshal _ false");
  ("common/sgx/pcs:Quote.UnmarshalBinaryWithTrailing", "Quote.quote_unmarshal");
  ("common/sgx/pcs:QuoteHeaderV3.UnmarshalBinary", "Quote.header_v3");
  ("common/sgx/pcs:QuoteHeaderV4.UnmarshalBinary", "Quote.header_v4");
  ("common/sgx/pcs:QuoteSignatureECDSA_P256.UnmarshalBinary", "Quote.sig_ecdsa");
  ("common/sgx/pcs:SgxReport.UnmarshalBinary", "Quote.sgx_report");
  ("common/sgx/pcs:SignatureECDSA_P256.UnmarshalHex", "More.unmarshal_hex 64 0");
  ("common/sgx/pcs:TCBStatus.UnmarshalText", "More.enum_text (map lookup)");
  ("common/sgx/pcs:TdAttributes.UnmarshalBinary", "Quote.td_attributes");
  ("common/sgx/pcs:TdReport.UnmarshalBinary", "Quote.td_report");
  ("common/sgx/sigstruct:Verify", "More.sigstruct_reads sigstruct_offs (the reads; RSA verification not modelled)");
  ("common/sgx/sigstruct:hashForSignature", "More.sigstruct_reads sigstruct_offs (entries 4-5)");
  ("common/sgx:EnclaveIdentity.UnmarshalHex", "More.enclave_identity (hex_decode _)");
  ("common/sgx:EnclaveIdentity.UnmarshalText", "More.enclave_identity (base64 = oracle)");
  ("common/sgx:MrEnclave.UnmarshalBinary", "fixed_unmarshal 32 0");
  ("common/sgx:MrEnclave.UnmarshalHex", "More.unmarshal_hex 32 0");
  ("common/sgx:MrSigner.UnmarshalBinary", "fixed_unmarshal 32 0");
  ("common/sgx:MrSigner.UnmarshalHex", "More.unmarshal_hex 32 0");
  ("common:Namespace.UnmarshalBase64", "More.unmarshal_b64 32 1");
  ("common:Namespace.UnmarshalBinary", "fixed_unmarshal 32 1");
  ("common:Namespace.UnmarshalHex", "More.unmarshal_hex 32 1");
  ("common:Namespace.UnmarshalText", "More.unmarshal_hex_or_b64 32 1");
  ("common:Namespace.flags", "KeyFormat.be64_arr (on the fixed-size array)");
  ("consensus/api:StatusState.UnmarshalText", "More.enum_text");
  ("governance/api:ProposalState.UnmarshalText", "More.enum_text");
  ("governance/api:Vote.UnmarshalText", "More.enum_text");
  ("registry/api:RuntimeGovernanceModel.UnmarshalText", "More.enum_text");
  ("runtime/config:RuntimeProvisioner.UnmarshalText", "More.enum_text");
  ("runtime/transaction:artifactKind.UnmarshalBinary", "fixed_unmarshal 1 2");
  ("scheduler/api:CommitteeKind.UnmarshalText", "More.enum_text");
  ("scheduler/api:Role.UnmarshalText", "More.enum_text");
  ("staking/api:Address.UnmarshalBinary", "fixed_unmarshal 21 0");
  ("staking/api:SlashReason.UnmarshalText", "More.enum_text");
  ("staking/api:ThresholdKind.UnmarshalText", "More.enum_text");
  ("storage/mkvs/db/api:TypedHash.UnmarshalBinary", "fixed_unmarshal 33 0");
  ("storage/mkvs/db/api:TypedHash.UnmarshalHex", "More.unmarshal_hex 33 0");
  ("storage/mkvs/db/api:TypedHash.UnmarshalText", "More.unmarshal_b64 33 0");
  ("storage/mkvs/db/pathbadger:nodeFromDb", "More.pb_node");
  ("storage/mkvs/db/pathbadger:ptrFromDb", "More.pb_ptr");
  ("storage/mkvs/node:Depth.UnmarshalBinary", "Node.depth_unmarshal");
  ("storage/mkvs/node:InternalNode.SizedUnmarshalBinary", "Node.inode_sized_unmarshal");
  ("storage/mkvs/node:InternalNode.UnmarshalBinary", "Node.inode_sized_unmarshal");
  ("storage/mkvs/node:Key.SizedUnmarshalBinary", "Node.key_sized_unmarshal");
  ("storage/mkvs/node:Key.UnmarshalBinary", "Node.key_sized_unmarshal");
  ("storage/mkvs/node:LeafNode.SizedUnmarshalBinary", "Node.leaf_sized_unmarshal");
  ("storage/mkvs/node:LeafNode.UnmarshalBinary", "Node.leaf_sized_unmarshal");
  ("storage/mkvs/node:UnmarshalBinary", "Node.node_unmarshal");
  ("worker/common/api:StatusState.UnmarshalText", "More.enum_text");
  ("worker/compute/executor/api:StatusState.UnmarshalText", "More.enum_text");
  ("worker/keymanager/api:StatusState.UnmarshalText", "More.enum_text")
].

(* entry, why it is not ported (NOT covered by the proof) *)
Definition reviewed : list (string * string) := [
  ("common/crypto/address:Address.UnmarshalBech32", "third-party bech32 decoder, then a length check and copy; search only");
  ("common/crypto/drbg:Drbg.Read", "fills the caller's output buffer; no untrusted input");
  ("common/crypto/mathrand:rngAdapter.refill", "reads its own fixed 8-byte buffer");
  ("common/crypto/mrae/api:Bzero", "zeroises a buffer");
  ("common/crypto/sakg:BIP32Path.UnmarshalText", "strings.Split (always >= 1 element) + strconv; operator-supplied derivation path");
  ("common/crypto/signature:PublicKey.UnmarshalPEM", "encoding/pem, then UnmarshalBinary; local key files");
  ("common/crypto/signature:RawSignature.UnmarshalPEM", "encoding/pem, then UnmarshalBinary; local files");
  ("common/crypto/signature:Signature.UnmarshalPEM", "encoding/pem; local files");
  ("common/crypto/slip10:splitDigest", "input is the 64-byte HMAC-SHA512 digest computed by the caller");
  ("common/dynlib:loadCacheGlibc", "parses the local /etc/ld.so.cache");
  ("common/dynlib:parseOldLdCache", "parses the local /etc/ld.so.cache");
  ("common/fuzz:InterfaceFuzzer.DispatchBlob", "fuzzing helper, not linked into the node");
  ("common/node:Address.UnmarshalText", "net.ResolveTCPAddr (stdlib; may resolve host names); configuration input");
  ("common/node:ConsensusAddress.UnmarshalText", "strings.Split with len == 2 check, then PublicKey / Address UnmarshalText");
  ("common/node:RolesMask.UnmarshalText", "strings.Split + switch; no indexing");
  ("common/node:TLSAddress.UnmarshalText", "strings.Split with len == 2 check, then PublicKey / Address UnmarshalText");
  ("common/quantity:Quantity.UnmarshalText", "math/big.Int.UnmarshalText (stdlib), then a sign check");
  ("common/sgx/aesm:Client.GetQuote", "talks to the local AESM daemon over a unix socket");
  ("common/sgx/aesm:Client.transact", "talks to the local AESM daemon over a unix socket (length-prefixed protobuf)");
  ("common/sgx/ias:NewMockAVR", "mock, debug builds only");
  ("common/sgx/pcs:CertificationData_PCKCertificateChain.UnmarshalBinary", "encoding/pem + crypto/x509: oracle input pem_ok of Quote.qe_report; search only");
  ("common/sgx/pcs:NewMockQuote", "mock, debug builds only");
  ("common/sgx/pcs:cachingQuoteService.ResolveQuote", "re-slices rawQuote[:size] with the size returned by Quote.UnmarshalBinaryWithTrailing (<= len: decode_quote_bounded); the quote comes from the local runtime");
  ("common/sgx/sigstruct:toBcdDate", "encoder");
  ("consensus/cometbft/db/badger:fromDBKeyNoCopy", "keys of the node's own CometBFT database; panics by design on a foreign key (BUG)");
  ("roothash/api/block:Timestamp.UnmarshalText", "time.Time.UnmarshalText (stdlib)");
  ("runtime/bundle/component:ID.UnmarshalText", "strings.Split / switch on operator-supplied bundle manifests");
  ("staking/api:Address.UnmarshalText", "bech32 (third party), then UnmarshalBinary; search only");
  ("storage/mkvs/db/badger:v5Migrator.unmarshalV4InternalNode", "one-off migration of the node's own v4 database");
  ("storage/mkvs/db/badger:v5Migrator.unmarshalV4LeafNode", "one-off migration of the node's own v4 database")
].

Fixpoint mem (s : string) (l : list (string * string)) : bool :=
  match l with
  | [] => false
  | (x, _) :: r => if String.eqb x s then true else mem s r
  end.

(* inventory entries that are on neither list *)
Definition unclassified : list string :=
  filter (fun d => negb (mem d ported || mem d reviewed)) decoder_inventory.
(* list entries that no longer exist in the source (stale classification) *)
Definition stale : list string :=
  filter (fun d => negb (existsb (String.eqb d) decoder_inventory)) (map fst ported ++ map fst reviewed).
Definition ported_count : nat := length (filter (fun d => mem d ported) decoder_inventory).
