(* Totality, boundedness and round-trip of the MKVS node decoders (Node.v). *)
From Verif Require Import Lib.Base Decode.GoSlice Decode.GoSliceFacts Decode.Node Gen.DecodeConsts.

Ltac consts := unfold DepthSize, ValueLengthSize, HashSize, PrefixLeafNode,
  PrefixInternalNode, PrefixNilNode, E_NODE, E_KEY, E_HASH, W_LBL, W_LEAF, W_LEFT, W_RIGHT in *.

(* The regenerated layout constants the proofs depend on. *)
Lemma gen_layout_expected :
  DepthSize = 2 /\ ValueLengthSize = 4 /\ HashSize = 32 /\
  PrefixLeafNode = 0 /\ PrefixInternalNode = 1 /\ PrefixNilNode = 2 /\
  glen emptyHash = HashSize.
Proof. repeat split; reflexivity. Qed.

(* ---------- Depth ---------- *)
Definition depth_post (data : bytes) (s : N) (out : res (N * N) * N) : Prop :=
  match out with
  | (Ok (v, n), s') => n = 2 /\ n <= glen data /\ s' = s /\ v = le16v data
  | (Err e, s') => s' = s /\ e = E_NODE /\ glen data < 2
  | (Panic, _) => False
  end.

Lemma le16v_sl data n : 2 <= n -> n <= glen data -> le16v (sl data 0 n) = le16v data.
Proof.
  intros H2 Hn. unfold le16v, sl, glen in *. cbn [skipn N.to_nat].
  rewrite N.sub_0_r.
  destruct data as [|a [|b r]]; cbn [length] in *; try lia.
  replace (N.to_nat n) with (S (S (N.to_nat n - 2))) by lia. reflexivity.
Qed.

Lemma depth_spec data s : depth_post data s (depth_unmarshal data s).
Proof.
  unfold depth_unmarshal. consts.
  destruct (glen data <? 2) eqn:H1.
  - cbn. repeat split; lia.
  - rewrite slice_ok by lia. rewrite bind_lift_ok.
    rewrite le16_ok by (rewrite glen_sl; lia). rewrite bind_lift_ok.
    cbn. repeat split; try lia. apply le16v_sl; lia.
Qed.

(* ---------- Key ---------- *)
Definition key_post (data : bytes) (s : N) (out : res (bytes * N) * N) : Prop :=
  match out with
  | (Ok (k, n), s') =>
      n = 2 + glen k /\ n <= glen data /\ s' = s + glen k /\ k = sl data 2 n
      /\ glen k = le16v data
  | (Err e, s') => s' = s /\ e = E_KEY
  | (Panic, _) => False
  end.

Lemma key_spec data s : key_post data s (key_sized_unmarshal data s).
Proof.
  unfold key_sized_unmarshal. consts.
  destruct (glen data <? 2) eqn:H1; [cbn; split; reflexivity|].
  rewrite slice_ok by lia. rewrite bind_lift_ok.
  rewrite le16_ok by (rewrite glen_sl; lia). rewrite bind_lift_ok.
  rewrite le16v_sl by lia.
  remember (le16v data) as keyLen eqn:Hk.
  destruct (glen data <? 2 + keyLen) eqn:H2; [cbn; split; reflexivity|].
  destruct (0 <? keyLen) eqn:H3.
  - rewrite bind_alloc. rewrite slice_ok by lia. rewrite bind_lift_ok.
    cbn [ret key_post].
    assert (glen (sl data 2 (2 + keyLen)) = keyLen) as Hl by (rewrite glen_sl; lia).
    assert (gcopy (zeros keyLen) (sl data 2 (2 + keyLen)) = sl data 2 (2 + keyLen)) as Hc.
    { rewrite <- Hl at 1. apply gcopy_zeros. }
    rewrite Hc, Hl. repeat split; try reflexivity; lia.
  - cbn [ret key_post]. assert (keyLen = 0) as -> by lia.
    repeat split; try (cbn; lia).
Qed.

Lemma bind_unfold {A B} (m : M A) (f : A -> M B) s :
  bind m f s = match m s with
               | (Ok a, s') => f a s'
               | (Err e, s') => (Err e, s')
               | (Panic, s') => (Panic, s')
               end.
Proof. reflexivity. Qed.

Lemma wrap_unfold {A} c (m : M A) s :
  wrap c m s = match m s with (Err e, s') => (Err (c + e), s') | x => x end.
Proof. reflexivity. Qed.

(* ---------- Leaf ---------- *)
Definition leaf_post (data : bytes) (s : N) (out : res (leaf * N) * N) : Prop :=
  match out with
  | (Ok (l, n), s') =>
      n = 7 + glen (lkey l) + glen (lvalue l) /\ n <= glen data /\
      s' = s + glen (lkey l) + glen (lvalue l) /\
      nth 0 data 0 = 0 /\
      glen (lkey l) = le16v (sl data 1 (glen data)) /\
      lkey l = sl data 3 (3 + glen (lkey l)) /\
      glen (lvalue l) = le32v (sl data (3 + glen (lkey l)) (7 + glen (lkey l))) /\
      lvalue l = sl data (7 + glen (lkey l)) n
  | (Err e, s') => s' <= s + glen data /\ (e = E_NODE \/ e = E_KEY)
  | (Panic, _) => False
  end.

Lemma sl_sl a i j i2 j2 :
  i <= j -> j <= glen a -> i2 <= j2 -> j2 <= j - i ->
  sl (sl a i j) i2 j2 = sl a (i + i2) (i + j2).
Proof.
  intros H1 H2 H3 H4. unfold sl, glen in *.
  rewrite skipn_firstn_comm, firstn_firstn, skipn_skipn'.
  f_equal; [lia|]. f_equal. lia.
Qed.

Lemma leaf_spec data s : leaf_post data s (leaf_sized_unmarshal data s).
Proof.
  unfold leaf_sized_unmarshal. consts.
  destruct (glen data <? 1 + 2 + 4) eqn:H1; [cbn; split; [lia|left; reflexivity]|].
  rewrite index_ok by lia. rewrite bind_lift_ok.
  change (N.to_nat 0) with 0%nat.
  destruct (negb (nth 0 data 0 =? 0)) eqn:H2; [cbn; split; [lia|left; reflexivity]|].
  unfold slice_from. rewrite slice_ok by lia. rewrite bind_lift_ok.
  rewrite bind_unfold.
  pose proof (key_spec (sl data 1 (glen data)) s) as HK.
  assert (glen (sl data 1 (glen data)) = glen data - 1) as Hrest by (rewrite glen_sl; lia).
  destruct (key_sized_unmarshal (sl data 1 (glen data)) s) as [[[k n]|e|] s1];
    cbn [key_post] in HK; [|destruct HK as [-> ->]; cbn; split; [lia|right; reflexivity]|contradiction].
  destruct HK as (Hn & Hnle & Hs1 & Hk & Hklen).
  destruct (glen data <? 1 + n + 4) eqn:H3; [cbn; split; [lia|left; reflexivity]|].
  rewrite slice_ok by lia. rewrite bind_lift_ok.
  rewrite le32_ok by (rewrite glen_sl; lia). rewrite bind_lift_ok.
  remember (le32v (sl data (1 + n) (1 + n + 4))) as valueSize eqn:Hv.
  destruct (glen data <? 1 + n + 4 + valueSize) eqn:H4; [cbn; split; [lia|left; reflexivity]|].
  rewrite bind_alloc. rewrite slice_ok by lia. rewrite bind_lift_ok.
  cbn [ret leaf_post lkey lvalue].
  assert (glen (sl data (1 + n + 4) (1 + n + 4 + valueSize)) = valueSize) as Hl
    by (rewrite glen_sl; lia).
  assert (gcopy (zeros valueSize) (sl data (1 + n + 4) (1 + n + 4 + valueSize))
          = sl data (1 + n + 4) (1 + n + 4 + valueSize)) as Hc.
  { rewrite <- Hl at 1. apply gcopy_zeros. }
  rewrite Hc, Hl.
  assert (k = sl data 3 (3 + glen k)) as Hk'.
  { rewrite Hk at 1. rewrite sl_sl by lia. f_equal; lia. }
  repeat split; try lia.
  - destruct (nth 0 data 0 =? 0) eqn:E; [apply N.eqb_eq in E; exact E|discriminate].
  - exact Hk'.
  - rewrite Hv. f_equal; lia.
  - f_equal; lia.
Qed.
