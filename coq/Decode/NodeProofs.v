(* Totality, boundedness and round-trip of the MKVS node decoders (Node.v). *)
From Verif Require Import Lib.Base Decode.GoSlice Decode.GoSliceFacts Decode.Node Gen.DecodeConsts.

Ltac consts := unfold DepthSize, ValueLengthSize, HashSize, PrefixLeafNode,
  PrefixInternalNode, PrefixNilNode, E_NODE, E_KEY, E_HASH, W_LBL, W_LEAF, W_LEFT, W_RIGHT in *.

(* The regenerated layout constants the proofs depend on. *)
Lemma gen_layout_expected :
  DepthSize = 2 /\ ValueLengthSize = 4 /\ HashSize = 32 /\
  PrefixLeafNode = 0 /\ PrefixInternalNode = 1 /\ PrefixNilNode = 2 /\
  glen emptyHash = HashSize.
Proof. repeat split; reflexivity. Qed.

(* ---------- Depth ---------- *)
Definition depth_post (data : bytes) (s : N) (out : res (N * N) * N) : Prop :=
  match out with
  | (Ok (v, n), s') => n = 2 /\ n <= glen data /\ s' = s /\ v = le16v data
  | (Err e, s') => s' = s /\ e = E_NODE /\ glen data < 2
  | (Panic, _) => False
  end.

Lemma le16v_sl data n : 2 <= n -> n <= glen data -> le16v (sl data 0 n) = le16v data.
Proof.
  intros H2 Hn. unfold le16v, sl, glen in *. cbn [skipn N.to_nat].
  rewrite N.sub_0_r.
  destruct data as [|a [|b r]]; cbn [length] in *; try lia.
  replace (N.to_nat n) with (S (S (N.to_nat n - 2))) by lia. reflexivity.
Qed.

Lemma depth_spec data s : depth_post data s (depth_unmarshal data s).
Proof.
  unfold depth_unmarshal. consts.
  destruct (glen data <? 2) eqn:H1.
  - cbn. repeat split; lia.
  - rewrite slice_ok by lia. rewrite bind_lift_ok.
    rewrite le16_ok by (rewrite glen_sl; lia). rewrite bind_lift_ok.
    cbn. repeat split; try lia. apply le16v_sl; lia.
Qed.

(* ---------- Key ---------- *)
Definition key_post (data : bytes) (s : N) (out : res (bytes * N) * N) : Prop :=
  match out with
  | (Ok (k, n), s') =>
      n = 2 + glen k /\ n <= glen data /\ s' = s + glen k /\ k = sl data 2 n
      /\ glen k = le16v data
  | (Err e, s') => s' = s /\ e = E_KEY
  | (Panic, _) => False
  end.

Lemma key_spec data s : key_post data s (key_sized_unmarshal data s).
Proof.
  unfold key_sized_unmarshal. consts.
  destruct (glen data <? 2) eqn:H1; [cbn; split; reflexivity|].
  rewrite slice_ok by lia. rewrite bind_lift_ok.
  rewrite le16_ok by (rewrite glen_sl; lia). rewrite bind_lift_ok.
  rewrite le16v_sl by lia.
  remember (le16v data) as keyLen eqn:Hk.
  destruct (glen data <? 2 + keyLen) eqn:H2; [cbn; split; reflexivity|].
  destruct (0 <? keyLen) eqn:H3.
  - rewrite bind_alloc. rewrite slice_ok by lia. rewrite bind_lift_ok.
    cbn [ret key_post].
    assert (glen (sl data 2 (2 + keyLen)) = keyLen) as Hl by (rewrite glen_sl; lia).
    assert (gcopy (zeros keyLen) (sl data 2 (2 + keyLen)) = sl data 2 (2 + keyLen)) as Hc.
    { rewrite <- Hl at 1. apply gcopy_zeros. }
    rewrite Hc, Hl. repeat split; try reflexivity; lia.
  - cbn [ret key_post]. assert (keyLen = 0) as -> by lia.
    repeat split; try (cbn; lia).
Qed.

Lemma bind_unfold {A B} (m : M A) (f : A -> M B) s :
  bind m f s = match m s with
               | (Ok a, s') => f a s'
               | (Err e, s') => (Err e, s')
               | (Panic, s') => (Panic, s')
               end.
Proof. reflexivity. Qed.

Lemma wrap_unfold {A} c (m : M A) s :
  wrap c m s = match m s with (Err e, s') => (Err (c + e), s') | x => x end.
Proof. reflexivity. Qed.

(* ---------- Leaf ---------- *)
Definition leaf_post (data : bytes) (s : N) (out : res (leaf * N) * N) : Prop :=
  match out with
  | (Ok (l, n), s') =>
      n = 7 + glen (lkey l) + glen (lvalue l) /\ n <= glen data /\
      s' = s + glen (lkey l) + glen (lvalue l) /\
      nth 0 data 0 = 0 /\
      glen (lkey l) = le16v (sl data 1 (glen data)) /\
      lkey l = sl data 3 (3 + glen (lkey l)) /\
      glen (lvalue l) = le32v (sl data (3 + glen (lkey l)) (7 + glen (lkey l))) /\
      lvalue l = sl data (7 + glen (lkey l)) n
  | (Err e, s') => s' <= s + glen data /\ (e = E_NODE \/ e = E_KEY)
  | (Panic, _) => False
  end.

Lemma sl_sl a i j i2 j2 :
  i <= j -> j <= glen a -> i2 <= j2 -> j2 <= j - i ->
  sl (sl a i j) i2 j2 = sl a (i + i2) (i + j2).
Proof.
  intros H1 H2 H3 H4. unfold sl, glen in *.
  rewrite skipn_firstn_comm, firstn_firstn, skipn_skipn'.
  f_equal; [lia|]. f_equal. lia.
Qed.

Lemma leaf_spec data s : leaf_post data s (leaf_sized_unmarshal data s).
Proof.
  unfold leaf_sized_unmarshal. consts.
  destruct (glen data <? 1 + 2 + 4) eqn:H1; [cbn; split; [lia|left; reflexivity]|].
  rewrite index_ok by lia. rewrite bind_lift_ok.
  change (N.to_nat 0) with 0%nat.
  destruct (negb (nth 0 data 0 =? 0)) eqn:H2; [cbn; split; [lia|left; reflexivity]|].
  unfold slice_from. rewrite slice_ok by lia. rewrite bind_lift_ok.
  rewrite bind_unfold.
  pose proof (key_spec (sl data 1 (glen data)) s) as HK.
  assert (glen (sl data 1 (glen data)) = glen data - 1) as Hrest by (rewrite glen_sl; lia).
  destruct (key_sized_unmarshal (sl data 1 (glen data)) s) as [[[k n]|e|] s1];
    cbn [key_post] in HK; [|destruct HK as [-> ->]; cbn; split; [lia|right; reflexivity]|contradiction].
  destruct HK as (Hn & Hnle & Hs1 & Hk & Hklen).
  destruct (glen data <? 1 + n + 4) eqn:H3; [cbn; split; [lia|left; reflexivity]|].
  rewrite slice_ok by lia. rewrite bind_lift_ok.
  rewrite le32_ok by (rewrite glen_sl; lia). rewrite bind_lift_ok.
  remember (le32v (sl data (1 + n) (1 + n + 4))) as valueSize eqn:Hv.
  destruct (glen data <? 1 + n + 4 + valueSize) eqn:H4; [cbn; split; [lia|left; reflexivity]|].
  rewrite bind_alloc. rewrite slice_ok by lia. rewrite bind_lift_ok.
  cbn [ret leaf_post lkey lvalue].
  assert (glen (sl data (1 + n + 4) (1 + n + 4 + valueSize)) = valueSize) as Hl
    by (rewrite glen_sl; lia).
  assert (gcopy (zeros valueSize) (sl data (1 + n + 4) (1 + n + 4 + valueSize))
          = sl data (1 + n + 4) (1 + n + 4 + valueSize)) as Hc.
  { rewrite <- Hl at 1. apply gcopy_zeros. }
  rewrite Hc, Hl.
  assert (k = sl data 3 (3 + glen k)) as Hk'.
  { rewrite Hk at 1. rewrite sl_sl by lia. f_equal; lia. }
  assert (nth 0 data 0 = 0) as Hb0.
  { destruct (nth 0 data 0 =? 0) eqn:E; [apply N.eqb_eq in E; exact E|discriminate]. }
  repeat split; try lia; try exact Hk'.
  all: try (rewrite Hv; f_equal; f_equal; lia).
  all: try (f_equal; lia).
Qed.

(* ---------- Internal node ---------- *)
Definition ohash (data : bytes) (i : N) : option bytes :=
  if hash_is_empty (sl data i (i + 32)) then None else Some (sl data i (i + 32)).

Definition hashes_post (data : bytes) (lbl : N) (label : bytes) (lf : option leaf) (pos s : N)
  (out : res (inode * N) * N) : Prop :=
  match out with
  | (Ok (n, c), s') =>
      s' = s /\ ilbl n = lbl /\ ilabel n = label /\ ileaf n = lf /\
      ((c = pos /\ glen data < pos + 64 /\ ileft n = None /\ iright n = None) \/
       (c = pos + 64 /\ c <= glen data /\
        ileft n = ohash data pos /\ iright n = ohash data (pos + 32)))
  | _ => False
  end.

Lemma hashes_spec data lbl label lf pos s :
  pos <= glen data -> hashes_post data lbl label lf pos s (inode_hashes data lbl label lf pos s).
Proof.
  intros Hpos. unfold inode_hashes, hash_unmarshal. consts.
  destruct (pos + 32 * 2 <=? glen data) eqn:H1.
  - rewrite slice_ok by lia. rewrite bind_lift_ok.
    rewrite bind_unfold, wrap_unfold.
    rewrite glen_sl by lia.
    replace (pos + 32 - pos =? 32) with true by lia. cbn [negb ret].
    rewrite slice_ok by lia. rewrite bind_lift_ok.
    rewrite bind_unfold, wrap_unfold.
    rewrite glen_sl by lia.
    replace (pos + 32 + 32 - (pos + 32) =? 32) with true by lia. cbn [negb ret hashes_post].
    cbn [ilbl ilabel ileaf ileft iright].
    repeat split. right. unfold ohash. repeat split; try lia.
  - cbn [ret hashes_post ilbl ilabel ileaf ileft iright]. repeat split. left. repeat split. lia.
Qed.

Definition leaf_size (l : leaf) : N := glen (lkey l) + glen (lvalue l).
Definition oleaf_size (l : option leaf) : N :=
  match l with Some l => leaf_size l | None => 0 end.
Definition ohash_size (h : option bytes) : N :=
  match h with Some h => glen h | None => 0 end.
Definition inode_size (n : inode) : N :=
  glen (ilabel n) + oleaf_size (ileaf n) + ohash_size (ileft n) + ohash_size (iright n).
Definition node_size (n : node) : N :=
  match n with NLeaf l => leaf_size l | NInternal n => inode_size n end.

Definition ileaf_post (data : bytes) (pos s : N) (out : res (option leaf * N) * N) : Prop :=
  match out with
  | (Ok (lf, c), s') =>
      pos < c /\ c <= glen data /\ s' = s + oleaf_size lf /\ oleaf_size lf <= c - pos /\
      match lf with
      | None => nth (N.to_nat pos) data 0 = 2 /\ c = pos + 1
      | Some l => leaf_post (sl data pos (glen data)) s (Ok (l, c - pos), s')
      end
  | (Err e, s') => s' <= s + (glen data - pos) /\ (e = 201 \/ e = 202)
  | (Panic, _) => False
  end.

Lemma ileaf_spec data pos s :
  pos < glen data -> ileaf_post data pos s (inode_leaf data pos s).
Proof.
  intros Hpos. unfold inode_leaf. consts.
  rewrite index_ok by lia. rewrite bind_lift_ok.
  destruct (nth (N.to_nat pos) data 0 =? 2) eqn:H1.
  - cbn [ret ileaf_post oleaf_size]. apply N.eqb_eq in H1. repeat split; lia.
  - unfold slice_from. rewrite slice_ok by lia. rewrite bind_lift_ok.
    rewrite bind_unfold, wrap_unfold.
    pose proof (leaf_spec (sl data pos (glen data)) s) as HL.
    assert (glen (sl data pos (glen data)) = glen data - pos) as Hr by (rewrite glen_sl; lia).
    destruct (leaf_sized_unmarshal (sl data pos (glen data)) s) as [[[l n]|e|] s1];
      cbn [leaf_post] in HL; [| |contradiction].
    + cbn [ret ileaf_post oleaf_size]. unfold leaf_size.
      replace (pos + n - pos) with n by lia.
      destruct HL as (Hn & Hle & Hs & Hrest).
      repeat split; try lia; try tauto.
    + cbn [ileaf_post]. destruct HL as [Hs He]. unfold E_NODE, E_KEY in He. split; [lia|].
      destruct He as [-> | ->]; [left|right]; reflexivity.
Qed.

Definition inode_post (data : bytes) (s : N) (out : res (inode * N) * N) : Prop :=
  match out with
  | (Ok (n, c), s') =>
      c <= glen data /\ 4 <= c /\ inode_size n <= c /\ s' <= s + inode_size n /\
      glen (ilabel n) = depth_to_bytes (ilbl n) /\ nth 0 data 0 = 1
  | (Err e, s') => s' <= s + glen data /\ e < 500
  | (Panic, _) => False
  end.

Lemma ohash_size_ohash data i : i + 32 <= glen data -> ohash_size (ohash data i) <= 32.
Proof.
  intros H. unfold ohash. destruct (hash_is_empty _); cbn [ohash_size]; [lia|].
  rewrite glen_sl; lia.
Qed.

Lemma inode_spec data s : inode_post data s (inode_sized_unmarshal data s).
Proof.
  unfold inode_sized_unmarshal. consts.
  destruct (glen data <? 1 + 2 + 1) eqn:H1; [cbn; lia|].
  rewrite index_ok by lia. rewrite bind_lift_ok. change (N.to_nat 0) with 0%nat.
  destruct (negb (nth 0 data 0 =? 1)) eqn:H2; [cbn; lia|].
  assert (nth 0 data 0 = 1) as Hb0.
  { destruct (nth 0 data 0 =? 1) eqn:E; [apply N.eqb_eq in E; exact E|discriminate]. }
  unfold slice_from. rewrite slice_ok by lia. rewrite bind_lift_ok.
  rewrite bind_unfold, wrap_unfold.
  pose proof (depth_spec (sl data (0 + 1) (glen data)) s) as HD.
  assert (glen (sl data (0 + 1) (glen data)) = glen data - 1) as Hr by (rewrite glen_sl; lia).
  destruct (depth_unmarshal (sl data (0 + 1) (glen data)) s) as [[[lbl n0]|e|] s1];
    cbn [depth_post] in HD; [|consts; cbn; lia|contradiction].
  destruct HD as (_ & _ & -> & _).
  remember (depth_to_bytes lbl) as labelLen eqn:HLL.
  destruct (glen data <? 0 + 1 + 2 + labelLen) eqn:H3; [cbn; lia|].
  rewrite bind_alloc. rewrite slice_ok by lia. rewrite bind_lift_ok.
  assert (glen (sl data (0 + 1 + 2) (0 + 1 + 2 + labelLen)) = labelLen) as Hl
    by (rewrite glen_sl; lia).
  assert (gcopy (zeros labelLen) (sl data (0 + 1 + 2) (0 + 1 + 2 + labelLen))
          = sl data (0 + 1 + 2) (0 + 1 + 2 + labelLen)) as Hc.
  { rewrite <- Hl at 1. apply gcopy_zeros. }
  rewrite Hc.
  destruct (glen data <=? 0 + 1 + 2 + labelLen) eqn:H4; [cbn; lia|].
  rewrite bind_unfold.
  pose proof (ileaf_spec data (0 + 1 + 2 + labelLen) (s + labelLen) ltac:(lia)) as HL.
  destruct (inode_leaf data (0 + 1 + 2 + labelLen) (s + labelLen)) as [[[lf pos]|e|] s2];
    cbn [ileaf_post] in HL; [|cbn; lia|contradiction].
  destruct HL as (Hp1 & Hp2 & Hs2 & Hsz & _).
  pose proof (hashes_spec data lbl (sl data (0 + 1 + 2) (0 + 1 + 2 + labelLen)) lf pos s2 Hp2) as HH.
  destruct (inode_hashes data lbl (sl data (0 + 1 + 2) (0 + 1 + 2 + labelLen)) lf pos s2)
    as [[[n c]|e|] s3]; cbn [hashes_post] in HH; try contradiction.
  destruct HH as (-> & Hlbl & Hlabel & Hleaf & Hcases).
  cbn [inode_post]. unfold inode_size. rewrite Hlbl, Hlabel, Hleaf, Hl.
  destruct Hcases as [(-> & Hshort & -> & ->) | (-> & Hlong & -> & ->)].
  - cbn [ohash_size]. repeat split; try lia.
  - pose proof (ohash_size_ohash data pos ltac:(lia)).
    pose proof (ohash_size_ohash data (pos + 32) ltac:(lia)).
    repeat split; try lia.
Qed.

(* ---------- node.UnmarshalBinary ---------- *)
Definition node_post (data : bytes) (s : N) (out : res node * N) : Prop :=
  match out with
  | (Ok n, s') => node_size n <= glen data /\ s' <= s + node_size n
  | (Err e, s') => s' <= s + glen data /\ e < 500
  | (Panic, _) => False
  end.

Lemma node_spec data s : node_post data s (node_unmarshal data s).
Proof.
  unfold node_unmarshal. consts.
  destruct (1 <? glen data) eqn:H1; [|cbn; lia].
  rewrite index_ok by lia. rewrite bind_lift_ok.
  destruct (nth (N.to_nat 0) data 0 =? 0).
  - rewrite bind_unfold. pose proof (leaf_spec data s) as HL.
    destruct (leaf_sized_unmarshal data s) as [[[l n]|e|] s1]; cbn [leaf_post] in HL;
      [|consts; cbn; lia|contradiction].
    cbn [ret node_post node_size]. unfold leaf_size. lia.
  - destruct (nth (N.to_nat 0) data 0 =? 1); [|cbn; lia].
    rewrite bind_unfold. pose proof (inode_spec data s) as HI.
    destruct (inode_sized_unmarshal data s) as [[[n c]|e|] s1]; cbn [inode_post] in HI;
      [|cbn; lia|contradiction].
    cbn [ret node_post node_size]. lia.
Qed.

(* ---------- the statements exported to Props/C16.v ---------- *)
Lemma decode_depth_total_l : forall b s, fst (depth_unmarshal b s) <> Panic.
Proof.
  intros b s. pose proof (depth_spec b s) as H.
  destruct (depth_unmarshal b s) as [[[v n]|e|] s1]; cbn in *; try discriminate. contradiction.
Qed.

Lemma decode_key_total_l : forall b s, fst (key_sized_unmarshal b s) <> Panic.
Proof.
  intros b s. pose proof (key_spec b s) as H.
  destruct (key_sized_unmarshal b s) as [[[v n]|e|] s1]; cbn in *; try discriminate. contradiction.
Qed.

Lemma decode_leaf_total_l : forall b s, fst (leaf_sized_unmarshal b s) <> Panic.
Proof.
  intros b s. pose proof (leaf_spec b s) as H.
  destruct (leaf_sized_unmarshal b s) as [[[v n]|e|] s1]; cbn in *; try discriminate. contradiction.
Qed.

Lemma decode_internal_total_l : forall b s, fst (inode_sized_unmarshal b s) <> Panic.
Proof.
  intros b s. pose proof (inode_spec b s) as H.
  destruct (inode_sized_unmarshal b s) as [[[v n]|e|] s1]; cbn in *; try discriminate. contradiction.
Qed.

Lemma decode_node_total_l : forall b s, fst (node_unmarshal b s) <> Panic.
Proof.
  intros b s. pose proof (node_spec b s) as H.
  destruct (node_unmarshal b s) as [[v|e|] s1]; cbn in *; try discriminate. contradiction.
Qed.

(* consumed length and size of the decoded value are bounded by the input *)
Lemma decode_key_bounded_l : forall b s k n s',
  key_sized_unmarshal b s = (Ok (k, n), s') ->
  n <= glen b /\ glen k <= n /\ s' = s + glen k.
Proof.
  intros b s k n s' H. pose proof (key_spec b s) as HK. rewrite H in HK. cbn in HK. lia.
Qed.

Lemma decode_leaf_bounded_l : forall b s l n s',
  leaf_sized_unmarshal b s = (Ok (l, n), s') ->
  n <= glen b /\ leaf_size l <= n /\ s' = s + leaf_size l.
Proof.
  intros b s l n s' H. pose proof (leaf_spec b s) as HK. rewrite H in HK. cbn in HK.
  unfold leaf_size. lia.
Qed.

Lemma decode_internal_bounded_l : forall b s nd n s',
  inode_sized_unmarshal b s = (Ok (nd, n), s') ->
  n <= glen b /\ inode_size nd <= n /\ s' <= s + inode_size nd /\
  glen (ilabel nd) = depth_to_bytes (ilbl nd).
Proof.
  intros b s nd n s' H. pose proof (inode_spec b s) as HK. rewrite H in HK. cbn in HK. lia.
Qed.

Lemma decode_node_bounded_l : forall b s nd s',
  node_unmarshal b s = (Ok nd, s') -> node_size nd <= glen b /\ s' <= s + node_size nd.
Proof.
  intros b s nd s' H. pose proof (node_spec b s) as HK. rewrite H in HK. cbn in HK. lia.
Qed.

(* bytes requested through make() never exceed the input length, on every
   path, including the error paths (declared lengths are checked first) *)
Lemma decode_alloc_bounded_l : forall b s,
  snd (key_sized_unmarshal b s) <= s + glen b /\
  snd (leaf_sized_unmarshal b s) <= s + glen b /\
  snd (inode_sized_unmarshal b s) <= s + glen b /\
  snd (node_unmarshal b s) <= s + glen b.
Proof.
  intros b s.
  pose proof (key_spec b s) as H1. pose proof (leaf_spec b s) as H2.
  pose proof (inode_spec b s) as H3. pose proof (node_spec b s) as H4.
  destruct (key_sized_unmarshal b s) as [[[? ?]|?|] ?];
  destruct (leaf_sized_unmarshal b s) as [[[? ?]|?|] ?];
  destruct (inode_sized_unmarshal b s) as [[[? ?]|?|] ?];
  destruct (node_unmarshal b s) as [[?|?|] ?];
  cbn [key_post leaf_post inode_post node_post fst snd] in *; try contradiction; lia.
Qed.

(* the example of the design: a truncated internal node whose declared label
   length (0x0040 bits = 8 bytes) exceeds the input is an error, not a panic *)
Example truncated_internal_is_err :
  run (inode_sized_unmarshal [1; 64; 0; 170; 187]) = (Err E_NODE, 0) /\
  run (node_unmarshal [1; 64; 0; 170; 187]) = (Err E_NODE, 0).
Proof. split; vm_compute; reflexivity. Qed.

(* and a leaf whose declared value size is 2^32-1 allocates nothing *)
Example huge_value_is_err :
  run (leaf_sized_unmarshal [0; 1; 0; 7; 255; 255; 255; 255; 1; 2]) = (Err E_NODE, 1).
Proof. vm_compute. reflexivity. Qed.
