(* Port of go/common/keyformat/key_format.go KeyFormat.Decode (:236-300) and of
   the fixed-size binary helpers it dispatches to (hash.Hash, common.Namespace,
   address.Address, signature.PublicKey / RawSignature, db/api.TypedHash,
   runtime/transaction.artifactKind, keyformat.PreHashed):
   "if len(data) != Size { return ErrMalformed }; copy(x[:], data)".
   Decode returns a bool and may PANIC (panic("... number of values greater than
   layout"); before fix 4b7c32a also data[0] on an empty key and the explicit
   panic("key format: malformed input") on a short key with a matching prefix).
   The model keeps the panics: [Ok None] is "return false", [Ok (Some vs)] is
   "return true".
   The value pointers passed by the caller are assumed to have the types of the
   layout (checkSize / the type switch default are programmer errors that do
   not depend on the input).  Executable definitions only. *)
From Verif Require Import Lib.Base Decode.GoSlice Gen.MiscConsts.

Definition E_FIXED : N := 70.     (* ErrMalformed / ErrMalformedNamespace / ... of a fixed-size helper *)

(* ---------- fixed-size helpers ---------- *)
(* kind: 0 plain; 1 namespace (reserved flag bits must be clear, namespace.go:51-62,146-152);
         2 artifact kind (one byte, kindInput or kindOutput, transaction.go:57-73) *)
(* the helpers copy into a fixed-size ARRAY first and validate the array, so
   the validation itself cannot fail a bounds check *)
Definition be64_arr (d : bytes) : N :=
  4294967296 * (16777216 * nth 0 d 0 + 65536 * nth 1 d 0 + 256 * nth 2 d 0 + nth 3 d 0)
  + (16777216 * nth 4 d 0 + 65536 * nth 5 d 0 + 256 * nth 6 d 0 + nth 7 d 0).
Definition fixed_valid (kind : N) (d : bytes) : bool :=
  if kind =? 1 then N.land (be64_arr d) nsFlagsReserved =? 0
  else if kind =? 2 then (nth 0 d 0 =? kindInput) || (nth 0 d 0 =? kindOutput)
  else true.

Definition fixed_unmarshal (size kind : N) (data : bytes) : M bytes :=
  if negb (glen data =? size) then fail E_FIXED else
  if fixed_valid kind data then ret data else fail E_FIXED.

(* ---------- key formats ---------- *)
Inductive elem : Type :=
| EU8 | EU16 | EU32 | EU64 | EI64
| EBin (size kind : N)        (* encoding.BinaryUnmarshaler / CustomFormat of fixed size *)
| EVar.                       (* the single variable-size []byte element (meta.size = -1) *)

Inductive kval : Type := VN (n : N) | VB (b : bytes).

Definition esize (e : elem) : N :=
  match e with
  | EU8 => 1 | EU16 => 2 | EU32 => 4 | EU64 => 8 | EI64 => 8
  | EBin n _ => n
  | EVar => 0
  end.
Definition is_var (e : elem) : bool := match e with EVar => true | _ => false end.

(* k.size: the sum of the fixed sizes; Size() = 1 + k.size *)
Definition kf_fixed (layout : list elem) : N := fold_right (fun e acc => esize e + acc) 0 layout.
Definition kf_size (layout : list elem) : N := 1 + kf_fixed layout.

(* the loop of Decode (:249-297) over the values passed *)
Fixpoint kf_elems (elems : list elem) (data : bytes) (ksize offset : N) : M (option (list kval)) :=
  match elems with
  | [] => ret (Some [])
  | e :: rest =>
    let elemLen := if is_var e then glen data - ksize else esize e in
    buf <- lift (slice data offset (offset + elemLen)) ;;
    let offset := offset + elemLen in
    v <- (match e with
          | EU8 => x <- lift (index buf 0) ;; ret (Some (VN x))
          | EU16 => x <- lift (be16 buf) ;; ret (Some (VN x))
          | EU32 => x <- lift (be32 buf) ;; ret (Some (VN x))
          | EU64 => x <- lift (be64 buf) ;; ret (Some (VN x))
          | EI64 => x <- lift (be64 buf) ;; ret (Some (VN x))      (* the uint64 bits of the int64 *)
          | EBin n kind =>
              fun s => match fixed_unmarshal n kind buf s with
                       | (Ok d, s') => (Ok (Some (VB d)), s')
                       | (Err _, s') => (Ok None, s')              (* "if err != nil { return false }" *)
                       | (Panic, s') => (Panic, s')
                       end
          | EVar => a <- alloc elemLen ;; ret (Some (VB (gcopy a buf)))
          end) ;;
    match v with
    | None => ret None
    | Some v =>
        r <- kf_elems rest data ksize offset ;;
        ret (match r with Some vs => Some (v :: vs) | None => None end)
    end
  end.

(* key_format.go Decode as of the pinned tree (after fix 4b7c32a): an empty key and a
   key shorter than the format do not match (return false); only the
   programmer error "more values than layout" still panics *)
Definition kf_decode (prefix : N) (layout : list elem) (nvals : N) (data : bytes)
  : M (option (list kval)) :=
  if glen data =? 0 then ret None else                               (* len(data) == 0 || ... *)
  b0 <- lift (index data 0) ;;                                       (* data[0] *)
  if negb (b0 =? prefix) then ret None else
  if N.of_nat (length layout) <? nvals then lift Panic else          (* panic("... number of values greater than layout") *)
  if glen data <? kf_size layout then ret None else                  (* too short: does not match *)
  kf_elems (firstn (N.to_nat nvals) layout) data (kf_size layout) 1.

(* the function BEFORE the fix (key_format.go:236-300 at 00b6533): data[0] on an
   empty key and an explicit panic("key format: malformed input") on a short key *)
Definition kf_decode_original (prefix : N) (layout : list elem) (nvals : N) (data : bytes)
  : M (option (list kval)) :=
  b0 <- lift (index data 0) ;;
  if negb (b0 =? prefix) then ret None else
  if N.of_nat (length layout) <? nvals then lift Panic else
  if glen data <? kf_size layout then lift Panic else
  kf_elems (firstn (N.to_nat nvals) layout) data (kf_size layout) 1.

(* New() panics when a layout has two variable-size elements *)
Definition var_count (layout : list elem) : N :=
  fold_right (fun e acc => (if is_var e then 1 else 0) + acc) 0 layout.
Definition wf_layout (layout : list elem) : Prop := var_count layout <= 1.

(* ---------- comparison helpers ---------- *)
Definition kval_eqb (a b : kval) : bool :=
  match a, b with
  | VN x, VN y => x =? y
  | VB x, VB y => bytes_eqb x y
  | _, _ => false
  end.
Definition okvals_eqb (a b : option (list kval)) : bool :=
  match a, b with
  | None, None => true
  | Some x, Some y => list_eqb kval_eqb x y
  | _, _ => false
  end.
