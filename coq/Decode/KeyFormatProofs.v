(* KeyFormat.Decode: exact characterisation of when it panics; bounded allocation. *)
From Verif Require Import Lib.Base Decode.GoSlice Decode.GoSliceFacts Decode.KeyFormat Gen.MiscConsts.

Lemma bind_unfold {A B} (m : M A) (f : A -> M B) s :
  bind m f s = match m s with
               | (Ok a, s') => f a s'
               | (Err e, s') => (Err e, s')
               | (Panic, s') => (Panic, s')
               end.
Proof. reflexivity. Qed.

Lemma be16_ok b : 2 <= glen b -> exists v, be16 b = Ok v.
Proof. intros H. unfold be16. destruct (glen b <? 2) eqn:E; [lia|]. eexists. reflexivity. Qed.
Lemma be32_ok b : 4 <= glen b -> exists v, be32 b = Ok v.
Proof. intros H. unfold be32. destruct (glen b <? 4) eqn:E; [lia|]. eexists. reflexivity. Qed.
Lemma be64_ok b : 8 <= glen b -> exists v, be64 b = Ok v.
Proof. intros H. unfold be64. destruct (glen b <? 8) eqn:E; [lia|]. eexists. reflexivity. Qed.

(* the fixed-size helpers: total, no allocation, accept only exactly [size] bytes *)
Lemma fixed_unmarshal_spec size kind data s :
  match fixed_unmarshal size kind data s with
  | (Ok d, s') => s' = s /\ d = data /\ glen data = size
  | (Err e, s') => s' = s /\ e = E_FIXED
  | (Panic, _) => False
  end.
Proof.
  unfold fixed_unmarshal. destruct (glen data =? size) eqn:E; cbn [negb].
  - destruct (fixed_valid kind data); cbn; repeat split; lia.
  - cbn. split; reflexivity.
Qed.

Definition need (elems : list elem) (data : bytes) (ksize : N) : N :=
  kf_fixed elems + var_count elems * (glen data - ksize).

Lemma elems_spec : forall elems data ksize offset s,
  offset + need elems data ksize <= glen data ->
  match kf_elems elems data ksize offset s with
  | (Ok _, s') => s' <= s + var_count elems * (glen data - ksize)
  | (Err _, _) => False
  | (Panic, _) => False
  end.
Proof.
  induction elems as [|e rest IH]; intros data ksize offset s Hneed.
  - cbn. lia.
  - cbn [kf_elems]. unfold need in Hneed. cbn [kf_fixed var_count fold_right] in Hneed.
    fold (kf_fixed rest) in Hneed. fold (var_count rest) in Hneed.
    set (elemLen := if is_var e then glen data - ksize else esize e) in *.
    assert (offset + elemLen + need rest data ksize <= glen data) as Hn2.
    { unfold need, elemLen. destruct e; cbn [is_var esize] in *; lia. }
    rewrite slice_ok by (unfold need in Hn2; lia). rewrite bind_lift_ok.
    assert (glen (sl data offset (offset + elemLen)) = elemLen) as Hbuf
      by (rewrite glen_sl; unfold need in Hn2; lia).
    set (buf := sl data offset (offset + elemLen)) in *.
    specialize (IH data ksize (offset + elemLen)).
    assert (forall v s1, s1 <= s + (if is_var e then 1 else 0) * (glen data - ksize) ->
      match (r <- kf_elems rest data ksize (offset + elemLen) ;;
             ret (match r with Some vs => Some (v :: vs) | None => None end)) s1 with
      | (Ok _, s') => s' <= s + var_count (e :: rest) * (glen data - ksize)
      | (Err _, _) => False
      | (Panic, _) => False
      end) as Hrest.
    { intros v s1 Hs1. unfold bind. specialize (IH s1 Hn2).
      destruct (kf_elems rest data ksize (offset + elemLen) s1) as [[r|x|] s2]; try contradiction.
      cbn [ret var_count fold_right]. fold (var_count rest). lia. }
    destruct e; cbn [is_var esize] in *; unfold elemLen in *.
    + rewrite bind_unfold. rewrite bind_unfold. rewrite index_ok by lia. cbn [lift ret].
      apply Hrest. lia.
    + destruct (be16_ok buf ltac:(lia)) as [v Hv]. rewrite bind_unfold, bind_unfold, Hv. cbn [lift ret].
      apply Hrest. lia.
    + destruct (be32_ok buf ltac:(lia)) as [v Hv]. rewrite bind_unfold, bind_unfold, Hv. cbn [lift ret].
      apply Hrest. lia.
    + destruct (be64_ok buf ltac:(lia)) as [v Hv]. rewrite bind_unfold, bind_unfold, Hv. cbn [lift ret].
      apply Hrest. lia.
    + destruct (be64_ok buf ltac:(lia)) as [v Hv]. rewrite bind_unfold, bind_unfold, Hv. cbn [lift ret].
      apply Hrest. lia.
    + rewrite bind_unfold. pose proof (fixed_unmarshal_spec size kind buf s) as HF.
      destruct (fixed_unmarshal size kind buf s) as [[d|x|] s1]; try contradiction.
      * destruct HF as (-> & _). apply Hrest. lia.
      * destruct HF as (-> & _). cbn [ret]. apply N.le_add_r.
    + rewrite bind_unfold, bind_alloc. cbn [ret]. apply Hrest. lia.
Qed.

Lemma kf_fixed_firstn n l : kf_fixed (firstn n l) <= kf_fixed l.
Proof.
  revert n. induction l as [|e l IH]; intros [|n]; cbn [firstn kf_fixed fold_right]; try lia.
  fold (kf_fixed (firstn n l)). fold (kf_fixed l). specialize (IH n). lia.
Qed.
Lemma var_count_firstn n l : var_count (firstn n l) <= var_count l.
Proof.
  revert n. induction l as [|e l IH]; intros [|n]; cbn [firstn var_count fold_right]; try lia.
  fold (var_count (firstn n l)). fold (var_count l). specialize (IH n). lia.
Qed.

(* ---------- the function before fix 4b7c32a ---------- *)
Definition kf_panics_original (prefix : N) (layout : list elem) (nvals : N) (data : bytes) : Prop :=
  data = [] \/
  (nth 0 data 0 = prefix /\ (N.of_nat (length layout) < nvals \/ glen data < kf_size layout)).

Lemma elems_ok layout nvals data s : wf_layout layout ->
  N.of_nat (length layout) <? nvals = false -> glen data <? kf_size layout = false ->
  match kf_elems (firstn (N.to_nat nvals) layout) data (kf_size layout) 1 s with
  | (Ok _, s') => s' <= s + glen data
  | (Err _, _) => False
  | (Panic, _) => False
  end.
Proof.
  intros Hwf Hn Hs.
  pose proof (elems_spec (firstn (N.to_nat nvals) layout) data (kf_size layout) 1 s) as HE.
  pose proof (kf_fixed_firstn (N.to_nat nvals) layout) as Hf.
  pose proof (var_count_firstn (N.to_nat nvals) layout) as Hv.
  unfold wf_layout in Hwf. unfold kf_size in *.
  assert (var_count (firstn (N.to_nat nvals) layout) = 0 \/ var_count (firstn (N.to_nat nvals) layout) = 1)
    as Hvc by lia.
  assert (1 + need (firstn (N.to_nat nvals) layout) data (1 + kf_fixed layout) <= glen data) as Hneed.
  { unfold need. destruct Hvc as [-> | ->]; lia. }
  specialize (HE Hneed).
  destruct (kf_elems (firstn (N.to_nat nvals) layout) data (1 + kf_fixed layout) 1 s) as [[r|x|] s1];
    try contradiction.
  destruct Hvc as [E | E]; rewrite E in HE; lia.
Qed.

Lemma kf_decode_original_spec prefix layout nvals data s : wf_layout layout ->
  match kf_decode_original prefix layout nvals data s with
  | (Ok _, s') => ~ kf_panics_original prefix layout nvals data /\ s' <= s + glen data
  | (Err _, _) => False
  | (Panic, _) => kf_panics_original prefix layout nvals data
  end.
Proof.
  intros Hwf. unfold kf_decode_original, kf_panics_original.
  destruct data as [|b0 data'] eqn:Hd.
  - cbn. left. reflexivity.
  - rewrite <- Hd. assert (1 <= glen data) as Hlen by (subst; rewrite glen_cons; lia).
    rewrite index_ok by lia. rewrite bind_lift_ok.
    change (N.to_nat 0) with 0%nat.
    destruct (nth 0 data 0 =? prefix) eqn:Hp; cbn [negb].
    + apply N.eqb_eq in Hp.
      destruct (N.of_nat (length layout) <? nvals) eqn:Hn; [cbn; right; split; [exact Hp|left; lia]|].
      destruct (glen data <? kf_size layout) eqn:Hs; [cbn; right; split; [exact Hp|right; lia]|].
      pose proof (elems_ok layout nvals data s Hwf Hn Hs) as HE.
      destruct (kf_elems (firstn (N.to_nat nvals) layout) data (kf_size layout) 1 s) as [[r|x|] s1];
        try contradiction.
      split; [|exact HE].
      intros [Hnil | (_ & [H1 | H2])]; [subst; discriminate | lia | lia].
    + cbn. split; [|lia]. apply N.eqb_neq in Hp.
      intros [Hnil | (Hq & _)]; [subst; discriminate | contradiction].
Qed.

Lemma keyformat_decode_original_panics_iff_l : forall prefix layout nvals data s, wf_layout layout ->
  (fst (kf_decode_original prefix layout nvals data s) = Panic <->
   kf_panics_original prefix layout nvals data).
Proof.
  intros prefix layout nvals data s Hwf.
  pose proof (kf_decode_original_spec prefix layout nvals data s Hwf) as H.
  destruct (kf_decode_original prefix layout nvals data s) as [[r|e|] s1]; cbn [fst] in *.
  - split; [discriminate|tauto].
  - contradiction.
  - tauto.
Qed.

(* the statement "Decode never panics on a well-typed call" was FALSE before the fix *)
Lemma keyformat_decode_original_total_refuted_l :
  exists prefix layout nvals data,
    wf_layout layout /\ nvals <= N.of_nat (length layout) /\
    fst (run (kf_decode_original prefix layout nvals data)) = Panic.
Proof.
  (* txnKeyFmt = 'T' hash kind, key = "T" *)
  exists 84, [EBin 32 0; EBin 1 2], 2, [84]. split; [unfold wf_layout; cbn; lia|].
  split; [cbn; lia|]. vm_compute. reflexivity.
Qed.

(* ---------- the function as of the pinned tree ---------- *)
Definition kf_panics (prefix : N) (layout : list elem) (nvals : N) (data : bytes) : Prop :=
  data <> [] /\ nth 0 data 0 = prefix /\ N.of_nat (length layout) < nvals.

Lemma kf_decode_spec prefix layout nvals data s : wf_layout layout ->
  match kf_decode prefix layout nvals data s with
  | (Ok _, s') => ~ kf_panics prefix layout nvals data /\ s' <= s + glen data
  | (Err _, _) => False
  | (Panic, _) => kf_panics prefix layout nvals data
  end.
Proof.
  intros Hwf. unfold kf_decode, kf_panics.
  destruct (glen data =? 0) eqn:H0.
  - cbn. split; [|lia]. intros (Hne & _). apply Hne.
    destruct data; [reflexivity|rewrite glen_cons in H0; lia].
  - assert (1 <= glen data) as Hlen by lia.
    assert (data <> []) as Hne by (intros ->; cbn in H0; discriminate).
    rewrite index_ok by lia. rewrite bind_lift_ok.
    change (N.to_nat 0) with 0%nat.
    destruct (nth 0 data 0 =? prefix) eqn:Hp; cbn [negb].
    + apply N.eqb_eq in Hp.
      destruct (N.of_nat (length layout) <? nvals) eqn:Hn; [cbn; repeat split; [exact Hne|exact Hp|lia]|].
      destruct (glen data <? kf_size layout) eqn:Hs; [cbn; split; [intros (_ & _ & H); lia|lia]|].
      pose proof (elems_ok layout nvals data s Hwf Hn Hs) as HE.
      destruct (kf_elems (firstn (N.to_nat nvals) layout) data (kf_size layout) 1 s) as [[r|x|] s1];
        try contradiction.
      split; [intros (_ & _ & H); lia|exact HE].
    + cbn. split; [|lia]. apply N.eqb_neq in Hp. intros (_ & Hq & _). contradiction.
Qed.

(* after the fix Decode panics EXACTLY when the caller passes more values than the
   layout has (and the key is non-empty with a matching prefix) *)
Lemma keyformat_decode_panics_iff_l : forall prefix layout nvals data s, wf_layout layout ->
  (fst (kf_decode prefix layout nvals data s) = Panic <-> kf_panics prefix layout nvals data).
Proof.
  intros prefix layout nvals data s Hwf. pose proof (kf_decode_spec prefix layout nvals data s Hwf) as H.
  destruct (kf_decode prefix layout nvals data s) as [[r|e|] s1]; cbn [fst] in *.
  - split; [discriminate|tauto].
  - contradiction.
  - tauto.
Qed.

(* well-typed calls (no more values than layout elements) never panic, for EVERY key *)
Lemma keyformat_decode_total_l : forall prefix layout nvals data s, wf_layout layout ->
  nvals <= N.of_nat (length layout) ->
  fst (kf_decode prefix layout nvals data s) <> Panic.
Proof.
  intros prefix layout nvals data s Hwf Hn E.
  apply (keyformat_decode_panics_iff_l prefix layout nvals data s Hwf) in E.
  destruct E as (_ & _ & H). lia.
Qed.

Lemma keyformat_decode_bounded_l : forall prefix layout nvals data s, wf_layout layout ->
  fst (kf_decode prefix layout nvals data s) <> Panic ->
  snd (kf_decode prefix layout nvals data s) <= s + glen data /\
  (forall e, fst (kf_decode prefix layout nvals data s) <> Err e).
Proof.
  intros prefix layout nvals data s Hwf Hnp. pose proof (kf_decode_spec prefix layout nvals data s Hwf) as H.
  destruct (kf_decode prefix layout nvals data s) as [[r|e|] s1]; cbn [fst snd] in *;
    [split; [tauto|discriminate] | contradiction | congruence].
Qed.

Example keyformat_short_keys :
  fst (run (kf_decode_original 84 [EBin 32 0; EBin 1 2] 2 [])) = Panic /\
  fst (run (kf_decode 84 [EBin 32 0; EBin 1 2] 2 [])) = Ok None /\
  fst (run (kf_decode 84 [EBin 32 0; EBin 1 2] 2 [84])) = Ok None /\
  fst (run (kf_decode 84 [EBin 32 0; EBin 1 2] 3 [84])) = Panic.
Proof. repeat split; vm_compute; reflexivity. Qed.

Example keyformat_decodes :
  fst (run (kf_decode 69 [EVar; EBin 2 0] 2 [69; 1; 2; 3; 9; 9]))
  = Ok (Some [VB [1; 2; 3]; VB [9; 9]]).
Proof. vm_compute. reflexivity. Qed.

Lemma fixed_unmarshal_total_l : forall size kind data s,
  fst (fixed_unmarshal size kind data s) <> Panic /\ snd (fixed_unmarshal size kind data s) = s /\
  (forall d, fst (fixed_unmarshal size kind data s) = Ok d -> d = data /\ glen data = size).
Proof.
  intros size kind data s. pose proof (fixed_unmarshal_spec size kind data s) as H.
  destruct (fixed_unmarshal size kind data s) as [[d|e|] s1]; cbn [fst snd] in *.
  - split; [discriminate|]. split; [tauto|]. intros d' E. injection E as <-. tauto.
  - split; [discriminate|]. split; [tauto|]. intros d' E. discriminate.
  - contradiction.
Qed.
