(* Port of the node part of the registry genesis sanity check
   (go/registry/api/sanity_check.go: SanityCheckNodes 195-256 with its
   sanityCheckNodeLookup 397-418) and what acceptance implies (property C17).

   The check walks the exported node descriptors in order.  Each one must name
   an exported entity (218), pass VerifyRegisterNodeArgs against the lookup
   built SO FAR (223-239; isGenesis = true, so membership in the entity's node
   list is demanded), and is then entered into the lookup under its consensus,
   P2P and TLS keys -- not under its VRF key (245-247).  The lookup is modelled
   by the key map and node table of a scratch state, so that the ported
   verify_register_node_args is used verbatim. *)
From Verif Require Import Lib.Base Registry.Model Registry.Lemmas Registry.Proofs.

Definition cpt (n : node) : list N := [n_cons n; n_p2p n; n_tls n].

Definition sanity_enter (st : state) (n : node) : state :=
  with_keymap (with_nodes st (aset (n_id n) n (s_nodes st)))
              (aset (n_tls n) (n_id n) (aset (n_p2p n) (n_id n) (aset (n_cons n) (n_id n) (s_keymap st)))).

Fixpoint sanity_nodes (maxexp : N) (st : state) (l : list (node * list N * bool)) : option state :=
  match l with
  | [] => Some st
  | (n, signers, ok) :: r =>
      match aget (n_ent n) (s_ents st) with
      | None => None                                                     (* 218 *)
      | Some ent =>
          match verify_register_node_args maxexp st ent n signers ok with  (* 223 *)
          | COk => sanity_nodes maxexp (sanity_enter st n) r             (* 245-248 *)
          | _ => None
          end
      end
  end.

Definition node_of (x : node * list N * bool) : node := fst (fst x).

(* every node avoids the consensus/P2P/TLS keys of all EARLIER nodes with its
   consensus, P2P, VRF and TLS keys *)
Fixpoint pairwise_ok (pre : list node) (l : list node) : Prop :=
  match l with
  | [] => True
  | n :: r => (forall m, In m pre -> forall k, In k (cpt m) -> ~ In k (keys n)) /\ pairwise_ok (n :: pre) r
  end.

Definition entered (st : state) (pre : list node) : Prop :=
  forall m, In m pre -> forall k, In k (cpt m) ->
    aget k (s_keymap st) = Some (n_id m) /\ aget (n_id m) (s_nodes st) = Some m.

Lemma sanity_pairwise maxexp l : forall st st' pre,
  entered st pre -> NoDup (map n_id (pre ++ map node_of l)) ->
  sanity_nodes maxexp st l = Some st' -> pairwise_ok pre (map node_of l).
Proof.
  induction l as [|[[n signers] ok] r IH]; intros st st' pre Hent Hnd H; [exact I|].
  cbn [sanity_nodes] in H. destruct (aget (n_ent n) (s_ents st)) as [ent|]; [|discriminate].
  destruct (verify_register_node_args maxexp st ent n signers ok) eqn:EV; try discriminate.
  apply verify_args_ok in EV as (_ & _ & _ & Hd & Hdup & _ & _ & _).
  cbn [map node_of fst pairwise_ok].
  assert (Hfresh : forall m, In m pre -> n_id m <> n_id n).
  { intros m Hm E. rewrite map_app in Hnd. cbn [map node_of fst] in Hnd.
    apply NoDup_remove_2 in Hnd. apply Hnd. apply in_or_app. left. rewrite <- E. apply in_map. exact Hm. }
  assert (Hdis : forall m, In m pre -> forall k, In k (cpt m) -> ~ In k (keys n)).
  { intros m Hm k Hk Hkn. destruct (Hent m Hm k Hk) as [A B].
    specialize (Hd k Hkn). unfold dup_subkey, node_by_subkey in Hd. rewrite A, B in Hd.
    apply negb_false_iff in Hd. apply N.eqb_eq in Hd. exact (Hfresh m Hm Hd). }
  split; [exact Hdis|].
  apply (IH (sanity_enter st n) st'); [| |exact H].
  - intros m [E|Hm] k Hk.
    + subst m. rename n into m. unfold sanity_enter; cbn [s_keymap s_nodes with_keymap with_nodes]. split; [|apply aget_aset_same].
      rewrite !aget_aset_gen. cbn [cpt In] in Hk.
      destruct (n_tls m =? k) eqn:E1; [reflexivity|]. destruct (n_p2p m =? k) eqn:E2; [reflexivity|].
      destruct (n_cons m =? k) eqn:E3; [reflexivity|]. exfalso.
      apply N.eqb_neq in E1, E2, E3. intuition congruence.
    + destruct (Hent m Hm k Hk) as [A B].
      unfold sanity_enter; cbn [s_keymap s_nodes with_keymap with_nodes]. rewrite !aget_aset_gen.
      assert (Hk' : ~ In k (keys n)) by (apply (Hdis m Hm k Hk)).
      cbn [keys In] in Hk'.
      destruct (N.eqb_spec (n_tls n) k); [exfalso; intuition|].
      destruct (N.eqb_spec (n_p2p n) k); [exfalso; intuition|].
      destruct (N.eqb_spec (n_cons n) k); [exfalso; intuition|].
      split; [exact A|]. destruct (N.eqb_spec (n_id n) (n_id m)) as [E|_]; [|exact B].
      exfalso. apply (Hfresh m Hm). congruence.
  - rewrite map_app in Hnd |- *. cbn [map node_of fst app] in Hnd |- *.
    apply NoDup_remove_1 in Hnd as Hnd1.
    assert (Hperm : NoDup (n_id n :: map n_id pre ++ map n_id (map node_of r))).
    { constructor; [apply NoDup_remove_2 in Hnd; exact Hnd|exact Hnd1]. }
    exact Hperm.
Qed.

(* what acceptance says about each exported node *)
Lemma sanity_each maxexp l : forall st st',
  sanity_nodes maxexp st l = Some st' ->
  s_ents st' = s_ents st /\
  Forall (fun x => let n := node_of x in
                   exists ent, aget (n_ent n) (s_ents st) = Some ent /\ In (n_id n) (e_nodes ent) /\
                               snd x = true /\
                               forall k, In k (n_id n :: keys n) -> In k (snd (fst x))) l.
Proof.
  induction l as [|[[n signers] ok] r IH]; intros st st' H; [injection H as <-; split; [reflexivity|constructor]|].
  cbn [sanity_nodes] in H. destruct (aget (n_ent n) (s_ents st)) as [ent|] eqn:Ee; [|discriminate].
  destruct (verify_register_node_args maxexp st ent n signers ok) eqn:EV; try discriminate.
  apply verify_args_ok in EV as (Hok & Hmem & Hs & _).
  destruct (IH _ _ H) as [A B]. split; [exact A|]. constructor; [|exact B].
  cbn [node_of fst snd]. exists ent. repeat split; auto. apply nmem_In. exact Hmem.
Qed.

(* the sanity check does not look at VRF keys of earlier nodes: two exported
   nodes sharing a VRF key pass *)
Example sanity_misses_shared_vrf_key :
  exists st', sanity_nodes 5 (with_ents st0 [(1, mkEnt 1 [4; 5])])
                [(mkNode 4 1 8 9 20 11 2 8 [], [4; 8; 9; 20; 11], true);
                 (mkNode 5 1 12 13 20 15 2 8 [], [5; 12; 13; 20; 15], true)] = Some st'.
Proof. eexists. vm_compute. reflexivity. Qed.
