(* Node status (property C17): a status record exists exactly for the registered
   nodes; the freeze end of a persisting record changes only by the freezing
   environment or by an UnfreezeNode transaction of the node's entity after the
   freeze end; re-registration keeps it. *)
From Verif Require Import Lib.Base Registry.Model Registry.Lemmas Registry.Proofs.

Definition has {V} (k : N) (l : list (N * V)) : Prop := exists v, aget k l = Some v.
Definition Inv_status (s : state) : Prop := forall id, has id (s_status s) <-> has id (s_nodes s).

Lemma has_aset {V} k k' (v : V) l : has k' (aset k v l) <-> k' = k \/ has k' l.
Proof.
  unfold has. rewrite aget_aset_gen. destruct (N.eqb_spec k k') as [<-|Hne].
  - split; [auto|]. intros _. eauto.
  - split; [auto|]. intros [E|H]; [congruence|exact H].
Qed.
Lemma has_adel {V} k k' (l : list (N * V)) : has k' (adel k l) <-> k' <> k /\ has k' l.
Proof.
  unfold has. rewrite aget_adel_gen. destruct (N.eqb_spec k k') as [<-|Hne].
  - split; [intros [v H]; discriminate|]. intros [H _]. congruence.
  - split; [intros H; split; [congruence|exact H]|]. intros [_ H]. exact H.
Qed.

(* P holds of the freeze end of every status record that survives *)
Definition freeze_kept (before after : list (N * status)) : Prop :=
  forall id st', aget id after = Some st' ->
                 exists st, aget id before = Some st /\ st_freeze st' = st_freeze st.

Lemma freeze_kept_refl l : freeze_kept l l.
Proof. intros id st' H. eauto. Qed.
Lemma freeze_kept_trans a b c : freeze_kept a b -> freeze_kept b c -> freeze_kept a c.
Proof.
  intros H1 H2 id st' H. destruct (H2 _ _ H) as [st1 [A B]]. destruct (H1 _ _ A) as [st0 [C D]].
  exists st0. split; [exact C|congruence].
Qed.

Section Status.
  Variable addr : N -> N.
  Variable fixed : bool.
  Variables maxexp debond : N.
  Notation stp := (step addr fixed maxexp debond).

  Lemma mark_one_status e s id :
    Inv_status s -> Inv_status (mark_one e s id) /\ freeze_kept (s_status s) (s_status (mark_one e s id)).
  Proof.
    intros H. unfold mark_one. destruct (aget id (s_nodes s)) as [n|] eqn:En; [|split; [exact H|apply freeze_kept_refl]].
    destruct (aget id (s_status s)) as [st|] eqn:Es; [|split; [exact H|apply freeze_kept_refl]].
    destruct (n_exp n <? e); [|split; [exact H|apply freeze_kept_refl]]. split.
    - intros k. cbn [s_status s_nodes with_status]. rewrite has_aset. split.
      + intros [->|Hk]; [exists n; exact En|apply H; exact Hk].
      + intros Hk. right. apply H. exact Hk.
    - intros k st'. cbn [s_status with_status]. rewrite aget_aset_gen.
      destruct (N.eqb_spec id k) as [<-|Hne]; [|eauto]. intros [= <-]. exists st. auto.
  Qed.

  Lemma mark_fold_status e l : forall s,
    Inv_status s -> Inv_status (fold_left (mark_one e) l s) /\
                    freeze_kept (s_status s) (s_status (fold_left (mark_one e) l s)).
  Proof.
    induction l as [|id r IH]; intros s H; [split; [exact H|apply freeze_kept_refl]|].
    cbn [fold_left]. destruct (mark_one_status e s id H) as [A B]. destruct (IH _ A) as [C D].
    split; [exact C|eapply freeze_kept_trans; eauto].
  Qed.

  Lemma epoch_one_status e s id :
    IDS (s_nodes s) -> Inv_status s ->
    IDS (s_nodes (epoch_one addr debond e s id)) /\ Inv_status (epoch_one addr debond e s id) /\
    freeze_kept (s_status s) (s_status (epoch_one addr debond e s id)).
  Proof.
    intros Hids H. unfold epoch_one.
    destruct (aget id (s_nodes s)) as [n|] eqn:En; [|split; [exact Hids|split; [exact H|apply freeze_kept_refl]]].
    destruct ((n_exp n <? e) && (n_exp n + debond <? e));
      [|split; [exact Hids|split; [exact H|apply freeze_kept_refl]]].
    unfold remove_node, Inv_status, freeze_kept;
      cbn [s_status s_nodes with_status with_nthr with_claims with_nodes with_byent with_addr with_keymap].
    split; [apply ids_del; exact Hids|]. split.
    - intros k. rewrite !has_adel. rewrite (H k). reflexivity.
    - intros k st'. rewrite aget_adel_gen. destruct (n_id n =? k); [discriminate|eauto].
  Qed.

  Lemma epoch_fold_status e l : forall s,
    IDS (s_nodes s) -> Inv_status s ->
    Inv_status (fold_left (epoch_one addr debond e) l s) /\
    freeze_kept (s_status s) (s_status (fold_left (epoch_one addr debond e) l s)).
  Proof.
    induction l as [|id r IH]; intros s Hids H; [split; [exact H|apply freeze_kept_refl]|].
    cbn [fold_left]. destruct (epoch_one_status e s id Hids H) as (A & B & C).
    destruct (IH _ A B) as [D E]. split; [exact D|eapply freeze_kept_trans; eauto].
  Qed.

  Lemma reg_status_spec s n txs signers ok :
    Inv_status s -> reg_node_check maxexp s txs n signers ok = COk ->
    (forall k, has k (reg_status s n) <-> k = n_id n \/ has k (s_status s)) /\
    freeze_kept (s_status s) (reg_status s n) \/
    (aget (n_id n) (s_nodes s) = None /\
     forall k, has k (reg_status s n) <-> k = n_id n \/ has k (s_status s)).
  Proof.
    intros H EC. unfold reg_status. destruct (aget (n_id n) (s_nodes s)) as [cur|] eqn:Ec.
    - left. destruct (reg_node_ok_status _ _ _ _ _ _ cur EC Ec) as [st Hst]. rewrite Hst.
      destruct (n_exp cur <? s_epoch s).
      + split.
        * intros k. apply has_aset.
        * intros k st'. rewrite aget_aset_gen. destruct (N.eqb_spec (n_id n) k) as [<-|Hne]; [|eauto].
          intros [= <-]. exists st. auto.
      + split; [|apply freeze_kept_refl]. intros k. split; [auto|].
        intros [->|Hk]; [exists st; exact Hst|exact Hk].
    - right. split; [reflexivity|]. intros k. apply has_aset.
  Qed.

  Lemma step_status s o :
    tx_op o = true -> IDS (s_nodes s) -> Inv_status s -> Inv_status (snd (stp s o)).
  Proof.
    intros Htx Hids H. destruct o; try discriminate; cbn [step].
    - destruct (reg_entity_check txs e dsigner sig_ok); exact H.
    - destruct (dereg_entity_check s txs); exact H.
    - destruct (reg_node_check maxexp s txs n dsigners sig_ok) eqn:EC; try exact H. cbn [snd].
      match goal with |- Inv_status (fold_left resume_one ?l ?s0) => use_core l s0 end.
      intros k. unfold has. rewrite HCstatus, HCnodes.
      cbn [set_node s_status s_nodes with_status with_nthr with_claims with_nodes with_byent with_addr with_keymap].
      fold (has k (reg_status s n)). fold (has k (aset (n_id n) n (s_nodes s))).
      rewrite has_aset, <- (H k).
      destruct (reg_status_spec s n txs dsigners sig_ok H EC) as [[A _]|[_ A]]; apply A.
    - cbn [snd]. unfold epoch_change.
      assert (H0 : Inv_status (with_epoch s e)) by exact H.
      destruct (mark_fold_status e (sorted_ids s) (with_epoch s e) H0) as [A _].
      use_mark e (sorted_ids s) (with_epoch s e).
      apply epoch_fold_status; [rewrite HMnodes; exact Hids|exact A].
    - destruct (reg_runtime_check s caller rt); try exact H. cbn [snd].
      use_ncore s rt. intros k. unfold has. rewrite HNstatus, HNnodes. apply H.
    - destruct (aget r (s_rts s)); exact H.
    - destruct (unfreeze_check s txs id); try exact H.
      destruct (aget id (s_status s)) as [st|] eqn:Es; [|exact H]. cbn [snd].
      intros k. cbn [s_status s_nodes with_status]. rewrite has_aset, <- (H k).
      split; [intros [->|Hk]; [exists st; exact Es|exact Hk]|auto].
    - destruct (aget id (s_status s)) as [st|] eqn:Es; [|exact H]. cbn [snd].
      intros k. cbn [s_status s_nodes with_status]. rewrite has_aset, <- (H k).
      split; [intros [->|Hk]; [exists st; exact Es|exact Hk]|auto].
  Qed.

  Lemma status_hist ops : forall s,
    IDS (s_nodes s) -> Inv_status s -> forallb tx_op ops = true ->
    Inv_status (run addr fixed maxexp debond ops s).
  Proof.
    induction ops as [|o r IH]; intros s Hids H Htx; [exact H|].
    cbn [forallb] in Htx. apply andb_true_iff in Htx as [Ho Hr].
    unfold run. cbn [fold_left]. apply IH; auto.
    - apply step_ids; auto.
    - apply step_status; auto.
  Qed.

  Lemma status_mirrors_nodes_hist ops id :
    forallb tx_op ops = true ->
    ((exists st, aget id (s_status (run addr fixed maxexp debond ops st0)) = Some st) <->
     (exists n, aget id (s_nodes (run addr fixed maxexp debond ops st0)) = Some n)).
  Proof.
    intros H. apply (status_hist ops st0); [intros k n Hn; discriminate| |exact H].
    intros k. unfold has. cbn. split; intros [x Hx]; discriminate.
  Qed.

  (* the freeze end of a status record that exists before and after one operation *)
  Lemma authority_unfreeze s o s' id st st' :
    tx_op o = true -> IDS (s_nodes s) -> Inv_status s -> stp s o = (COk, s') ->
    aget id (s_status s) = Some st -> aget id (s_status s') = Some st' ->
    st_freeze st' <> st_freeze st ->
    (exists e, o = LFreeze id e /\ st_freeze st' = e) \/
    (exists txs n, o = TUnfreeze txs id /\ aget id (s_nodes s) = Some n /\ txs = n_ent n /\
                   st_freeze st <= s_epoch s /\ st_freeze st' = 0).
  Proof.
    intros Htx Hids Hinv H Hst Hst' Hch. destruct o; try discriminate; cbn [step] in H.
    - destruct (reg_entity_check txs e dsigner sig_ok); try discriminate; injection H as <-;
        cbn [s_status with_ents with_claims] in Hst'; congruence.
    - destruct (dereg_entity_check s txs); try discriminate; injection H as <-;
        cbn [s_status with_ents with_claims] in Hst'; congruence.
    - destruct (reg_node_check maxexp s txs n dsigners sig_ok) eqn:EC; try discriminate. injection H as <-.
      match type of Hst' with context [fold_left resume_one ?l ?s0] => use_core l s0 end.
      rewrite HCstatus in Hst'.
      cbn [set_node s_status with_status with_nthr with_claims with_nodes with_byent with_addr with_keymap] in Hst'.
      exfalso. destruct (reg_status_spec s n txs dsigners sig_ok Hinv EC) as [[_ K]|[Hnone _]].
      + destruct (K _ _ Hst') as [x [A B]]. congruence.
      + unfold reg_status in Hst'. rewrite Hnone in Hst'. rewrite aget_aset_gen in Hst'.
        destruct (N.eqb_spec (n_id n) id) as [E|Hne]; [|congruence].
        assert (X : has id (s_nodes s)) by (apply Hinv; exists st; exact Hst).
        destruct X as [m Hm]. congruence.
    - injection H as <-. exfalso. unfold epoch_change in Hst'.
      assert (H0 : Inv_status (with_epoch s e)) by exact Hinv.
      destruct (mark_fold_status e (sorted_ids s) (with_epoch s e) H0) as [A B].
      use_mark e (sorted_ids s) (with_epoch s e).
      assert (Hids' : IDS (s_nodes (fold_left (mark_one e) (sorted_ids s) (with_epoch s e))))
        by (rewrite HMnodes; exact Hids).
      destruct (epoch_fold_status e (sorted_ids s) _ Hids' A) as [_ C].
      destruct (C _ _ Hst') as [x [D E]]. destruct (B _ _ D) as [y [F G]].
      cbn [s_status with_epoch] in F. congruence.
    - destruct (reg_runtime_check s caller rt); try discriminate. injection H as <-.
      use_ncore s rt. rewrite HNstatus in Hst'. congruence.
    - destruct (aget r (s_rts s)); try discriminate. injection H as <-.
      cbn [s_status with_susp with_rts] in Hst'. congruence.
    - destruct (unfreeze_check s txs id0) eqn:EU; try discriminate.
      unfold unfreeze_check in EU.
      destruct (aget id0 (s_nodes s)) as [n|] eqn:En; [|discriminate].
      destruct (negb (txs =? n_ent n)) eqn:Et; [discriminate|].
      destruct (aget id0 (s_status s)) as [st0|] eqn:Es0; [|discriminate].
      destruct (s_epoch s <? st_freeze st0) eqn:Ef; [discriminate|].
      injection H as <-. cbn [s_status with_status] in Hst'. rewrite aget_aset_gen in Hst'.
      destruct (N.eqb_spec id0 id) as [E|Hne]; [|congruence]. subst id0.
      rewrite Hst in Es0. injection Es0 as <-. injection Hst' as <-.
      right. exists txs, n. apply negb_false_iff in Et. apply N.eqb_eq in Et. apply N.ltb_ge in Ef.
      repeat split; auto.
    - destruct (aget id0 (s_status s)) as [st0|] eqn:Es0; try discriminate. injection H as <-.
      cbn [s_status with_status] in Hst'. rewrite aget_aset_gen in Hst'.
      destruct (N.eqb_spec id0 id) as [E|Hne]; [|congruence]. subst id0.
      injection Hst' as <-. left. exists e. auto.
  Qed.
End Status.
