(* Round 3 (property C17): protected fields of registered runtimes along
   histories; no bypass between runtime messages and transactions; per-role
   admission limits; key reuse only after removal; removal at epoch transitions. *)
From Verif Require Import Lib.Base Registry.Model Registry.Lemmas Registry.Proofs Registry.ProofsRt.

(* ---------- protected fields ---------- *)
Definition protected (a b : runtime) : Prop :=
  r_kind b = r_kind a /\ r_genesis b = r_genesis a /\
  (forall k, r_km a = Some k -> r_km b = Some k) /\
  (r_gov b = r_gov a \/ (r_gov a = 1 /\ r_gov b = 2)).

Lemma protected_refl a : protected a a.
Proof. unfold protected. auto. Qed.
Lemma protected_trans a b c : protected a b -> protected b c -> protected a c.
Proof.
  intros (K1 & G1 & M1 & V1) (K2 & G2 & M2 & V2). unfold protected.
  repeat split; try congruence; auto.
  destruct V1 as [V1|[V1 V1']], V2 as [V2|[V2 V2']]; try (left; congruence); try (right; split; congruence).
Qed.

Lemma km_kept a b : km_changed a b = false -> forall k, a = Some k -> b = Some k.
Proof.
  intros H k ->. destruct b as [x|]; cbn in H; [|discriminate].
  apply negb_false_iff in H. apply N.eqb_eq in H. congruence.
Qed.

Definition RT_ids (s : state) : Prop := forall r rt, any_runtime s r = Some rt -> r_id rt = r.

Section R3.
  Variable addr : N -> N.
  Variable fixed : bool.
  Variables maxexp debond : N.
  Notation stp := (step addr fixed maxexp debond).
  Notation runs := (run addr fixed maxexp debond).

  (* one step: every registered runtime stays registered, its lookup key stays
     its id, and its protected fields are kept *)
  Lemma step_protected s o r rt0 :
    tx_op o = true -> Inv_rt s -> RT_ids s -> any_runtime s r = Some rt0 ->
    RT_ids (snd (stp s o)) /\
    exists rt1, any_runtime (snd (stp s o)) r = Some rt1 /\ protected rt0 rt1.
  Proof.
    intros Htx Hinv Hids H0.
    assert (Same : forall s', (forall x, any_runtime s' x = any_runtime s x) ->
                   RT_ids s' /\ exists rt1, any_runtime s' r = Some rt1 /\ protected rt0 rt1).
    { intros s' E. split.
      - intros x rt Hx. rewrite E in Hx. apply Hids. exact Hx.
      - exists rt0. rewrite E. split; [exact H0|apply protected_refl]. }
    destruct o; try discriminate; cbn [step].
    - apply Same. destruct (reg_entity_check txs e dsigner sig_ok); reflexivity.
    - apply Same. destruct (dereg_entity_check s txs); reflexivity.
    - apply Same. destruct (reg_node_check maxexp s txs n dsigners sig_ok); try reflexivity. cbn [snd].
      match goal with |- forall x, any_runtime (fold_left resume_one ?l ?s0) x = _ =>
        destruct (resume_fold_rt l s0 (proj1 Hinv)) as [A _]; intros x; rewrite A; reflexivity end.
    - apply Same. cbn [snd]. unfold epoch_change. intros x.
      pose proof (epoch_fold_rcore addr debond e (sorted_ids s)
                    (fold_left (mark_one e) (sorted_ids s) (with_epoch s e))) as R.
      unfold rcore in R. injection R as R1 R2 _ _.
      use_mark e (sorted_ids s) (with_epoch s e).
      apply any_rt_ext; [rewrite R1, HMrts|rewrite R2, HMsusp]; reflexivity.
    - destruct (reg_runtime_check s caller rt) eqn:EC; try (apply Same; reflexivity). cbn [snd].
      apply reg_runtime_ok in EC as (_ & _ & Hc). split.
      + intros x y Hx. rewrite any_rt_apply in Hx. destruct (N.eqb_spec (r_id rt) x) as [E|Hne].
        * injection Hx as <-. exact E.
        * apply Hids. exact Hx.
      + rewrite any_rt_apply. destruct (N.eqb_spec (r_id rt) r) as [E|Hne].
        * exists rt. split; [reflexivity|]. rewrite E, H0 in Hc.
          destruct Hc as (_ & K & G & M & GE & _ & _). unfold protected.
          repeat split; try congruence.
          -- apply km_kept. exact M.
          -- destruct G as [G|[G1 G2]]; [left; congruence|right; auto].
        * exists rt0. split; [exact H0|apply protected_refl].
    - apply Same. destruct (aget r0 (s_rts s)) as [x|] eqn:Er; [|reflexivity]. cbn [snd].
      intros y. apply (suspend_lookup s r0 x y Er).
    - apply Same. destruct (unfreeze_check s txs id); try reflexivity.
      destruct (aget id (s_status s)); reflexivity.
    - apply Same. destruct (aget id (s_status s)); reflexivity.
  Qed.

  Lemma run_protected ops : forall s r rt0,
    forallb tx_op ops = true -> Inv_rt s -> RT_ids s -> any_runtime s r = Some rt0 ->
    exists rt1, any_runtime (runs ops s) r = Some rt1 /\ protected rt0 rt1.
  Proof.
    induction ops as [|o l IH]; intros s r rt0 Htx Hinv Hids H0.
    - exists rt0. split; [exact H0|apply protected_refl].
    - cbn [forallb] in Htx. apply andb_true_iff in Htx as [Ho Hl].
      destruct (step_protected s o r rt0 Ho Hinv Hids H0) as [Hids' [rt1 [H1 P1]]].
      unfold run. cbn [fold_left].
      destruct (IH (snd (stp s o)) r rt1 Hl (step_rt addr fixed maxexp debond s o Ho Hinv) Hids' H1) as [rt2 [H2 P2]].
      exists rt2. split; [exact H2|eapply protected_trans; eauto].
  Qed.

  Lemma rt_ids_st0 : RT_ids st0.
  Proof. intros r rt H. discriminate. Qed.

  (* ---------- runtime messages and transactions: one handler, no bypass ---------- *)
  (* An accepted RegisterRuntime whose caller is a runtime's own account 2r+1
     (a message emitted by runtime r) can only touch runtime r itself, and only
     when the controlling descriptor is under runtime governance; one whose
     caller is 2k (a transaction signed by key k) only a runtime whose
     controlling descriptor is under entity governance with entity k. *)
  Lemma no_bypass s caller rt :
    RT_ids s -> reg_runtime_check s caller rt = COk ->
    let ctl := match any_runtime s (r_id rt) with Some old => old | None => rt end in
    (exists k, caller = 2 * k /\ r_gov ctl = 1 /\ r_ent ctl = k) \/
    (exists r, caller = 2 * r + 1 /\ r_gov ctl = 2 /\ r_id rt = r).
  Proof.
    intros Hids EC. apply reg_runtime_ok in EC as (_ & _ & Hc). cbn zeta.
    assert (A : forall x, rt_acct x = Some caller ->
                (exists k, caller = 2 * k /\ r_gov x = 1 /\ r_ent x = k) \/
                (exists r, caller = 2 * r + 1 /\ r_gov x = 2 /\ r_id x = r)).
    { intros x Hx. unfold rt_acct in Hx.
      destruct (N.eqb_spec (r_gov x) 1) as [G|G].
      - injection Hx as <-. left. eauto.
      - destruct (N.eqb_spec (r_gov x) 2) as [G2|G2]; [|discriminate].
        injection Hx as <-. right. eauto. }
    destruct (any_runtime s (r_id rt)) as [old|] eqn:Eo.
    - destruct Hc as [Hc _]. destruct (A old Hc) as [L|[r [C [G I]]]]; [left; exact L|].
      right. exists r. rewrite <- (Hids _ _ Eo). auto.
    - destruct Hc as [Hc _]. apply A. exact Hc.
  Qed.

  (* ---------- accepted runtime descriptors have valid deployments ---------- *)
  Lemma accepted_deployments_valid s caller rt :
    reg_runtime_check s caller rt = COk -> validate_deployments (s_epoch s) rt = COk.
  Proof.
    unfold reg_runtime_check. intros H. if_ok H.
    match goal with X : negb (code_is_ok (validate_deployments (s_epoch s) rt)) = false |- _ =>
      apply negb_false_iff in X; destruct (validate_deployments (s_epoch s) rt); try discriminate X; reflexivity end.
  Qed.

  Lemma valid_deployments_facts now rt :
    validate_deployments now rt = COk ->
    (0 < length (r_deps rt))%nat /\ N.of_nat (length (r_deps rt)) <= max_deployments /\
    N.of_nat (length (filter (fun d => now <? d_from d) (r_deps rt))) <= 1.
  Proof.
    unfold validate_deployments. intros H. if_ok H.
    destruct (vd_loop (r_tee rt) None (dep_sort (r_deps rt))); try discriminate. if_ok H.
    apply N.eqb_neq in E. apply N.ltb_ge in E0, E1. repeat split; try assumption.
    destruct (r_deps rt); [exfalso; apply E; reflexivity|cbn; lia].
  Qed.
End R3.

(* ---------- keys can be reused only after removal ---------- *)
Section Keys.
  Variable addr : N -> N.
  Variable fixed : bool.
  Variables maxexp debond : N.
  Notation stp := (step addr fixed maxexp debond).

  (* while a node record exists (live, or expired and still held during the
     debonding interval) none of its keys can be taken by another node id *)
  Lemma key_of_registered_node_not_reusable s id m k txs n signers ok :
    Inv_index s -> aget id (s_nodes s) = Some m -> In k (keys m) ->
    n_id n <> id -> In k (keys n) ->
    fst (stp s (TRegNode txs n signers ok)) <> COk /\ snd (stp s (TRegNode txs n signers ok)) = s.
  Proof.
    intros Hinv Hm Hk Hne Hkn. cbn [step].
    destruct (reg_node_check maxexp s txs n signers ok) eqn:EC;
      cbn [fst snd]; try (split; [discriminate|reflexivity]).
    exfalso. apply reg_node_ok in EC as (_ & _ & _ & _ & Hd & _).
    specialize (Hd k Hkn). unfold dup_subkey in Hd.
    rewrite (found_under_each_key s id m k Hinv Hm Hk) in Hd.
    apply negb_false_iff in Hd. apply N.eqb_eq in Hd.
    destruct Hinv as (Hids & _). rewrite (Hids _ _ Hm) in Hd. congruence.
  Qed.

  (* a key no registered node holds is free in the key map *)
  Lemma unheld_key_is_free s k :
    Inv_index s -> (forall id m, aget id (s_nodes s) = Some m -> ~ In k (keys m)) ->
    aget k (s_keymap s) = None.
  Proof.
    intros (_ & Hkm & _) H. destruct (aget k (s_keymap s)) as [id|] eqn:E; [|reflexivity].
    apply Hkm in E as [m [Hm Hk]]. exfalso. exact (H _ _ Hm Hk).
  Qed.

  (* ---------- which nodes an epoch transition removes: exactly those expired
     for longer than the debonding interval, whatever their status ---------- *)
  Definition removable (e : N) (n : node) : bool := (n_exp n <? e) && (n_exp n + debond <? e).

  Lemma epoch_one_nodes e s id0 id :
    IDS (s_nodes s) ->
    aget id (s_nodes (epoch_one addr debond e s id0)) =
    match aget id (s_nodes s) with
    | Some n => if removable e n && (id0 =? id) then None else Some n
    | None => None
    end.
  Proof.
    intros Hids. unfold epoch_one, removable.
    destruct (aget id0 (s_nodes s)) as [m|] eqn:Em.
    - destruct ((n_exp m <? e) && (n_exp m + debond <? e)) eqn:Ec.
      + unfold remove_node;
          cbn [s_nodes with_status with_nthr with_claims with_nodes with_byent with_addr with_keymap].
        rewrite (Hids _ _ Em), aget_adel_gen. destruct (N.eqb_spec id0 id) as [<-|Hne].
        * rewrite Em, Ec. reflexivity.
        * destruct (aget id (s_nodes s)); [rewrite andb_false_r|]; reflexivity.
      + destruct (N.eqb_spec id0 id) as [<-|Hne].
        * rewrite Em, Ec. reflexivity.
        * destruct (aget id (s_nodes s)); [rewrite andb_false_r|]; reflexivity.
    - destruct (N.eqb_spec id0 id) as [<-|Hne].
      + rewrite Em. reflexivity.
      + destruct (aget id (s_nodes s)); [rewrite andb_false_r|]; reflexivity.
  Qed.

  Lemma epoch_fold_nodes_exact e l : forall s id,
    IDS (s_nodes s) ->
    aget id (s_nodes (fold_left (epoch_one addr debond e) l s)) =
    match aget id (s_nodes s) with
    | Some n => if removable e n && nmem id l then None else Some n
    | None => None
    end.
  Proof.
    induction l as [|id0 r IH]; intros s id Hids.
    - cbn [fold_left nmem]. destruct (aget id (s_nodes s)); [rewrite andb_false_r|]; reflexivity.
    - cbn [fold_left nmem].
      assert (Hids1 : IDS (s_nodes (epoch_one addr debond e s id0))).
      { intros x y Hxy. rewrite epoch_one_nodes in Hxy by exact Hids.
        destruct (aget x (s_nodes s)) as [z|] eqn:Ez; [|discriminate].
        destruct (removable e z && (id0 =? x)); [discriminate|]. injection Hxy as <-. apply (Hids _ _ Ez). }
      rewrite (IH _ id Hids1), (epoch_one_nodes e s id0 id Hids).
      destruct (aget id (s_nodes s)) as [n|]; [|reflexivity].
      destruct (removable e n) eqn:R; destruct (id0 =? id); cbn [andb orb]; rewrite ?R; cbn [andb]; reflexivity.
  Qed.

  Lemma In_ninsert x y l : In x (ninsert y l) <-> x = y \/ In x l.
  Proof.
    induction l as [|z r IH]; cbn [ninsert In]; [intuition congruence|].
    destruct (y <=? z); cbn [In]; [intuition congruence|]. rewrite IH. intuition congruence.
  Qed.
  Lemma In_nsort x l : In x (nsort l) <-> In x l.
  Proof.
    induction l as [|y r IH]; cbn [nsort fold_right In]; [tauto|].
    unfold nsort in IH. rewrite In_ninsert, IH. intuition congruence.
  Qed.
  Lemma aget_fst_In {V} k (v : V) l : aget k l = Some v -> In k (map fst l).
  Proof.
    induction l as [|[k' v'] r IH]; cbn [aget map fst In]; [discriminate|].
    destruct (N.eqb_spec k' k) as [->|Hne]; [auto|]. intros H. right. apply IH. exact H.
  Qed.

  Lemma epoch_removal_exact s e id :
    IDS (s_nodes s) ->
    aget id (s_nodes (snd (stp s (TEpoch e)))) =
    match aget id (s_nodes s) with
    | Some n => if removable e n then None else Some n
    | None => None
    end.
  Proof.
    intros Hids. cbn [step snd]. unfold epoch_change.
    use_mark e (sorted_ids s) (with_epoch s e).
    rewrite epoch_fold_nodes_exact by (rewrite HMnodes; exact Hids).
    rewrite HMnodes. cbn [s_nodes with_epoch].
    destruct (aget id (s_nodes s)) as [n|] eqn:En; [|reflexivity].
    assert (M : nmem id (sorted_ids s) = true).
    { apply nmem_In. unfold sorted_ids. apply In_nsort. eapply aget_fst_In. exact En. }
    rewrite M, andb_true_r. reflexivity.
  Qed.
End Keys.

(* ---------- per-role admission limits ---------- *)
Section Limits.
  Variable maxexp : N.

  (* the nodes the counting loop counts: other ids, not expired, registered for
     the runtime, having the role *)
  Definition counted (epoch newid rt role : N) (m : node) : bool :=
    negb ((n_id m =? newid) || (n_exp m <? epoch) || negb (nmem rt (n_rts m))) && has_role (n_roles m) role.

  Lemma count_loop_sound epoch newid rt role max l : forall cur,
    cur + 1 <= max ->
    count_loop epoch newid rt role max cur l = false ->
    cur + N.of_nat (length (filter (counted epoch newid rt role) l)) + 1 <= max.
  Proof.
    induction l as [|m r IH]; intros cur Hc H; [cbn; lia|].
    cbn [count_loop] in H. cbn [filter]. unfold counted at 1.
    destruct ((n_id m =? newid) || (n_exp m <? epoch) || negb (nmem rt (n_rts m))) eqn:Es; cbn [negb andb].
    - apply IH; assumption.
    - destruct (has_role (n_roles m) role) eqn:Er.
      + destruct (max <? cur + 1 + 1) eqn:Em; [discriminate|]. apply N.ltb_ge in Em.
        cbn [length]. specialize (IH (cur + 1) Em H). lia.
      + destruct (max <? cur + 1) eqn:Em; [discriminate|]. apply IH; assumption.
  Qed.

  Lemma admission_each s n l : admission_check s n l = COk ->
    forall r x, In r l -> any_runtime s r = Some x -> wl_check s n x = COk /\ pr_check s n x all_roles = COk.
  Proof.
    induction l as [|r0 rest IH]; intros H r x Hr Hx; [destruct Hr|].
    cbn [admission_check] in H. destruct Hr as [->|Hr].
    - rewrite Hx in H. destruct (wl_check s n x); try discriminate.
      destruct (pr_check s n x all_roles); try discriminate. auto.
    - destruct (any_runtime s r0) as [y|].
      + destruct (wl_check s n y); try discriminate. destruct (pr_check s n y all_roles); try discriminate.
        eapply IH; eauto.
      + eapply IH; eauto.
  Qed.

  Lemma wl_roles_each s n rt mn roles : wl_roles_check s n rt mn roles = COk ->
    forall role, In role roles -> has_role (n_roles n) role = true ->
    exists mx, aget role mn = Some mx /\ mx <> 0 /\ too_many s n rt role mx = COk.
  Proof.
    induction roles as [|r0 rest IH]; intros H role Hin Hr; [destruct Hin|].
    cbn [wl_roles_check] in H. destruct Hin as [->|Hin].
    - rewrite Hr in H. cbn [negb] in H. destruct (aget role mn) as [mx|]; [|discriminate].
      destruct (N.eqb_spec mx 0); [discriminate|]. destruct (too_many s n rt role mx) eqn:T; try discriminate.
      eauto.
    - destruct (negb (has_role (n_roles n) r0)); [eapply IH; eauto|].
      destruct (aget r0 mn) as [mx|]; [|discriminate]. destruct (mx =? 0); [discriminate|].
      destruct (too_many s n rt r0 mx); try discriminate. eapply IH; eauto.
  Qed.

  Lemma pr_each s n x roles : pr_check s n x roles = COk ->
    forall role ents, In role roles -> has_role (n_roles n) role = true -> aget role (r_pr x) = Some ents ->
    exists mx, aget (n_ent n) ents = Some mx /\ (mx = 0 \/ too_many s n (r_id x) role mx = COk).
  Proof.
    induction roles as [|r0 rest IH]; intros H role ents Hin Hr He; [destruct Hin|].
    cbn [pr_check] in H. destruct Hin as [->|Hin].
    - rewrite Hr, He in H. cbn [negb] in H. destruct (aget (n_ent n) ents) as [mx|]; [|discriminate].
      exists mx. split; [reflexivity|]. destruct (N.eqb_spec mx 0); [auto|].
      destruct (too_many s n (r_id x) role mx); try discriminate. auto.
    - destruct (negb (has_role (n_roles n) r0)); [eapply IH; eauto|].
      destruct (aget r0 (r_pr x)) as [es|]; [|eapply IH; eauto].
      destruct (aget (n_ent n) es) as [mx|]; [|discriminate].
      destruct (mx =? 0); [eapply IH; eauto|].
      destruct (too_many s n (r_id x) r0 mx); try discriminate. eapply IH; eauto.
  Qed.

  Lemma too_many_ok s n rt role mx : mx <> 0 -> too_many s n rt role mx = COk ->
    exists l, entity_node_records s (n_ent n) = Some l /\
              N.of_nat (length (filter (counted (s_epoch s) (n_id n) rt role) l)) + 1 <= mx.
  Proof.
    intros Hmx H. unfold too_many in H. destruct (entity_node_records s (n_ent n)) as [l|]; [|discriminate].
    destruct (count_loop (s_epoch s) (n_id n) rt role mx 0 l) eqn:C; [discriminate|].
    exists l. split; [reflexivity|]. apply (count_loop_sound _ _ _ _ _ l 0); [lia|exact C].
  Qed.

  (* an accepted node registration respects the entity whitelist's per-role limit:
     the entity's OTHER non-expired nodes with that role in that runtime, plus
     this one, are at most the limit in force *)
  Lemma whitelist_limit_respected s txs n signers ok r x wl mn role :
    reg_node_check maxexp s txs n signers ok = COk ->
    In r (n_rts n) -> any_runtime s r = Some x -> r_wl x = Some wl ->
    aget (n_ent n) wl = Some mn -> mn <> [] ->
    In role all_roles -> has_role (n_roles n) role = true ->
    exists mx l, aget role mn = Some mx /\ entity_node_records s (n_ent n) = Some l /\
                 N.of_nat (length (filter (counted (s_epoch s) (n_id n) (r_id x) role) l)) + 1 <= mx.
  Proof.
    intros EC Hr Hx Hwl Hmn Hne Hrole Hhas.
    apply reg_node_ok_rts in EC as (_ & Hadm & _).
    destruct (admission_each s n (n_rts n) Hadm r x Hr Hx) as [Hw _].
    unfold wl_check in Hw. rewrite Hwl, Hmn in Hw. destruct mn as [|p q]; [congruence|].
    destruct (wl_roles_each s n (r_id x) (p :: q) all_roles Hw role Hrole Hhas) as [mx [A [B C]]].
    destruct (too_many_ok s n (r_id x) role mx B C) as [l [D E]]. eauto.
  Qed.

  Lemma per_role_limit_respected s txs n signers ok r x role ents :
    reg_node_check maxexp s txs n signers ok = COk ->
    In r (n_rts n) -> any_runtime s r = Some x ->
    In role all_roles -> has_role (n_roles n) role = true -> aget role (r_pr x) = Some ents ->
    exists mx, aget (n_ent n) ents = Some mx /\
      (mx = 0 \/ exists l, entity_node_records s (n_ent n) = Some l /\
                 N.of_nat (length (filter (counted (s_epoch s) (n_id n) (r_id x) role) l)) + 1 <= mx).
  Proof.
    intros EC Hr Hx Hrole Hhas He.
    apply reg_node_ok_rts in EC as (_ & Hadm & _).
    destruct (admission_each s n (n_rts n) Hadm r x Hr Hx) as [_ Hp].
    destruct (pr_each s n x all_roles Hp role ents Hrole Hhas He) as [mx [A B]].
    exists mx. split; [exact A|]. destruct B as [B|B]; [auto|].
    destruct (N.eq_dec mx 0) as [Z|NZ]; [auto|right]. apply too_many_ok; assumption.
  Qed.
End Limits.

(* The limit is checked at registration time only: a later runtime update may
   lower it below the number of nodes already admitted (they are not evicted). *)
Example lowering_the_limit_does_not_evict :
  let any := fun k : N => k in
  let rt mx := mkRt 1 1 1 1 (Some [(1, [(1, mx)])]) None [] 0 0 [mkDep 0 1 0] in
  let nd id c p v t := mkNode id 1 c p v t 4 1 [1] in
  let ops := [TRegEntity 1 (mkEnt 1 [4; 7]) 1 true;
              TRegRuntime 2 (rt 2);
              TRegNode 4 (nd 4 8 9 10 11) [4; 8; 9; 10; 11] true;
              TRegNode 7 (nd 7 12 13 14 15) [7; 12; 13; 14; 15] true;
              TRegRuntime 2 (rt 1)] in
  let s := run any true 5 2 ops st0 in
  map fst (s_nodes s) = [7; 4] /\
  option_map r_wl (any_runtime s 1) = Some (Some [(1, [(1, 1)])]) /\
  fst (step any true 5 2 s (TRegNode 7 (nd 7 12 13 14 15) [7; 12; 13; 14; 15] true)) = CForbidden.
Proof. cbn zeta. vm_compute. repeat split; reflexivity. Qed.

Lemma accepted_deployments_all s caller rt :
  reg_runtime_check s caller rt = COk ->
  validate_deployments (s_epoch s) rt = COk /\
  (0 < length (r_deps rt))%nat /\ N.of_nat (length (r_deps rt)) <= max_deployments /\
  N.of_nat (length (filter (fun d => s_epoch s <? d_from d) (r_deps rt))) <= 1.
Proof.
  intros H. pose proof (accepted_deployments_valid s caller rt H) as V.
  split; [exact V|]. eapply valid_deployments_facts; eauto.
Qed.

(* ---------- a registered node's entity is always registered ---------- *)
Definition Inv_owner (s : state) : Prop :=
  forall id n, aget id (s_nodes s) = Some n -> exists ent, aget (n_ent n) (s_ents s) = Some ent.

Section Owner.
  Variable addr : N -> N.
  Variable fixed : bool.
  Variables maxexp debond : N.
  Notation stp := (step addr fixed maxexp debond).

  Lemma step_owner s o :
    tx_op o = true -> Inv_reg s -> Inv_owner s -> Inv_owner (snd (stp s o)).
  Proof.
    intros Htx Hreg Hown. destruct o; try discriminate; cbn [step].
    - destruct (reg_entity_check txs e dsigner sig_ok); try exact Hown. cbn [snd].
      intros id n Hn. cbn [s_nodes s_ents with_ents with_claims] in Hn |- *.
      rewrite aget_aset_gen. destruct (e_id e =? n_ent n); [eauto|apply (Hown id n Hn)].
    - destruct (dereg_entity_check s txs) eqn:EC; try exact Hown. cbn [snd].
      unfold dereg_entity_check in EC. destruct (has_entity_nodes s txs) eqn:HN; [discriminate|].
      intros id n Hn. cbn [s_nodes s_ents with_ents with_claims] in Hn |- *.
      rewrite aget_adel_gen. destruct (N.eqb_spec txs (n_ent n)) as [E|Hne]; [|apply (Hown id n Hn)].
      exfalso. assert (X : has_entity_nodes s txs = true).
      { apply (reg_entity_nodes_mirror s txs Hreg). exists id, n. auto. }
      congruence.
    - destruct (reg_node_check maxexp s txs n dsigners sig_ok) eqn:EC; try exact Hown. cbn [snd].
      apply reg_node_ok in EC as ((ent & He & _) & _).
      match goal with |- Inv_owner (fold_left resume_one ?l ?s0) => use_core l s0 end.
      intros id m Hm. rewrite HCnodes in Hm. rewrite HCents.
      cbn [set_node s_nodes s_ents with_status with_nthr with_claims with_nodes with_byent with_addr with_keymap] in Hm |- *.
      rewrite aget_aset_gen in Hm. destruct (n_id n =? id).
      + injection Hm as <-. eauto.
      + apply (Hown id m Hm).
    - cbn [snd]. unfold epoch_change. intros id n Hn.
      rewrite epoch_fold_ents. use_mark e (sorted_ids s) (with_epoch s e). rewrite HMents.
      assert (Hids' : IDS (s_nodes (fold_left (mark_one e) (sorted_ids s) (with_epoch s e))))
        by (rewrite HMnodes; exact (proj1 Hreg)).
      destruct (epoch_fold_nodes addr debond e (sorted_ids s) _ Hids') as [_ H].
      destruct (H id) as [A|[A _]]; rewrite A in Hn; [|discriminate].
      rewrite HMnodes in Hn. apply (Hown id n Hn).
    - destruct (reg_runtime_check s caller rt); try exact Hown. cbn [snd].
      use_ncore s rt. intros id n Hn. rewrite HNnodes in Hn. rewrite HNents. apply (Hown id n Hn).
    - destruct (aget r (s_rts s)); exact Hown.
    - status_ops Hown.
    - status_ops Hown.
  Qed.

  Lemma owner_hist ops : forall s,
    Inv_reg s -> Inv_owner s -> forallb tx_op ops = true ->
    Inv_owner (run addr fixed maxexp debond ops s).
  Proof.
    induction ops as [|o r IH]; intros s Hreg Hown Htx; [exact Hown|].
    cbn [forallb] in Htx. apply andb_true_iff in Htx as [Ho Hr].
    unfold run. cbn [fold_left]. apply IH; auto.
    - apply step_reg; auto.
    - apply step_owner; auto.
  Qed.

  Lemma owner_from_initial ops id n :
    forallb tx_op ops = true ->
    aget id (s_nodes (run addr fixed maxexp debond ops st0)) = Some n ->
    exists ent, aget (n_ent n) (s_ents (run addr fixed maxexp debond ops st0)) = Some ent.
  Proof.
    intros H. apply (owner_hist ops st0 Inv_reg_st0); [|exact H].
    intros x y Hxy. discriminate.
  Qed.
End Owner.
