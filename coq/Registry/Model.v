(* Executable model of the registry state layer and of the checks that guard
   entity / node registration (property C17).

   Ported from (oasis-core, /repo/go):
     consensus/cometbft/apps/registry/state/state.go   SetNode 551-620, RemoveNode 622-652,
                                                       SetEntity/RemoveEntity 520-548, NodeBySubKey 497-512,
                                                       GetEntityNodes 405-445, HasEntityNodes/Runtimes 447-480
     registry/api/api.go                               VerifyRegisterEntityArgs 432-488,
                                                       VerifyRegisterNodeArgs 493-803, VerifyNodeUpdate 1044-1105
     consensus/cometbft/apps/registry/transactions.go  registerEntity 21-102, deregisterEntity 104-185,
                                                       registerNode 187-470
     consensus/cometbft/apps/registry/registry.go      onRegistryEpochChanged 171-263
     common/crypto/signature/signature.go              MultiSigned.IsSignedBy / IsOnlySignedBy 510-548

   Public keys are numbers (the harness numbers its key pool in byte order, so
   numeric order = the order of registry.SortNodeList).  Signatures are
   abstract: a descriptor comes with the list of keys whose (valid) signatures
   it carries and a flag saying whether every carried signature verifies.
   The consensus address (truncated SHA-256 of the key) is a parameter [addr].
   No proofs in this file. *)
From Verif Require Import Lib.Base.

Record node := mkNode {
  n_id : N; n_ent : N; n_cons : N; n_p2p : N; n_vrf : N; n_tls : N; n_exp : N;
  n_roles : N;            (* node.RolesMask: 1 compute, 2 observer, 4 key manager, 8 validator, 32 storage-rpc *)
  n_rts : list N }.       (* ids of the runtimes the descriptor lists (one version each, no TEE) *)
Record entity := mkEnt { e_id : N; e_nodes : list N }.
(* runtime descriptor: kind 1 compute / 2 key manager; governance 1 entity / 2 runtime / 3 consensus;
   admission policy: None = any node, Some l = entity whitelist without per-role limits *)
(* a deployment (VersionInfo runtime.go:645-658): version as ToU64, valid-from epoch,
   TEE constraint bytes (0 = none) *)
Record deployment := mkDep { d_ver : N; d_from : N; d_tee : N }.
(* admission policy: r_wl = None and r_pr = [] is "any node"; r_wl = Some l is the
   entity whitelist, each entity with its role -> max-nodes map ([] = unlimited);
   r_pr is the per-role policy: role -> entity -> max nodes (0 = unlimited) *)
Record runtime := mkRt { r_id : N; r_ent : N; r_kind : N; r_gov : N;
                          r_wl : option (list (N * list (N * N)));
                          r_km : option N;        (* key manager runtime a compute runtime refers to *)
                          r_pr : list (N * list (N * N));
                          r_genesis : N;          (* genesis state root / round, abstract *)
                          r_tee : N;              (* TEE hardware: 0 none, 1 SGX, >= 2 reserved *)
                          r_deps : list deployment }.

(* ---------- finite sets of pairs (index entries with empty value) ---------- *)
Definition pair_eqb (a b : N * N) : bool := (fst a =? fst b) && (snd a =? snd b).
Fixpoint pmem (p : N * N) (l : list (N * N)) : bool :=
  match l with [] => false | q :: r => pair_eqb q p || pmem p r end.
Definition padd (p : N * N) (l : list (N * N)) : list (N * N) :=
  if pmem p l then l else p :: l.
Fixpoint pdel (p : N * N) (l : list (N * N)) : list (N * N) :=
  match l with
  | [] => []
  | q :: r => if pair_eqb q p then pdel p r else q :: pdel p r
  end.

Fixpoint nmem (x : N) (l : list N) : bool :=
  match l with [] => false | y :: r => (y =? x) || nmem x r end.
Fixpoint ndedup (l : list N) : list N :=
  match l with [] => [] | x :: r => if nmem x r then ndedup r else x :: ndedup r end.
Fixpoint has_dup (l : list N) : bool :=
  match l with [] => false | x :: r => nmem x r || has_dup r end.

(* registry NodeStatus status.go:14-34: expiration processed, freeze end epoch
   (0 = not frozen), "election eligible after" is the invalid epoch (set at a
   new / expired re-registration; other applications set real values) *)
Record status := mkStatus { st_expired : bool; st_freeze : N; st_inelig : bool }.

(* ---------- state ---------- *)
Record state := mkSt {
  s_ents   : list (N * entity);   (* 0x10 signed entities, by id *)
  s_nodes  : list (N * node);     (* 0x11 signed nodes, by id *)
  s_byent  : list (N * N);        (* 0x12 (entity id, node id) *)
  s_addr   : list (N * N);        (* 0x14 consensus address -> node id *)
  s_keymap : list (N * N);        (* 0x17 sub-key -> node id *)
  s_rtown  : list (N * N);        (* 0x19 (entity id, runtime id) *)
  s_claims : list (N * N);        (* staking: (entity account, claim): 0 = registry.RegisterEntity,
                                     id+1 = registry.RegisterNode.<id> *)
  s_epoch  : N;
  s_rts    : list (N * runtime);  (* 0x13 active runtimes *)
  s_susp   : list (N * runtime);  (* 0x18 suspended runtimes *)
  s_rtclaims : list (N * N);      (* staking: (account, runtime id) for registry.RegisterRuntime.<id>;
                                     account 2*e = entity e, 2*r+1 = runtime r's own account *)
  s_nthr   : list (N * list N);   (* threshold kinds stored with the node claim of node id *)
  s_status : list (N * status) }. (* 0x15 node status, by node id *)

Definition st0 : state := mkSt [] [] [] [] [] [] [] 0 [] [] [] [] [].

Definition with_ents s v := mkSt v (s_nodes s) (s_byent s) (s_addr s) (s_keymap s) (s_rtown s) (s_claims s) (s_epoch s) (s_rts s) (s_susp s) (s_rtclaims s) (s_nthr s) (s_status s).
Definition with_nodes s v := mkSt (s_ents s) v (s_byent s) (s_addr s) (s_keymap s) (s_rtown s) (s_claims s) (s_epoch s) (s_rts s) (s_susp s) (s_rtclaims s) (s_nthr s) (s_status s).
Definition with_byent s v := mkSt (s_ents s) (s_nodes s) v (s_addr s) (s_keymap s) (s_rtown s) (s_claims s) (s_epoch s) (s_rts s) (s_susp s) (s_rtclaims s) (s_nthr s) (s_status s).
Definition with_addr s v := mkSt (s_ents s) (s_nodes s) (s_byent s) v (s_keymap s) (s_rtown s) (s_claims s) (s_epoch s) (s_rts s) (s_susp s) (s_rtclaims s) (s_nthr s) (s_status s).
Definition with_keymap s v := mkSt (s_ents s) (s_nodes s) (s_byent s) (s_addr s) v (s_rtown s) (s_claims s) (s_epoch s) (s_rts s) (s_susp s) (s_rtclaims s) (s_nthr s) (s_status s).
Definition with_rtown s v := mkSt (s_ents s) (s_nodes s) (s_byent s) (s_addr s) (s_keymap s) v (s_claims s) (s_epoch s) (s_rts s) (s_susp s) (s_rtclaims s) (s_nthr s) (s_status s).
Definition with_claims s v := mkSt (s_ents s) (s_nodes s) (s_byent s) (s_addr s) (s_keymap s) (s_rtown s) v (s_epoch s) (s_rts s) (s_susp s) (s_rtclaims s) (s_nthr s) (s_status s).
Definition with_epoch s v := mkSt (s_ents s) (s_nodes s) (s_byent s) (s_addr s) (s_keymap s) (s_rtown s) (s_claims s) v (s_rts s) (s_susp s) (s_rtclaims s) (s_nthr s) (s_status s).
Definition with_rts s v := mkSt (s_ents s) (s_nodes s) (s_byent s) (s_addr s) (s_keymap s) (s_rtown s) (s_claims s) (s_epoch s) v (s_susp s) (s_rtclaims s) (s_nthr s) (s_status s).
Definition with_susp s v := mkSt (s_ents s) (s_nodes s) (s_byent s) (s_addr s) (s_keymap s) (s_rtown s) (s_claims s) (s_epoch s) (s_rts s) v (s_rtclaims s) (s_nthr s) (s_status s).
Definition with_rtclaims s v := mkSt (s_ents s) (s_nodes s) (s_byent s) (s_addr s) (s_keymap s) (s_rtown s) (s_claims s) (s_epoch s) (s_rts s) (s_susp s) v (s_nthr s) (s_status s).
Definition with_nthr s v := mkSt (s_ents s) (s_nodes s) (s_byent s) (s_addr s) (s_keymap s) (s_rtown s) (s_claims s) (s_epoch s) (s_rts s) (s_susp s) (s_rtclaims s) v (s_status s).
Definition with_status s v := mkSt (s_ents s) (s_nodes s) (s_byent s) (s_addr s) (s_keymap s) (s_rtown s) (s_claims s) (s_epoch s) (s_rts s) (s_susp s) (s_rtclaims s) (s_nthr s) v.

(* ---------- index updates as explicit operation lists ---------- *)
Inductive kop := KDel (k : N) | KSet (k v : N).
Definition kapply (m : list (N * N)) (o : kop) : list (N * N) :=
  match o with KDel k => adel k m | KSet k v => aset k v m end.
Definition kapply_all (ops : list kop) (m : list (N * N)) : list (N * N) := fold_left kapply ops m.

(* "if existingNode != nil && !existing.K.Equal(node.K) { Remove(existing.K) }" *)
Definition del_if_changed (old : option N) (new : N) : list kop :=
  match old with
  | Some o => if o =? new then [] else [KDel o]
  | None => []
  end.

(* state.go:566-617, in the code's order: for each key kind in turn
   (consensus, P2P, VRF, TLS) remove the old entry if the key changed, then
   insert the new one. *)
Definition keymap_ops (ex : option node) (n : node) : list kop :=
  del_if_changed (option_map n_cons ex) (n_cons n) ++ [KSet (n_cons n) (n_id n)] ++
  del_if_changed (option_map n_p2p ex) (n_p2p n) ++ [KSet (n_p2p n) (n_id n)] ++
  del_if_changed (option_map n_vrf ex) (n_vrf n) ++ [KSet (n_vrf n) (n_id n)] ++
  del_if_changed (option_map n_tls ex) (n_tls n) ++ [KSet (n_tls n) (n_id n)].

(* the reordered variant: all removals first, then all insertions *)
Definition keymap_ops_fixed (ex : option node) (n : node) : list kop :=
  del_if_changed (option_map n_cons ex) (n_cons n) ++
  del_if_changed (option_map n_p2p ex) (n_p2p n) ++
  del_if_changed (option_map n_vrf ex) (n_vrf n) ++
  del_if_changed (option_map n_tls ex) (n_tls n) ++
  [KSet (n_cons n) (n_id n); KSet (n_p2p n) (n_id n); KSet (n_vrf n) (n_id n); KSet (n_tls n) (n_id n)].

(* state.go:568-580: the address entry is removed when the consensus KEY changed *)
Definition addr_ops (addr : N -> N) (ex : option node) (n : node) : list kop :=
  match ex with
  | Some o => if n_cons o =? n_cons n then [] else [KDel (addr (n_cons o))]
  | None => []
  end ++ [KSet (addr (n_cons n)) (n_id n)].

(* ---------- result codes (errors projected to a small enum) ---------- *)
Inductive code :=
| COk | CInvalidSignature | CInvalidArgument | CIncorrectTxSigner | CNoSuchEntity
| CNodeExpired | CNodeUpdateNotAllowed | CEntityHasNodes | CEntityHasRuntimes | COther
| CForbidden | CRuntimeUpdateNotAllowed | CNoSuchRuntime
| CNoSuchNode | CBadEntityForNode | CNodeCannotBeUnfrozen | CNoEnclave.

(* ---------- operations ---------- *)
Inductive op :=
(* layer A: the state layer called directly; SetNode gets existing := the
   current record of that id and RemoveNode the current record, as the
   callers in transactions.go:376 and registry.go:245 do *)
| LSetEntity (e : entity)
| LSetNode (n : node)
| LRemoveNode (id : N)
| LSetRtOwner (e rt : N)
| LRemoveRtOwner (e rt : N)
(* layer B: transactions; [txs] = transaction signer *)
| TRegEntity (txs : N) (e : entity) (dsigner : N) (sig_ok : bool)
| TDeregEntity (txs : N)
| TRegNode (txs : N) (n : node) (dsigners : list N) (sig_ok : bool)
| TEpoch (e : N)
(* RegisterRuntime; [caller] is the caller's staking account: 2*k for a
   transaction signed by key k, 2*r+1 for a message emitted by runtime r *)
| TRegRuntime (caller : N) (rt : runtime)
(* environment: the roothash application suspends a runtime (state.SuspendRuntime) *)
| LSuspendRt (r : N)
(* UnfreezeNode transaction signed by [txs] *)
| TUnfreeze (txs : N) (id : N)
(* environment: another application (slashing, liveness) freezes a node until epoch [e] *)
| LFreeze (id : N) (e : N).

Section WithParams.
  Variable addr : N -> N.
  Variable fixed : bool.       (* false: the code's SetNode; true: the reordered one *)
  Variable maxexp : N.         (* registry params.MaxNodeExpiration (> 0 in the harness) *)
  Variable debond : N.         (* staking params.DebondingInterval *)

  (* SetNode, state.go:551-620 *)
  Definition set_node (ex : option node) (n : node) (s : state) : state :=
    let s := with_nodes s (aset (n_id n) n (s_nodes s)) in
    let s := with_byent s (padd (n_ent n, n_id n) (s_byent s)) in
    let s := with_addr s (kapply_all (addr_ops addr ex n) (s_addr s)) in
    with_keymap s (kapply_all ((if fixed then keymap_ops_fixed else keymap_ops) ex n) (s_keymap s)).

  (* RemoveNode, state.go:622-652 (order: consensus, P2P, TLS, VRF) *)
  Definition remove_node (n : node) (s : state) : state :=
    let s := with_nodes s (adel (n_id n) (s_nodes s)) in
    let s := with_byent s (pdel (n_ent n, n_id n) (s_byent s)) in
    let s := with_addr s (adel (addr (n_cons n)) (s_addr s)) in
    let s := with_status s (adel (n_id n) (s_status s)) in            (* state.go:629 *)
    with_keymap s (kapply_all [KDel (n_cons n); KDel (n_p2p n); KDel (n_tls n); KDel (n_vrf n)] (s_keymap s)).

  (* NodeBySubKey, state.go:497-512: key map lookup, then the node record *)
  Definition node_by_subkey (s : state) (k : N) : option node :=
    match aget k (s_keymap s) with
    | Some id => aget id (s_nodes s)
    | None => None
    end.
  Definition node_by_addr (s : state) (a : N) : option node :=
    match aget a (s_addr s) with
    | Some id => aget id (s_nodes s)
    | None => None
    end.

  Fixpoint has_fst (e : N) (l : list (N * N)) : bool :=
    match l with [] => false | (a, _) :: r => (a =? e) || has_fst e r end.
  Definition has_entity_nodes (s : state) (e : N) : bool := has_fst e (s_byent s).
  Definition has_entity_runtimes (s : state) (e : N) : bool := has_fst e (s_rtown s).

  (* AnyRuntime state.go:306-312: active, else suspended *)
  Definition any_runtime (s : state) (r : N) : option runtime :=
    match aget r (s_rts s) with
    | Some x => Some x
    | None => aget r (s_susp s)
    end.
  Definition has_role (roles mask : N) : bool := negb (N.land roles mask =? 0).   (* node.go:378 *)
  (* Runtime.StakingAddress runtime.go:631-642 *)
  Definition rt_acct (rt : runtime) : option N :=
    if r_gov rt =? 1 then Some (2 * r_ent rt)
    else if r_gov rt =? 2 then Some (2 * r_id rt + 1)
    else None.
  (* runtime ids with the key-manager namespace flag (the harness's runtime pool: 3 and above) *)
  Definition km_id (r : N) : bool := 3 <=? r.

  (* VerifyRegisterEntityArgs api.go:432-488 + registerEntity transactions.go:21-102 *)
  Definition reg_entity_check (txs : N) (e : entity) (dsigner : N) (sig_ok : bool) : code :=
    if negb sig_ok then CInvalidSignature                      (* api.go:446 Open *)
    else if negb (dsigner =? e_id e) then CInvalidArgument     (* api.go:452 SanityCheck(ent.ID) *)
    else if has_dup (e_nodes e) then CInvalidArgument          (* api.go:470-484 *)
    else if negb (dsigner =? txs) then CIncorrectTxSigner      (* transactions.go:58 *)
    else COk.

  Definition is_signed_by (signers : list N) (k : N) : bool := nmem k signers.
  (* IsOnlySignedBy signature.go:529-548: the set of signing keys has exactly
     len(pks) elements and contains every pk *)
  Definition is_only_signed_by (signers : list N) (pks : list N) : bool :=
    (N.of_nat (length (ndedup signers)) =? N.of_nat (length pks)) &&
    forallb (is_signed_by signers) pks.

  (* api.go:580-650: the runtimes of the descriptor, in order *)
  Fixpoint node_rts_loop (s : state) (roles : N) (seen l : list N) : code :=
    match l with
    | [] => COk
    | r :: rest =>
        if nmem r seen then CInvalidArgument                           (* 602 duplicate version *)
        else match any_runtime s r with
             | None => CNoSuchRuntime                                  (* 613 *)
             | Some rt =>
                 if (r_kind rt =? 2) && negb (has_role roles 4) then CInvalidArgument       (* 637 *)
                 else if (r_kind rt =? 1) && negb (has_role roles 3) then CInvalidArgument  (* 640 *)
                 else node_rts_loop s roles (r :: seen) rest
             end
    end.
  Definition node_rts_check (s : state) (n : node) : code :=
    match n_rts n with
    | [] => if has_role (n_roles n) 39 then CInvalidArgument else COk  (* 587 missing runtimes *)
    | l => node_rts_loop s (n_roles n) [] l
    end.
  Definition code_is_ok (c : code) : bool := match c with COk => true | _ => false end.

  Definition dup_subkey (s : state) (n : node) (k : N) : bool :=
    match node_by_subkey s k with
    | Some ex => negb (n_id ex =? n_id n)
    | None => false
    end.

  (* VerifyRegisterNodeArgs api.go:493-803 (node without runtimes, well-formed
     addresses/roles/version; isGenesis = isSanityCheck = false) *)
  Definition verify_register_node_args (s : state) (ent : entity) (n : node)
             (signers : list N) (sig_ok : bool) : code :=
    if negb sig_ok then CInvalidSignature                              (* 521 *)
    else if n_roles n =? 0 then CInvalidArgument                       (* 528 ValidateBasic: no roles *)
    else if negb (is_signed_by signers (n_id n)) then CInvalidArgument (* 546 *)
    else if negb (nmem (n_id n) (e_nodes ent)) then CInvalidArgument   (* 554 entity.HasNode *)
    else if (0 <? maxexp) && (s_epoch s + maxexp <? n_exp n) then CInvalidArgument (* 567-575 *)
    else if negb (code_is_ok (node_rts_check s n)) then node_rts_check s n  (* 580-650 *)
    else if negb (is_signed_by signers (n_cons n)) then CInvalidArgument (* 657 *)
    else if negb (is_signed_by signers (n_vrf n)) then CInvalidArgument  (* 683 *)
    else if negb (is_signed_by signers (n_tls n)) then CInvalidArgument  (* 700 *)
    else if negb (is_signed_by signers (n_p2p n)) then CInvalidArgument  (* 716 *)
    else if dup_subkey s n (n_cons n) || dup_subkey s n (n_p2p n) ||
            dup_subkey s n (n_tls n) || dup_subkey s n (n_vrf n) then CInvalidArgument (* 763-782 *)
    else if has_dup [n_cons n; n_p2p n; n_tls n; n_vrf n] then CInvalidArgument (* 785 *)
    else if negb (is_only_signed_by signers [n_id n; n_cons n; n_vrf n; n_tls n; n_p2p n])
         then CInvalidArgument                                         (* 793 *)
    else COk.

  (* VerifyNodeUpdate api.go:1044-1105, in the code's order: node id, entity
     id and consensus id must not change (1054-1075); only then the early
     return for an expired current record (1078), after which come the checks
     for active nodes (runtimes, roles: constant in this model). *)
  (* the order of the checks below, as numbered by harness/cmd/gen registryconsts
     (compared with the current source by Props/C17.v verify_node_update_order_as_modelled) *)
  Definition verify_node_update_order_modelled : list N := [1; 2; 3; 4; 5; 6].
  Definition verify_node_update (epoch : N) (cur n : node) : code :=
    if negb (n_id cur =? n_id n) then CNodeUpdateNotAllowed           (* 1054 *)
    else if negb (n_ent cur =? n_ent n) then CNodeUpdateNotAllowed    (* 1061 *)
    else if negb (n_cons cur =? n_cons n) then CNodeUpdateNotAllowed  (* 1069 *)
    else if n_exp cur <? epoch then COk                               (* 1078 IsExpired *)
    else if negb (forallb (fun r => nmem r (n_rts n)) (n_rts cur))
         then CNodeUpdateNotAllowed                                   (* 1082 a current runtime is missing *)
    else if negb (has_role (n_roles n) (n_roles cur)) then CNodeUpdateNotAllowed  (* 1092 *)
    else COk.

  (* GetEntityNodes state.go:405-445 (records of the by-entity entries, id order);
     None when an entry does not resolve *)
  Definition entity_node_records (s : state) (e : N) : option (list node) :=
    let ids := nsort (map snd (filter (fun p => fst p =? e) (s_byent s))) in
    fold_right (fun id acc => match aget id (s_nodes s), acc with
                              | Some n, Some l => Some (n :: l)
                              | _, _ => None
                              end) (Some []) ids.

  (* verifyNodeCountWithRoleForRuntime admission.go:262-300: the loop with its
     early exit; true = too many *)
  Fixpoint count_loop (epoch : N) (newid rt role max cur : N) (l : list node) : bool :=
    match l with
    | [] => false
    | m :: rest =>
        if (n_id m =? newid) || (n_exp m <? epoch) || negb (nmem rt (n_rts m))
        then count_loop epoch newid rt role max cur rest                      (* 277-282 *)
        else
          let cur' := if has_role (n_roles m) role then cur + 1 else cur in   (* 284 *)
          if max <? cur' + 1 then true                                        (* 290 *)
          else count_loop epoch newid rt role max cur' rest
    end.
  Definition too_many (s : state) (n : node) (rt role max : N) : code :=
    match entity_node_records s (n_ent n) with
    | None => COther
    | Some l => if count_loop (s_epoch s) (n_id n) rt role max 0 l then CForbidden else COk
    end.

  Definition all_roles : list N := [1; 2; 4; 8; 32].     (* node.Roles() node.go:212 *)

  (* EntityWhitelistRuntimeAdmissionPolicy.Verify admission.go:122-170 *)
  Fixpoint wl_roles_check (s : state) (n : node) (rt : N) (maxnodes : list (N * N)) (roles : list N) : code :=
    match roles with
    | [] => COk
    | role :: rest =>
        if negb (has_role (n_roles n) role) then wl_roles_check s n rt maxnodes rest
        else match aget role maxnodes with
             | None => CForbidden                                             (* 152 *)
             | Some mx =>
                 if mx =? 0 then CForbidden                                   (* 156 *)
                 else match too_many s n rt role mx with
                      | COk => wl_roles_check s n rt maxnodes rest
                      | c => c
                      end
             end
    end.
  Definition wl_check (s : state) (n : node) (rt : runtime) : code :=
    match r_wl rt with
    | None => COk
    | Some wl =>
        match aget (n_ent n) wl with
        | None => CForbidden                                                  (* 131 *)
        | Some [] => COk                                                      (* 134 any amount *)
        | Some mn => wl_roles_check s n (r_id rt) mn all_roles
        end
    end.
  (* per-role policies admission.go:69-88, 226-245 *)
  Fixpoint pr_check (s : state) (n : node) (rt : runtime) (roles : list N) : code :=
    match roles with
    | [] => COk
    | role :: rest =>
        if negb (has_role (n_roles n) role) then pr_check s n rt rest
        else match aget role (r_pr rt) with
             | None => pr_check s n rt rest
             | Some ents =>
                 match aget (n_ent n) ents with
                 | None => CForbidden                                         (* 236 *)
                 | Some mx =>
                     if mx =? 0 then pr_check s n rt rest                     (* 239 *)
                     else match too_many s n (r_id rt) role mx with
                          | COk => pr_check s n rt rest
                          | c => c
                          end
                 end
             end
    end.
  (* RuntimeAdmissionPolicy.Verify admission.go:57-90 for every runtime of the node *)
  Fixpoint admission_check (s : state) (n : node) (l : list N) : code :=
    match l with
    | [] => COk
    | r :: rest =>
        match any_runtime s r with
        | Some rt =>
            match wl_check s n rt with
            | COk => match pr_check s n rt all_roles with
                     | COk => admission_check s n rest
                     | c => c
                     end
            | c => c
            end
        | None => admission_check s n rest
        end
    end.

  (* registerNode transactions.go:187-470: every check in order; COk iff the
     descriptor is stored *)
  Definition reg_node_check (s : state) (txs : N) (n : node) (signers : list N) (sig_ok : bool) : code :=
    match aget (n_ent n) (s_ents s) with
    | None => CNoSuchEntity                                            (* 206 state.Entity *)
    | Some ent =>
        match verify_register_node_args s ent n signers sig_ok with
        | COk =>
            if negb (txs =? n_id n) then CIncorrectTxSigner            (* 259 *)
            else if negb (code_is_ok (admission_check s n (n_rts n)))
                 then admission_check s n (n_rts n)                    (* 265-269 *)
            else if n_exp n <=? s_epoch s then CNodeExpired            (* 278 *)
            else match aget (n_id n) (s_nodes s) with
                 | Some cur =>
                     match verify_node_update (s_epoch s) cur n with   (* 366 *)
                     | COk => match aget (n_id n) (s_status s) with    (* 389-396: status of an existing node *)
                              | Some _ => COk
                              | None => CInvalidArgument
                              end
                     | c => c
                     end
                 | None => COk
                 end
        | c => c
        end
    end.

  Definition dereg_entity_check (s : state) (txs : N) : code :=
    if has_entity_nodes s txs then CEntityHasNodes                     (* 123-135 *)
    else if has_entity_runtimes s txs then CEntityHasRuntimes          (* 140-151 *)
    else match aget txs (s_ents s) with
         | None => CNoSuchEntity                                       (* 153-157 *)
         | Some _ => COk
         end.

  (* onRegistryEpochChanged registry.go:171-263: nodes in id order; a node
     expired for longer than the debonding interval is removed together with
     its stake claim.  (The 2^64 overflow guard of line 236 is outside the
     range of the modelled epochs.) *)
  Definition sorted_ids (s : state) : list N := nsort (map fst (s_nodes s)).

  (* The loop body looks the record up again by id: in a key-value store ids
     are unique, so this is the snapshot record unless an earlier iteration
     removed it. *)
  Definition epoch_one (e : N) (s : state) (id : N) : state :=
    match aget id (s_nodes s) with
    | Some n =>
        if (n_exp n <? e) && (n_exp n + debond <? e) then    (* registry.go:214, 240 *)
          let s := remove_node n s in
          let s := with_claims s (pdel (n_ent n, n_id n + 1) (s_claims s)) in  (* registry.go:250 *)
          with_nthr s (adel (n_id n) (s_nthr s))
        else s
    | None => s
    end.
  (* registry.go:219-232: the status of an expired node gets its
     expiration-processed flag.  In the code this happens in the same loop
     iteration as the removal decision; it depends only on the node's own
     record and status, so it is modelled as a first pass. *)
  Definition mark_one (e : N) (s : state) (id : N) : state :=
    match aget id (s_nodes s), aget id (s_status s) with
    | Some n, Some st =>
        if n_exp n <? e then with_status s (aset id (mkStatus true (st_freeze st) (st_inelig st)) (s_status s))
        else s
    | _, _ => s
    end.
  Definition epoch_change (e : N) (s : state) : state :=
    fold_left (epoch_one e) (sorted_ids s) (fold_left (mark_one e) (sorted_ids s) (with_epoch s e)).

  (* threshold kinds of a node claim, StakeThresholdsForNode api.go:1547-1598
     (per-runtime constants are zero): 1 validator, 2 compute, 3 observer, 4 key manager *)
  Definition node_kinds (n : node) : list N :=
    (if has_role (n_roles n) 8 then [1] else []) ++
    flat_map (fun _ : N =>
                (if has_role (n_roles n) 4 then [4] else []) ++
                (if has_role (n_roles n) 1 then [2] else []) ++
                (if has_role (n_roles n) 2 then [3] else [])) (n_rts n).

  (* transactions.go:421-465: a suspended runtime the node registered for is resumed *)
  Definition resume_one (s : state) (r : N) : state :=
    match aget r (s_susp s) with
    | Some rt => with_rts (with_susp s (adel r (s_susp s))) (aset r rt (s_rts s))
    | None => s
    end.

  (* registerRuntime transactions.go:577-846 (descriptor otherwise well formed:
     deployments constant, no key manager reference, DebugDeployImmediately) *)
  (* api.go:1261-1276: a key manager reference, once set, can neither be removed nor changed *)
  Definition km_changed (cur new : option N) : bool :=
    match cur, new with
    | Some a, Some b => negb (a =? b)
    | Some _, None => true
    | None, _ => false
    end.
  (* VerifyRegisterComputeRuntimeArgs api.go:1183-1217 *)
  Definition km_ref_check (s : state) (rt : runtime) : code :=
    if negb (r_kind rt =? 1) then COk
    else match r_km rt with
         | None => COk
         | Some k => match any_runtime s k with
                     | None => CNoSuchRuntime                            (* 1187-1193 *)
                     | Some km => if r_kind km =? 2 then COk else CInvalidArgument  (* 1196-1204 *)
                     end
         end.
  (* ---------- deployments ---------- *)
  Definition dep_eqb (a b : deployment) : bool :=
    (d_ver a =? d_ver b) && (d_from a =? d_from b) && (d_tee a =? d_tee b).
  Fixpoint dep_insert (d : deployment) (l : list deployment) : list deployment :=
    match l with
    | [] => [d]
    | x :: r => if d_ver d <? d_ver x then d :: l else x :: dep_insert d r   (* stable: after equal versions *)
    end.
  Definition dep_sort (l : list deployment) : list deployment := fold_left (fun acc d => dep_insert d acc) l [].
  Definition max_deployments : N := 3.   (* max(2, params.MaxRuntimeDeployments); the harness sets 3 *)
  (* the loop of ValidateDeployments runtime.go:566-611 over the deployments sorted by version *)
  Fixpoint vd_loop (hw : N) (prev : option deployment) (l : list deployment) : code :=
    match l with
    | [] => COk
    | d :: r =>
        if match prev with Some p => d_ver p =? d_ver d | None => false end then CInvalidArgument  (* 567 *)
        else if match prev with Some p => d_from d <=? d_from p | None => false end then CInvalidArgument (* 577 *)
        else if (hw =? 0) && negb (d_tee d =? 0) then CInvalidArgument                             (* 589 *)
        else if (hw =? 1) && (d_tee d =? 0) then CNoEnclave     (* 592-602: empty constraints decode, no enclaves *)
        else if (hw =? 1) then CInvalidArgument                 (* 594: the harness's non-empty bytes are not CBOR *)
        else if negb (hw =? 0) then CInvalidArgument            (* 604 *)
        else vd_loop hw (Some d) r
    end.
  (* ValidateDeployments runtime.go:529-617 *)
  Definition validate_deployments (now : N) (rt : runtime) : code :=
    if N.of_nat (length (r_deps rt)) =? 0 then CInvalidArgument                    (* 537 *)
    else if max_deployments <? N.of_nat (length (r_deps rt)) then CInvalidArgument  (* 544 *)
    else match vd_loop (r_tee rt) None (dep_sort (r_deps rt)) with
         | COk => if 1 <? N.of_nat (length (filter (fun d => now <? d_from d) (r_deps rt)))
                  then CInvalidArgument else COk                                   (* 612 *)
         | c => c
         end.
  (* ActiveDeployment runtime.go:477-496 *)
  Definition active_deployment (now : N) (l : list deployment) : option deployment :=
    fold_left (fun acc d =>
                 if now <? d_from d then acc
                 else match acc with
                      | None => Some d
                      | Some a => if d_from a <? d_from d then Some d else acc
                      end) l None.
  Fixpoint find_version (v : N) (l : list deployment) : option deployment :=
    match l with [] => None | d :: r => if d_ver d =? v then Some d else find_version v r end.
  (* api.go:1311-1345: every deployment of the new descriptor is an unchanged old one or starts in the future *)
  Definition deps_update_ok (now : N) (cur new : list deployment) : bool :=
    forallb (fun d => match find_version (d_ver d) cur with
                      | Some o => dep_eqb d o || (now <? d_from d)
                      | None => now <? d_from d
                      end) new.
  (* api.go:1347-1368 *)
  Definition active_kept (now : N) (cur new : list deployment) : bool :=
    match active_deployment now cur, active_deployment now new with
    | Some a, Some b => dep_eqb a b
    | Some _, None => false
    | None, Some _ => false
    | None, None => true
    end.
  (* admission policy ValidateBasic admission.go:24-54, 100-118: role keys are single roles *)
  Definition single_role (m : N) : bool := nmem m all_roles.
  Definition policy_valid (rt : runtime) : bool :=
    match r_wl rt with
    | Some wl => forallb (fun e => forallb (fun p => single_role (fst p)) (snd e)) wl
    | None => true
    end && forallb (fun p => single_role (fst p)) (r_pr rt).

  (* VerifyRuntimeUpdate api.go:1234-1371 for an existing (active or suspended) runtime;
     VerifyRuntimeNew api.go:1220-1232 otherwise *)
  Definition rt_update_check (s : state) (rt : runtime) : code :=
    match any_runtime s (r_id rt) with
    | Some ex =>
        if negb (r_kind ex =? r_kind rt) then CRuntimeUpdateNotAllowed  (* api.go:1249 *)
        else if negb (r_genesis ex =? r_genesis rt) then CRuntimeUpdateNotAllowed  (* api.go:1256 *)
        else if km_changed (r_km ex) (r_km rt) then CRuntimeUpdateNotAllowed  (* api.go:1261-1276 *)
        else if negb (r_gov ex =? r_gov rt) && negb ((r_gov ex =? 1) && (r_gov rt =? 2))
             then CRuntimeUpdateNotAllowed                              (* api.go:1279-1289 *)
        else if negb (deps_update_ok (s_epoch s) (r_deps ex) (r_deps rt)) then CRuntimeUpdateNotAllowed
        else if negb (active_kept (s_epoch s) (r_deps ex) (r_deps rt)) then CRuntimeUpdateNotAllowed
        else COk
    | None =>
        match active_deployment (s_epoch s) (r_deps rt) with            (* api.go:1223 no immediate deployment *)
        | Some _ => CRuntimeUpdateNotAllowed
        | None => COk
        end
    end.
  (* transactions.go:662-700: the caller must be the account that controls the
     EXISTING descriptor if there is one, else the new one *)
  Definition rt_signer_check (s : state) (caller : N) (rt : runtime) : code :=
    let chk := match any_runtime s (r_id rt) with Some ex => ex | None => rt end in
    match rt_acct chk with
    | None => CForbidden                                                (* 681 *)
    | Some a =>
        if caller =? a then COk
        else if r_gov chk =? 1 then CIncorrectTxSigner                  (* 689 *)
        else CForbidden                                                 (* 692 *)
    end.
  Definition reg_runtime_check (s : state) (caller : N) (rt : runtime) : code :=
    if (r_kind rt =? 1) && km_id (r_id rt) then CInvalidArgument          (* runtime.go:428 *)
    else if (r_kind rt =? 1) && (match r_km rt with Some k => k =? r_id rt | None => false end)
         then CInvalidArgument                                            (* runtime.go:431 self as key manager *)
    else if (r_kind rt =? 2) && (match r_km rt with Some _ => true | None => false end)
         then CInvalidArgument                                            (* runtime.go:450 *)
    else if (r_kind rt =? 2) && negb (km_id (r_id rt)) then CInvalidArgument (* runtime.go:446 *)
    else if negb ((r_kind rt =? 1) || (r_kind rt =? 2)) then CInvalidArgument (* runtime.go:459 *)
    else if negb (policy_valid rt) then CInvalidArgument                  (* runtime.go:466 *)
    else if (r_gov rt <? 1) || (3 <? r_gov rt) then CInvalidArgument      (* runtime.go:470 *)
    else if N.of_nat (length (r_deps rt)) =? 0 then CInvalidArgument      (* runtime.go:474 *)
    else if negb ((r_gov rt =? 1) || (r_gov rt =? 2)) then CForbidden     (* api.go:1149 model not enabled *)
    else if 2 <=? r_tee rt then CInvalidArgument                          (* api.go:1156 *)
    else if negb (code_is_ok (validate_deployments (s_epoch s) rt))
         then validate_deployments (s_epoch s) rt                          (* api.go:1165 *)
    else if (r_gov rt =? 2) && negb (r_kind rt =? 1) then CInvalidArgument (* api.go:1171 *)
    else if negb (code_is_ok (km_ref_check s rt)) then km_ref_check s rt  (* transactions.go:612-616 *)
    else match rt_update_check s rt with
         | COk => rt_signer_check s caller rt
         | c => c
         end.

  Definition reg_runtime_apply (s : state) (rt : runtime) : state :=
    let ex := any_runtime s (r_id rt) in
    let suspended := match aget (r_id rt) (s_rts s) with
                     | Some _ => false
                     | None => match aget (r_id rt) (s_susp s) with Some _ => true | None => false end
                     end in
    (* 716-752 stake claim on the new owner's account, removed from the previous one *)
    let s := match rt_acct rt with
             | Some a =>
                 let cl := padd (a, r_id rt) (s_rtclaims s) in
                 let cl := match ex with
                           | Some old =>
                               match rt_acct old with
                               | Some b => if b =? a then cl else pdel (b, r_id rt) cl
                               | None => cl
                               end
                           | None => cl
                           end in
                 with_rtclaims s cl
             | None => s
             end in
    (* 781 SetRuntime(rt, suspended) *)
    let s := if suspended then with_susp s (aset (r_id rt) rt (s_susp s))
             else with_rts s (aset (r_id rt) rt (s_rts s)) in
    (* 792-822 owner index *)
    match ex with
    | None => with_rtown s (padd (r_ent rt, r_id rt) (s_rtown s))
    | Some old =>
        if r_ent old =? r_ent rt then s
        else with_rtown s (padd (r_ent rt, r_id rt) (pdel (r_ent old, r_id rt) (s_rtown s)))
    end.

  (* transactions.go:389-419: a new node gets an empty status, an expired one
     keeps its status with the expiration flag reset; both become ineligible
     for election; a renewal leaves the status alone (beacon backend is not VRF) *)
  Definition reg_status (s : state) (n : node) : list (N * status) :=
    match aget (n_id n) (s_nodes s) with
    | None => aset (n_id n) (mkStatus false 0 true) (s_status s)
    | Some cur =>
        if n_exp cur <? s_epoch s then
          match aget (n_id n) (s_status s) with
          | Some st => aset (n_id n) (mkStatus false (st_freeze st) true) (s_status s)
          | None => s_status s
          end
        else s_status s
    end.

  (* unfreezeNode transactions.go:502-575 *)
  Definition unfreeze_check (s : state) (txs id : N) : code :=
    match aget id (s_nodes s) with
    | None => CNoSuchNode                                              (* 531 *)
    | Some n =>
        if negb (txs =? n_ent n) then CBadEntityForNode                (* 540 *)
        else match aget id (s_status s) with
             | None => CNoSuchNode                                     (* 545 *)
             | Some st => if s_epoch s <? st_freeze st then CNodeCannotBeUnfrozen else COk  (* 558 *)
             end
    end.

  Definition step (s : state) (o : op) : code * state :=
    match o with
    | LSetEntity e => (COk, with_ents s (aset (e_id e) e (s_ents s)))
    | LSetNode n => (COk, set_node (aget (n_id n) (s_nodes s)) n s)
    | LRemoveNode id =>
        match aget id (s_nodes s) with
        | Some n => (COk, remove_node n s)
        | None => (COk, s)
        end
    | LSetRtOwner e rt => (COk, with_rtown s (padd (e, rt) (s_rtown s)))
    | LRemoveRtOwner e rt => (COk, with_rtown s (pdel (e, rt) (s_rtown s)))
    | TRegEntity txs e ds ok =>
        match reg_entity_check txs e ds ok with
        | COk => (COk, with_ents (with_claims s (padd (e_id e, 0) (s_claims s)))
                                 (aset (e_id e) e (s_ents s)))
        | c => (c, s)
        end
    | TDeregEntity txs =>
        match dereg_entity_check s txs with
        | COk => (COk, with_ents (with_claims s (pdel (txs, 0) (s_claims s))) (adel txs (s_ents s)))
        | c => (c, s)
        end
    | TRegNode txs n signers ok =>
        match reg_node_check s txs n signers ok with
        | COk =>
            let s1 := with_claims s (padd (n_ent n, n_id n + 1) (s_claims s)) in  (* 341-362 *)
            let s2 := set_node (aget (n_id n) (s_nodes s)) n s1 in              (* 376 *)
            let s3 := with_nthr s2 (aset (n_id n) (node_kinds n) (s_nthr s)) in (* thresholds stored with the claim *)
            let s4 := with_status s3 (reg_status s n) in                        (* 389-419 *)
            (COk, fold_left resume_one (n_rts n) s4)                            (* 421-465 *)
        | c => (c, s)
        end
    | TEpoch e => (COk, epoch_change e s)
    | TRegRuntime caller rt =>
        match reg_runtime_check s caller rt with
        | COk => (COk, reg_runtime_apply s rt)
        | c => (c, s)
        end
    | LSuspendRt r =>
        match aget r (s_rts s) with                                  (* state.go:694-709 *)
        | Some rt => (COk, with_susp (with_rts s (adel r (s_rts s))) (aset r rt (s_susp s)))
        | None => (CNoSuchRuntime, s)
        end
    | TUnfreeze txs id =>
        match unfreeze_check s txs id with
        | COk =>
            match aget id (s_status s) with
            | Some st => (COk, with_status s (aset id (mkStatus (st_expired st) 0 (st_inelig st)) (s_status s)))
            | None => (COk, s)
            end
        | c => (c, s)
        end
    | LFreeze id e =>
        match aget id (s_status s) with
        | Some st => (COk, with_status s (aset id (mkStatus (st_expired st) e (st_inelig st)) (s_status s)))
        | None => (CNoSuchNode, s)
        end
    end.

  Definition run (ops : list op) (s : state) : state :=
    fold_left (fun s o => snd (step s o)) ops s.

  (* ---------- observations compared with the implementation ---------- *)
  Definition optid (o : option node) : N := match o with Some n => n_id n + 1 | None => 0 end.
  Definition node_row (n : node) : list N :=
    [n_id n; n_ent n; n_cons n; n_p2p n; n_vrf n; n_tls n; n_exp n; n_roles n] ++ n_rts n.
  Definition DANGLING : N := 999999.
  (* GetEntityNodes state.go:405-445: ids of the by-entity entries, each must resolve *)
  Definition entity_nodes_row (s : state) (e : N) : list N :=
    let ids := nsort (map snd (filter (fun p => fst p =? e) (s_byent s))) in
    if forallb (fun id => match aget id (s_nodes s) with Some _ => true | None => false end) ids
    then e :: ids else [e; DANGLING].
  Definition entity_row (s : state) (e : N) : list N :=
    match aget e (s_ents s) with
    | Some ent => e :: 1 :: e_nodes ent
    | None => [e; 0]
    end.
  (* claims of an account, each as [code; number of thresholds; kinds...]:
     entity/node claims (codes 0, id+1) then runtime claims (1000 + r) *)
  Definition rt_claims_part (s : state) (a : N) : list N :=
    flat_map (fun r => [1000 + r; 1;
                        match any_runtime s r with
                        | Some rt => if r_kind rt =? 1 then 5 else 6
                        | None => 77
                        end])
             (nsort (map snd (filter (fun p => fst p =? a) (s_rtclaims s)))).
  Definition claims_row (s : state) (e : N) : list N :=
    e :: flat_map (fun c => if c =? 0 then [0; 1; 0]
                            else match aget (c - 1) (s_nthr s) with
                                 | Some ks => c :: N.of_nat (length ks) :: ks
                                 | None => [c; 77]
                                 end)
                  (nsort (map snd (filter (fun p => fst p =? e) (s_claims s))))
      ++ rt_claims_part s (2 * e).
  Definition rt_acct_row (s : state) (r : N) : list N := (2000 + r) :: rt_claims_part s (2 * r + 1).
  Definition runtime_row (s : state) (r : N) : list N :=
    let row st rt := [r; st; r_ent rt; r_kind rt; r_gov rt; match r_km rt with Some k => k | None => 0 end;
                      r_genesis rt; r_tee rt] ++
                     flat_map (fun d => [d_ver d; d_from d; d_tee d]) (r_deps rt) ++ [7777] ++
                     match r_wl rt with
                     | Some l => 1 :: flat_map (fun e => fst e :: N.of_nat (length (snd e)) ::
                                                         flat_map (fun p => [fst p; snd p]) (snd e)) l
                     | None => [0]
                     end ++ [7777] ++
                     flat_map (fun p => fst p :: N.of_nat (length (snd p)) ::
                                        flat_map (fun q => [fst q; snd q]) (snd p)) (r_pr rt) in
    match aget r (s_rts s) with
    | Some rt => row 1 rt
    | None => match aget r (s_susp s) with Some rt => row 2 rt | None => [r; 0] end
    end.
  Definition b2n (b : bool) : N := if b then 1 else 0.

  Definition observe (keys ents : list N) (s : state) : list (list N) :=
    flat_map (fun id => match aget id (s_nodes s) with Some n => [node_row n] | None => [] end) (sorted_ids s) ++
    [map (fun k => optid (node_by_subkey s k)) keys] ++
    [map (fun k => optid (node_by_addr s (addr k))) keys] ++
    map (entity_nodes_row s) ents ++
    map (entity_row s) ents ++
    [map (fun e => b2n (has_entity_nodes s e)) ents] ++
    [map (fun e => b2n (has_entity_runtimes s e)) ents] ++
    map (claims_row s) ents ++
    map (runtime_row s) [1; 2; 3; 4] ++
    map (rt_acct_row s) [1; 2; 3; 4] ++
    [flat_map (fun k => match aget k (s_status s) with
                        | Some st => [k; b2n (st_expired st); st_freeze st; b2n (st_inelig st)]
                        | None => []
                        end) keys].

  Fixpoint run_obs (keys ents : list N) (ops : list op) (s : state) : list (code * list (list N)) :=
    match ops with
    | [] => []
    | o :: r =>
        let (c, s') := step s o in
        (c, observe keys ents s') :: run_obs keys ents r s'
    end.
End WithParams.

Definition code_n (c : code) : N :=
  match c with
  | COk => 0 | CInvalidSignature => 1 | CInvalidArgument => 2 | CIncorrectTxSigner => 3
  | CNoSuchEntity => 4 | CNodeExpired => 5 | CNodeUpdateNotAllowed => 6
  | CEntityHasNodes => 7 | CEntityHasRuntimes => 8 | COther => 9
  | CForbidden => 10 | CRuntimeUpdateNotAllowed => 11 | CNoSuchRuntime => 12
  | CNoSuchNode => 13 | CBadEntityForNode => 14 | CNodeCannotBeUnfrozen => 15 | CNoEnclave => 16
  end.
Definition obs_eqb (a b : code * list (list N)) : bool :=
  (code_n (fst a) =? code_n (fst b)) && list_eqb (list_eqb N.eqb) (snd a) (snd b).

(* A correspondence case: ((maxexp, debond), (key pool, entity pool), ops).
   The harness numbers keys so that the address of key k is reported as k. *)
Definition case_input : Type := (N * N) * (list N * list N) * list op.
Definition run_case (c : case_input) : list (code * list (list N)) :=
  let '((maxexp, debond), (keys, ents), ops) := c in
  run_obs (fun k => k) false maxexp debond keys ents ops st0.
Definition run_case_fixed (c : case_input) : list (code * list (list N)) :=
  let '((maxexp, debond), (keys, ents), ops) := c in
  run_obs (fun k => k) true maxexp debond keys ents ops st0.
(* which SetNode order the current source has is read from the source (Gen/RegistryConsts.v) *)
Definition run_case_b (fixed : bool) (c : case_input) : list (code * list (list N)) :=
  if fixed then run_case_fixed c else run_case c.
