(* Executable model of the registry state layer and of the checks that guard
   entity / node registration (property C17).

   Ported from (oasis-core, /repo/go):
     consensus/cometbft/apps/registry/state/state.go   SetNode 551-620, RemoveNode 622-652,
                                                       SetEntity/RemoveEntity 520-548, NodeBySubKey 497-512,
                                                       GetEntityNodes 405-445, HasEntityNodes/Runtimes 447-480
     registry/api/api.go                               VerifyRegisterEntityArgs 432-488,
                                                       VerifyRegisterNodeArgs 493-803, VerifyNodeUpdate 1044-1105
     consensus/cometbft/apps/registry/transactions.go  registerEntity 21-102, deregisterEntity 104-185,
                                                       registerNode 187-470
     consensus/cometbft/apps/registry/registry.go      onRegistryEpochChanged 171-263
     common/crypto/signature/signature.go              MultiSigned.IsSignedBy / IsOnlySignedBy 510-548

   Public keys are numbers (the harness numbers its key pool in byte order, so
   numeric order = the order of registry.SortNodeList).  Signatures are
   abstract: a descriptor comes with the list of keys whose (valid) signatures
   it carries and a flag saying whether every carried signature verifies.
   The consensus address (truncated SHA-256 of the key) is a parameter [addr].
   No proofs in this file. *)
From Verif Require Import Lib.Base.

Record node := mkNode {
  n_id : N; n_ent : N; n_cons : N; n_p2p : N; n_vrf : N; n_tls : N; n_exp : N }.
Record entity := mkEnt { e_id : N; e_nodes : list N }.

(* ---------- finite sets of pairs (index entries with empty value) ---------- *)
Definition pair_eqb (a b : N * N) : bool := (fst a =? fst b) && (snd a =? snd b).
Fixpoint pmem (p : N * N) (l : list (N * N)) : bool :=
  match l with [] => false | q :: r => pair_eqb q p || pmem p r end.
Definition padd (p : N * N) (l : list (N * N)) : list (N * N) :=
  if pmem p l then l else p :: l.
Fixpoint pdel (p : N * N) (l : list (N * N)) : list (N * N) :=
  match l with
  | [] => []
  | q :: r => if pair_eqb q p then pdel p r else q :: pdel p r
  end.

Fixpoint nmem (x : N) (l : list N) : bool :=
  match l with [] => false | y :: r => (y =? x) || nmem x r end.
Fixpoint ndedup (l : list N) : list N :=
  match l with [] => [] | x :: r => if nmem x r then ndedup r else x :: ndedup r end.
Fixpoint has_dup (l : list N) : bool :=
  match l with [] => false | x :: r => nmem x r || has_dup r end.

(* ---------- state ---------- *)
Record state := mkSt {
  s_ents   : list (N * entity);   (* 0x10 signed entities, by id *)
  s_nodes  : list (N * node);     (* 0x11 signed nodes, by id *)
  s_byent  : list (N * N);        (* 0x12 (entity id, node id) *)
  s_addr   : list (N * N);        (* 0x14 consensus address -> node id *)
  s_keymap : list (N * N);        (* 0x17 sub-key -> node id *)
  s_rtown  : list (N * N);        (* 0x19 (entity id, runtime id) *)
  s_claims : list (N * N);        (* staking: (entity account, claim): 0 = registry.RegisterEntity,
                                     id+1 = registry.RegisterNode.<id> *)
  s_epoch  : N }.

Definition st0 : state := mkSt [] [] [] [] [] [] [] 0.

Definition with_nodes s v := mkSt (s_ents s) v (s_byent s) (s_addr s) (s_keymap s) (s_rtown s) (s_claims s) (s_epoch s).
Definition with_ents s v := mkSt v (s_nodes s) (s_byent s) (s_addr s) (s_keymap s) (s_rtown s) (s_claims s) (s_epoch s).
Definition with_byent s v := mkSt (s_ents s) (s_nodes s) v (s_addr s) (s_keymap s) (s_rtown s) (s_claims s) (s_epoch s).
Definition with_addr s v := mkSt (s_ents s) (s_nodes s) (s_byent s) v (s_keymap s) (s_rtown s) (s_claims s) (s_epoch s).
Definition with_keymap s v := mkSt (s_ents s) (s_nodes s) (s_byent s) (s_addr s) v (s_rtown s) (s_claims s) (s_epoch s).
Definition with_rtown s v := mkSt (s_ents s) (s_nodes s) (s_byent s) (s_addr s) (s_keymap s) v (s_claims s) (s_epoch s).
Definition with_claims s v := mkSt (s_ents s) (s_nodes s) (s_byent s) (s_addr s) (s_keymap s) (s_rtown s) v (s_epoch s).
Definition with_epoch s v := mkSt (s_ents s) (s_nodes s) (s_byent s) (s_addr s) (s_keymap s) (s_rtown s) (s_claims s) v.

(* ---------- index updates as explicit operation lists ---------- *)
Inductive kop := KDel (k : N) | KSet (k v : N).
Definition kapply (m : list (N * N)) (o : kop) : list (N * N) :=
  match o with KDel k => adel k m | KSet k v => aset k v m end.
Definition kapply_all (ops : list kop) (m : list (N * N)) : list (N * N) := fold_left kapply ops m.

(* "if existingNode != nil && !existing.K.Equal(node.K) { Remove(existing.K) }" *)
Definition del_if_changed (old : option N) (new : N) : list kop :=
  match old with
  | Some o => if o =? new then [] else [KDel o]
  | None => []
  end.

(* state.go:566-617, in the code's order: for each key kind in turn
   (consensus, P2P, VRF, TLS) remove the old entry if the key changed, then
   insert the new one. *)
Definition keymap_ops (ex : option node) (n : node) : list kop :=
  del_if_changed (option_map n_cons ex) (n_cons n) ++ [KSet (n_cons n) (n_id n)] ++
  del_if_changed (option_map n_p2p ex) (n_p2p n) ++ [KSet (n_p2p n) (n_id n)] ++
  del_if_changed (option_map n_vrf ex) (n_vrf n) ++ [KSet (n_vrf n) (n_id n)] ++
  del_if_changed (option_map n_tls ex) (n_tls n) ++ [KSet (n_tls n) (n_id n)].

(* the reordered variant: all removals first, then all insertions *)
Definition keymap_ops_fixed (ex : option node) (n : node) : list kop :=
  del_if_changed (option_map n_cons ex) (n_cons n) ++
  del_if_changed (option_map n_p2p ex) (n_p2p n) ++
  del_if_changed (option_map n_vrf ex) (n_vrf n) ++
  del_if_changed (option_map n_tls ex) (n_tls n) ++
  [KSet (n_cons n) (n_id n); KSet (n_p2p n) (n_id n); KSet (n_vrf n) (n_id n); KSet (n_tls n) (n_id n)].

(* state.go:568-580: the address entry is removed when the consensus KEY changed *)
Definition addr_ops (addr : N -> N) (ex : option node) (n : node) : list kop :=
  match ex with
  | Some o => if n_cons o =? n_cons n then [] else [KDel (addr (n_cons o))]
  | None => []
  end ++ [KSet (addr (n_cons n)) (n_id n)].

(* ---------- result codes (errors projected to a small enum) ---------- *)
Inductive code :=
| COk | CInvalidSignature | CInvalidArgument | CIncorrectTxSigner | CNoSuchEntity
| CNodeExpired | CNodeUpdateNotAllowed | CEntityHasNodes | CEntityHasRuntimes | COther.

(* ---------- operations ---------- *)
Inductive op :=
(* layer A: the state layer called directly; SetNode gets existing := the
   current record of that id and RemoveNode the current record, as the
   callers in transactions.go:376 and registry.go:245 do *)
| LSetEntity (e : entity)
| LSetNode (n : node)
| LRemoveNode (id : N)
| LSetRtOwner (e rt : N)
| LRemoveRtOwner (e rt : N)
(* layer B: transactions; [txs] = transaction signer *)
| TRegEntity (txs : N) (e : entity) (dsigner : N) (sig_ok : bool)
| TDeregEntity (txs : N)
| TRegNode (txs : N) (n : node) (dsigners : list N) (sig_ok : bool)
| TEpoch (e : N).

Section WithParams.
  Variable addr : N -> N.
  Variable fixed : bool.       (* false: the code's SetNode; true: the reordered one *)
  Variable maxexp : N.         (* registry params.MaxNodeExpiration (> 0 in the harness) *)
  Variable debond : N.         (* staking params.DebondingInterval *)

  (* SetNode, state.go:551-620 *)
  Definition set_node (ex : option node) (n : node) (s : state) : state :=
    let s := with_nodes s (aset (n_id n) n (s_nodes s)) in
    let s := with_byent s (padd (n_ent n, n_id n) (s_byent s)) in
    let s := with_addr s (kapply_all (addr_ops addr ex n) (s_addr s)) in
    with_keymap s (kapply_all ((if fixed then keymap_ops_fixed else keymap_ops) ex n) (s_keymap s)).

  (* RemoveNode, state.go:622-652 (order: consensus, P2P, TLS, VRF) *)
  Definition remove_node (n : node) (s : state) : state :=
    let s := with_nodes s (adel (n_id n) (s_nodes s)) in
    let s := with_byent s (pdel (n_ent n, n_id n) (s_byent s)) in
    let s := with_addr s (adel (addr (n_cons n)) (s_addr s)) in
    with_keymap s (kapply_all [KDel (n_cons n); KDel (n_p2p n); KDel (n_tls n); KDel (n_vrf n)] (s_keymap s)).

  (* NodeBySubKey, state.go:497-512: key map lookup, then the node record *)
  Definition node_by_subkey (s : state) (k : N) : option node :=
    match aget k (s_keymap s) with
    | Some id => aget id (s_nodes s)
    | None => None
    end.
  Definition node_by_addr (s : state) (a : N) : option node :=
    match aget a (s_addr s) with
    | Some id => aget id (s_nodes s)
    | None => None
    end.

  Fixpoint has_fst (e : N) (l : list (N * N)) : bool :=
    match l with [] => false | (a, _) :: r => (a =? e) || has_fst e r end.
  Definition has_entity_nodes (s : state) (e : N) : bool := has_fst e (s_byent s).
  Definition has_entity_runtimes (s : state) (e : N) : bool := has_fst e (s_rtown s).

  (* VerifyRegisterEntityArgs api.go:432-488 + registerEntity transactions.go:21-102 *)
  Definition reg_entity_check (txs : N) (e : entity) (dsigner : N) (sig_ok : bool) : code :=
    if negb sig_ok then CInvalidSignature                      (* api.go:446 Open *)
    else if negb (dsigner =? e_id e) then CInvalidArgument     (* api.go:452 SanityCheck(ent.ID) *)
    else if has_dup (e_nodes e) then CInvalidArgument          (* api.go:470-484 *)
    else if negb (dsigner =? txs) then CIncorrectTxSigner      (* transactions.go:58 *)
    else COk.

  Definition is_signed_by (signers : list N) (k : N) : bool := nmem k signers.
  (* IsOnlySignedBy signature.go:529-548: the set of signing keys has exactly
     len(pks) elements and contains every pk *)
  Definition is_only_signed_by (signers : list N) (pks : list N) : bool :=
    (N.of_nat (length (ndedup signers)) =? N.of_nat (length pks)) &&
    forallb (is_signed_by signers) pks.

  Definition dup_subkey (s : state) (n : node) (k : N) : bool :=
    match node_by_subkey s k with
    | Some ex => negb (n_id ex =? n_id n)
    | None => false
    end.

  (* VerifyRegisterNodeArgs api.go:493-803 (node without runtimes, well-formed
     addresses/roles/version; isGenesis = isSanityCheck = false) *)
  Definition verify_register_node_args (s : state) (ent : entity) (n : node)
             (signers : list N) (sig_ok : bool) : code :=
    if negb sig_ok then CInvalidSignature                              (* 521 *)
    else if negb (is_signed_by signers (n_id n)) then CInvalidArgument (* 546 *)
    else if negb (nmem (n_id n) (e_nodes ent)) then CInvalidArgument   (* 554 entity.HasNode *)
    else if (0 <? maxexp) && (s_epoch s + maxexp <? n_exp n) then CInvalidArgument (* 567-575 *)
    else if negb (is_signed_by signers (n_cons n)) then CInvalidArgument (* 657 *)
    else if negb (is_signed_by signers (n_vrf n)) then CInvalidArgument  (* 683 *)
    else if negb (is_signed_by signers (n_tls n)) then CInvalidArgument  (* 700 *)
    else if negb (is_signed_by signers (n_p2p n)) then CInvalidArgument  (* 716 *)
    else if dup_subkey s n (n_cons n) || dup_subkey s n (n_p2p n) ||
            dup_subkey s n (n_tls n) || dup_subkey s n (n_vrf n) then CInvalidArgument (* 763-782 *)
    else if has_dup [n_cons n; n_p2p n; n_tls n; n_vrf n] then CInvalidArgument (* 785 *)
    else if negb (is_only_signed_by signers [n_id n; n_cons n; n_vrf n; n_tls n; n_p2p n])
         then CInvalidArgument                                         (* 793 *)
    else COk.

  (* VerifyNodeUpdate api.go:1044-1105, in the code's order: node id, entity
     id and consensus id must not change (1054-1075); only then the early
     return for an expired current record (1078), after which come the checks
     for active nodes (runtimes, roles: constant in this model). *)
  Definition verify_node_update (epoch : N) (cur n : node) : code :=
    if negb (n_id cur =? n_id n) then CNodeUpdateNotAllowed           (* 1054 *)
    else if negb (n_ent cur =? n_ent n) then CNodeUpdateNotAllowed    (* 1061 *)
    else if negb (n_cons cur =? n_cons n) then CNodeUpdateNotAllowed  (* 1069 *)
    else if n_exp cur <? epoch then COk                               (* 1078 IsExpired *)
    else COk.                                                         (* 1082-1102 *)

  (* registerNode transactions.go:187-470: every check in order; COk iff the
     descriptor is stored *)
  Definition reg_node_check (s : state) (txs : N) (n : node) (signers : list N) (sig_ok : bool) : code :=
    match aget (n_ent n) (s_ents s) with
    | None => CNoSuchEntity                                            (* 206 state.Entity *)
    | Some ent =>
        match verify_register_node_args s ent n signers sig_ok with
        | COk =>
            if negb (txs =? n_id n) then CIncorrectTxSigner            (* 259 *)
            else if n_exp n <=? s_epoch s then CNodeExpired            (* 278 *)
            else match aget (n_id n) (s_nodes s) with
                 | Some cur => verify_node_update (s_epoch s) cur n    (* 366 *)
                 | None => COk
                 end
        | c => c
        end
    end.

  Definition dereg_entity_check (s : state) (txs : N) : code :=
    if has_entity_nodes s txs then CEntityHasNodes                     (* 123-135 *)
    else if has_entity_runtimes s txs then CEntityHasRuntimes          (* 140-151 *)
    else match aget txs (s_ents s) with
         | None => CNoSuchEntity                                       (* 153-157 *)
         | Some _ => COk
         end.

  (* onRegistryEpochChanged registry.go:171-263: nodes in id order; a node
     expired for longer than the debonding interval is removed together with
     its stake claim.  (The 2^64 overflow guard of line 236 is outside the
     range of the modelled epochs.) *)
  Definition sorted_ids (s : state) : list N := nsort (map fst (s_nodes s)).

  (* The loop body looks the record up again by id: in a key-value store ids
     are unique, so this is the snapshot record unless an earlier iteration
     removed it. *)
  Definition epoch_one (e : N) (s : state) (id : N) : state :=
    match aget id (s_nodes s) with
    | Some n =>
        if (n_exp n <? e) && (n_exp n + debond <? e) then    (* registry.go:214, 240 *)
          let s := remove_node n s in
          with_claims s (pdel (n_ent n, n_id n + 1) (s_claims s))   (* registry.go:250 *)
        else s
    | None => s
    end.
  Definition epoch_change (e : N) (s : state) : state :=
    fold_left (epoch_one e) (sorted_ids s) (with_epoch s e).

  Definition step (s : state) (o : op) : code * state :=
    match o with
    | LSetEntity e => (COk, with_ents s (aset (e_id e) e (s_ents s)))
    | LSetNode n => (COk, set_node (aget (n_id n) (s_nodes s)) n s)
    | LRemoveNode id =>
        match aget id (s_nodes s) with
        | Some n => (COk, remove_node n s)
        | None => (COk, s)
        end
    | LSetRtOwner e rt => (COk, with_rtown s (padd (e, rt) (s_rtown s)))
    | LRemoveRtOwner e rt => (COk, with_rtown s (pdel (e, rt) (s_rtown s)))
    | TRegEntity txs e ds ok =>
        match reg_entity_check txs e ds ok with
        | COk => (COk, with_ents (with_claims s (padd (e_id e, 0) (s_claims s)))
                                 (aset (e_id e) e (s_ents s)))
        | c => (c, s)
        end
    | TDeregEntity txs =>
        match dereg_entity_check s txs with
        | COk => (COk, with_ents (with_claims s (pdel (txs, 0) (s_claims s))) (adel txs (s_ents s)))
        | c => (c, s)
        end
    | TRegNode txs n signers ok =>
        match reg_node_check s txs n signers ok with
        | COk =>
            let s1 := with_claims s (padd (n_ent n, n_id n + 1) (s_claims s)) in
            (COk, set_node (aget (n_id n) (s_nodes s)) n s1)
        | c => (c, s)
        end
    | TEpoch e => (COk, epoch_change e s)
    end.

  Definition run (ops : list op) (s : state) : state :=
    fold_left (fun s o => snd (step s o)) ops s.

  (* ---------- observations compared with the implementation ---------- *)
  Definition optid (o : option node) : N := match o with Some n => n_id n + 1 | None => 0 end.
  Definition node_row (n : node) : list N :=
    [n_id n; n_ent n; n_cons n; n_p2p n; n_vrf n; n_tls n; n_exp n].
  Definition DANGLING : N := 999999.
  (* GetEntityNodes state.go:405-445: ids of the by-entity entries, each must resolve *)
  Definition entity_nodes_row (s : state) (e : N) : list N :=
    let ids := nsort (map snd (filter (fun p => fst p =? e) (s_byent s))) in
    if forallb (fun id => match aget id (s_nodes s) with Some _ => true | None => false end) ids
    then e :: ids else [e; DANGLING].
  Definition entity_row (s : state) (e : N) : list N :=
    match aget e (s_ents s) with
    | Some ent => e :: 1 :: e_nodes ent
    | None => [e; 0]
    end.
  Definition claims_row (s : state) (e : N) : list N :=
    e :: nsort (map snd (filter (fun p => fst p =? e) (s_claims s))).
  Definition b2n (b : bool) : N := if b then 1 else 0.

  Definition observe (keys ents : list N) (s : state) : list (list N) :=
    flat_map (fun id => match aget id (s_nodes s) with Some n => [node_row n] | None => [] end) (sorted_ids s) ++
    [map (fun k => optid (node_by_subkey s k)) keys] ++
    [map (fun k => optid (node_by_addr s (addr k))) keys] ++
    map (entity_nodes_row s) ents ++
    map (entity_row s) ents ++
    [map (fun e => b2n (has_entity_nodes s e)) ents] ++
    [map (fun e => b2n (has_entity_runtimes s e)) ents] ++
    map (claims_row s) ents.

  Fixpoint run_obs (keys ents : list N) (ops : list op) (s : state) : list (code * list (list N)) :=
    match ops with
    | [] => []
    | o :: r =>
        let (c, s') := step s o in
        (c, observe keys ents s') :: run_obs keys ents r s'
    end.
End WithParams.

Definition code_n (c : code) : N :=
  match c with
  | COk => 0 | CInvalidSignature => 1 | CInvalidArgument => 2 | CIncorrectTxSigner => 3
  | CNoSuchEntity => 4 | CNodeExpired => 5 | CNodeUpdateNotAllowed => 6
  | CEntityHasNodes => 7 | CEntityHasRuntimes => 8 | COther => 9
  end.
Definition obs_eqb (a b : code * list (list N)) : bool :=
  (code_n (fst a) =? code_n (fst b)) && list_eqb (list_eqb N.eqb) (snd a) (snd b).

(* A correspondence case: ((maxexp, debond), (key pool, entity pool), ops).
   The harness numbers keys so that the address of key k is reported as k. *)
Definition case_input : Type := (N * N) * (list N * list N) * list op.
Definition run_case (c : case_input) : list (code * list (list N)) :=
  let '((maxexp, debond), (keys, ents), ops) := c in
  run_obs (fun k => k) false maxexp debond keys ents ops st0.
Definition run_case_fixed (c : case_input) : list (code * list (list N)) :=
  let '((maxexp, debond), (keys, ents), ops) := c in
  run_obs (fun k => k) true maxexp debond keys ents ops st0.
(* which SetNode order the current source has is read from the source (Gen/RegistryConsts.v) *)
Definition run_case_b (fixed : bool) (c : case_input) : list (code * list (list N)) :=
  if fixed then run_case_fixed c else run_case c.
