(* Proofs about Verif.Registry.Model (property C17): authority, index
   consistency (refuted for the code's SetNode order on key exchanges, proved
   without exchanges and for the reordered SetNode), entity removal, claims. *)
From Verif Require Import Lib.Base Registry.Model Registry.Lemmas.

Ltac split_in H a b :=
  revert H; rewrite ?aget_aset_gen, ?aget_adel_gen;
  destruct (N.eqb_spec a b) as [?E|?Hne]; intros H.

(* ---------- component invariants ---------- *)
Definition IDS (nodes : list (N * node)) : Prop :=
  forall id n, aget id nodes = Some n -> n_id n = id.
Definition KM_ok (nodes : list (N * node)) (km : list (N * N)) : Prop :=
  forall k id, aget k km = Some id <-> exists n, aget id nodes = Some n /\ In k (keys n).
Definition BE_ok (nodes : list (N * node)) (be : list (N * N)) : Prop :=
  forall e id, pmem (e, id) be = true <-> exists n, aget id nodes = Some n /\ n_ent n = e.

Lemma km_set nodes km n ops :
  IDS nodes -> KM_ok nodes km ->
  (forall k d, klookup k ops d =
               if nmem k (keys n) then Some (n_id n)
               else if nmem k (okeys (aget (n_id n) nodes)) then None else d) ->
  (forall k id' m, In k (keys n) -> aget k km = Some id' -> aget id' nodes = Some m -> n_id m = n_id n) ->
  KM_ok (aset (n_id n) n nodes) (kapply_all ops km).
Proof.
  intros Hids Hkm Hops Hguard k id'. rewrite aget_kapply_all, Hops.
  destruct (nmem k (keys n)) eqn:Ek.
  - apply nmem_In in Ek. split.
    + intros [= <-]. exists n. rewrite aget_aset_same. auto.
    + intros [m [Hm Hk]]. split_in Hm (n_id n) id'; [congruence|].
      exfalso. assert (Hg : aget k km = Some id') by (apply Hkm; eauto).
      pose proof (Hguard _ _ _ Ek Hg Hm) as H1. pose proof (Hids _ _ Hm) as H2. congruence.
  - destruct (nmem k (okeys (aget (n_id n) nodes))) eqn:Eo.
    + split; [discriminate|]. intros [m [Hm Hk]]. split_in Hm (n_id n) id'.
      * injection Hm as <-. apply nmem_In in Hk. congruence.
      * exfalso. destruct (aget (n_id n) nodes) as [old|] eqn:Eold; [|discriminate].
        cbn [okeys] in Eo. apply nmem_In in Eo.
        assert (H1 : aget k km = Some (n_id n)) by (apply Hkm; eauto).
        assert (H2 : aget k km = Some id') by (apply Hkm; eauto). congruence.
    + split.
      * intros Hk. apply Hkm in Hk as [m [Hm Hkm']]. exists m. split; [|exact Hkm'].
        rewrite aget_aset_gen. destruct (N.eqb_spec (n_id n) id') as [E|Hne]; [|exact Hm].
        exfalso. rewrite E, Hm in Eo. cbn [okeys] in Eo. apply nmem_In in Hkm'. congruence.
      * intros [m [Hm Hk]]. split_in Hm (n_id n) id'.
        -- injection Hm as <-. apply nmem_In in Hk. congruence.
        -- apply Hkm. eauto.
Qed.

Lemma km_remove nodes km n id :
  IDS nodes -> KM_ok nodes km -> aget id nodes = Some n ->
  KM_ok (adel id nodes) (kapply_all [KDel (n_cons n); KDel (n_p2p n); KDel (n_tls n); KDel (n_vrf n)] km).
Proof.
  intros Hids Hkm Hn k id'. rewrite aget_kapply_all.
  assert (Hl : forall d, klookup k [KDel (n_cons n); KDel (n_p2p n); KDel (n_tls n); KDel (n_vrf n)] d
                         = if nmem k (keys n) then None else d).
  { intros d. unfold keys. cbn [klookup nmem]. eqb_split; reflexivity. }
  rewrite Hl. destruct (nmem k (keys n)) eqn:Ek.
  - split; [discriminate|]. intros [m [Hm Hk]]. split_in Hm id id'; [discriminate|]. exfalso.
    apply nmem_In in Ek.
    assert (H1 : aget k km = Some id) by (apply Hkm; eauto).
    assert (H2 : aget k km = Some id') by (apply Hkm; eauto). congruence.
  - split.
    + intros Hk. apply Hkm in Hk as [m [Hm Hk]]. exists m. split; [|exact Hk].
      rewrite aget_adel_gen. destruct (N.eqb_spec id id') as [E|Hne]; [|exact Hm].
      exfalso. rewrite <- E, Hn in Hm. injection Hm as <-. apply nmem_In in Hk. congruence.
    + intros [m [Hm Hk]]. split_in Hm id id'; [discriminate|]. apply Hkm. eauto.
Qed.

Lemma be_set nodes be n :
  BE_ok nodes be ->
  (forall old, aget (n_id n) nodes = Some old -> n_ent old = n_ent n) ->
  BE_ok (aset (n_id n) n nodes) (padd (n_ent n, n_id n) be).
Proof.
  intros Hbe Hold e id'. rewrite pmem_padd. split.
  - intros [H|H].
    + injection H as -> ->. exists n. rewrite aget_aset_same. auto.
    + apply Hbe in H as [m [Hm He]]. rewrite aget_aset_gen.
      destruct (N.eqb_spec (n_id n) id') as [E|Hne].
      * exists n. split; [reflexivity|]. rewrite <- E in Hm. rewrite <- (Hold _ Hm). exact He.
      * exists m. auto.
  - intros [m [Hm He]]. split_in Hm (n_id n) id'.
    + injection Hm as <-. left. congruence.
    + right. apply Hbe. eauto.
Qed.

Lemma be_remove nodes be n id :
  IDS nodes -> BE_ok nodes be -> aget id nodes = Some n ->
  BE_ok (adel id nodes) (pdel (n_ent n, n_id n) be).
Proof.
  intros Hids Hbe Hn e id'. rewrite pmem_pdel. pose proof (Hids _ _ Hn) as Hid. split.
  - intros [Hne H]. apply Hbe in H as [m [Hm He]]. exists m. split; [|exact He].
    rewrite aget_adel_gen. destruct (N.eqb_spec id id') as [E|Hne']; [|exact Hm].
    exfalso. apply Hne. rewrite <- E, Hn in Hm. injection Hm as <-. congruence.
  - intros [m [Hm He]]. split_in Hm id id'; [discriminate|]. split.
    + intros H. injection H as _ H. congruence.
    + apply Hbe. eauto.
Qed.

Lemma ids_set nodes n : IDS nodes -> IDS (aset (n_id n) n nodes).
Proof.
  intros H id m Hm. split_in Hm (n_id n) id; [congruence|]. apply H. exact Hm.
Qed.
Lemma ids_del nodes id : IDS nodes -> IDS (adel id nodes).
Proof.
  intros H id' m Hm. split_in Hm id id'; [discriminate|]. apply H. exact Hm.
Qed.

(* ---------- the state invariant and the operations ---------- *)
Definition Inv_index (s : state) : Prop :=
  IDS (s_nodes s) /\ KM_ok (s_nodes s) (s_keymap s) /\ BE_ok (s_nodes s) (s_byent s).

(* operations of the transaction layer, plus the one input of the environment:
   the roothash application suspending a runtime *)
Definition tx_op (o : op) : bool :=
  match o with
  | TRegEntity _ _ _ _ | TDeregEntity _ | TRegNode _ _ _ _ | TEpoch _
  | TRegRuntime _ _ | LSuspendRt _ | TUnfreeze _ _ | LFreeze _ _ => true
  | LSetEntity _ | LSetNode _ | LRemoveNode _ | LSetRtOwner _ _ | LRemoveRtOwner _ _ => false
  end.

(* everything except the two runtime tables / except everything runtime related *)
Definition core (s : state) :=
  (s_ents s, s_nodes s, s_byent s, s_addr s, s_keymap s, s_rtown s, s_claims s, s_epoch s, s_rtclaims s, s_nthr s, s_status s).
Definition ncore (s : state) :=
  (s_ents s, s_nodes s, s_byent s, s_addr s, s_keymap s, s_claims s, s_epoch s, s_nthr s, s_status s).
(* everything except the status table *)
Definition xcore (s : state) :=
  (s_ents s, s_nodes s, s_byent s, s_addr s, s_keymap s, s_rtown s, s_claims s, s_rtclaims s, s_nthr s, s_rts s, s_susp s).

Lemma resume_one_core s r : core (resume_one s r) = core s.
Proof. unfold resume_one. destruct (aget r (s_susp s)); reflexivity. Qed.
Lemma resume_fold_core l : forall s, core (fold_left resume_one l s) = core s.
Proof.
  induction l as [|r l IH]; intros s; [reflexivity|]. cbn [fold_left]. rewrite IH. apply resume_one_core.
Qed.
Lemma rt_apply_ncore s rt : ncore (reg_runtime_apply s rt) = ncore s.
Proof.
  unfold reg_runtime_apply.
  destruct (rt_acct rt); destruct (any_runtime s (r_id rt)) as [old|];
    destruct (aget (r_id rt) (s_rts s)); destruct (aget (r_id rt) (s_susp s));
    try destruct (r_ent old =? r_ent rt); reflexivity.
Qed.
Ltac use_core l s :=
  let H := fresh "HC" in
  pose proof (resume_fold_core l s) as H; unfold core in H;
  injection H as ?HCents ?HCnodes ?HCbyent ?HCaddr ?HCkeymap ?HCrtown ?HCclaims ?HCepoch ?HCrtclaims ?HCnthr ?HCstatus.
Lemma mark_one_xcore e s id : xcore (mark_one e s id) = xcore s.
Proof.
  unfold mark_one. destruct (aget id (s_nodes s)) as [n|]; [|reflexivity].
  destruct (aget id (s_status s)); [|reflexivity]. destruct (n_exp n <? e); reflexivity.
Qed.
Lemma mark_fold_xcore e l : forall s, xcore (fold_left (mark_one e) l s) = xcore s.
Proof.
  induction l as [|r l IH]; intros s; [reflexivity|]. cbn [fold_left]. rewrite IH. apply mark_one_xcore.
Qed.
Ltac use_mark e l s :=
  let H := fresh "HM" in
  pose proof (mark_fold_xcore e l s) as H; unfold xcore in H;
  injection H as ?HMents ?HMnodes ?HMbyent ?HMaddr ?HMkeymap ?HMrtown ?HMclaims ?HMrtclaims ?HMnthr ?HMrts ?HMsusp.
(* the two status operations leave everything but the status table alone *)
Ltac status_ops H :=
  first [ match goal with |- context [unfreeze_check ?s ?t ?i] =>
            destruct (unfreeze_check s t i); try exact H; destruct (aget i (s_status s)); exact H end
        | match goal with |- context [aget ?i (s_status ?s)] => destruct (aget i (s_status s)); exact H end ].
Ltac use_ncore s rt :=
  let H := fresh "HN" in
  pose proof (rt_apply_ncore s rt) as H; unfold ncore in H;
  injection H as ?HNents ?HNnodes ?HNbyent ?HNaddr ?HNkeymap ?HNclaims ?HNepoch ?HNnthr ?HNstatus.

Definition no_exchange (s : state) (o : op) : Prop :=
  match o with
  | TRegNode _ n _ _ => forall old, aget (n_id n) (s_nodes s) = Some old -> exchange old n = false
  | _ => True
  end.

Ltac if_ok H :=
  repeat match type of H with
         | (if ?c then _ else _) = COk =>
             let E := fresh "E" in
             destruct c eqn:E;
             [first [discriminate H | exfalso; rewrite H in E; cbn in E; discriminate E]|]
         end.

Lemma has_dup_keys n :
  has_dup [n_cons n; n_p2p n; n_tls n; n_vrf n] = false -> has_dup (keys n) = false.
Proof.
  unfold keys. destruct n as [id ent c p v t e ro rs]; cbn [n_cons n_p2p n_vrf n_tls has_dup nmem].
  intros H. eqb_split; try reflexivity; try discriminate; try congruence.
Qed.

Lemma verify_args_ok maxexp s ent n signers ok :
  verify_register_node_args maxexp s ent n signers ok = COk ->
  ok = true /\ nmem (n_id n) (e_nodes ent) = true /\
  (forall k, In k (n_id n :: keys n) -> In k signers) /\
  (forall k, In k (keys n) -> dup_subkey s n k = false) /\
  has_dup (keys n) = false /\
  is_only_signed_by signers [n_id n; n_cons n; n_vrf n; n_tls n; n_p2p n] = true /\
  (0 <? maxexp) && (s_epoch s + maxexp <? n_exp n) = false /\
  code_is_ok (node_rts_check s n) = true.
Proof.
  unfold verify_register_node_args. intros H. if_ok H.
  apply negb_false_iff in E, E1, E2, E4, E5, E6, E7, E8, E11.
  apply orb_false_iff in E9 as [E9 Ev]. apply orb_false_iff in E9 as [E9 Et].
  apply orb_false_iff in E9 as [Ec Ep].
  repeat split; auto.
  - intros k Hk. unfold is_signed_by in *. cbn [In keys] in Hk.
    apply nmem_In. intuition (subst; assumption).
  - intros k Hk. cbn [In keys] in Hk. intuition (subst; assumption).
  - apply has_dup_keys. exact E10.
Qed.

Lemma reg_node_ok maxexp s txs n signers ok :
  reg_node_check maxexp s txs n signers ok = COk ->
  (exists ent, aget (n_ent n) (s_ents s) = Some ent /\ nmem (n_id n) (e_nodes ent) = true) /\
  ok = true /\ txs = n_id n /\
  (forall k, In k (n_id n :: keys n) -> In k signers) /\
  (forall k, In k (keys n) -> dup_subkey s n k = false) /\
  has_dup (keys n) = false /\
  (forall cur, aget (n_id n) (s_nodes s) = Some cur -> n_ent cur = n_ent n /\ n_cons cur = n_cons n) /\
  s_epoch s < n_exp n.
Proof.
  unfold reg_node_check. intros H.
  destruct (aget (n_ent n) (s_ents s)) as [ent|] eqn:Eent; [|discriminate].
  destruct (verify_register_node_args maxexp s ent n signers ok) eqn:EV; try discriminate.
  apply verify_args_ok in EV as (Hok & Hmem & Hs & Hd & Hdup & _ & _ & _).
  if_ok H. apply negb_false_iff in E. apply N.eqb_eq in E. apply N.leb_gt in E1.
  repeat split; eauto.
  - rewrite H0 in H. destruct (verify_node_update (s_epoch s) cur n) eqn:EU; try discriminate.
    unfold verify_node_update in EU. if_ok EU.
    apply negb_false_iff in E3. apply N.eqb_eq in E3. exact E3.
  - rewrite H0 in H. destruct (verify_node_update (s_epoch s) cur n) eqn:EU; try discriminate.
    unfold verify_node_update in EU. if_ok EU.
    apply negb_false_iff in E4. apply N.eqb_eq in E4. exact E4.
Qed.

(* an accepted registration of an existing node found its status record *)
Lemma reg_node_ok_status maxexp s txs n signers ok cur :
  reg_node_check maxexp s txs n signers ok = COk -> aget (n_id n) (s_nodes s) = Some cur ->
  exists st, aget (n_id n) (s_status s) = Some st.
Proof.
  unfold reg_node_check. intros H Hcur.
  destruct (aget (n_ent n) (s_ents s)) as [ent|]; [|discriminate].
  destruct (verify_register_node_args maxexp s ent n signers ok); try discriminate.
  if_ok H. rewrite Hcur in H. destruct (verify_node_update (s_epoch s) cur n); try discriminate.
  destruct (aget (n_id n) (s_status s)) as [st|]; [eauto|discriminate].
Qed.

(* the runtime-related conditions of an accepted node registration *)
Lemma reg_node_ok_rts maxexp s txs n signers ok :
  reg_node_check maxexp s txs n signers ok = COk ->
  node_rts_check s n = COk /\ admission_check s n (n_rts n) = COk /\ n_roles n <> 0 /\
  (forall cur, aget (n_id n) (s_nodes s) = Some cur -> s_epoch s <= n_exp cur ->
               (forall r, In r (n_rts cur) -> In r (n_rts n)) /\ N.land (n_roles n) (n_roles cur) <> 0).
Proof.
  unfold reg_node_check. intros H.
  destruct (aget (n_ent n) (s_ents s)) as [ent|] eqn:Eent; [|discriminate].
  destruct (verify_register_node_args maxexp s ent n signers ok) eqn:EV; try discriminate.
  assert (Hro : n_roles n <> 0).
  { unfold verify_register_node_args in EV. if_ok EV. apply N.eqb_neq in E0. exact E0. }
  apply verify_args_ok in EV as (_ & _ & _ & _ & _ & _ & _ & Hrts).
  if_ok H. apply negb_false_iff in E0.
  assert (Hc : forall c, code_is_ok c = true -> c = COk) by (intros c; destruct c; cbn; congruence).
  split; [apply Hc; exact Hrts|]. split; [apply Hc; exact E0|]. split; [exact Hro|].
  intros cur Hcur Hact. rewrite Hcur in H.
  destruct (verify_node_update (s_epoch s) cur n) eqn:EU; try discriminate. clear H. rename EU into H.
  unfold verify_node_update in H. if_ok H.
  assert (Hexp : (n_exp cur <? s_epoch s) = false) by (apply N.ltb_ge; exact Hact).
  rewrite Hexp in H. if_ok H.
  apply negb_false_iff in E5, E6. split.
  - intros r Hr. rewrite forallb_forall in E5. apply nmem_In. apply E5. exact Hr.
  - unfold has_role in E6. apply negb_true_iff in E6. apply N.eqb_neq in E6. exact E6.
Qed.

Section Reg.
  Variable addr : N -> N.
  Variables maxexp debond : N.

  Lemma set_node_inv fixed s ex n claims' :
    Inv_index s -> ex = aget (n_id n) (s_nodes s) ->
    has_dup (keys n) = false ->
    (forall k, In k (keys n) -> dup_subkey s n k = false) ->
    (forall cur, ex = Some cur -> n_ent cur = n_ent n) ->
    (fixed = true \/ forall old, ex = Some old -> exchange old n = false) ->
    Inv_index (set_node addr fixed ex n (with_claims s claims')).
  Proof.
    intros (Hids & Hkm & Hbe) Hex Hdup Hguard Hent Hx.
    unfold Inv_index, set_node; cbn [s_nodes s_keymap s_byent with_nodes with_byent with_addr with_keymap with_claims].
    split; [apply ids_set; exact Hids|]. split.
    - apply km_set; auto.
      + intros k d. rewrite <- Hex.
        assert (Hf : klookup k ((if fixed then keymap_ops_fixed else keymap_ops) ex n) d
                     = klookup k (keymap_ops_fixed ex n) d).
        { destruct fixed; [reflexivity|]. destruct Hx as [Hx|Hx]; [discriminate|].
          destruct ex as [old|]; [|apply klookup_new].
          apply klookup_faithful_eq_fixed; auto. }
        rewrite Hf. apply klookup_fixed.
      + intros k id' m Hk Hg Hm. specialize (Hguard k Hk).
        unfold dup_subkey, node_by_subkey in Hguard. rewrite Hg, Hm in Hguard.
        apply negb_false_iff in Hguard. apply N.eqb_eq. exact Hguard.
    - apply be_set; auto. intros old Hold. apply Hent. congruence.
  Qed.

  Lemma remove_node_inv s n id :
    Inv_index s -> aget id (s_nodes s) = Some n -> Inv_index (remove_node addr n s).
  Proof.
    intros (Hids & Hkm & Hbe) Hn. pose proof (Hids _ _ Hn) as Hid.
    unfold Inv_index, remove_node; cbn [s_nodes s_keymap s_byent with_nodes with_byent with_addr with_keymap with_status].
    rewrite Hid. split; [apply ids_del; exact Hids|]. split.
    - apply km_remove; auto.
    - rewrite <- Hid at 2. apply be_remove; auto.
  Qed.

  Lemma inv_with_claims s c : Inv_index s -> Inv_index (with_claims s c).
  Proof. intros H. exact H. Qed.
  Lemma inv_with_epoch s e : Inv_index s -> Inv_index (with_epoch s e).
  Proof. intros H. exact H. Qed.
  Lemma inv_with_nthr s t : Inv_index s -> Inv_index (with_nthr s t).
  Proof. intros H. exact H. Qed.
  Lemma inv_with_status s t : Inv_index s -> Inv_index (with_status s t).
  Proof. intros H. exact H. Qed.
  Lemma inv_index_mark e l s : Inv_index s -> Inv_index (fold_left (mark_one e) l s).
  Proof. intros H. use_mark e l s. unfold Inv_index. rewrite HMnodes, HMkeymap, HMbyent. exact H. Qed.
  Lemma inv_index_resume l s : Inv_index s -> Inv_index (fold_left resume_one l s).
  Proof. intros H. use_core l s. unfold Inv_index. rewrite HCnodes, HCkeymap, HCbyent. exact H. Qed.
  Lemma inv_index_rt_apply s rt : Inv_index s -> Inv_index (reg_runtime_apply s rt).
  Proof. intros H. use_ncore s rt. unfold Inv_index. rewrite HNnodes, HNkeymap, HNbyent. exact H. Qed.

  Lemma epoch_one_inv e s id : Inv_index s -> Inv_index (epoch_one addr debond e s id).
  Proof.
    intros H. unfold epoch_one. destruct (aget id (s_nodes s)) as [n|] eqn:En; [|exact H].
    destruct ((n_exp n <? e) && (n_exp n + debond <? e)); [|exact H].
    apply inv_with_nthr, inv_with_claims. eapply remove_node_inv; eauto.
  Qed.

  Lemma epoch_fold_inv e l : forall s, Inv_index s -> Inv_index (fold_left (epoch_one addr debond e) l s).
  Proof.
    induction l as [|id r IH]; intros s H; [exact H|]. cbn [fold_left]. apply IH. apply epoch_one_inv. exact H.
  Qed.

  Lemma step_inv fixed s o :
    tx_op o = true -> Inv_index s -> (fixed = true \/ no_exchange s o) ->
    Inv_index (snd (step addr fixed maxexp debond s o)).
  Proof.
    intros Htx Hinv Hx. destruct o; try discriminate; cbn [step].
    - destruct (reg_entity_check txs e dsigner sig_ok); exact Hinv.
    - destruct (dereg_entity_check s txs); exact Hinv.
    - destruct (reg_node_check maxexp s txs n dsigners sig_ok) eqn:EC; try exact Hinv.
      apply reg_node_ok in EC as (_ & _ & _ & _ & Hd & Hdup & Hcur & _).
      cbn [snd]. apply inv_index_resume, inv_with_status, inv_with_nthr. apply set_node_inv; auto.
      intros cur Hc. apply Hcur. exact Hc.
    - cbn [snd]. unfold epoch_change. apply epoch_fold_inv, inv_index_mark. exact Hinv.
    - destruct (reg_runtime_check s caller rt); try exact Hinv.
      cbn [snd]. apply inv_index_rt_apply. exact Hinv.
    - destruct (aget r (s_rts s)); exact Hinv.
    - status_ops Hinv.
    - status_ops Hinv.
  Qed.

  Fixpoint no_exchange_run (ops : list op) (s : state) : Prop :=
    match ops with
    | [] => True
    | o :: r => no_exchange s o /\ no_exchange_run r (snd (step addr false maxexp debond s o))
    end.

  Lemma run_inv_no_exchange ops : forall s,
    Inv_index s -> forallb tx_op ops = true -> no_exchange_run ops s ->
    Inv_index (run addr false maxexp debond ops s).
  Proof.
    induction ops as [|o r IH]; intros s Hinv Htx Hx; [exact Hinv|].
    cbn [forallb] in Htx. apply andb_true_iff in Htx as [Ho Hr]. destruct Hx as [Hx1 Hx2].
    unfold run. cbn [fold_left]. apply IH; auto. apply step_inv; auto.
  Qed.

  Lemma run_inv_fixed ops : forall s,
    Inv_index s -> forallb tx_op ops = true ->
    Inv_index (run addr true maxexp debond ops s).
  Proof.
    induction ops as [|o r IH]; intros s Hinv Htx; [exact Hinv|].
    cbn [forallb] in Htx. apply andb_true_iff in Htx as [Ho Hr].
    unfold run. cbn [fold_left]. apply IH; auto. apply step_inv; auto.
  Qed.
End Reg.

Lemma Inv_st0 : Inv_index st0.
Proof.
  unfold Inv_index, IDS, KM_ok, BE_ok, st0; cbn. repeat split; try discriminate.
  all: intros [n [H _]]; discriminate.
Qed.

(* ---------- what the invariant says about lookups ---------- *)
Lemma no_key_two_nodes s id1 id2 n1 n2 k :
  Inv_index s -> aget id1 (s_nodes s) = Some n1 -> aget id2 (s_nodes s) = Some n2 ->
  In k (keys n1) -> In k (keys n2) -> id1 = id2.
Proof.
  intros (_ & Hkm & _) H1 H2 K1 K2.
  assert (A : aget k (s_keymap s) = Some id1) by (apply Hkm; eauto).
  assert (B : aget k (s_keymap s) = Some id2) by (apply Hkm; eauto). congruence.
Qed.

Lemma found_under_each_key s id n k :
  Inv_index s -> aget id (s_nodes s) = Some n -> In k (keys n) -> node_by_subkey s k = Some n.
Proof.
  intros (_ & Hkm & _) H1 K1. unfold node_by_subkey.
  assert (A : aget k (s_keymap s) = Some id) by (apply Hkm; eauto). rewrite A. exact H1.
Qed.

Lemma subkey_resolves_to_holder s k n :
  Inv_index s -> node_by_subkey s k = Some n ->
  In k (keys n) /\ aget (n_id n) (s_nodes s) = Some n.
Proof.
  intros (Hids & Hkm & _) H. unfold node_by_subkey in H.
  destruct (aget k (s_keymap s)) as [id|] eqn:E; [|discriminate].
  apply Hkm in E as [m [Hm Hk]]. rewrite Hm in H. injection H as <-.
  rewrite (Hids _ _ Hm). auto.
Qed.

Lemma entity_nodes_mirror s e :
  Inv_index s ->
  (has_entity_nodes s e = true <-> exists id n, aget id (s_nodes s) = Some n /\ n_ent n = e).
Proof.
  intros (_ & _ & Hbe). unfold has_entity_nodes. rewrite has_fst_spec. split.
  - intros [id H]. apply Hbe in H as [n Hn]. eauto.
  - intros [id [n Hn]]. exists id. apply Hbe. eauto.
Qed.

(* ---------- the refutation witness: an update that exchanges P2P and TLS ---------- *)
Definition wit_ops : list op :=
  [TRegEntity 1 (mkEnt 1 [4]) 1 true;
   TRegNode 4 (mkNode 4 1 8 9 10 11 2 8 []) [4; 9; 8; 11; 10] true].
Definition wit_op : op := TRegNode 4 (mkNode 4 1 8 11 10 9 2 8 []) [4; 11; 8; 9; 10] true.

Lemma Inv_index_refuted_l (addr : N -> N) :
  exists s o, Inv_index s /\ tx_op o = true /\
              fst (step addr false 5 2 s o) = COk /\
              ~ Inv_index (snd (step addr false 5 2 s o)).
Proof.
  exists (run addr false 5 2 wit_ops st0), wit_op. split; [|split; [reflexivity|split]].
  - apply run_inv_no_exchange; [exact Inv_st0|reflexivity|].
    cbn [no_exchange_run wit_ops no_exchange]. split; [exact I|]. split; [|exact I].
    intros old H. vm_compute in H. discriminate.
  - vm_compute. reflexivity.
  - intros H.
    pose proof (found_under_each_key _ 4 (mkNode 4 1 8 11 10 9 2 8 []) 11 H) as F.
    vm_compute in F. specialize (F eq_refl (or_intror (or_introl eq_refl))). discriminate.
Qed.

(* the same update under the reordered SetNode keeps the invariant: non-vacuity
   of the hypotheses of the positive theorems *)
Example exchange_ok_when_fixed (addr : N -> N) :
  Inv_index (run addr true 5 2 (wit_ops ++ [wit_op]) st0) /\
  node_by_subkey (run addr true 5 2 (wit_ops ++ [wit_op]) st0) 11 = Some (mkNode 4 1 8 11 10 9 2 8 []).
Proof.
  split; [apply run_inv_fixed; [exact Inv_st0|reflexivity]|vm_compute; reflexivity].
Qed.

Example no_exchange_history_nonvacuous (addr : N -> N) :
  let ops := wit_ops ++ [TRegNode 4 (mkNode 4 1 8 12 13 14 3 8 []) [4; 12; 8; 14; 13] true; TEpoch 6] in
  no_exchange_run addr 5 2 ops st0 /\ forallb tx_op ops = true /\
  s_nodes (run addr false 5 2 (wit_ops ++ [TRegNode 4 (mkNode 4 1 8 12 13 14 3 8 []) [4; 12; 8; 14; 13] true]) st0)
  = [(4, mkNode 4 1 8 12 13 14 3 8 [])].
Proof.
  cbn zeta. split; [|split; [reflexivity|vm_compute; reflexivity]].
  cbn [no_exchange_run app wit_ops no_exchange]. repeat split.
  - intros old H. vm_compute in H. discriminate.
  - intros old H. vm_compute in H. injection H as <-. vm_compute. reflexivity.
Qed.

(* ---------- authority ---------- *)
Section Auth.
  Variable addr : N -> N.
  Variable fixed : bool.
  Variables maxexp debond : N.
  Notation stp := (step addr fixed maxexp debond).

  Lemma reject_unchanged s o c s' : stp s o = (c, s') -> c <> COk -> s' = s.
  Proof.
    destruct o; cbn [step]; intros H Hc;
      try (injection H as <- <-; congruence).
    - destruct (aget id (s_nodes s)); injection H as <- <-; congruence.
    - destruct (reg_entity_check txs e dsigner sig_ok); injection H as <- <-; congruence.
    - destruct (dereg_entity_check s txs); injection H as <- <-; congruence.
    - destruct (reg_node_check maxexp s txs n dsigners sig_ok); injection H as <- <-; congruence.
    - destruct (reg_runtime_check s caller rt); injection H as <- <-; congruence.
    - destruct (aget r (s_rts s)); injection H as <- <-; congruence.
    - destruct (unfreeze_check s txs id); try (injection H as <- <-; congruence).
      destruct (aget id (s_status s)); injection H as <- <-; congruence.
    - destruct (aget id (s_status s)); injection H as <- <-; congruence.
  Qed.

  Lemma missing_signature_rejected s txs n signers ok k :
    In k (n_id n :: keys n) -> ~ In k signers ->
    fst (stp s (TRegNode txs n signers ok)) <> COk /\ snd (stp s (TRegNode txs n signers ok)) = s.
  Proof.
    intros Hk Hn. cbn [step].
    destruct (reg_node_check maxexp s txs n signers ok) eqn:EC;
      cbn [fst snd]; try (split; [discriminate|reflexivity]).
    exfalso. apply reg_node_ok in EC as (_ & _ & _ & Hs & _). apply Hn, Hs, Hk.
  Qed.

  Lemma wrong_tx_signer_rejected s txs n signers ok :
    txs <> n_id n -> fst (stp s (TRegNode txs n signers ok)) <> COk /\ snd (stp s (TRegNode txs n signers ok)) = s.
  Proof.
    intros Hne. cbn [step].
    destruct (reg_node_check maxexp s txs n signers ok) eqn:EC;
      cbn [fst snd]; try (split; [discriminate|reflexivity]).
    exfalso. apply reg_node_ok in EC as (_ & _ & Ht & _). congruence.
  Qed.

  Lemma not_in_entity_list_rejected s txs n signers ok :
    (forall ent, aget (n_ent n) (s_ents s) = Some ent -> ~ In (n_id n) (e_nodes ent)) ->
    fst (stp s (TRegNode txs n signers ok)) <> COk /\ snd (stp s (TRegNode txs n signers ok)) = s.
  Proof.
    intros Hne. cbn [step].
    destruct (reg_node_check maxexp s txs n signers ok) eqn:EC;
      cbn [fst snd]; try (split; [discriminate|reflexivity]).
    exfalso. apply reg_node_ok in EC as ((ent & He & Hm) & _). apply (Hne _ He). apply nmem_In. exact Hm.
  Qed.

  Lemma epoch_fold_ents e l : forall s, s_ents (fold_left (epoch_one addr debond e) l s) = s_ents s.
  Proof.
    induction l as [|id r IH]; intros s; [reflexivity|]. cbn [fold_left]. rewrite IH.
    unfold epoch_one. destruct (aget id (s_nodes s)) as [n|]; [|reflexivity].
    destruct ((n_exp n <? e) && (n_exp n + debond <? e)); reflexivity.
  Qed.

  (* nodes after an epoch transition: untouched, or removed after expiry + debonding *)
  Lemma epoch_fold_nodes e l : forall s, IDS (s_nodes s) ->
    IDS (s_nodes (fold_left (epoch_one addr debond e) l s)) /\
    forall id, aget id (s_nodes (fold_left (epoch_one addr debond e) l s)) = aget id (s_nodes s) \/
               (aget id (s_nodes (fold_left (epoch_one addr debond e) l s)) = None /\
                exists n, aget id (s_nodes s) = Some n /\ n_exp n + debond < e).
  Proof.
    induction l as [|id0 r IH]; intros s Hids; [split; [exact Hids|intros; left; reflexivity]|].
    cbn [fold_left].
    assert (Hone : IDS (s_nodes (epoch_one addr debond e s id0)) /\
                   forall id, aget id (s_nodes (epoch_one addr debond e s id0)) = aget id (s_nodes s) \/
                              (aget id (s_nodes (epoch_one addr debond e s id0)) = None /\
                               exists n, aget id (s_nodes s) = Some n /\ n_exp n + debond < e)).
    { unfold epoch_one. destruct (aget id0 (s_nodes s)) as [n|] eqn:En; [|split; [exact Hids|auto]].
      destruct ((n_exp n <? e) && (n_exp n + debond <? e)) eqn:Ec; [|split; [exact Hids|auto]].
      cbn [s_nodes with_status with_nthr with_claims remove_node with_nodes with_byent with_addr with_keymap].
      split; [apply ids_del; exact Hids|]. intros id. rewrite aget_adel_gen.
      pose proof (Hids _ _ En) as Hid. rewrite Hid.
      destruct (N.eqb_spec id0 id) as [<-|Hne]; [|left; reflexivity].
      right. split; [reflexivity|]. exists n. split; [exact En|].
      apply andb_true_iff in Ec as [_ Ec]. apply N.ltb_lt in Ec. exact Ec. }
    destruct Hone as [Hids1 H1]. destruct (IH _ Hids1) as [Hids2 H2]. split; [exact Hids2|].
    intros id. destruct (H2 id) as [A|[A [n [B C]]]].
    - rewrite A. apply H1.
    - destruct (H1 id) as [D|[D _]].
      + right. split; [exact A|]. exists n. rewrite <- D. auto.
      + rewrite D in B. discriminate.
  Qed.

  Lemma step_ids s o : tx_op o = true -> IDS (s_nodes s) -> IDS (s_nodes (snd (stp s o))).
  Proof.
    intros Htx H. destruct o; try discriminate; cbn [step]; try exact H.
    - destruct (reg_entity_check txs e dsigner sig_ok); exact H.
    - destruct (dereg_entity_check s txs); exact H.
    - destruct (reg_node_check maxexp s txs n dsigners sig_ok); try exact H.
      cbn [snd]. match goal with |- IDS (s_nodes (fold_left resume_one ?l ?s0)) => use_core l s0 end.
      rewrite HCnodes.
      cbn [set_node s_nodes with_status with_nthr with_claims with_nodes with_byent with_addr with_keymap]. apply ids_set. exact H.
    - cbn [snd]. unfold epoch_change. apply epoch_fold_nodes.
      use_mark e (sorted_ids s) (with_epoch s e). rewrite HMnodes. exact H.
    - destruct (reg_runtime_check s caller rt); try exact H.
      cbn [snd]. use_ncore s rt. rewrite HNnodes. exact H.
    - destruct (aget r (s_rts s)); exact H.
    - status_ops H.
    - status_ops H.
  Qed.

  Lemma authority_node s o s' id :
    tx_op o = true -> IDS (s_nodes s) -> stp s o = (COk, s') ->
    aget id (s_nodes s') <> aget id (s_nodes s) ->
    (exists txs n signers,
        o = TRegNode txs n signers true /\ n_id n = id /\ txs = id /\
        (forall k, In k (id :: keys n) -> In k signers) /\
        (exists ent, aget (n_ent n) (s_ents s) = Some ent /\ In id (e_nodes ent)) /\
        (forall cur, aget id (s_nodes s) = Some cur -> n_ent cur = n_ent n /\ n_cons cur = n_cons n) /\
        aget id (s_nodes s') = Some n)
    \/ (exists e n, o = TEpoch e /\ aget id (s_nodes s) = Some n /\
                    aget id (s_nodes s') = None /\ n_exp n + debond < e).
  Proof.
    intros Htx Hids H Hch. destruct o; try discriminate; cbn [step] in H.
    - destruct (reg_entity_check txs e dsigner sig_ok); try discriminate; injection H as <-; exfalso; apply Hch; reflexivity.
    - destruct (dereg_entity_check s txs); try discriminate; injection H as <-; exfalso; apply Hch; reflexivity.
    - destruct (reg_node_check maxexp s txs n dsigners sig_ok) eqn:EC; try discriminate.
      injection H as <-.
      match goal with |- context [fold_left resume_one ?l ?s0] => use_core l s0 end.
      rewrite HCnodes in Hch |- *.
      cbn [set_node s_nodes with_status with_nthr with_claims with_nodes with_byent with_addr with_keymap] in Hch |- *.
      rewrite aget_aset_gen in Hch |- *.
      destruct (N.eqb_spec (n_id n) id) as [E|Hne]; [|exfalso; apply Hch; reflexivity].
      apply reg_node_ok in EC as ((ent & He & Hm) & Hok & Ht & Hs & _ & _ & Hcur & _).
      left. exists txs, n, dsigners. subst sig_ok. rewrite <- E.
      repeat split; auto.
      + exists ent. split; [exact He|]. apply nmem_In. exact Hm.
      + apply Hcur. exact H.
      + apply Hcur. exact H.
    - injection H as <-. unfold epoch_change in Hch |- *.
      use_mark e (sorted_ids s) (with_epoch s e).
      assert (Hids' : IDS (s_nodes (fold_left (mark_one e) (sorted_ids s) (with_epoch s e))))
        by (rewrite HMnodes; exact Hids).
      destruct (epoch_fold_nodes e (sorted_ids s) _ Hids') as [_ Hn].
      destruct (Hn id) as [A|[A [n [B C]]]].
      + exfalso. apply Hch. rewrite A, HMnodes. reflexivity.
      + right. exists e, n. rewrite HMnodes in B. auto.
    - destruct (reg_runtime_check s caller rt); try discriminate. injection H as <-.
      exfalso. apply Hch. use_ncore s rt. rewrite HNnodes. reflexivity.
    - destruct (aget r (s_rts s)); try discriminate. injection H as <-. exfalso. apply Hch. reflexivity.
    - destruct (unfreeze_check s txs id0); try discriminate.
      destruct (aget id0 (s_status s)); injection H as <-; exfalso; apply Hch; reflexivity.
    - destruct (aget id0 (s_status s)); try discriminate. injection H as <-. exfalso. apply Hch. reflexivity.
  Qed.

  Lemma authority_entity s o s' e :
    tx_op o = true -> stp s o = (COk, s') -> aget e (s_ents s') <> aget e (s_ents s) ->
    (exists ent, o = TRegEntity e ent e true /\ e_id ent = e /\ ~ has_dup (e_nodes ent) = true /\
                 aget e (s_ents s') = Some ent)
    \/ (o = TDeregEntity e /\ has_entity_nodes s e = false /\ has_entity_runtimes s e = false /\
        aget e (s_ents s') = None).
  Proof.
    intros Htx H Hch. destruct o; try discriminate; cbn [step] in H.
    - destruct (reg_entity_check txs e0 dsigner sig_ok) eqn:EC; try discriminate.
      injection H as <-. cbn [s_ents with_ents with_claims] in Hch |- *.
      rewrite aget_aset_gen in Hch |- *.
      destruct (N.eqb_spec (e_id e0) e) as [E|Hne]; [|exfalso; apply Hch; reflexivity].
      unfold reg_entity_check in EC. if_ok EC.
      apply negb_false_iff in E0, E1, E3. apply N.eqb_eq in E1, E3. subst.
      left. exists e0. repeat split; auto. rewrite E2. discriminate.
    - destruct (dereg_entity_check s txs) eqn:EC; try discriminate.
      injection H as <-. cbn [s_ents with_ents with_claims] in Hch |- *.
      rewrite aget_adel_gen in Hch |- *.
      destruct (N.eqb_spec txs e) as [E|Hne]; [|exfalso; apply Hch; reflexivity].
      unfold dereg_entity_check in EC. if_ok EC. subst. right. auto.
    - destruct (reg_node_check maxexp s txs n dsigners sig_ok); try discriminate.
      injection H as <-. exfalso. apply Hch.
      match goal with |- context [fold_left resume_one ?l ?s0] => use_core l s0 end.
      rewrite HCents. reflexivity.
    - injection H as <-. exfalso. apply Hch. unfold epoch_change. rewrite epoch_fold_ents.
      use_mark e0 (sorted_ids s) (with_epoch s e0). rewrite HMents. reflexivity.
    - destruct (reg_runtime_check s caller rt); try discriminate. injection H as <-.
      exfalso. apply Hch. use_ncore s rt. rewrite HNents. reflexivity.
    - destruct (aget r (s_rts s)); try discriminate. injection H as <-. exfalso. apply Hch. reflexivity.
    - destruct (unfreeze_check s txs id); try discriminate.
      destruct (aget id (s_status s)); injection H as <-; exfalso; apply Hch; reflexivity.
    - destruct (aget id (s_status s)); try discriminate. injection H as <-. exfalso. apply Hch. reflexivity.
  Qed.

  (* ---------- an entity cannot be removed while it owns nodes or runtimes ---------- *)
  Lemma entity_not_removable_while_owning_nodes s e id n :
    Inv_index s -> aget id (s_nodes s) = Some n -> n_ent n = e ->
    stp s (TDeregEntity e) = (CEntityHasNodes, s).
  Proof.
    intros Hinv Hn He. cbn [step]. unfold dereg_entity_check.
    assert (H : has_entity_nodes s e = true) by (apply entity_nodes_mirror; eauto).
    rewrite H. reflexivity.
  Qed.

  Lemma entity_not_removable_while_owning_runtimes s e rt :
    pmem (e, rt) (s_rtown s) = true -> has_entity_nodes s e = false ->
    stp s (TDeregEntity e) = (CEntityHasRuntimes, s).
  Proof.
    intros Hr Hn. cbn [step]. unfold dereg_entity_check. rewrite Hn.
    assert (H : has_entity_runtimes s e = true) by (apply has_fst_spec; eauto).
    rewrite H. reflexivity.
  Qed.
End Auth.

(* ====================================================================== *)
(* Registrations mirrored in nodes-by-entity and in the stake claims, for
   either SetNode order; a node's entity never changes.                    *)
(* ====================================================================== *)

(* [l] holds exactly the pairs (entity of n, f (id of n)) for registered n *)
Definition PF_ok (f : N -> N) (nodes : list (N * node)) (l : list (N * N)) : Prop :=
  forall e id, pmem (e, f id) l = true <-> exists n, aget id nodes = Some n /\ n_ent n = e.
(* the entity claim (code 0) is held exactly by the registered entities *)
Definition EC_ok (ents : list (N * entity)) (l : list (N * N)) : Prop :=
  forall e, pmem (e, 0) l = true <-> exists ent, aget e ents = Some ent.

Lemma pf_set f nodes l n :
  (forall a b, f a = f b -> a = b) -> PF_ok f nodes l ->
  (forall old, aget (n_id n) nodes = Some old -> n_ent old = n_ent n) ->
  PF_ok f (aset (n_id n) n nodes) (padd (n_ent n, f (n_id n)) l).
Proof.
  intros Hinj Hbe Hold e id'. rewrite pmem_padd. split.
  - intros [H|H].
    + injection H as -> H. apply Hinj in H. subst id'. exists n. rewrite aget_aset_same. auto.
    + apply Hbe in H as [m [Hm He]]. rewrite aget_aset_gen.
      destruct (N.eqb_spec (n_id n) id') as [E|Hne].
      * exists n. split; [reflexivity|]. rewrite <- E in Hm. rewrite <- (Hold _ Hm). exact He.
      * exists m. auto.
  - intros [m [Hm He]]. split_in Hm (n_id n) id'.
    + injection Hm as <-. left. congruence.
    + right. apply Hbe. eauto.
Qed.

Lemma pf_remove f nodes l n id :
  (forall a b, f a = f b -> a = b) -> IDS nodes -> PF_ok f nodes l -> aget id nodes = Some n ->
  PF_ok f (adel id nodes) (pdel (n_ent n, f (n_id n)) l).
Proof.
  intros Hinj Hids Hbe Hn e id'. rewrite pmem_pdel. pose proof (Hids _ _ Hn) as Hid. split.
  - intros [Hne H]. apply Hbe in H as [m [Hm He]]. exists m. split; [|exact He].
    rewrite aget_adel_gen. destruct (N.eqb_spec id id') as [E|Hne']; [|exact Hm].
    exfalso. apply Hne. rewrite <- E, Hn in Hm. injection Hm as <-. congruence.
  - intros [m [Hm He]]. split_in Hm id id'; [discriminate|]. split.
    + intros H. injection H as _ H. apply Hinj in H. congruence.
    + apply Hbe. eauto.
Qed.

Lemma pf_other_add f nodes l e0 c :
  (forall id, c <> f id) -> PF_ok f nodes l -> PF_ok f nodes (padd (e0, c) l).
Proof.
  intros Hc H e id. rewrite pmem_padd, <- (H e id). split; [|tauto].
  intros [E|E]; [|exact E]. injection E as _ E. exfalso. apply (Hc id). congruence.
Qed.
Lemma pf_other_del f nodes l e0 c :
  (forall id, c <> f id) -> PF_ok f nodes l -> PF_ok f nodes (pdel (e0, c) l).
Proof.
  intros Hc H e id. rewrite pmem_pdel, <- (H e id). split; [tauto|].
  intros E. split; [|exact E]. intros E'. injection E' as _ E'. apply (Hc id). congruence.
Qed.

Lemma ec_set ents l e : EC_ok ents l -> EC_ok (aset (e_id e) e ents) (padd (e_id e, 0) l).
Proof.
  intros H e'. rewrite pmem_padd, aget_aset_gen, (H e').
  destruct (N.eqb_spec (e_id e) e') as [E|Hne].
  - split; [eauto|]. intros _. left. congruence.
  - split; [|tauto]. intros [E|E]; [congruence|exact E].
Qed.
Lemma ec_del ents l x : EC_ok ents l -> EC_ok (adel x ents) (pdel (x, 0) l).
Proof.
  intros H e'. rewrite pmem_pdel, aget_adel_gen, (H e').
  destruct (N.eqb_spec x e') as [E|Hne].
  - split; [|intros [ent Hent]; discriminate]. intros [Hn _]. exfalso. apply Hn. congruence.
  - split; [tauto|]. intros E. split; [congruence|exact E].
Qed.
Lemma ec_other_add ents l e0 c : c <> 0 -> EC_ok ents l -> EC_ok ents (padd (e0, c) l).
Proof.
  intros Hc H e. rewrite pmem_padd, <- (H e). split; [|tauto].
  intros [E|E]; [congruence|exact E].
Qed.
Lemma ec_other_del ents l e0 c : c <> 0 -> EC_ok ents l -> EC_ok ents (pdel (e0, c) l).
Proof.
  intros Hc H e. rewrite pmem_pdel, <- (H e). split; [tauto|].
  intros E. split; [congruence|exact E].
Qed.

Definition Inv_reg (s : state) : Prop :=
  IDS (s_nodes s) /\
  PF_ok (fun x => x) (s_nodes s) (s_byent s) /\
  PF_ok (fun x => x + 1) (s_nodes s) (s_claims s) /\
  EC_ok (s_ents s) (s_claims s).

Lemma Inv_reg_st0 : Inv_reg st0.
Proof.
  unfold Inv_reg, IDS, PF_ok, EC_ok, st0; cbn. repeat split; try discriminate.
  all: intros [n H]; first [discriminate H | destruct H as [H _]; discriminate H].
Qed.

Section RegAll.
  Variable addr : N -> N.
  Variable fixed : bool.
  Variables maxexp debond : N.
  Notation stp := (step addr fixed maxexp debond).

  Lemma succ_inj a b : a + 1 = b + 1 -> a = b.
  Proof. lia. Qed.

  Lemma epoch_one_reg e s id : Inv_reg s -> Inv_reg (epoch_one addr debond e s id).
  Proof.
    intros H. unfold epoch_one. destruct (aget id (s_nodes s)) as [n|] eqn:En; [|exact H].
    destruct ((n_exp n <? e) && (n_exp n + debond <? e)); [|exact H].
    destruct H as (Hids & Hbe & Hnc & Hec). pose proof (Hids _ _ En) as Hid.
    unfold Inv_reg, remove_node;
      cbn [s_nodes s_byent s_claims s_ents with_nodes with_byent with_addr with_keymap with_claims with_status with_nthr].
    replace (adel (n_id n) (s_nodes s)) with (adel id (s_nodes s)) by (rewrite Hid; reflexivity).
    split; [|split; [|split]].
    - apply ids_del. exact Hids.
    - apply (pf_remove (fun x => x)); auto.
    - apply (pf_remove (fun x => x + 1)); auto. exact succ_inj.
    - apply ec_other_del; [lia|exact Hec].
  Qed.

  Lemma epoch_fold_reg e l : forall s, Inv_reg s -> Inv_reg (fold_left (epoch_one addr debond e) l s).
  Proof.
    induction l as [|id r IH]; intros s H; [exact H|]. cbn [fold_left]. apply IH, epoch_one_reg, H.
  Qed.

  Lemma step_reg s o : tx_op o = true -> Inv_reg s -> Inv_reg (snd (stp s o)).
  Proof.
    intros Htx Hinv. destruct o; try discriminate; cbn [step]; try exact Hinv.
    - destruct (reg_entity_check txs e dsigner sig_ok); try exact Hinv.
      destruct Hinv as (Hids & Hbe & Hnc & Hec).
      unfold Inv_reg; cbn [snd s_nodes s_byent s_claims s_ents with_ents with_claims].
      split; [exact Hids|split; [exact Hbe|split]].
      + apply pf_other_add; [intros id; lia|exact Hnc].
      + apply ec_set. exact Hec.
    - destruct (dereg_entity_check s txs); try exact Hinv.
      destruct Hinv as (Hids & Hbe & Hnc & Hec).
      unfold Inv_reg; cbn [snd s_nodes s_byent s_claims s_ents with_ents with_claims].
      split; [exact Hids|split; [exact Hbe|split]].
      + apply pf_other_del; [intros id; lia|exact Hnc].
      + apply ec_del. exact Hec.
    - destruct (reg_node_check maxexp s txs n dsigners sig_ok) eqn:EC; try exact Hinv.
      apply reg_node_ok in EC as (_ & _ & _ & _ & _ & _ & Hcur & _).
      destruct Hinv as (Hids & Hbe & Hnc & Hec).
      cbn [snd]. match goal with |- Inv_reg (fold_left resume_one ?l ?s0) => use_core l s0 end.
      unfold Inv_reg. rewrite HCnodes, HCbyent, HCclaims, HCents. unfold set_node;
        cbn [s_nodes s_byent s_claims s_ents with_nodes with_byent with_addr with_keymap with_claims with_status with_nthr].
      split; [|split; [|split]].
      + apply ids_set. exact Hids.
      + apply (pf_set (fun x => x)); auto. intros old Ho. apply Hcur. exact Ho.
      + apply (pf_set (fun x => x + 1)); auto; [exact succ_inj|]. intros old Ho. apply Hcur. exact Ho.
      + apply ec_other_add; [lia|exact Hec].
    - cbn [snd]. unfold epoch_change. apply epoch_fold_reg.
      use_mark e (sorted_ids s) (with_epoch s e). unfold Inv_reg. rewrite HMnodes, HMbyent, HMclaims, HMents. exact Hinv.
    - destruct (reg_runtime_check s caller rt); try exact Hinv.
      cbn [snd]. use_ncore s rt. unfold Inv_reg. rewrite HNnodes, HNbyent, HNclaims, HNents. exact Hinv.
    - destruct (aget r (s_rts s)); exact Hinv.
    - status_ops Hinv.
    - status_ops Hinv.
  Qed.

  Lemma run_reg ops : forall s, Inv_reg s -> forallb tx_op ops = true ->
    Inv_reg (run addr fixed maxexp debond ops s).
  Proof.
    induction ops as [|o r IH]; intros s Hinv Htx; [exact Hinv|].
    cbn [forallb] in Htx. apply andb_true_iff in Htx as [Ho Hr].
    unfold run. cbn [fold_left]. apply IH; auto. apply step_reg; auto.
  Qed.

  Lemma reg_entity_nodes_mirror s e :
    Inv_reg s ->
    (has_entity_nodes s e = true <-> exists id n, aget id (s_nodes s) = Some n /\ n_ent n = e).
  Proof.
    intros (_ & Hbe & _). unfold has_entity_nodes. rewrite has_fst_spec. split.
    - intros [id H]. apply Hbe in H as [n Hn]. eauto.
    - intros [id [n Hn]]. exists id. apply Hbe. eauto.
  Qed.

  Lemma reg_claims_mirror s e c :
    Inv_reg s ->
    (pmem (e, c) (s_claims s) = true <->
     (c = 0 /\ exists ent, aget e (s_ents s) = Some ent) \/
     (exists id n, c = id + 1 /\ aget id (s_nodes s) = Some n /\ n_ent n = e)).
  Proof.
    intros (_ & _ & Hnc & Hec). destruct (N.eq_dec c 0) as [->|Hc].
    - rewrite (Hec e). split; [intros H; left; auto|].
      intros [[_ H]|[id [n [H _]]]]; [exact H|lia].
    - replace c with (c - 1 + 1) at 1 by lia. rewrite (Hnc e (c - 1)). split.
      + intros [n Hn]. right. exists (c - 1), n. split; [lia|exact Hn].
      + intros [[H _]|[id [n [H Hn]]]]; [congruence|].
        assert (id = c - 1) by lia. subst id. eauto.
  Qed.

  (* history-level statements from the initial state *)
  Lemma byent_mirror_hist ops e :
    forallb tx_op ops = true ->
    (has_entity_nodes (run addr fixed maxexp debond ops st0) e = true <->
     exists id n, aget id (s_nodes (run addr fixed maxexp debond ops st0)) = Some n /\ n_ent n = e).
  Proof. intros H. apply reg_entity_nodes_mirror, run_reg; [exact Inv_reg_st0|exact H]. Qed.

  Lemma claims_mirror_hist ops e c :
    forallb tx_op ops = true ->
    (pmem (e, c) (s_claims (run addr fixed maxexp debond ops st0)) = true <->
     (c = 0 /\ exists ent, aget e (s_ents (run addr fixed maxexp debond ops st0)) = Some ent) \/
     (exists id n, c = id + 1 /\
                   aget id (s_nodes (run addr fixed maxexp debond ops st0)) = Some n /\ n_ent n = e)).
  Proof. intros H. apply reg_claims_mirror, run_reg; [exact Inv_reg_st0|exact H]. Qed.

  (* one step never changes the entity of a record that exists before and after *)
  Lemma step_entity_const s o id n n' :
    tx_op o = true -> IDS (s_nodes s) ->
    aget id (s_nodes s) = Some n -> aget id (s_nodes (snd (stp s o))) = Some n' ->
    n_ent n' = n_ent n.
  Proof.
    intros Htx Hids Hn Hn'. destruct o; try discriminate; cbn [step] in Hn'.
    - destruct (reg_entity_check txs e dsigner sig_ok); cbn in Hn'; congruence.
    - destruct (dereg_entity_check s txs); cbn in Hn'; congruence.
    - destruct (reg_node_check maxexp s txs n0 dsigners sig_ok) eqn:EC;
        try (cbn [snd] in Hn'; congruence).
      cbn [snd] in Hn'.
      match type of Hn' with context [fold_left resume_one ?l ?s0] => use_core l s0 end.
      rewrite HCnodes in Hn'.
      cbn [set_node s_nodes with_status with_nthr with_claims with_nodes with_byent with_addr with_keymap] in Hn'.
      split_in Hn' (n_id n0) id; [|congruence].
      injection Hn' as <-. apply reg_node_ok in EC as (_ & _ & _ & _ & _ & _ & Hcur & _).
      symmetry. apply Hcur. rewrite E. exact Hn.
    - cbn [snd] in Hn'. unfold epoch_change in Hn'.
      use_mark e (sorted_ids s) (with_epoch s e).
      assert (Hids' : IDS (s_nodes (fold_left (mark_one e) (sorted_ids s) (with_epoch s e))))
        by (rewrite HMnodes; exact Hids).
      destruct (epoch_fold_nodes addr debond e (sorted_ids s) _ Hids') as [_ H].
      destruct (H id) as [A|[A _]]; rewrite A in Hn'; [rewrite HMnodes in Hn'; cbn in Hn'; congruence|discriminate].
    - destruct (reg_runtime_check s caller rt); cbn [snd] in Hn'; try congruence.
      use_ncore s rt. rewrite HNnodes in Hn'. congruence.
    - destruct (aget r (s_rts s)); cbn in Hn'; congruence.
    - destruct (unfreeze_check s txs id0); cbn [snd] in Hn'; try congruence.
      destruct (aget id0 (s_status s)); cbn in Hn'; congruence.
    - destruct (aget id0 (s_status s)); cbn in Hn'; congruence.
  Qed.

  (* the record of [id] exists after every operation of the history *)
  Fixpoint exists_throughout (id : N) (ops : list op) (s : state) : Prop :=
    match ops with
    | [] => True
    | o :: r => (exists m, aget id (s_nodes (snd (stp s o))) = Some m) /\
                exists_throughout id r (snd (stp s o))
    end.

  Lemma entity_const_hist ops : forall s id n n',
    forallb tx_op ops = true -> IDS (s_nodes s) ->
    aget id (s_nodes s) = Some n -> exists_throughout id ops s ->
    aget id (s_nodes (run addr fixed maxexp debond ops s)) = Some n' ->
    n_ent n' = n_ent n.
  Proof.
    induction ops as [|o r IH]; intros s id n n' Htx Hids Hn Hex Hn'.
    - cbn in Hn'. congruence.
    - cbn [forallb] in Htx. apply andb_true_iff in Htx as [Ho Hr].
      destruct Hex as [[m Hm] Hex]. unfold run in Hn'. cbn [fold_left] in Hn'.
      rewrite (IH _ id m n' Hr (step_ids addr fixed maxexp debond s o Ho Hids) Hm Hex Hn').
      eapply step_entity_const; eauto.
  Qed.
End RegAll.

(* non-vacuity: an expired node still held during debonding re-registers under
   its own entity (accepted) and under another entity that lists it (rejected) *)
Example reregistration_examples (addr : N -> N) :
  let pre := [TRegEntity 1 (mkEnt 1 [4]) 1 true; TRegEntity 2 (mkEnt 2 [4]) 2 true;
              TRegNode 4 (mkNode 4 1 8 9 10 11 2 8 []) [4; 9; 8; 11; 10] true; TEpoch 3] in
  fst (step addr true 5 2 (run addr true 5 2 pre st0) (TRegNode 4 (mkNode 4 1 8 9 10 11 7 8 []) [4; 9; 8; 11; 10] true)) = COk /\
  fst (step addr true 5 2 (run addr true 5 2 pre st0) (TRegNode 4 (mkNode 4 2 8 9 10 11 7 8 []) [4; 9; 8; 11; 10] true)) = CNodeUpdateNotAllowed /\
  exists_throughout addr true 5 2 4 [TRegNode 4 (mkNode 4 1 8 9 10 11 7 8 []) [4; 9; 8; 11; 10] true]
                    (run addr true 5 2 pre st0).
Proof.
  cbn zeta. split; [vm_compute; reflexivity|]. split; [vm_compute; reflexivity|].
  cbn [exists_throughout]. split; [|exact I]. eexists. vm_compute. reflexivity.
Qed.
