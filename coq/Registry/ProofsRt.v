(* Runtimes (property C17): authority of runtime record changes, the
   runtime-by-entity index and the runtime stake claims mirror the runtime
   records along every history; threshold kinds stored with node claims. *)
From Verif Require Import Lib.Base Registry.Model Registry.Lemmas Registry.Proofs.

Definition rcore (s : state) := (s_rts s, s_susp s, s_rtown s, s_rtclaims s).

Definition RT_disj (s : state) : Prop :=
  forall r, aget r (s_rts s) <> None -> aget r (s_susp s) = None.
Definition OWN_ok (s : state) : Prop :=
  forall e r, pmem (e, r) (s_rtown s) = true <-> exists rt, any_runtime s r = Some rt /\ r_ent rt = e.
Definition RCL_ok (s : state) : Prop :=
  forall a r, pmem (a, r) (s_rtclaims s) = true <-> exists rt, any_runtime s r = Some rt /\ rt_acct rt = Some a.
Definition Inv_rt (s : state) : Prop := RT_disj s /\ OWN_ok s /\ RCL_ok s.

Lemma any_rt_ext s s' : s_rts s' = s_rts s -> s_susp s' = s_susp s -> forall r, any_runtime s' r = any_runtime s r.
Proof. intros A B r. unfold any_runtime. rewrite A, B. reflexivity. Qed.

Lemma inv_rt_ext s s' : rcore s' = rcore s -> Inv_rt s -> Inv_rt s'.
Proof.
  unfold rcore. intros H. injection H as A B C D. intros (H1 & H2 & H3).
  pose proof (any_rt_ext s s' A B) as E.
  split; [|split].
  - intros r. rewrite A, B. apply H1.
  - intros e r. rewrite C, E. apply H2.
  - intros a r. rewrite D, E. apply H3.
Qed.

Lemma Inv_rt_st0 : Inv_rt st0.
Proof.
  split; [|split].
  - intros r H. reflexivity.
  - intros e r. cbn. split; [discriminate|]. intros [rt [H _]]. discriminate.
  - intros a r. cbn. split; [discriminate|]. intros [rt [H _]]. discriminate.
Qed.

(* ---------- how the operations change the runtime lookup ---------- *)
Lemma any_rt_apply s rt r :
  any_runtime (reg_runtime_apply s rt) r = if r_id rt =? r then Some rt else any_runtime s r.
Proof.
  unfold reg_runtime_apply, any_runtime.
  destruct (rt_acct rt); destruct (aget (r_id rt) (s_rts s)) as [x|] eqn:E1;
    destruct (aget (r_id rt) (s_susp s)) as [y|] eqn:E2;
    try destruct (r_ent x =? r_ent rt); try destruct (r_ent y =? r_ent rt);
    cbn [s_rts s_susp with_rts with_susp with_rtown with_rtclaims];
    rewrite ?aget_aset_gen; destruct (N.eqb_spec (r_id rt) r) as [<-|Hne]; try reflexivity;
    try (rewrite E1; reflexivity).
Qed.

Lemma apply_tables s rt :
  let susp := match aget (r_id rt) (s_rts s) with
              | Some _ => false
              | None => match aget (r_id rt) (s_susp s) with Some _ => true | None => false end
              end in
  s_rts (reg_runtime_apply s rt) = (if susp then s_rts s else aset (r_id rt) rt (s_rts s)) /\
  s_susp (reg_runtime_apply s rt) = (if susp then aset (r_id rt) rt (s_susp s) else s_susp s).
Proof.
  unfold reg_runtime_apply, any_runtime.
  destruct (rt_acct rt); destruct (aget (r_id rt) (s_rts s)) as [x|] eqn:E1;
    destruct (aget (r_id rt) (s_susp s)) as [y|] eqn:E2;
    try destruct (r_ent x =? r_ent rt); try destruct (r_ent y =? r_ent rt);
    cbn; split; reflexivity.
Qed.

Lemma disj_apply s rt : RT_disj s -> RT_disj (reg_runtime_apply s rt).
Proof.
  intros H r. destruct (apply_tables s rt) as [A B]. rewrite A, B. clear A B.
  destruct (aget (r_id rt) (s_rts s)) as [x|] eqn:E1.
  - rewrite aget_aset_gen. destruct (N.eqb_spec (r_id rt) r) as [<-|Hne]; intros Hr.
    + apply H. rewrite E1. discriminate.
    + apply H. exact Hr.
  - destruct (aget (r_id rt) (s_susp s)) as [y|] eqn:E2.
    + intros Hr. rewrite aget_aset_gen. destruct (N.eqb_spec (r_id rt) r) as [<-|Hne].
      * exfalso. apply Hr. exact E1.
      * apply H. exact Hr.
    + rewrite aget_aset_gen. destruct (N.eqb_spec (r_id rt) r) as [<-|Hne]; intros Hr.
      * exact E2.
      * apply H. exact Hr.
Qed.

Lemma any_rt_resume_one s r r' :
  RT_disj s -> any_runtime (resume_one s r) r' = any_runtime s r' /\ RT_disj (resume_one s r).
Proof.
  intros H. unfold resume_one. destruct (aget r (s_susp s)) as [rt|] eqn:E; [|split; [reflexivity|exact H]].
  assert (Hn : aget r (s_rts s) = None).
  { destruct (aget r (s_rts s)) eqn:E1; [|reflexivity]. exfalso.
    assert (X : aget r (s_susp s) = None) by (apply H; rewrite E1; discriminate). congruence. }
  split.
  - unfold any_runtime; cbn [s_rts s_susp with_rts with_susp]. rewrite aget_aset_gen, aget_adel_gen.
    destruct (N.eqb_spec r r') as [<-|Hne]; [rewrite Hn, E; reflexivity|reflexivity].
  - intros x; cbn [s_rts s_susp with_rts with_susp]. rewrite aget_aset_gen, aget_adel_gen.
    destruct (N.eqb_spec r x) as [<-|Hne]; [reflexivity|apply H].
Qed.

Lemma resume_fold_rt l : forall s, RT_disj s ->
  (forall r', any_runtime (fold_left resume_one l s) r' = any_runtime s r') /\ RT_disj (fold_left resume_one l s).
Proof.
  induction l as [|r l IH]; intros s H; [split; [reflexivity|exact H]|].
  cbn [fold_left]. destruct (IH (resume_one s r) (proj2 (any_rt_resume_one s r 0 H))) as [A B].
  split; [|exact B]. intros r'. rewrite A. apply (any_rt_resume_one s r r' H).
Qed.

Lemma inv_rt_same_lookup s s' :
  (forall r, any_runtime s' r = any_runtime s r) -> RT_disj s' ->
  s_rtown s' = s_rtown s -> s_rtclaims s' = s_rtclaims s -> Inv_rt s -> Inv_rt s'.
Proof.
  intros E D C1 C2 (_ & H2 & H3). split; [exact D|split].
  - intros e r. rewrite C1, E. apply H2.
  - intros a r. rewrite C2, E. apply H3.
Qed.

Lemma epoch_fold_rcore addr debond e l : forall s, rcore (fold_left (epoch_one addr debond e) l s) = rcore s.
Proof.
  induction l as [|id r IH]; intros s; [reflexivity|]. cbn [fold_left]. rewrite IH.
  unfold epoch_one. destruct (aget id (s_nodes s)) as [n|]; [|reflexivity].
  destruct ((n_exp n <? e) && (n_exp n + debond <? e)); reflexivity.
Qed.

(* accepted runtime registration: what the checks established *)
Lemma reg_runtime_ok s caller rt :
  reg_runtime_check s caller rt = COk ->
  (r_gov rt = 1 \/ r_gov rt = 2) /\ (r_kind rt = 1 \/ r_kind rt = 2) /\
  match any_runtime s (r_id rt) with
  | Some old => rt_acct old = Some caller /\ r_kind old = r_kind rt /\
                (r_gov old = r_gov rt \/ (r_gov old = 1 /\ r_gov rt = 2)) /\
                km_changed (r_km old) (r_km rt) = false /\
                r_genesis old = r_genesis rt /\
                deps_update_ok (s_epoch s) (r_deps old) (r_deps rt) = true /\
                active_kept (s_epoch s) (r_deps old) (r_deps rt) = true
  | None => rt_acct rt = Some caller /\ active_deployment (s_epoch s) (r_deps rt) = None
  end.
Proof.
  unfold reg_runtime_check. intros H. if_ok H.
  split.
  { match goal with X : negb ((r_gov rt =? 1) || (r_gov rt =? 2)) = false |- _ =>
      apply negb_false_iff in X; apply orb_true_iff in X; destruct X as [X|X]; apply N.eqb_eq in X; auto end. }
  split.
  { match goal with X : negb ((r_kind rt =? 1) || (r_kind rt =? 2)) = false |- _ =>
      apply negb_false_iff in X; apply orb_true_iff in X; destruct X as [X|X]; apply N.eqb_eq in X; auto end. }
  unfold rt_update_check, rt_signer_check in H.
  destruct (any_runtime s (r_id rt)) as [old|].
  - destruct (negb (r_kind old =? r_kind rt)) eqn:K; [discriminate|].
    destruct (negb (r_genesis old =? r_genesis rt)) eqn:GE; [discriminate|].
    destruct (km_changed (r_km old) (r_km rt)) eqn:KM; [discriminate|].
    destruct (negb (r_gov old =? r_gov rt) && negb ((r_gov old =? 1) && (r_gov rt =? 2))) eqn:G; [discriminate|].
    destruct (negb (deps_update_ok (s_epoch s) (r_deps old) (r_deps rt))) eqn:DU; [discriminate|].
    destruct (negb (active_kept (s_epoch s) (r_deps old) (r_deps rt))) eqn:AK; [discriminate|].
    destruct (rt_acct old) as [a|]; [|discriminate].
    destruct (caller =? a) eqn:C; [|destruct (r_gov old =? 1); discriminate].
    apply N.eqb_eq in C. subst a. apply negb_false_iff in K. apply N.eqb_eq in K.
    apply negb_false_iff in GE, DU, AK. apply N.eqb_eq in GE.
    split; [reflexivity|split; [exact K|split; [|split; [reflexivity|split; [exact GE|split; [exact DU|exact AK]]]]]].
    apply andb_false_iff in G as [G|G]; apply negb_false_iff in G.
    + left. apply N.eqb_eq. exact G.
    + right. apply andb_true_iff in G as [G1 G2]. apply N.eqb_eq in G1, G2. auto.
  - destruct (active_deployment (s_epoch s) (r_deps rt)) eqn:AD; [discriminate|].
    destruct (rt_acct rt) as [a|]; [|discriminate].
    destruct (caller =? a) eqn:C; [|destruct (r_gov rt =? 1); discriminate].
    apply N.eqb_eq in C. subst a. auto.
Qed.

Lemma apply_rtown s rt :
  s_rtown (reg_runtime_apply s rt) =
  match any_runtime s (r_id rt) with
  | None => padd (r_ent rt, r_id rt) (s_rtown s)
  | Some old => if r_ent old =? r_ent rt then s_rtown s
                else padd (r_ent rt, r_id rt) (pdel (r_ent old, r_id rt) (s_rtown s))
  end.
Proof.
  unfold reg_runtime_apply, any_runtime.
  destruct (rt_acct rt); destruct (aget (r_id rt) (s_rts s)) as [x|] eqn:E1;
    destruct (aget (r_id rt) (s_susp s)) as [y|] eqn:E2;
    try destruct (r_ent x =? r_ent rt); try destruct (r_ent y =? r_ent rt); reflexivity.
Qed.

Lemma apply_rtclaims s rt a :
  rt_acct rt = Some a ->
  s_rtclaims (reg_runtime_apply s rt) =
  match any_runtime s (r_id rt) with
  | Some old => match rt_acct old with
                | Some b => if b =? a then padd (a, r_id rt) (s_rtclaims s)
                            else pdel (b, r_id rt) (padd (a, r_id rt) (s_rtclaims s))
                | None => padd (a, r_id rt) (s_rtclaims s)
                end
  | None => padd (a, r_id rt) (s_rtclaims s)
  end.
Proof.
  intros Ha. unfold reg_runtime_apply, any_runtime. rewrite Ha.
  destruct (aget (r_id rt) (s_rts s)) as [x|] eqn:E1;
    destruct (aget (r_id rt) (s_susp s)) as [y|] eqn:E2;
    try destruct (rt_acct x) as [bx|]; try destruct (rt_acct y) as [by'|];
    try destruct (bx =? a); try destruct (by' =? a);
    try destruct (r_ent x =? r_ent rt); try destruct (r_ent y =? r_ent rt); reflexivity.
Qed.

Lemma own_apply s rt : OWN_ok s -> OWN_ok (reg_runtime_apply s rt).
Proof.
  intros H e r. rewrite apply_rtown, any_rt_apply.
  destruct (N.eqb_spec (r_id rt) r) as [<-|Hne].
  - destruct (any_runtime s (r_id rt)) as [old|] eqn:Eo.
    + destruct (N.eqb_spec (r_ent old) (r_ent rt)) as [Ee|Ene].
      * rewrite (H e (r_id rt)), Eo. split; intros [x [A B]]; injection A as <-; eexists; split; eauto; congruence.
      * rewrite pmem_padd, pmem_pdel, (H e (r_id rt)), Eo. split.
        -- intros [A|[A [x [B C]]]].
           ++ injection A as ->. eauto.
           ++ injection B as <-. exfalso. apply A. congruence.
        -- intros [x [A B]]. injection A as <-. left. congruence.
    + rewrite pmem_padd, (H e (r_id rt)), Eo. split.
      * intros [A|[x [A _]]]; [injection A as ->; eauto|discriminate].
      * intros [x [A B]]. injection A as <-. left. congruence.
  - assert (Hp : forall l p q, q <> r -> pmem (e, r) (padd (p, q) l) = pmem (e, r) l).
    { intros l p q Hq. destruct (pmem (e, r) (padd (p, q) l)) eqn:X.
      - apply pmem_padd in X as [X|X]; [injection X as _ X; congruence|auto].
      - destruct (pmem (e, r) l) eqn:Y; [|reflexivity].
        assert (Z : pmem (e, r) (padd (p, q) l) = true) by (apply pmem_padd; auto). congruence. }
    assert (Hd : forall l p q, q <> r -> pmem (e, r) (pdel (p, q) l) = pmem (e, r) l).
    { intros l p q Hq. destruct (pmem (e, r) (pdel (p, q) l)) eqn:X.
      - apply pmem_pdel in X as [_ X]. auto.
      - destruct (pmem (e, r) l) eqn:Y; [|reflexivity].
        assert (Z : pmem (e, r) (pdel (p, q) l) = true).
        { apply pmem_pdel. split; [|exact Y]. intros W. injection W as _ W. congruence. }
        congruence. }
    destruct (any_runtime s (r_id rt)) as [old|];
      [destruct (r_ent old =? r_ent rt)|]; rewrite ?Hp, ?Hd by exact Hne; apply H.
Qed.

Lemma rcl_apply s rt a : rt_acct rt = Some a -> RCL_ok s -> RCL_ok (reg_runtime_apply s rt).
Proof.
  intros Ha H a' r. rewrite (apply_rtclaims s rt a Ha), any_rt_apply.
  assert (Hp : forall l p q, q <> r -> pmem (a', r) (padd (p, q) l) = pmem (a', r) l).
  { intros l p q Hq. destruct (pmem (a', r) (padd (p, q) l)) eqn:X.
    - apply pmem_padd in X as [X|X]; [injection X as _ X; congruence|auto].
    - destruct (pmem (a', r) l) eqn:Y; [|reflexivity].
      assert (Z : pmem (a', r) (padd (p, q) l) = true) by (apply pmem_padd; auto). congruence. }
  assert (Hd : forall l p q, q <> r -> pmem (a', r) (pdel (p, q) l) = pmem (a', r) l).
  { intros l p q Hq. destruct (pmem (a', r) (pdel (p, q) l)) eqn:X.
    - apply pmem_pdel in X as [_ X]. auto.
    - destruct (pmem (a', r) l) eqn:Y; [|reflexivity].
      assert (Z : pmem (a', r) (pdel (p, q) l) = true).
      { apply pmem_pdel. split; [|exact Y]. intros W. injection W as _ W. congruence. }
      congruence. }
  destruct (N.eqb_spec (r_id rt) r) as [<-|Hne].
  - assert (Goal1 : forall P : Prop, (P <-> a' = a) ->
              (P <-> exists x, Some rt = Some x /\ rt_acct x = Some a')).
    { intros P HP. rewrite HP. split.
      - intros ->. eauto.
      - intros [x [A B]]. injection A as <-. congruence. }
    apply Goal1.
    destruct (any_runtime s (r_id rt)) as [old|] eqn:Eo.
    + destruct (rt_acct old) as [b|] eqn:Eb.
      * destruct (N.eqb_spec b a) as [->|Hba].
        -- rewrite pmem_padd, (H a' (r_id rt)), Eo. split.
           ++ intros [A|[x [A B]]]; [congruence|]. injection A as <-. congruence.
           ++ intros ->. left. reflexivity.
        -- rewrite pmem_pdel, pmem_padd, (H a' (r_id rt)), Eo. split.
           ++ intros [A [B|[x [B C]]]]; [congruence|]. injection B as <-. exfalso. apply A. congruence.
           ++ intros ->. split; [intros W; injection W as W; congruence|left; reflexivity].
      * rewrite pmem_padd, (H a' (r_id rt)), Eo. split.
        -- intros [A|[x [A B]]]; [congruence|]. injection A as <-. congruence.
        -- intros ->. left. reflexivity.
    + rewrite pmem_padd, (H a' (r_id rt)), Eo. split.
      * intros [A|[x [A _]]]; [congruence|discriminate].
      * intros ->. left. reflexivity.
  - destruct (any_runtime s (r_id rt)) as [old|]; [destruct (rt_acct old) as [b|]; [destruct (b =? a)|]|];
      rewrite ?Hd, ?Hp by exact Hne; apply H.
Qed.

Section RtAll.
  Variable addr : N -> N.
  Variable fixed : bool.
  Variables maxexp debond : N.
  Notation stp := (step addr fixed maxexp debond).

  Lemma step_rt s o : tx_op o = true -> Inv_rt s -> Inv_rt (snd (stp s o)).
  Proof.
    intros Htx Hinv. destruct o; try discriminate; cbn [step].
    - destruct (reg_entity_check txs e dsigner sig_ok); exact Hinv.
    - destruct (dereg_entity_check s txs); exact Hinv.
    - destruct (reg_node_check maxexp s txs n dsigners sig_ok); try exact Hinv. cbn [snd].
      match goal with |- Inv_rt (fold_left resume_one ?l ?s0) =>
        assert (D0 : RT_disj s0) by exact (proj1 Hinv);
        destruct (resume_fold_rt l s0 D0) as [A B]; use_core l s0;
        apply (inv_rt_same_lookup s0); [exact A|exact B|exact HCrtown|exact HCrtclaims|exact Hinv]
      end.
    - cbn [snd]. unfold epoch_change. eapply inv_rt_ext; [apply epoch_fold_rcore|].
      use_mark e (sorted_ids s) (with_epoch s e).
      eapply inv_rt_ext; [|exact Hinv]. unfold rcore. rewrite HMrts, HMsusp, HMrtown, HMrtclaims. reflexivity.
    - destruct (reg_runtime_check s caller rt) eqn:EC; try exact Hinv. cbn [snd].
      apply reg_runtime_ok in EC as (Hg & _ & _).
      assert (Ha : exists a, rt_acct rt = Some a).
      { unfold rt_acct. destruct Hg as [E|E]; rewrite E; eexists; reflexivity. }
      destruct Ha as [a Ha]. destruct Hinv as (H1 & H2 & H3).
      split; [apply disj_apply; exact H1|split; [apply own_apply; exact H2|eapply rcl_apply; eauto]].
    - destruct (aget r (s_rts s)) as [rt|] eqn:Er; [|exact Hinv]. cbn [snd].
      apply (inv_rt_same_lookup s); try reflexivity; [| |exact Hinv].
      + intros r'. unfold any_runtime; cbn [s_rts s_susp with_rts with_susp].
        rewrite aget_adel_gen, aget_aset_gen. destruct (N.eqb_spec r r') as [<-|Hne]; [rewrite Er|]; reflexivity.
      + intros x; cbn [s_rts s_susp with_rts with_susp]. rewrite aget_adel_gen, aget_aset_gen.
        destruct (N.eqb_spec r x) as [<-|Hne]; [intros W; exfalso; apply W; reflexivity|apply (proj1 Hinv)].
    - status_ops Hinv.
    - status_ops Hinv.
  Qed.

  Lemma run_rt ops : forall s, Inv_rt s -> forallb tx_op ops = true ->
    Inv_rt (run addr fixed maxexp debond ops s).
  Proof.
    induction ops as [|o r IH]; intros s Hinv Htx; [exact Hinv|].
    cbn [forallb] in Htx. apply andb_true_iff in Htx as [Ho Hr].
    unfold run. cbn [fold_left]. apply IH; auto. apply step_rt; auto.
  Qed.
End RtAll.

Section RtAuth.
  Variable addr : N -> N.
  Variable fixed : bool.
  Variables maxexp debond : N.
  Notation stp := (step addr fixed maxexp debond).

  Lemma suspend_lookup s r rt r' :
    aget r (s_rts s) = Some rt ->
    any_runtime (with_susp (with_rts s (adel r (s_rts s))) (aset r rt (s_susp s))) r' = any_runtime s r'.
  Proof.
    intros Er. unfold any_runtime; cbn [s_rts s_susp with_rts with_susp].
    rewrite aget_adel_gen, aget_aset_gen. destruct (N.eqb_spec r r') as [<-|Hne]; [rewrite Er|]; reflexivity.
  Qed.

  (* a runtime descriptor (active or suspended) changes only by a RegisterRuntime
     whose caller is the account controlling the EXISTING descriptor (entity
     governance: the owning entity; runtime governance: the runtime itself), or
     the new descriptor's controlling account if the runtime is new; kind is
     kept and governance may only go from entity to runtime *)
  Lemma authority_runtime s o s' r :
    tx_op o = true -> Inv_rt s -> stp s o = (COk, s') ->
    any_runtime s' r <> any_runtime s r ->
    exists caller rt,
      o = TRegRuntime caller rt /\ r_id rt = r /\ any_runtime s' r = Some rt /\
      (r_gov rt = 1 \/ r_gov rt = 2) /\
      match any_runtime s r with
      | Some old => rt_acct old = Some caller /\ r_kind old = r_kind rt /\
                    (r_gov old = r_gov rt \/ (r_gov old = 1 /\ r_gov rt = 2)) /\
                    km_changed (r_km old) (r_km rt) = false /\
                    r_genesis old = r_genesis rt /\
                    deps_update_ok (s_epoch s) (r_deps old) (r_deps rt) = true /\
                    active_kept (s_epoch s) (r_deps old) (r_deps rt) = true
      | None => rt_acct rt = Some caller /\ active_deployment (s_epoch s) (r_deps rt) = None
      end.
  Proof.
    intros Htx Hinv H Hch. destruct o; try discriminate; cbn [step] in H.
    - destruct (reg_entity_check txs e dsigner sig_ok); try discriminate; injection H as <-; exfalso; apply Hch; reflexivity.
    - destruct (dereg_entity_check s txs); try discriminate; injection H as <-; exfalso; apply Hch; reflexivity.
    - destruct (reg_node_check maxexp s txs n dsigners sig_ok); try discriminate. injection H as <-.
      exfalso. apply Hch.
      match goal with |- any_runtime (fold_left resume_one ?l ?s0) r = _ =>
        destruct (resume_fold_rt l s0 (proj1 Hinv)) as [A _]; rewrite A; reflexivity end.
    - injection H as <-. exfalso. apply Hch. unfold epoch_change.
      pose proof (epoch_fold_rcore addr debond e (sorted_ids s)
                    (fold_left (mark_one e) (sorted_ids s) (with_epoch s e))) as R.
      unfold rcore in R. injection R as R1 R2 _ _.
      use_mark e (sorted_ids s) (with_epoch s e).
      apply any_rt_ext; [rewrite R1, HMrts|rewrite R2, HMsusp]; reflexivity.
    - destruct (reg_runtime_check s caller rt) eqn:EC; try discriminate. injection H as <-.
      rewrite any_rt_apply in Hch |- *.
      destruct (N.eqb_spec (r_id rt) r) as [E|Hne]; [|exfalso; apply Hch; reflexivity].
      apply reg_runtime_ok in EC as (Hg & _ & Hc). rewrite E in Hc.
      exists caller, rt. repeat split; auto.
    - destruct (aget r0 (s_rts s)) as [rt|] eqn:Er; try discriminate. injection H as <-.
      exfalso. apply Hch. apply suspend_lookup. exact Er.
    - destruct (unfreeze_check s txs id); try discriminate.
      destruct (aget id (s_status s)); injection H as <-; exfalso; apply Hch; reflexivity.
    - destruct (aget id (s_status s)); try discriminate. injection H as <-. exfalso. apply Hch. reflexivity.
  Qed.

  (* rejected runtime registrations *)
  Lemma wrong_runtime_caller_rejected s caller rt :
    (match any_runtime s (r_id rt) with
     | Some old => rt_acct old <> Some caller
     | None => rt_acct rt <> Some caller
     end) ->
    fst (stp s (TRegRuntime caller rt)) <> COk /\ snd (stp s (TRegRuntime caller rt)) = s.
  Proof.
    intros Hw. cbn [step]. destruct (reg_runtime_check s caller rt) eqn:EC;
      cbn [fst snd]; try (split; [discriminate|reflexivity]).
    exfalso. apply reg_runtime_ok in EC as (_ & _ & Hc).
    destruct (any_runtime s (r_id rt)); destruct Hc as [Hc _]; contradiction.
  Qed.

  (* an entity cannot be removed while a runtime record (active or suspended) names it as owner *)
  Lemma entity_not_removable_while_owning_runtime_records s e r rt :
    Inv_rt s -> any_runtime s r = Some rt -> r_ent rt = e -> has_entity_nodes s e = false ->
    stp s (TDeregEntity e) = (CEntityHasRuntimes, s).
  Proof.
    intros (_ & Hown & _) Hr He Hn.
    apply (entity_not_removable_while_owning_runtimes addr fixed maxexp debond s e r); [|exact Hn].
    apply Hown. eauto.
  Qed.

  Lemma has_entity_runtimes_mirror s e :
    Inv_rt s ->
    (has_entity_runtimes s e = true <-> exists r rt, any_runtime s r = Some rt /\ r_ent rt = e).
  Proof.
    intros (_ & Hown & _). unfold has_entity_runtimes. rewrite has_fst_spec. split.
    - intros [r H]. apply Hown in H as [rt Hrt]. eauto.
    - intros [r [rt Hrt]]. exists r. apply Hown. eauto.
  Qed.

  (* history-level statements from the initial state *)
  Lemma rt_by_entity_hist ops e :
    forallb tx_op ops = true ->
    (has_entity_runtimes (run addr fixed maxexp debond ops st0) e = true <->
     exists r rt, any_runtime (run addr fixed maxexp debond ops st0) r = Some rt /\ r_ent rt = e).
  Proof. intros H. apply has_entity_runtimes_mirror, run_rt; [exact Inv_rt_st0|exact H]. Qed.

  Lemma rt_claims_hist ops a r :
    forallb tx_op ops = true ->
    (pmem (a, r) (s_rtclaims (run addr fixed maxexp debond ops st0)) = true <->
     exists rt, any_runtime (run addr fixed maxexp debond ops st0) r = Some rt /\ rt_acct rt = Some a).
  Proof. intros H. apply (run_rt addr fixed maxexp debond ops st0 Inv_rt_st0 H). Qed.

  Lemma dereg_hist ops e r rt :
    forallb tx_op ops = true ->
    any_runtime (run addr fixed maxexp debond ops st0) r = Some rt -> r_ent rt = e ->
    fst (stp (run addr fixed maxexp debond ops st0) (TDeregEntity e)) <> COk /\
    snd (stp (run addr fixed maxexp debond ops st0) (TDeregEntity e)) = run addr fixed maxexp debond ops st0.
  Proof.
    intros H Hr He. cbn [step]. unfold dereg_entity_check.
    destruct (has_entity_nodes (run addr fixed maxexp debond ops st0) e); [split; [discriminate|reflexivity]|].
    assert (X : has_entity_runtimes (run addr fixed maxexp debond ops st0) e = true).
    { apply has_entity_runtimes_mirror; [apply run_rt; [exact Inv_rt_st0|exact H]|eauto]. }
    rewrite X. split; [discriminate|reflexivity].
  Qed.

  (* ---------- threshold kinds stored with the node claims ---------- *)
  Definition Inv_thr (s : state) : Prop :=
    forall id, aget id (s_nthr s) = option_map node_kinds (aget id (s_nodes s)).

  Lemma epoch_fold_thr e l : forall s, Inv_thr s -> Inv_thr (fold_left (epoch_one addr debond e) l s).
  Proof.
    induction l as [|id0 r IH]; intros s H; [exact H|]. cbn [fold_left]. apply IH.
    unfold epoch_one. destruct (aget id0 (s_nodes s)) as [n|]; [|exact H].
    destruct ((n_exp n <? e) && (n_exp n + debond <? e)); [|exact H].
    intros id. unfold remove_node;
      cbn [s_nthr s_nodes with_status with_nthr with_claims with_nodes with_byent with_addr with_keymap].
    rewrite !aget_adel_gen. destruct (n_id n =? id); [reflexivity|apply H].
  Qed.

  Lemma step_thr s o : tx_op o = true -> Inv_thr s -> Inv_thr (snd (stp s o)).
  Proof.
    intros Htx H. destruct o; try discriminate; cbn [step].
    - destruct (reg_entity_check txs e dsigner sig_ok); exact H.
    - destruct (dereg_entity_check s txs); exact H.
    - destruct (reg_node_check maxexp s txs n dsigners sig_ok); try exact H. cbn [snd].
      match goal with |- Inv_thr (fold_left resume_one ?l ?s0) => use_core l s0 end.
      intros id. rewrite HCnthr, HCnodes.
      cbn [set_node s_nthr s_nodes with_status with_nthr with_claims with_nodes with_byent with_addr with_keymap].
      rewrite !aget_aset_gen. destruct (n_id n =? id); [reflexivity|apply H].
    - cbn [snd]. unfold epoch_change. apply epoch_fold_thr.
      use_mark e (sorted_ids s) (with_epoch s e). intros id. rewrite HMnthr, HMnodes. apply H.
    - destruct (reg_runtime_check s caller rt); try exact H. cbn [snd].
      use_ncore s rt. intros id. rewrite HNnthr, HNnodes. apply H.
    - destruct (aget r (s_rts s)); exact H.
    - status_ops H.
    - status_ops H.
  Qed.

  Lemma thr_hist ops : forall s, Inv_thr s -> forallb tx_op ops = true ->
    Inv_thr (run addr fixed maxexp debond ops s).
  Proof.
    induction ops as [|o r IH]; intros s Hinv Htx; [exact Hinv|].
    cbn [forallb] in Htx. apply andb_true_iff in Htx as [Ho Hr].
    unfold run. cbn [fold_left]. apply IH; auto. apply step_thr; auto.
  Qed.

  Lemma node_claim_kinds_hist ops id :
    forallb tx_op ops = true ->
    aget id (s_nthr (run addr fixed maxexp debond ops st0)) =
    option_map node_kinds (aget id (s_nodes (run addr fixed maxexp debond ops st0))).
  Proof. intros H. apply thr_hist; [intros x; reflexivity|exact H]. Qed.
End RtAuth.
