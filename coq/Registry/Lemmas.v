(* Basic lemmas about Verif.Registry.Model: pair sets, index-operation lookups, SetNode order (property C17). *)
From Verif Require Import Lib.Base Registry.Model.

(* ---------- pair sets ---------- *)
Lemma pair_eqb_true a b : pair_eqb a b = true <-> a = b.
Proof.
  destruct a as [a1 a2], b as [b1 b2]; unfold pair_eqb; cbn [fst snd]. split.
  - intros H. apply andb_true_iff in H as [H1 H2].
    apply N.eqb_eq in H1. apply N.eqb_eq in H2. congruence.
  - intros H. injection H as -> ->. rewrite !N.eqb_refl. reflexivity.
Qed.

Lemma pmem_padd p q l : pmem p (padd q l) = true <-> p = q \/ pmem p l = true.
Proof.
  unfold padd. destruct (pmem q l) eqn:E.
  - split; [tauto|]. intros [->|H]; assumption.
  - cbn [pmem]. rewrite orb_true_iff, pair_eqb_true. split; intros [H|H]; auto.
Qed.

Lemma pmem_pdel p q l : pmem p (pdel q l) = true <-> p <> q /\ pmem p l = true.
Proof.
  induction l as [|x r IH]; cbn [pdel pmem].
  - split; [discriminate|]. intros [_ H]; discriminate.
  - destruct (pair_eqb x q) eqn:E.
    + apply pair_eqb_true in E. subst x. rewrite IH. rewrite orb_true_iff, pair_eqb_true.
      split; [tauto|]. intros [Hne [H|H]]; [congruence|tauto].
    + cbn [pmem]. rewrite !orb_true_iff, IH, pair_eqb_true.
      split.
      * intros [H|[H1 H2]]; [|tauto]. subst x. split; [|tauto].
        intros ->. assert (pair_eqb q q = true) by (apply pair_eqb_true; reflexivity). congruence.
      * intros [Hne [H|H]]; tauto.
Qed.

Lemma has_fst_spec e l : has_fst e l = true <-> exists x, pmem (e, x) l = true.
Proof.
  induction l as [|[a b] r IH]; cbn [has_fst pmem].
  - split; [discriminate|]. intros [x H]; discriminate.
  - rewrite orb_true_iff, IH. split.
    + intros [H|[x H]].
      * apply N.eqb_eq in H. subst a. exists b.
        apply orb_true_iff. left. apply pair_eqb_true. reflexivity.
      * exists x. apply orb_true_iff. right. exact H.
    + intros [x H]. apply orb_true_iff in H as [H|H].
      * apply pair_eqb_true in H. injection H as -> ->. left. apply N.eqb_refl.
      * right. exists x. exact H.
Qed.

Lemma nmem_In x l : nmem x l = true <-> In x l.
Proof.
  induction l as [|y r IH]; cbn [nmem In].
  - split; [discriminate|tauto].
  - rewrite orb_true_iff, IH, N.eqb_eq. tauto.
Qed.

(* ---------- lookups after a list of index operations ---------- *)
Fixpoint klookup (k : N) (ops : list kop) (d : option N) : option N :=
  match ops with
  | [] => d
  | KDel x :: r => klookup k r (if x =? k then None else d)
  | KSet x v :: r => klookup k r (if x =? k then Some v else d)
  end.

Lemma aget_adel k x (m : list (N * N)) :
  aget k (adel x m) = if x =? k then None else aget k m.
Proof.
  destruct (N.eqb_spec x k) as [->|Hne].
  - apply aget_adel_same.
  - apply aget_adel_other. congruence.
Qed.

Lemma aget_aset k x v (m : list (N * N)) :
  aget k (aset x v m) = if x =? k then Some v else aget k m.
Proof.
  destruct (N.eqb_spec x k) as [->|Hne].
  - apply aget_aset_same.
  - apply aget_aset_other. congruence.
Qed.

Lemma aget_kapply_all k ops : forall m, aget k (kapply_all ops m) = klookup k ops (aget k m).
Proof.
  induction ops as [|o r IH]; intros m; [reflexivity|].
  unfold kapply_all in *. cbn [fold_left]. rewrite IH.
  destruct o as [x|x v]; cbn [kapply klookup]; [rewrite aget_adel|rewrite aget_aset]; reflexivity.
Qed.

(* generic versions for maps with other value types *)
Lemma aget_adel_gen {V} k x (m : list (N * V)) :
  aget k (adel x m) = if x =? k then None else aget k m.
Proof.
  destruct (N.eqb_spec x k) as [->|Hne].
  - apply aget_adel_same.
  - apply aget_adel_other. congruence.
Qed.
Lemma aget_aset_gen {V} k x (v : V) (m : list (N * V)) :
  aget k (aset x v m) = if x =? k then Some v else aget k m.
Proof.
  destruct (N.eqb_spec x k) as [->|Hne].
  - apply aget_aset_same.
  - apply aget_aset_other. congruence.
Qed.

(* ---------- the key lists of a node ---------- *)
Definition keys (n : node) : list N := [n_cons n; n_p2p n; n_vrf n; n_tls n].
Definition okeys (ex : option node) : list N := match ex with Some o => keys o | None => [] end.

(* An update "exchanges" keys when the new key of an earlier kind (in the order
   SetNode processes them: consensus, P2P, VRF, TLS) is the old, changed key of
   a later kind. *)
Definition exchange (old n : node) : bool :=
  ((n_cons n =? n_p2p old) && negb (n_p2p old =? n_p2p n)) ||
  ((n_cons n =? n_vrf old) && negb (n_vrf old =? n_vrf n)) ||
  ((n_cons n =? n_tls old) && negb (n_tls old =? n_tls n)) ||
  ((n_p2p n =? n_vrf old) && negb (n_vrf old =? n_vrf n)) ||
  ((n_p2p n =? n_tls old) && negb (n_tls old =? n_tls n)) ||
  ((n_vrf n =? n_tls old) && negb (n_tls old =? n_tls n)).

Ltac eqb_split :=
  repeat match goal with
         | H : context [?a =? ?b] |- _ => destruct (N.eqb_spec a b); subst; cbn in H
         | |- context [?a =? ?b] => destruct (N.eqb_spec a b); subst; cbn
         end.

(* closed form of the reordered update *)
Lemma klookup_fixed ex n k d :
  klookup k (keymap_ops_fixed ex n) d =
  if nmem k (keys n) then Some (n_id n) else if nmem k (okeys ex) then None else d.
Proof.
  destruct n as [id ent c p v t e ro rs]. destruct ex as [[oid oent oc op ov ot oe oro ors]|];
    unfold keymap_ops_fixed, del_if_changed, keys, okeys; cbn [option_map n_cons n_p2p n_vrf n_tls n_id nmem].
  - eqb_split; try reflexivity; try congruence.
  - cbn. eqb_split; try reflexivity; try congruence.
Qed.

(* the code's per-kind order gives the same lookups as the reordered one
   whenever the new keys are pairwise distinct and the update exchanges nothing *)
Lemma klookup_faithful_eq_fixed old n k d :
  has_dup (keys n) = false -> exchange old n = false ->
  klookup k (keymap_ops (Some old) n) d = klookup k (keymap_ops_fixed (Some old) n) d.
Proof.
  destruct n as [id ent c p v t e ro rs]. destruct old as [oid oent oc op ov ot oe oro ors].
  unfold keymap_ops, keymap_ops_fixed, del_if_changed, keys, exchange;
    cbn [option_map n_cons n_p2p n_vrf n_tls n_id has_dup nmem].
  intros Hd Hx.
  eqb_split; try reflexivity; try congruence; try discriminate.
Qed.

Lemma klookup_new n k d :
  klookup k (keymap_ops None n) d = klookup k (keymap_ops_fixed None n) d.
Proof. reflexivity. Qed.
