(* The consensus-address index (property C17), in "\/ collision of the address
   function" form; exactness of the exchange side condition. *)
From Verif Require Import Lib.Base Registry.Model Registry.Lemmas Registry.Proofs.

Definition collision (addr : N -> N) : Prop := exists x y, x <> y /\ addr x = addr y.

Definition AD_ok (addr : N -> N) (s : state) : Prop :=
  forall a id, aget a (s_addr s) = Some id <->
               exists n, aget id (s_nodes s) = Some n /\ addr (n_cons n) = a.

Lemma aget_In {V} k (v : V) l : aget k l = Some v -> In (k, v) l.
Proof.
  induction l as [|[k' v'] r IH]; cbn [aget]; [discriminate|].
  destruct (N.eqb_spec k' k) as [->|Hne].
  - intros [= ->]. left. reflexivity.
  - intros H. right. apply IH. exact H.
Qed.

(* either some key different from c has c's address, or every record whose
   consensus key has c's address has consensus key c *)
Lemma clash_or_not (addr : N -> N) (nodes : list (N * node)) c :
  (exists x, x <> c /\ addr x = addr c) \/
  (forall id m, In (id, m) nodes -> addr (n_cons m) = addr c -> n_cons m = c).
Proof.
  induction nodes as [|[id0 m0] r IH]; [right; intros id m []|].
  destruct IH as [IH|IH]; [left; exact IH|].
  destruct (N.eq_dec (n_cons m0) c) as [E|Hne].
  - right. intros id m [H|H] Ha; [injection H as _ <-; exact E|eapply IH; eauto].
  - destruct (N.eq_dec (addr (n_cons m0)) (addr c)) as [Ea|Hna].
    + left. exists (n_cons m0). auto.
    + right. intros id m [H|H] Ha; [injection H as _ <-; contradiction|eapply IH; eauto].
Qed.

Section Addr.
  Variable addr : N -> N.
  Variables maxexp debond : N.

  Lemma epoch_one_ad e s id : Inv_index s -> AD_ok addr s -> AD_ok addr (epoch_one addr debond e s id).
  Proof.
    intros (Hids & _ & _) Had. unfold epoch_one.
    destruct (aget id (s_nodes s)) as [n|] eqn:En; [|exact Had].
    destruct ((n_exp n <? e) && (n_exp n + debond <? e)); [|exact Had].
    pose proof (Hids _ _ En) as Hid. intros a id'. unfold remove_node;
      cbn [s_addr s_nodes with_status with_nthr with_claims with_nodes with_byent with_addr with_keymap].
    rewrite Hid, !aget_adel_gen. split.
    - destruct (N.eqb_spec (addr (n_cons n)) a) as [Ea|Hna]; [discriminate|].
      intros H. apply Had in H as [m [Hm Ha]]. exists m. split; [|exact Ha].
      destruct (N.eqb_spec id id') as [<-|Hne]; [|exact Hm].
      exfalso. rewrite En in Hm. injection Hm as <-. contradiction.
    - intros [m [Hm Ha]]. destruct (N.eqb_spec id id') as [<-|Hne]; [discriminate|].
      destruct (N.eqb_spec (addr (n_cons n)) a) as [Ea|Hna]; [|apply Had; eauto].
      exfalso. assert (A : aget a (s_addr s) = Some id') by (apply Had; eauto).
      assert (B : aget a (s_addr s) = Some id) by (apply Had; eauto). congruence.
  Qed.

  Lemma epoch_fold_ad e l : forall s, Inv_index s -> AD_ok addr s ->
    AD_ok addr (fold_left (epoch_one addr debond e) l s).
  Proof.
    induction l as [|id r IH]; intros s Hi Ha; [exact Ha|]. cbn [fold_left].
    apply IH; [apply epoch_one_inv; exact Hi|apply epoch_one_ad; assumption].
  Qed.

  Lemma step_ad fixed s o :
    tx_op o = true -> Inv_index s -> AD_ok addr s ->
    AD_ok addr (snd (step addr fixed maxexp debond s o)) \/ collision addr.
  Proof.
    intros Htx Hinv Had. destruct o; try discriminate; cbn [step].
    - left. destruct (reg_entity_check txs e dsigner sig_ok); exact Had.
    - left. destruct (dereg_entity_check s txs); exact Had.
    - destruct (reg_node_check maxexp s txs n dsigners sig_ok) eqn:EC; try (left; exact Had).
      apply reg_node_ok in EC as (_ & _ & _ & _ & Hd & _ & Hcur & _).
      destruct (clash_or_not addr (s_nodes s) (n_cons n)) as [[x [Hx Hax]]|Hno];
        [right; exists x, (n_cons n); auto|left].
      cbn [snd]. match goal with |- AD_ok addr (fold_left resume_one ?l ?s0) => use_core l s0 end.
      intros a id'. rewrite HCaddr, HCnodes.
      cbn [set_node s_addr s_nodes with_status with_nthr with_claims with_nodes with_byent with_addr with_keymap].
      assert (Hops : kapply_all (addr_ops addr (aget (n_id n) (s_nodes s)) n) (s_addr s)
                     = aset (addr (n_cons n)) (n_id n) (s_addr s)).
      { unfold addr_ops. destruct (aget (n_id n) (s_nodes s)) as [old|] eqn:Eo; [|reflexivity].
        destruct (Hcur old eq_refl) as [_ Hc]. rewrite Hc, N.eqb_refl. reflexivity. }
      rewrite Hops, !aget_aset_gen. destruct Hinv as (Hids & Hkm & _). split.
      + destruct (N.eqb_spec (addr (n_cons n)) a) as [Ea|Hna].
        * intros [= <-]. rewrite N.eqb_refl. eauto.
        * intros H. apply Had in H as [m [Hm Ha]]. exists m. split; [|exact Ha].
          destruct (N.eqb_spec (n_id n) id') as [E|Hne]; [|exact Hm]. exfalso.
          rewrite <- E in Hm. destruct (Hcur m Hm) as [_ Hc]. congruence.
      + intros [m [Hm Ha]]. destruct (N.eqb_spec (n_id n) id') as [E|Hne].
        * injection Hm as <-. rewrite Ha, N.eqb_refl. congruence.
        * destruct (N.eqb_spec (addr (n_cons n)) a) as [Ea|Hna]; [|apply Had; eauto].
          exfalso. assert (Hc : n_cons m = n_cons n).
          { apply (Hno id' m); [apply aget_In; exact Hm|congruence]. }
          assert (Hk : aget (n_cons n) (s_keymap s) = Some id').
          { apply Hkm. exists m. split; [exact Hm|]. left. exact Hc. }
          assert (Hdup : dup_subkey s n (n_cons n) = false) by (apply Hd; left; reflexivity).
          unfold dup_subkey, node_by_subkey in Hdup. rewrite Hk, Hm in Hdup.
          apply negb_false_iff in Hdup. apply N.eqb_eq in Hdup.
          pose proof (Hids _ _ Hm). congruence.
    - left. cbn [snd]. unfold epoch_change.
      use_mark e (sorted_ids s) (with_epoch s e). apply epoch_fold_ad.
      + apply inv_index_mark. exact Hinv.
      + intros a id'. rewrite HMaddr, HMnodes. apply Had.
    - left. destruct (reg_runtime_check s caller rt); try exact Had. cbn [snd].
      use_ncore s rt. intros a id'. rewrite HNaddr, HNnodes. apply Had.
    - left. destruct (aget r (s_rts s)); exact Had.
    - left. status_ops Had.
    - left. status_ops Had.
  Qed.

  Lemma run_ad ops : forall s, Inv_index s -> AD_ok addr s -> forallb tx_op ops = true ->
    AD_ok addr (run addr true maxexp debond ops s) \/ collision addr.
  Proof.
    induction ops as [|o r IH]; intros s Hi Ha Htx; [left; exact Ha|].
    cbn [forallb] in Htx. apply andb_true_iff in Htx as [Ho Hr].
    unfold run. cbn [fold_left].
    destruct (step_ad true s o Ho Hi Ha) as [A|C]; [|right; exact C].
    apply IH; auto. apply step_inv; auto.
  Qed.

  Lemma ad_st0 : AD_ok addr st0.
  Proof. intros a id. cbn. split; [discriminate|]. intros [n [H _]]. discriminate. Qed.

  Lemma node_by_addr_correct s :
    IDS (s_nodes s) -> AD_ok addr s ->
    (forall id n, aget id (s_nodes s) = Some n -> node_by_addr s (addr (n_cons n)) = Some n) /\
    (forall a n, node_by_addr s a = Some n -> addr (n_cons n) = a /\ aget (n_id n) (s_nodes s) = Some n).
  Proof.
    intros Hids Had. split.
    - intros id n Hn. unfold node_by_addr.
      assert (A : aget (addr (n_cons n)) (s_addr s) = Some id) by (apply Had; eauto).
      rewrite A. exact Hn.
    - intros a n H. unfold node_by_addr in H. destruct (aget a (s_addr s)) as [id|] eqn:E; [|discriminate].
      apply Had in E as [m [Hm Ha]]. rewrite Hm in H. injection H as <-.
      rewrite (Hids _ _ Hm). auto.
  Qed.
End Addr.

(* ---------- exactness of the exchange condition (for the record) ---------- *)
Lemma exchange_loses_key old n :
  has_dup (keys n) = false -> exchange old n = true ->
  exists k, In k (keys n) /\ forall d, klookup k (keymap_ops (Some old) n) d = None.
Proof.
  destruct n as [id ent c p v t e ro rs]. destruct old as [oid oent oc op ov ot oe oro ors].
  unfold keymap_ops, del_if_changed, keys, exchange;
    cbn [option_map n_cons n_p2p n_vrf n_tls n_id has_dup nmem In].
  intros Hd Hx.
  repeat (apply orb_true_iff in Hx as [Hx|Hx]);
    apply andb_true_iff in Hx as [H1 H2]; apply N.eqb_eq in H1; apply negb_true_iff in H2;
    apply N.eqb_neq in H2.
  1-3: exists c.
  4-5: exists p.
  6: exists v.
  all: split; [tauto|]; intros d; eqb_split; try reflexivity; try congruence; try discriminate.
Qed.

(* with the per-kind SetNode order, an accepted update that exchanges keys
   always breaks the invariant: the side condition of
   Inv_index_holds_without_exchange is exact *)
Lemma exchange_breaks_inv (addr : N -> N) maxexp debond s txs n signers ok old :
  Inv_index s -> aget (n_id n) (s_nodes s) = Some old -> exchange old n = true ->
  fst (step addr false maxexp debond s (TRegNode txs n signers ok)) = COk ->
  ~ Inv_index (snd (step addr false maxexp debond s (TRegNode txs n signers ok))).
Proof.
  intros Hinv Hold Hx Hok Hinv'. cbn [step] in Hok, Hinv'.
  destruct (reg_node_check maxexp s txs n signers ok) eqn:EC; try discriminate.
  apply reg_node_ok in EC as (_ & _ & _ & _ & _ & Hdup & _ & _).
  destruct (exchange_loses_key old n Hdup Hx) as [k [Hk Hl]].
  cbn [snd] in Hinv'.
  assert (F : node_by_subkey (fold_left resume_one (n_rts n)
                 (with_status (with_nthr (set_node addr false (aget (n_id n) (s_nodes s)) n
                    (with_claims s (padd (n_ent n, n_id n + 1) (s_claims s))))
                    (aset (n_id n) (node_kinds n) (s_nthr s))) (reg_status s n))) k = Some n).
  { apply (found_under_each_key _ (n_id n)); [exact Hinv'| |exact Hk].
    match goal with |- context [fold_left resume_one ?l ?s0] => use_core l s0 end.
    rewrite HCnodes. cbn [set_node s_nodes with_status with_nthr with_claims with_nodes with_byent with_addr with_keymap].
    apply aget_aset_same. }
  unfold node_by_subkey in F.
  match type of F with context [fold_left resume_one ?l ?s0] => use_core l s0 end.
  rewrite HCkeymap in F.
  cbn [set_node s_keymap with_status with_nthr with_claims with_nodes with_byent with_addr with_keymap] in F.
  rewrite aget_kapply_all, Hold, Hl in F. discriminate.
Qed.
