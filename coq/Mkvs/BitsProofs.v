(* Facts about bit paths, byte order and label packing. *)
From Verif Require Import Lib.Base Mkvs.Trie.

(* ---------- list helpers ---------- *)
Lemma firstn_len_app {A} (c a : list A) : firstn (length c) (c ++ a) = c.
Proof. induction c as [|x c IH]; cbn; [destruct a; reflexivity|]. now rewrite IH. Qed.
Lemma skipn_len_app {A} (c a : list A) : skipn (length c) (c ++ a) = a.
Proof. induction c as [|x c IH]; cbn; [reflexivity|exact IH]. Qed.
Lemma bit_app_mid (c : path) x a : bit (c ++ x :: a) (length c) = x.
Proof. unfold bit. induction c as [|y c IH]; cbn; [reflexivity|exact IH]. Qed.
Lemma len_app_eqb_nil {A} (c b : list A) :
  (length (c ++ b) =? length c)%nat = match b with [] => true | _ => false end.
Proof.
  rewrite app_length. destruct b; cbn [length].
  - rewrite Nat.add_0_r. apply Nat.eqb_refl.
  - apply Nat.eqb_neq. lia.
Qed.
Lemma len_eqb_app_nil {A} (c b : list A) :
  (length c =? length (c ++ b))%nat = match b with [] => true | _ => false end.
Proof. rewrite Nat.eqb_sym. apply len_app_eqb_nil. Qed.

(* ---------- lcp ---------- *)
Lemma lcp_split (a b : path) :
  exists c a' b', a = c ++ a' /\ b = c ++ b' /\ length c = lcp a b /\
    match a', b' with x :: _, y :: _ => x <> y | _, _ => True end.
Proof.
  revert b; induction a as [|x a IH]; intros b.
  - exists [], [], b. cbn. auto.
  - destruct b as [|y b].
    + exists [], (x :: a), []. cbn. auto.
    + cbn [lcp]. destruct (Bool.eqb x y) eqn:E.
      * apply Bool.eqb_prop in E. subst y.
        destruct (IH b) as (c & a' & b' & -> & -> & Hl & Hd).
        exists (x :: c), a', b'. cbn. auto.
      * exists [], (x :: a), (y :: b). cbn. repeat split; auto.
        intros ->. now rewrite Bool.eqb_reflx in E.
Qed.

(* ---------- is_prefix ---------- *)
Lemma is_prefix_refl p : is_prefix p p.
Proof. exists []. now rewrite app_nil_r. Qed.
Lemma is_prefix_app p s : is_prefix p (p ++ s).
Proof. now exists s. Qed.
Lemma is_prefix_trans p q r : is_prefix p q -> is_prefix q r -> is_prefix p r.
Proof. intros [s ->] [s' ->]. exists (s ++ s'). now rewrite app_assoc. Qed.
Lemma is_prefix_len p q : is_prefix p q -> (length p <= length q)%nat.
Proof. intros [s ->]. rewrite app_length. lia. Qed.
Lemma is_prefix_bit q b k : is_prefix (q ++ [b]) k -> bit k (length q) = b.
Proof. intros [s ->]. rewrite <- app_assoc. cbn. apply bit_app_mid. Qed.
Lemma is_prefix_skipn p k : is_prefix p k -> k = p ++ skipn (length p) k.
Proof. intros [s ->]. now rewrite skipn_len_app. Qed.

(* two prefixes of the same list are comparable *)
Lemma prefix_comparable (p q k : path) :
  is_prefix p k -> is_prefix q k -> is_prefix p q \/ is_prefix q p.
Proof.
  revert q k; induction p as [|x p IH]; intros q k [s Hs] [s' Hs'].
  - left. now exists q.
  - destruct q as [|y q]; [right; now exists (x :: p)|].
    subst k. cbn in Hs'. injection Hs' as -> Hs'.
    destruct (IH q (p ++ s)) as [[u ->]|[u ->]].
    + now exists s.
    + now exists s'.
    + left. now exists u.
    + right. now exists u.
Qed.

(* ---------- the order on paths ---------- *)
Fixpoint pcmp (a b : path) : comparison :=
  match a, b with
  | [], [] => Eq
  | [], _ :: _ => Lt
  | _ :: _, [] => Gt
  | x :: a', y :: b' =>
      match x, y with
      | false, true => Lt
      | true, false => Gt
      | _, _ => pcmp a' b'
      end
  end.

Lemma pcmp_refl a : pcmp a a = Eq.
Proof. induction a as [|[] a IH]; cbn; auto. Qed.

Lemma pcmp_app_same_len u w ra rb :
  length u = length w ->
  pcmp (u ++ ra) (w ++ rb) = match pcmp u w with Eq => pcmp ra rb | c => c end.
Proof.
  revert w; induction u as [|x u IH]; intros [|y w] Hl; cbn in Hl; try discriminate.
  - reflexivity.
  - cbn. destruct x, y; auto.
Qed.

Lemma pcmp_prefix_lt q b s : pcmp q (q ++ b :: s) = Lt.
Proof. induction q as [|[] q IH]; cbn; auto. Qed.
Lemma pcmp_branch_lt q s s' : pcmp (q ++ false :: s) (q ++ true :: s') = Lt.
Proof. induction q as [|[] q IH]; cbn; auto. Qed.

(* ---------- bytes_cmp is a strict total order ---------- *)
Lemma bytes_cmp_refl a : bytes_cmp a a = Eq.
Proof. induction a as [|x a IH]; cbn; [reflexivity|]. now rewrite N.compare_refl. Qed.
Lemma bytes_cmp_eq a b : bytes_cmp a b = Eq -> a = b.
Proof.
  revert b; induction a as [|x a IH]; intros [|y b]; cbn; try discriminate; auto.
  destruct (N.compare x y) eqn:E; try discriminate.
  apply N.compare_eq in E. subst. intros H. f_equal. auto.
Qed.
Lemma bytes_cmp_antisym a b : bytes_cmp b a = CompOpp (bytes_cmp a b).
Proof.
  revert b; induction a as [|x a IH]; intros [|y b]; cbn; auto.
  rewrite (N.compare_antisym x y). destruct (N.compare x y); cbn; auto.
Qed.
Lemma bytes_cmp_trans a b c : bytes_cmp a b = Lt -> bytes_cmp b c = Lt -> bytes_cmp a c = Lt.
Proof.
  revert b c; induction a as [|x a IH]; intros [|y b] [|z c]; cbn; try discriminate; auto.
  destruct (N.compare x y) eqn:E1; try discriminate;
    destruct (N.compare y z) eqn:E2; try discriminate; intros H1 H2.
  - apply N.compare_eq in E1, E2. subst. rewrite N.compare_refl. eauto.
  - apply N.compare_eq in E1. subst. now rewrite E2.
  - apply N.compare_eq in E2. subst. now rewrite E1.
  - apply N.compare_lt_iff in E1. apply N.compare_lt_iff in E2.
    assert (x < z) as Hlt by (eapply N.lt_trans; eassumption).
    apply N.compare_lt_iff in Hlt. now rewrite Hlt.
Qed.
Lemma bytes_cmp_gt_lt a b : bytes_cmp a b = Gt -> bytes_cmp b a = Lt.
Proof. intros H. rewrite bytes_cmp_antisym, H. reflexivity. Qed.
Lemma bytes_cmp_lt_neq a b : bytes_cmp a b = Lt -> a <> b.
Proof. intros H ->. rewrite bytes_cmp_refl in H. discriminate. Qed.
Lemma bytes_eqb_refl a : bytes_eqb a a = true.
Proof. now apply bytes_eqb_eq. Qed.
Lemma bytes_eqb_neq a b : bytes_eqb a b = false <-> a <> b.
Proof.
  split.
  - intros H E. apply bytes_eqb_eq in E. congruence.
  - intros H. destruct (bytes_eqb a b) eqn:E; auto. apply bytes_eqb_eq in E. contradiction.
Qed.

(* ---------- bytes and their bits ---------- *)
Lemma byte_bits_len x : length (byte_bits x) = 8%nat.
Proof. reflexivity. Qed.
Lemma bits_of_len k : length (bits_of k) = (8 * length k)%nat.
Proof. induction k as [|x k IH]; cbn [bits_of length]; [reflexivity|]. rewrite app_length, IH, byte_bits_len. lia. Qed.
Lemma bits_of_app a b : bits_of (a ++ b) = bits_of a ++ bits_of b.
Proof. induction a as [|x a IH]; cbn [bits_of app]; [reflexivity|]. now rewrite IH, app_assoc. Qed.

Definition cmp_eqb (a b : comparison) : bool :=
  match a, b with Eq, Eq | Lt, Lt | Gt, Gt => true | _, _ => false end.
Definition range256 : list N := map N.of_nat (seq 0 256).
Lemma in_range256 x : x < 256 -> In x range256.
Proof.
  intros H. unfold range256. rewrite <- (N2Nat.id x). apply in_map. apply in_seq. lia.
Qed.
Lemma byte_cmp_table :
  forallb (fun x => forallb (fun y => cmp_eqb (pcmp (byte_bits x) (byte_bits y)) (N.compare x y)) range256) range256 = true.
Proof. vm_compute. reflexivity. Qed.
Lemma byte_bits_cmp x y : x < 256 -> y < 256 -> pcmp (byte_bits x) (byte_bits y) = N.compare x y.
Proof.
  intros Hx Hy. pose proof byte_cmp_table as T.
  rewrite forallb_forall in T. specialize (T x (in_range256 x Hx)).
  rewrite forallb_forall in T. specialize (T y (in_range256 y Hy)).
  destruct (pcmp (byte_bits x) (byte_bits y)), (N.compare x y); cbn in T; congruence.
Qed.

Lemma bytes_cmp_bits a b :
  valid_bytes a -> valid_bytes b -> bytes_cmp a b = pcmp (bits_of a) (bits_of b).
Proof.
  intros Ha; revert b; induction Ha as [|x a Hx Ha IH]; intros b Hb.
  - destruct Hb; reflexivity.
  - destruct Hb as [|y b Hy Hb]; [reflexivity|].
    cbn [bytes_cmp bits_of]. rewrite pcmp_app_same_len by reflexivity.
    rewrite byte_bits_cmp by assumption. rewrite IH by assumption. reflexivity.
Qed.

Lemma bits_of_inj a b : valid_bytes a -> valid_bytes b -> bits_of a = bits_of b -> a = b.
Proof.
  intros Ha Hb E. apply bytes_cmp_eq. rewrite bytes_cmp_bits by assumption.
  rewrite E. apply pcmp_refl.
Qed.

(* ---------- pack ---------- *)
Lemma chunk8_ind (P : path -> Prop) :
  (forall p, (length p < 8)%nat -> P p) ->
  (forall b0 b1 b2 b3 b4 b5 b6 b7 rest, P rest ->
      P (b0 :: b1 :: b2 :: b3 :: b4 :: b5 :: b6 :: b7 :: rest)) ->
  forall p, P p.
Proof.
  intros Hs Hc. fix IH 1. intros p.
  destruct p as [|b0 [|b1 [|b2 [|b3 [|b4 [|b5 [|b6 [|b7 rest]]]]]]]];
    try (apply Hs; cbn; lia).
  apply Hc. apply IH.
Qed.

Definition pad_len (n : nat) : nat := ((8 - n mod 8) mod 8)%nat.

Lemma pack_bits p : bits_of (pack p) = p ++ repeat false (pad_len (length p)).
Proof.
  induction p as [p Hl|b0 b1 b2 b3 b4 b5 b6 b7 rest IH] using chunk8_ind.
  - destruct p as [|b0 [|b1 [|b2 [|b3 [|b4 [|b5 [|b6 [|b7 rest]]]]]]]];
      try (cbn in Hl; lia);
      repeat match goal with b : bool |- _ => destruct b end; vm_compute; reflexivity.
  - change (pack (b0 :: b1 :: b2 :: b3 :: b4 :: b5 :: b6 :: b7 :: rest))
      with ((bv b0 128 + bv b1 64 + bv b2 32 + bv b3 16 + bv b4 8 + bv b5 4 + bv b6 2 + bv b7 1) :: pack rest).
    cbn [bits_of]. rewrite IH.
    replace (pad_len (length (b0 :: b1 :: b2 :: b3 :: b4 :: b5 :: b6 :: b7 :: rest)))
      with (pad_len (length rest)).
    2:{ unfold pad_len. cbn [length].
        replace (S (S (S (S (S (S (S (S (length rest))))))))) with (length rest + 1 * 8)%nat by lia.
        now rewrite Nat.mod_add by lia. }
    destruct b0, b1, b2, b3, b4, b5, b6, b7; reflexivity.
Qed.

Lemma pack_inj p1 p2 : length p1 = length p2 -> pack p1 = pack p2 -> p1 = p2.
Proof.
  intros Hl E. apply (f_equal bits_of) in E. rewrite !pack_bits, Hl in E.
  apply app_inv_tail in E. exact E.
Qed.

Lemma pack_len p : length (pack p) = ((length p + 7) / 8)%nat.
Proof.
  induction p as [p Hl|b0 b1 b2 b3 b4 b5 b6 b7 rest IH] using chunk8_ind.
  - destruct p as [|b0 [|b1 [|b2 [|b3 [|b4 [|b5 [|b6 [|b7 rest]]]]]]]];
      try (cbn in Hl; lia); reflexivity.
  - change (pack (b0 :: b1 :: b2 :: b3 :: b4 :: b5 :: b6 :: b7 :: rest))
      with ((bv b0 128 + bv b1 64 + bv b2 32 + bv b3 16 + bv b4 8 + bv b5 4 + bv b6 2 + bv b7 1) :: pack rest).
    cbn [length]. rewrite IH.
    replace (S (S (S (S (S (S (S (S (length rest)))))))) + 7)%nat with ((length rest + 7) + 1 * 8)%nat by lia.
    rewrite Nat.div_add by lia. lia.
Qed.
