(* Proofs for C03: the tree object and any stack of overlays refine the
   abstract ordered map. *)
From Verif Require Import Lib.Base Mkvs.Trie Mkvs.BitsProofs Mkvs.AlistProofs Mkvs.TrieProofs Mkvs.Overlay.

(* ---------- more association-list facts ---------- *)
Lemma bytes_eq_dec (x y : bytes) : {x = y} + {x <> y}.
Proof. apply list_eq_dec. apply N.eq_dec. Qed.

Lemma al_del_absent k l : sorted l -> al_get k l = None -> al_del k l = l.
Proof.
  intros Hs Hn. apply sorted_ext_get; auto using al_del_sorted. intros k'.
  destruct (bytes_eq_dec k' k) as [->|Hne].
  - now rewrite al_get_del_same, Hn.
  - now rewrite al_get_del_other.
Qed.

Definition set_all (ents : list entry) (m : list entry) : list entry :=
  fold_left (fun a e => al_set (fst e) (snd e) a) ents m.
Definition del_all (ks : list bytes) (m : list entry) : list entry :=
  fold_left (fun a k => al_del k a) ks m.

Lemma set_all_sorted ents : forall m, sorted m -> sorted (set_all ents m).
Proof. induction ents as [|[k v] r IH]; intros m Hs; cbn; auto using al_set_sorted. Qed.
Lemma del_all_sorted ks : forall m, sorted m -> sorted (del_all ks m).
Proof. induction ks as [|k r IH]; intros m Hs; cbn; auto using al_del_sorted. Qed.

Lemma al_get_sorted_tail k v r : sorted ((k, v) :: r) -> al_get k r = None.
Proof.
  intros [Hx _]. apply al_get_notin. intros v' Hin. rewrite Forall_forall in Hx.
  specialize (Hx _ Hin). unfold key_lt in Hx; cbn in Hx. rewrite bytes_cmp_refl in Hx. discriminate.
Qed.

Lemma al_get_set_all k ents : forall m,
  sorted ents -> sorted m ->
  al_get k (set_all ents m) = match al_get k ents with Some v => Some v | None => al_get k m end.
Proof.
  induction ents as [|[k0 v0] r IH]; intros m He Hm; [reflexivity|].
  cbn [set_all fold_left fst snd]. fold (set_all r (al_set k0 v0 m)).
  rewrite IH; [|apply He|now apply al_set_sorted]. cbn [al_get].
  destruct (bytes_eqb k0 k) eqn:E.
  - apply bytes_eqb_eq in E. subst k0. rewrite (al_get_sorted_tail _ _ _ He).
    now apply al_get_set_same.
  - apply bytes_eqb_neq in E. destruct (al_get k r); [reflexivity|].
    apply al_get_set_other; auto.
Qed.

Lemma ks_mem_in k s : ks_mem k s = true <-> In k s.
Proof.
  induction s as [|k0 s IH]; cbn; [split; [discriminate|tauto]|].
  rewrite orb_true_iff, IH, bytes_eqb_eq. tauto.
Qed.

Lemma al_get_del_all k ks : forall m,
  sorted m -> al_get k (del_all ks m) = if ks_mem k ks then None else al_get k m.
Proof.
  induction ks as [|k0 r IH]; intros m Hm; [reflexivity|].
  cbn [del_all fold_left]. fold (del_all r (al_del k0 m)).
  rewrite IH by now apply al_del_sorted. cbn [ks_mem].
  destruct (bytes_eqb k0 k) eqn:E; cbn [orb].
  - apply bytes_eqb_eq in E. subst k0. destruct (ks_mem k r); [reflexivity|].
    now apply al_get_del_same.
  - apply bytes_eqb_neq in E. destruct (ks_mem k r); [reflexivity|].
    apply al_get_del_other; auto.
Qed.

(* ---------- the tree object ---------- *)
Definition plog_sound (s : tstate) : Prop :=
  use_log s = true -> forall k e, pl_get k (pl s) = Some e -> al_get k (contents (tr s)) = e.
Definition t_inv (s : tstate) : Prop := wf (tr s) /\ wf (committed s) /\ plog_sound s.

Lemma t_init_inv b : t_inv (t_init b).
Proof. repeat split; cbn; auto. intros _ k e. discriminate. Qed.

Lemma t_get_spec s k : t_inv s -> t_get k s = al_get k (contents (tr s)).
Proof.
  intros (W & _ & P). unfold t_get. destruct (use_log s) eqn:U.
  - destruct (pl_get k (pl s)) as [e|] eqn:G.
    + symmetry. now apply P.
    + now apply lookup_contents.
  - now apply lookup_contents.
Qed.

Lemma t_insert_spec s k v :
  valid_bytes k -> t_inv s ->
  t_inv (t_insert k v s) /\
  contents (tr (t_insert k v s)) = al_set k v (contents (tr s)) /\
  committed (t_insert k v s) = committed s.
Proof.
  intros Hv (W & Wc & P). pose proof (contents_sorted _ W) as S0.
  unfold t_insert; cbn [tr pl use_log committed].
  repeat split; cbn [tr pl use_log committed]; auto using insert_wf, insert_contents.
  intros U k' e. cbn [tr pl use_log] in *. rewrite U. unfold pl_set. cbn [pl_get].
  rewrite insert_contents by assumption.
  destruct (bytes_eqb k k') eqn:E.
  - apply bytes_eqb_eq in E. subst k'. intros [= <-]. now apply al_get_set_same.
  - apply bytes_eqb_neq in E. intros G. rewrite al_get_set_other by auto. now apply P.
Qed.

Lemma t_remove_existing_spec s k :
  t_inv s ->
  t_inv (fst (t_remove_existing k s)) /\
  contents (tr (fst (t_remove_existing k s))) = al_del k (contents (tr s)) /\
  snd (t_remove_existing k s) = al_get k (contents (tr s)) /\
  committed (fst (t_remove_existing k s)) = committed s.
Proof.
  intros (W & Wc & P). pose proof (contents_sorted _ W) as S0.
  unfold t_remove_existing.
  assert (forall pl',
    (use_log s = true -> forall k' e, pl_get k' pl' = Some e -> al_get k' (al_del k (contents (tr s))) = e) ->
    let '(t', _, ex) := tremove k (tr s) in
    t_inv (mkT t' pl' (use_log s) (committed s)) /\
    contents t' = al_del k (contents (tr s)) /\ ex = al_get k (contents (tr s))) as Main.
  { intros pl' Hpl. pose proof (remove_contents (tr s) k W) as (C & X & _).
    pose proof (remove_wf (tr s) k W) as W'.
    destruct (tremove k (tr s)) as [[t' c] ex]. cbn [fst snd] in *.
    repeat split; auto. intros U k' e G. cbn [tr pl use_log] in *. rewrite C. now apply Hpl. }
  assert (use_log s = true -> forall k' e, pl_get k' (pl_set k None (pl s)) = Some e ->
            al_get k' (al_del k (contents (tr s))) = e) as Hset.
  { intros U k' e. unfold pl_set. cbn [pl_get]. destruct (bytes_eqb k k') eqn:E.
    - apply bytes_eqb_eq in E. subst k'. intros [= <-]. now apply al_get_del_same.
    - apply bytes_eqb_neq in E. intros G. rewrite al_get_del_other by auto. now apply P. }
  destruct (use_log s) eqn:U.
  - destruct (pl_get k (pl s)) as [[v|]|] eqn:G.
    + specialize (Main (pl_set k None (pl s)) Hset).
      destruct (tremove k (tr s)) as [[t' c] ex]. cbn [fst snd tr committed]. tauto.
    + pose proof (P U k None G) as Hn. cbn [fst snd].
      repeat split; auto. symmetry. now apply al_del_absent.
    + specialize (Main (pl_set k None (pl s)) Hset).
      destruct (tremove k (tr s)) as [[t' c] ex]. cbn [fst snd tr committed]. tauto.
  - specialize (Main (pl s)).
    destruct (tremove k (tr s)) as [[t' c] ex]. cbn [fst snd tr committed].
    destruct Main as (A & B & C); [intros Ht; discriminate Ht|]. tauto.
Qed.

Lemma t_commit_inv s : t_inv s -> t_inv (t_commit s).
Proof. intros (W & Wc & P). repeat split; cbn; auto. intros _ k e. discriminate. Qed.
Lemma t_reopen_inv s : t_inv s -> t_inv (t_reopen s).
Proof. intros (W & Wc & P). repeat split; cbn; auto. intros _ k e. discriminate. Qed.

(* ---------- overlays ---------- *)
Definition o_inv (o : overlay) : Prop :=
  sorted (ov o) /\ (forall k v, In (k, v) (ov o) -> In k (dirty o) /\ valid_bytes k).
Definition st_inv (st : store) : Prop := t_inv (fst st) /\ Forall o_inv (snd st).

Lemma apply_overlay_eq o m : apply_overlay o m = set_all (ov o) (del_all (dirty o) m).
Proof. reflexivity. Qed.

Lemma apply_overlay_sorted o m : o_inv o -> sorted m -> sorted (apply_overlay o m).
Proof. intros [So _] Sm. rewrite apply_overlay_eq. auto using set_all_sorted, del_all_sorted. Qed.

Lemma get_apply_overlay o m k :
  o_inv o -> sorted m ->
  al_get k (apply_overlay o m) = if ks_mem k (dirty o) then al_get k (ov o) else al_get k m.
Proof.
  intros [So Hk] Sm. rewrite apply_overlay_eq.
  rewrite al_get_set_all by auto using del_all_sorted. rewrite al_get_del_all by assumption.
  destruct (al_get k (ov o)) as [v|] eqn:G.
  - apply al_get_some_in in G. apply Hk in G as [G _]. apply ks_mem_in in G. now rewrite G.
  - destruct (ks_mem k (dirty o)); reflexivity.
Qed.

Lemma s_abs_sorted s os : t_inv s -> Forall o_inv os -> sorted (s_abs s os).
Proof.
  intros Ht Ho. induction Ho as [|o rest Hoi _ IH]; cbn [s_abs].
  - apply contents_sorted, Ht.
  - now apply apply_overlay_sorted.
Qed.

Lemma s_get_spec s os k : t_inv s -> Forall o_inv os -> s_get k s os = al_get k (s_abs s os).
Proof.
  intros Ht Ho. induction Ho as [|o rest Hoi Hr IH]; cbn [s_get s_abs].
  - now apply t_get_spec.
  - rewrite get_apply_overlay by auto using s_abs_sorted. now rewrite IH.
Qed.

(* views of the levels strictly below the top of the stack *)
Fixpoint views (s : tstate) (os : list overlay) : list (list entry) :=
  match os with
  | [] => []
  | o :: rest => s_abs s rest :: views s rest
  end.

Lemma s_abs_tr s1 s2 os : tr s1 = tr s2 -> s_abs s1 os = s_abs s2 os.
Proof. intros E. induction os as [|o r IH]; cbn [s_abs]; [now rewrite E|now rewrite IH]. Qed.
Lemma views_tr s1 s2 os : tr s1 = tr s2 -> views s1 os = views s2 os.
Proof. intros E. induction os as [|o r IH]; cbn [views]; [reflexivity|]. now rewrite IH, (s_abs_tr s1 s2 r E). Qed.
Lemma views_last_ne s os : forall d, os <> [] -> last (views s os) d = contents (tr s).
Proof.
  induction os as [|o r IH]; intros d Hne; [congruence|]. cbn [views].
  destruct r as [|o2 r2]; [reflexivity|].
  change (last (s_abs s (o2 :: r2) :: views s (o2 :: r2)) d) with (last (views s (o2 :: r2)) d).
  apply IH. discriminate.
Qed.
Lemma views_last s os : last (views s os) (s_abs s os) = contents (tr s).
Proof. destruct os as [|o r]; [reflexivity|]. apply views_last_ne. discriminate. Qed.

Definition top_spec (st st' : store) (m' : list entry) : Prop :=
  st_inv st' /\ s_abs (fst st') (snd st') = m' /\ views (fst st') (snd st') = views (fst st) (snd st) /\
  committed (fst st') = committed (fst st) /\ length (snd st') = length (snd st).

Lemma top_spec_overlay s o o' rest m' :
  t_inv s -> Forall o_inv rest -> o_inv o' -> apply_overlay o' (s_abs s rest) = m' ->
  top_spec (s, o :: rest) (s, o' :: rest) m'.
Proof.
  intros Ht Hr Ho' E. unfold top_spec, st_inv; cbn [fst snd s_abs views length].
  split; [split; [exact Ht|constructor; assumption]|]. auto.
Qed.

Lemma o_inv_set k v o : valid_bytes k -> o_inv o -> o_inv (mkO (al_set k v (ov o)) (ks_add k (dirty o))).
Proof.
  intros Hv [So Hk]. split; cbn [ov dirty]; [now apply al_set_sorted|].
  intros k' v' Hin. apply al_set_in in Hin; [|assumption]. unfold ks_add.
  destruct Hin as [[= -> ->]|[_ Hin]]; [cbn; auto|]. apply Hk in Hin. cbn. tauto.
Qed.
Lemma o_inv_del k o d' :
  (forall x, In x (dirty o) -> In x d') -> o_inv o -> o_inv (mkO (al_del k (ov o)) d').
Proof.
  intros Hd [So Hk]. split; cbn [ov dirty]; [now apply al_del_sorted|].
  intros k' v' Hin. apply al_del_in in Hin; [|assumption]. destruct Hin as [_ Hin].
  apply Hk in Hin. split; [apply Hd|]; tauto.
Qed.

Lemma s_insert_spec st k v :
  valid_bytes k -> st_inv st -> top_spec st (s_insert k v st) (al_set k v (s_abs (fst st) (snd st))).
Proof.
  intros Hv [Ht Ho]. destruct st as [s [|o rest]]; cbn [fst snd] in *.
  - destruct (t_insert_spec s k v Hv Ht) as (I & C & Cm). unfold top_spec, st_inv; cbn. auto.
  - inversion Ho as [|? ? Hoi Hr]; subst. cbn [s_insert].
    pose proof (s_abs_sorted s rest Ht Hr) as Sm.
    apply top_spec_overlay; auto using o_inv_set. cbn [s_abs].
    apply sorted_ext_get; auto using apply_overlay_sorted, al_set_sorted, o_inv_set.
    intros k'. rewrite get_apply_overlay by auto using o_inv_set. cbn [ov dirty ks_add ks_mem].
    destruct (bytes_eq_dec k' k) as [->|Hne].
    + rewrite bytes_eqb_refl. cbn [orb]. rewrite !al_get_set_same; auto using apply_overlay_sorted. apply Hoi.
    + assert (bytes_eqb k k' = false) as -> by (apply bytes_eqb_neq; congruence). cbn [orb].
      rewrite !al_get_set_other; auto using apply_overlay_sorted; [|apply Hoi].
      now rewrite get_apply_overlay.
Qed.

Lemma s_remove_existing_spec st k :
  st_inv st ->
  top_spec st (fst (s_remove_existing k st)) (al_del k (s_abs (fst st) (snd st))) /\
  snd (s_remove_existing k st) = al_get k (s_abs (fst st) (snd st)).
Proof.
  intros [Ht Ho]. destruct st as [s [|o rest]]; cbn [fst snd] in *.
  - destruct (t_remove_existing_spec s k Ht) as (I & C & X & Cm).
    cbn [s_remove_existing]. destruct (t_remove_existing k s) as [s' ex]. cbn [fst snd] in *.
    unfold top_spec, st_inv; cbn. auto 10.
  - inversion Ho as [|? ? Hoi Hr]; subst.
    pose proof (s_abs_sorted s rest Ht Hr) as Sm.
    pose proof (apply_overlay_sorted o _ Hoi Sm) as Sa.
    assert (forall o', o_inv o' ->
       (forall k', al_get k' (apply_overlay o' (s_abs s rest)) = al_get k' (al_del k (apply_overlay o (s_abs s rest)))) ->
       top_spec (s, o :: rest) (s, o' :: rest) (al_del k (s_abs s (o :: rest)))) as Mk.
    { intros o' Hoi' Hg. apply top_spec_overlay; auto. cbn [s_abs].
      apply sorted_ext_get; auto using apply_overlay_sorted, al_del_sorted. }
    cbn [s_remove_existing]. destruct (ks_mem k (dirty o)) eqn:M.
    + cbn [fst snd]. split.
      * apply Mk; [apply o_inv_del; auto|]. intros k'.
        rewrite get_apply_overlay by (auto; apply o_inv_del; auto). cbn [ov dirty].
        destruct (bytes_eq_dec k' k) as [->|Hne].
        -- rewrite M. rewrite !al_get_del_same; auto. apply Hoi.
        -- rewrite !al_get_del_other; auto; [|apply Hoi]. now rewrite get_apply_overlay.
      * cbn [s_abs]. rewrite get_apply_overlay by auto. now rewrite M.
    + assert (al_get k (apply_overlay o (s_abs s rest)) = s_get k s rest) as Hg.
      { rewrite get_apply_overlay by auto. rewrite M. symmetry. now apply s_get_spec. }
      assert (al_get k (ov o) = None) as Hov.
      { apply al_get_notin. intros v Hin. apply Hoi in Hin as [Hin _]. apply ks_mem_in in Hin. congruence. }
      destruct (s_get k s rest) as [v|] eqn:G; cbn [fst snd].
      * split; [|cbn [s_abs]; congruence].
        apply Mk.
        -- destruct Hoi as [So Hk]. split; cbn [ov dirty]; auto. intros k' v' Hin.
           apply Hk in Hin. unfold ks_add. cbn. tauto.
        -- intros k'. rewrite get_apply_overlay.
           2:{ destruct Hoi as [So Hk]. split; cbn [ov dirty]; auto. intros k2 v2 Hin.
               apply Hk in Hin. unfold ks_add. cbn. tauto. }
           2: assumption.
           cbn [ov dirty ks_add ks_mem]. destruct (bytes_eq_dec k' k) as [->|Hne].
           ++ rewrite bytes_eqb_refl. cbn [orb]. rewrite al_get_del_same by assumption. exact Hov.
           ++ assert (bytes_eqb k k' = false) as -> by (apply bytes_eqb_neq; congruence). cbn [orb].
              rewrite al_get_del_other by auto. now rewrite get_apply_overlay.
      * split; [|cbn [s_abs]; congruence].
        apply Mk; auto. intros k'. destruct (bytes_eq_dec k' k) as [->|Hne].
        -- rewrite al_get_del_same by assumption. exact Hg.
        -- now rewrite al_get_del_other.
Qed.

Lemma s_remove_spec st k :
  st_inv st -> top_spec st (s_remove k st) (al_del k (s_abs (fst st) (snd st))).
Proof.
  intros [Ht Ho]. destruct st as [s [|o rest]]; cbn [fst snd] in *.
  - pose proof (s_remove_existing_spec (s, []) k (conj Ht Ho)) as [T _].
    cbn [s_remove_existing s_remove] in *. unfold t_remove.
    destruct (t_remove_existing k s) as [s' ex]. exact T.
  - inversion Ho as [|? ? Hoi Hr]; subst.
    pose proof (s_abs_sorted s rest Ht Hr) as Sm.
    pose proof (apply_overlay_sorted o _ Hoi Sm) as Sa.
    assert (o_inv (mkO (al_del k (ov o)) (ks_add k (dirty o)))) as Hoi'.
    { apply o_inv_del; auto. unfold ks_add. cbn. auto. }
    cbn [s_remove]. apply top_spec_overlay; auto. cbn [s_abs].
    apply sorted_ext_get; auto using apply_overlay_sorted, al_del_sorted.
    intros k'. rewrite get_apply_overlay by auto. cbn [ov dirty ks_add ks_mem].
    destruct (bytes_eq_dec k' k) as [->|Hne].
    + rewrite bytes_eqb_refl. cbn [orb]. rewrite !al_get_del_same; auto. apply Hoi.
    + assert (bytes_eqb k k' = false) as -> by (apply bytes_eqb_neq; congruence). cbn [orb].
      rewrite !al_get_del_other; auto; [|apply Hoi]. now rewrite get_apply_overlay.
Qed.

(* ---------- the specification iterator and the merged overlay iterator ---------- *)
Definition key_ge (k : bytes) (e : entry) : Prop := bytes_cmp (fst e) k <> Lt.

Lemma al_seek_spec k l :
  sorted l -> sorted (al_seek k l) /\ (forall e, In e (al_seek k l) <-> In e l /\ key_ge k e).
Proof.
  induction l as [|[k0 v0] r IH]; intros Hs.
  - cbn. split; auto. intros e. tauto.
  - cbn [al_seek]. pose proof Hs as Hs0. destruct Hs as [Hx Hs]. specialize (IH Hs) as [IS IM].
    destruct (bytes_cmp k0 k) eqn:C.
    + split; [exact Hs0|]. intros e. split; [|tauto]. intros Hin. split; auto.
      destruct Hin as [<-|Hin]; unfold key_ge; cbn [fst]; [congruence|].
      rewrite Forall_forall in Hx. specialize (Hx _ Hin). unfold key_lt in Hx. cbn [fst] in Hx.
      apply bytes_cmp_eq in C. subst k0. rewrite bytes_cmp_antisym, Hx. discriminate.
    + split; [exact IS|]. intros e. rewrite IM. cbn [In]. split; [tauto|]. intros [[<-|Hin] Hge]; [|tauto].
      exfalso. apply Hge. exact C.
    + split; [exact Hs0|]. intros e. split; [|tauto]. intros Hin. split; auto.
      destruct Hin as [<-|Hin]; unfold key_ge; cbn [fst]; [congruence|].
      rewrite Forall_forall in Hx. specialize (Hx _ Hin). unfold key_lt in Hx. cbn [fst] in Hx.
      intros C2. apply bytes_cmp_gt_lt in C.
      pose proof (bytes_cmp_trans _ _ _ (bytes_cmp_trans _ _ _ C Hx) C2) as T.
      rewrite bytes_cmp_refl in T. discriminate.
Qed.

Lemma skip_dirty_spec d inner :
  sorted inner ->
  exists pre, inner = pre ++ skip_dirty d inner /\
    (forall e, In e pre -> ks_mem (fst e) d = true) /\
    match skip_dirty d inner with [] => True | e :: _ => ks_mem (fst e) d = false end.
Proof.
  induction inner as [|[k v] r IH]; intros Hs.
  - exists []. cbn. auto.
  - cbn [skip_dirty]. destruct (ks_mem k d) eqn:M.
    + destruct (IH (proj2 Hs)) as (pre & E & Hp & Hh). exists ((k, v) :: pre). repeat split; auto.
      * cbn. now rewrite <- E.
      * intros e [<-|Hin]; auto.
    + exists []. cbn. rewrite M. auto.
Qed.

Definition merge_ok (d : list bytes) (I O R : list entry) : Prop :=
  sorted R /\ forall e, In e R <-> (In e I /\ ks_mem (fst e) d = false) \/ In e O.

Lemma sorted_cons_lt x y l : sorted (y :: l) -> key_lt x y -> Forall (key_lt x) (y :: l).
Proof.
  intros [Hy _] Hxy. constructor; auto. eapply Forall_impl; [|exact Hy].
  intros a Ha. eapply key_lt_trans; eauto.
Qed.

Lemma merge_run_ok d : forall fuel I O,
  sorted I -> sorted O -> (forall e, In e O -> ks_mem (fst e) d = true) ->
  (length I + length O < fuel)%nat -> merge_ok d I O (merge_run fuel d I O).
Proof.
  induction fuel as [|f IH]; intros I O SI SO HO Hf; [lia|].
  cbn [merge_run].
  destruct (skip_dirty_spec d I SI) as (pre & EI & Hpre & Hhead).
  remember (skip_dirty d I) as I' eqn:EI'. clear EI'.
  assert (sorted I') as SI' by (rewrite EI in SI; apply sorted_app_inv in SI; tauto).
  assert (length I' <= length I)%nat as LI by (rewrite EI, app_length; lia).
  assert (forall e, In e I /\ ks_mem (fst e) d = false <-> In e I' /\ ks_mem (fst e) d = false) as HI.
  { intros e. rewrite EI at 1. rewrite in_app_iff. split; [|tauto].
    intros [[Hin|Hin] Hn]; [|tauto]. apply Hpre in Hin. congruence. }
  unfold merge_ok.
  destruct I' as [|[ik iv] ir], O as [|[ok ov] or_]; cbn [merge_cur merge_step].
  - split; [exact Logic.I|]. intros e. rewrite HI. cbn. tauto.
  - (* only the overlay iterator is valid *)
    destruct (IH [] or_ Logic.I (proj2 SO) ltac:(intros; apply HO; cbn; auto) ltac:(unfold entry in *; cbn [length] in LI, Hf |- *; lia)) as [SR MR].
    split.
    + cbn [sorted]. split; [|exact SR]. apply Forall_forall. intros e He. apply MR in He.
      destruct He as [[[] _]|He]. destruct SO as [Hx _]. rewrite Forall_forall in Hx. auto.
    + intros e. rewrite HI. cbn [In]. rewrite MR. cbn [In]. tauto.
  - (* only the inner iterator is valid *)
    destruct (IH ir [] (proj2 SI') Logic.I ltac:(intros ? []) ltac:(unfold entry in *; cbn [length] in LI, Hf |- *; lia)) as [SR MR].
    split.
    + cbn [sorted]. split; [|exact SR]. apply Forall_forall. intros e He. apply MR in He.
      destruct He as [[He _]|[]]. destruct SI' as [Hx _]. rewrite Forall_forall in Hx. auto.
    + intros e. rewrite HI. cbn [In]. rewrite MR. cbn [In]. split.
      * intros [<-|[[Hin Hn]|[]]]; auto.
      * intros [[[<-|Hin] Hn]|[]]; auto.
  - destruct (bytes_cmp ik ok) eqn:C.
    + (* equal keys: impossible, the overlay's keys are dirty *)
      exfalso. apply bytes_cmp_eq in C. subst ok. cbn [fst] in Hhead.
      pose proof (HO (ik, ov) (or_introl eq_refl)) as Hd. cbn [fst] in Hd. congruence.
    + (* the inner key is smaller *)
      destruct (IH ir ((ok, ov) :: or_) (proj2 SI') SO HO ltac:(unfold entry in *; cbn [length] in LI, Hf |- *; lia)) as [SR MR].
      split.
      * cbn [sorted]. split; [|exact SR]. apply Forall_forall. intros e He. apply MR in He.
        destruct He as [[He _]|He].
        -- destruct SI' as [Hx _]. rewrite Forall_forall in Hx. auto.
        -- assert (Forall (key_lt (ik, iv)) ((ok, ov) :: or_)) as F by (apply sorted_cons_lt; auto).
           rewrite Forall_forall in F. auto.
      * intros e. rewrite HI. cbn [In]. rewrite MR. cbn [In]. split.
        -- intros [<-|[[Hin Hn]|Hin]]; auto.
        -- intros [[[<-|Hin] Hn]|Hin]; auto.
    + (* the overlay key is smaller *)
      apply bytes_cmp_gt_lt in C.
      destruct (IH ((ik, iv) :: ir) or_ SI' (proj2 SO) ltac:(intros; apply HO; cbn; auto) ltac:(unfold entry in *; cbn [length] in LI, Hf |- *; lia)) as [SR MR].
      split.
      * cbn [sorted]. split; [|exact SR]. apply Forall_forall. intros e He. apply MR in He.
        destruct He as [[He _]|He].
        -- assert (Forall (key_lt (ok, ov)) ((ik, iv) :: ir)) as F by (apply sorted_cons_lt; auto).
           rewrite Forall_forall in F. auto.
        -- destruct SO as [Hx _]. rewrite Forall_forall in Hx. auto.
      * intros e. rewrite HI. cbn [In]. rewrite MR. cbn [In]. tauto.
Qed.

Lemma in_sorted_get k v l : sorted l -> (In (k, v) l <-> al_get k l = Some v).
Proof. intros Hs. split; [now apply al_get_in|apply al_get_some_in]. Qed.

Lemma merge_iter_spec o m k :
  o_inv o -> sorted m ->
  merge_iter (dirty o) (al_seek k m) (al_seek k (ov o)) = al_seek k (apply_overlay o m).
Proof.
  intros Hoi Sm. pose proof Hoi as [So Hk].
  destruct (al_seek_spec k m Sm) as [S1 M1]. destruct (al_seek_spec k (ov o) So) as [S2 M2].
  pose proof (apply_overlay_sorted o m Hoi Sm) as Sa.
  destruct (al_seek_spec k (apply_overlay o m) Sa) as [S3 M3].
  destruct (merge_run_ok (dirty o) (S (length (al_seek k m) + length (al_seek k (ov o))))
              (al_seek k m) (al_seek k (ov o)) S1 S2) as [SR MR].
  { intros [k' v'] Hin. apply M2 in Hin as [Hin _]. apply Hk in Hin as [Hin _]. now apply ks_mem_in. }
  { apply Nat.lt_succ_diag_r. }
  unfold merge_iter. apply sorted_ext; auto.
  intros [k' v']. rewrite MR, M1, M2, M3. cbn [fst].
  rewrite !in_sorted_get by assumption. rewrite get_apply_overlay by assumption.
  destruct (ks_mem k' (dirty o)) eqn:M.
  - split; [intros [[_ ?]|?]; [discriminate|tauto]|tauto].
  - assert (al_get k' (ov o) = None) as Hn.
    { apply al_get_notin. intros v Hin. apply Hk in Hin as [Hin _]. apply ks_mem_in in Hin. congruence. }
    rewrite Hn. split; [intros [[[? ?] _]|[? _]]; [tauto|discriminate]|tauto].
Qed.

Lemma s_iter_spec s os k : t_inv s -> Forall o_inv os -> s_iter k s os = al_seek k (s_abs s os).
Proof.
  intros Ht Ho. induction Ho as [|o rest Hoi Hr IH]; cbn [s_iter s_abs]; [reflexivity|].
  rewrite IH. apply merge_iter_spec; auto using s_abs_sorted.
Qed.

(* ---------- overlay commit ---------- *)
Lemma top_spec_refl st m : st_inv st -> s_abs (fst st) (snd st) = m -> top_spec st st m.
Proof. intros Hi E. unfold top_spec. auto. Qed.
Lemma top_spec_trans st1 st2 st3 m2 m3 :
  top_spec st1 st2 m2 -> top_spec st2 st3 m3 -> top_spec st1 st3 m3.
Proof.
  intros (I2 & A2 & V2 & C2 & L2) (I3 & A3 & V3 & C3 & L3). unfold top_spec.
  split; [exact I3|]. split; [exact A3|]. split; [congruence|]. split; congruence.
Qed.

Lemma fold_insert_spec ents : forall st,
  (forall k v, In (k, v) ents -> valid_bytes k) -> st_inv st ->
  top_spec st (fold_left (fun a e => s_insert (fst e) (snd e) a) ents st)
           (set_all ents (s_abs (fst st) (snd st))).
Proof.
  induction ents as [|[k v] r IH]; intros st Hv Hi; cbn [fold_left set_all fst snd].
  - now apply top_spec_refl.
  - pose proof (s_insert_spec st k v (Hv k v (or_introl eq_refl)) Hi) as T1.
    pose proof T1 as (I1 & A1 & _).
    eapply top_spec_trans; [exact T1|].
    fold (set_all r (al_set k v (s_abs (fst st) (snd st)))). rewrite <- A1.
    apply IH; auto. intros k' v' Hin. eapply Hv. right. exact Hin.
Qed.

Lemma fold_remove_spec ks : forall st,
  st_inv st ->
  top_spec st (fold_left (fun a k => s_remove k a) ks st) (del_all ks (s_abs (fst st) (snd st))).
Proof.
  induction ks as [|k r IH]; intros st Hi; cbn [fold_left del_all].
  - now apply top_spec_refl.
  - pose proof (s_remove_spec st k Hi) as T1. pose proof T1 as (I1 & A1 & _).
    eapply top_spec_trans; [exact T1|].
    fold (del_all r (al_del k (s_abs (fst st) (snd st)))). rewrite <- A1. now apply IH.
Qed.

Lemma ks_mem_remove_all k d ents :
  ks_mem k (ks_remove_all d ents) =
  ks_mem k d && match al_get k ents with Some _ => false | None => true end.
Proof.
  unfold ks_remove_all. induction d as [|k0 d IH]; [reflexivity|]. cbn [filter ks_mem].
  destruct (bytes_eqb k0 k) eqn:E.
  - apply bytes_eqb_eq in E. subst k0. destruct (al_get k ents); cbn [negb orb andb].
    + rewrite IH. now rewrite andb_false_r.
    + cbn [ks_mem]. now rewrite bytes_eqb_refl.
  - destruct (al_get k0 ents); cbn [negb orb andb ks_mem]; rewrite ?E; exact IH.
Qed.

Lemma s_commit_top_spec s o rest :
  st_inv (s, o :: rest) ->
  let st' := s_commit_top (s, o :: rest) in
  st_inv st' /\
  s_abs (fst st') (snd st') = s_abs s (o :: rest) /\
  views (fst st') (snd st') = s_abs s (o :: rest) :: views s rest /\
  committed (fst st') = committed s.
Proof.
  intros [Ht Ho]. cbn [fst snd] in *. inversion Ho as [|? ? Hoi Hr]; subst.
  pose proof Hoi as [So Hk].
  cbn [s_commit_top].
  pose proof (fold_insert_spec (ov o) (s, rest)) as T1.
  specialize (T1 ltac:(intros k v Hin; apply Hk in Hin; tauto) (conj Ht Hr)).
  set (st1 := fold_left (fun a e => s_insert (fst e) (snd e) a) (ov o) (s, rest)) in *.
  pose proof T1 as (I1 & A1 & _).
  pose proof (fold_remove_spec (ks_remove_all (dirty o) (ov o)) st1 I1) as T2.
  set (st2 := fold_left (fun a k => s_remove k a) (ks_remove_all (dirty o) (ov o)) st1) in *.
  pose proof (top_spec_trans _ _ _ _ _ T1 T2) as (I2 & A2 & V2 & C2 & L2).
  cbn [fst snd] in *.
  assert (s_abs (fst st2) (snd st2) = apply_overlay o (s_abs s rest)) as Habs.
  { rewrite A2, A1. pose proof (s_abs_sorted s rest Ht Hr) as Sm.
    apply sorted_ext_get; auto using del_all_sorted, set_all_sorted, apply_overlay_sorted.
    intros k. rewrite al_get_del_all by auto using set_all_sorted.
    rewrite al_get_set_all, ks_mem_remove_all by assumption.
    rewrite get_apply_overlay by assumption.
    destruct (al_get k (ov o)) as [v|] eqn:G.
    - rewrite andb_false_r. apply al_get_some_in in G. apply Hk in G as [G _].
      apply ks_mem_in in G. now rewrite G.
    - rewrite andb_true_r. destruct (ks_mem k (dirty o)); reflexivity. }
  split; [split|split; [|split]]; cbn [fst snd].
  - exact (proj1 I2).
  - constructor; [|exact (proj2 I2)]. split; cbn; [exact Logic.I|]. intros k v [].
  - cbn [s_abs]. exact Habs.
  - cbn [views s_abs]. now rewrite Habs, V2.
  - exact C2.
Qed.

(* ---------- the abstract machine: a stack of maps ---------- *)
Record astate := mkA {
  atop : list entry;             (* what the top of the stack sees          *)
  abelow : list (list entry);    (* the views of the levels below, top first *)
  acomm : list entry             (* the tree's last committed map           *)
}.

Definition a_step (a : astate) (o : sop) : astate * sres :=
  match o with
  | SIns k v => (mkA (al_set k v (atop a)) (abelow a) (acomm a), RUnit)
  | SRem k => (mkA (al_del k (atop a)) (abelow a) (acomm a), RUnit)
  | SRemEx k => (mkA (al_del k (atop a)) (abelow a) (acomm a), RVal (al_get k (atop a)))
  | SGet k => (a, RVal (al_get k (atop a)))
  | SIter k n => (a, RIter (firstn (S n) (al_seek k (atop a))))
  | STreeCommit => (mkA (atop a) (abelow a) (last (abelow a) (atop a)), RUnit)
  | SReopen => (match abelow a with [] => mkA (acomm a) [] (acomm a) | _ => a end, RUnit)
  | SPush => (mkA (atop a) (atop a :: abelow a) (acomm a), RUnit)
  | SOvCommit => (match abelow a with [] => a | _ :: r => mkA (atop a) (atop a :: r) (acomm a) end, RUnit)
  | SOvDiscard => (match abelow a with [] => a | b :: r => mkA b r (acomm a) end, RUnit)
  | SOvCopy => (a, RUnit)
  end.

Fixpoint a_run (a : astate) (ops : list sop) : astate * list sres :=
  match ops with
  | [] => (a, [])
  | o :: r =>
      let '(a1, res) := a_step a o in
      let '(a2, rs) := a_run a1 r in
      (a2, res :: rs)
  end.

Definition abs_of (st : store) : astate :=
  mkA (s_abs (fst st) (snd st)) (views (fst st) (snd st)) (contents (committed (fst st))).

Definition sop_valid (o : sop) : Prop :=
  match o with SIns k _ => valid_bytes k | _ => True end.

Lemma top_spec_abs st st' m :
  top_spec st st' m -> abs_of st' = mkA m (abelow (abs_of st)) (acomm (abs_of st)).
Proof. intros (I & A & V & C & L). unfold abs_of. cbn [abelow acomm]. now rewrite A, V, C. Qed.

Lemma step_refines st o :
  sop_valid o -> st_inv st ->
  st_inv (fst (s_step st o)) /\
  abs_of (fst (s_step st o)) = fst (a_step (abs_of st) o) /\
  snd (s_step st o) = snd (a_step (abs_of st) o).
Proof.
  intros Hv Hi. pose proof Hi as [Ht Ho]. destruct o; cbn [s_step a_step fst snd sop_valid] in *.
  - pose proof (s_insert_spec st k v Hv Hi) as T. split; [apply T|]. split; [|reflexivity].
    apply (top_spec_abs _ _ _ T).
  - pose proof (s_remove_spec st k Hi) as T. split; [apply T|]. split; [|reflexivity].
    apply (top_spec_abs _ _ _ T).
  - pose proof (s_remove_existing_spec st k Hi) as [T X].
    destruct (s_remove_existing k st) as [st' ex]. cbn [fst snd] in *.
    split; [apply T|]. split; [apply (top_spec_abs _ _ _ T)|]. now rewrite X.
  - split; [exact Hi|]. split; [reflexivity|]. now rewrite s_get_spec.
  - split; [exact Hi|]. split; [reflexivity|]. now rewrite s_iter_spec.
  - split; [split; [now apply t_commit_inv|exact Ho]|]. split; [|reflexivity].
    unfold abs_of. cbn [fst snd atop abelow acomm committed t_commit].
    rewrite (s_abs_tr (t_commit (fst st)) (fst st)), (views_tr (t_commit (fst st)) (fst st)) by reflexivity.
    now rewrite views_last.
  - destruct st as [s [|o rest]]; cbn [fst snd] in *.
    + split; [split; [now apply t_reopen_inv|constructor]|]. split; reflexivity.
    + split; [exact Hi|]. split; reflexivity.
  - split; [split; [exact Ht|constructor; [split; cbn; [exact Logic.I|intros k v []]|exact Ho]]|].
    split; reflexivity.
  - destruct st as [s [|o rest]].
    + cbn [s_commit_top]. split; [exact Hi|]. split; reflexivity.
    + pose proof (s_commit_top_spec s o rest Hi) as (I' & A' & V' & C').
      split; [exact I'|]. split; [|reflexivity].
      unfold abs_of. cbn [fst snd abelow atop acomm views]. now rewrite A', V', C'.
  - destruct st as [s [|o rest]]; cbn [fst snd tl] in *.
    + split; [exact Hi|]. split; reflexivity.
    + inversion Ho; subst. split; [split; assumption|]. split; reflexivity.
  - split; [exact Hi|]. split; reflexivity.
Qed.

Theorem run_refines ops : forall st,
  Forall sop_valid ops -> st_inv st ->
  st_inv (fst (s_run st ops)) /\
  abs_of (fst (s_run st ops)) = fst (a_run (abs_of st) ops) /\
  snd (s_run st ops) = snd (a_run (abs_of st) ops).
Proof.
  induction ops as [|o r IH]; intros st Hv Hi; cbn [s_run a_run fst snd]; [auto|].
  inversion Hv as [|? ? Ho Hr]; subst.
  destruct (step_refines st o Ho Hi) as (I1 & A1 & R1).
  destruct (s_step st o) as [st1 res]. destruct (a_step (abs_of st) o) as [a1 res'].
  cbn [fst snd] in *. subst a1 res'.
  destruct (IH st1 Hr I1) as (I2 & A2 & R2).
  destruct (s_run st1 r) as [st2 rs]. destruct (a_run (abs_of st1) r) as [a2 rs'].
  cbn [fst snd] in *. subst. auto.
Qed.

(* ---------- statements for Props/C03.v ---------- *)
Definition a_init : astate := mkA [] [] [].

Lemma init_inv b : st_inv (t_init b, []).
Proof. split; [apply t_init_inv|constructor]. Qed.

Theorem tree_refines_map b ops :
  Forall sop_valid ops ->
  snd (s_run (t_init b, []) ops) = snd (a_run a_init ops) /\
  abs_of (fst (s_run (t_init b, []) ops)) = fst (a_run a_init ops).
Proof.
  intros Hv. destruct (run_refines ops (t_init b, []) Hv (init_inv b)) as (_ & A & R).
  split; [exact R|exact A].
Qed.

Theorem iterator_refines_map s os k :
  t_inv s -> Forall o_inv os ->
  s_iter k s os = al_seek k (s_abs s os) /\
  sorted (s_iter k s os) /\
  forall e, In e (s_iter k s os) <-> In e (s_abs s os) /\ bytes_cmp (fst e) k <> Lt.
Proof.
  intros Ht Ho. rewrite s_iter_spec by assumption.
  destruct (al_seek_spec k (s_abs s os) (s_abs_sorted s os Ht Ho)) as [S M]. auto.
Qed.

Theorem overlay_refines_map s o rest k v :
  valid_bytes k -> st_inv (s, o :: rest) ->
  let m := s_abs s (o :: rest) in
  s_get k s (o :: rest) = al_get k m /\
  s_abs (fst (s_insert k v (s, o :: rest))) (snd (s_insert k v (s, o :: rest))) = al_set k v m /\
  s_abs (fst (s_remove k (s, o :: rest))) (snd (s_remove k (s, o :: rest))) = al_del k m /\
  s_abs (fst (fst (s_remove_existing k (s, o :: rest)))) (snd (fst (s_remove_existing k (s, o :: rest)))) = al_del k m /\
  snd (s_remove_existing k (s, o :: rest)) = al_get k m /\
  (* nothing below the overlay changes *)
  fst (s_insert k v (s, o :: rest)) = s /\ tl (snd (s_insert k v (s, o :: rest))) = rest /\
  fst (s_remove k (s, o :: rest)) = s /\ tl (snd (s_remove k (s, o :: rest))) = rest.
Proof.
  intros Hv Hi m. pose proof Hi as [Ht Ho]. cbn [fst snd] in *.
  pose proof (s_insert_spec _ k v Hv Hi) as (_ & A1 & _).
  pose proof (s_remove_spec _ k Hi) as (_ & A2 & _).
  pose proof (s_remove_existing_spec _ k Hi) as [(_ & A3 & _) X].
  repeat split; auto. now apply s_get_spec.
Qed.

Theorem overlay_commit_refines_map s o rest :
  st_inv (s, o :: rest) ->
  let st' := s_commit_top (s, o :: rest) in
  st_inv st' /\
  s_abs (fst st') (snd st') = s_abs s (o :: rest) /\
  views (fst st') (snd st') = s_abs s (o :: rest) :: views s rest /\
  committed (fst st') = committed s.
Proof. apply s_commit_top_spec. Qed.

(* ---------- non-vacuity: three stacked overlays with shadowed and tombstoned
   keys around a seek position ---------- *)
Definition ex_hist : list sop :=
  [SIns [1] [10]; SIns [2] [20]; SIns [3] [30]; SIns [] [0]; STreeCommit;
   SPush; SRem [2]; SIns [2; 0] [21];
   SPush; SIns [2] [22]; SRemEx [3];
   SPush; SRem [1]; SIns [3] [33];
   SIter [1] 10; SGet [2]; SGet [1];
   SOvCommit; SOvDiscard; SIter [] 10; SOvDiscard; SIter [2] 1; SOvCommit; SOvDiscard; SReopen;
   SIter [] 10].
Example ex_hist_valid : Forall sop_valid ex_hist.
Proof. repeat constructor; cbn; lia. Qed.
Example ex_hist_run :
  snd (s_run (t_init true, []) ex_hist) =
  [RUnit; RUnit; RUnit; RUnit; RUnit; RUnit; RUnit; RUnit; RUnit; RUnit; RVal (Some [30]);
   RUnit; RUnit; RUnit;
   RIter [([2], [22]); ([2; 0], [21]); ([3], [33])]; RVal (Some [22]); RVal None;
   RUnit; RUnit; RIter [([], [0]); ([2], [22]); ([2; 0], [21]); ([3], [33])];
   RUnit; RIter [([2; 0], [21]); ([3], [30])]; RUnit; RUnit; RUnit;
   RIter [([], [0]); ([1], [10]); ([2], [20]); ([3], [30])]].
Proof. vm_compute. reflexivity. Qed.
Example ex_hist_spec : snd (a_run a_init ex_hist) = snd (s_run (t_init true, []) ex_hist).
Proof. symmetry. apply tree_refines_map, ex_hist_valid. Qed.
