(* The root hash determines the tree (up to a collision of the hash function):
   injectivity of the two hash pre-image encodings under the stated length
   bounds. *)
From Verif Require Import Lib.Base Mkvs.Trie Mkvs.BitsProofs Mkvs.AlistProofs Mkvs.TrieProofs.

Lemma app_inv_len {A} (a a' b b' : list A) :
  length a = length a' -> a ++ b = a' ++ b' -> a = a' /\ b = b'.
Proof.
  revert a'; induction a as [|x a IH]; intros [|y a'] Hl E; cbn in *; try discriminate; auto.
  injection E as -> E. injection Hl as Hl. destruct (IH _ Hl E) as [-> ->]. auto.
Qed.

Lemma le_bytes_len n x : length (le_bytes n x) = n.
Proof. revert x; induction n as [|n IH]; intros x; cbn [le_bytes length]; auto. Qed.

Lemma le_bytes_inj n : forall x y,
  x < 256 ^ N.of_nat n -> y < 256 ^ N.of_nat n -> le_bytes n x = le_bytes n y -> x = y.
Proof.
  induction n as [|n IH]; intros x y Hx Hy E.
  - change (256 ^ N.of_nat 0) with 1 in *. lia.
  - cbn [le_bytes] in E. injection E as E0 E1.
    rewrite Nat2N.inj_succ, N.pow_succ_r' in Hx, Hy.
    assert (x / 256 = y / 256) as Ed.
    { apply IH; auto; apply N.div_lt_upper_bound; lia. }
    rewrite (N.div_mod x 256), (N.div_mod y 256) by lia. rewrite E0, Ed. reflexivity.
Qed.

Section Hash.
  Variable H : bytes -> bytes.
  Variable hlen : nat.
  Hypothesis Hlen : forall x, length (H x) = hlen.

  Definition collision : Prop := exists x y : bytes, x <> y /\ H x = H y.

  Lemma bytes_eq_dec (x y : bytes) : {x = y} + {x <> y}.
  Proof. apply list_eq_dec. apply N.eq_dec. Qed.

  Lemma H_inj_or x y : H x = H y -> x = y \/ collision.
  Proof. intros E. destruct (bytes_eq_dec x y); [auto|right; exists x, y; auto]. Qed.

  Definition leaf_pre (k v : bytes) : bytes :=
    [PREFIX_LEAF] ++ le_bytes 4 (N.of_nat (length k)) ++ k ++ le_bytes 4 (N.of_nat (length v)) ++ v.

  Lemma leaf_hexpr_eval k v : eval_hexpr H (leaf_hexpr k v) = H (leaf_pre k v).
  Proof. reflexivity. Qed.

  Lemma leaf_pre_inj k v k' v' :
    N.of_nat (length k) < 2 ^ 32 -> N.of_nat (length v) < 2 ^ 32 ->
    N.of_nat (length k') < 2 ^ 32 -> N.of_nat (length v') < 2 ^ 32 ->
    leaf_pre k v = leaf_pre k' v' -> k = k' /\ v = v'.
  Proof.
    intros Bk Bv Bk' Bv' E. unfold leaf_pre in E. apply app_inv_len in E as [_ E]; [|reflexivity].
    apply app_inv_len in E as [E1 E]; [|now rewrite !le_bytes_len].
    apply (le_bytes_inj 4) in E1; [|exact Bk|exact Bk']. apply Nat2N.inj in E1.
    apply app_inv_len in E as [-> E]; [|exact E1].
    apply app_inv_len in E as [_ ->]; [|now rewrite !le_bytes_len]. auto.
  Qed.

  Lemma root_hash_len t : length (root_hash H t) = hlen.
  Proof. destruct t; cbn; apply Hlen. Qed.
  Lemma opt_leaf_len lf : length (eval_hexpr H (opt_leaf_hexpr lf)) = hlen.
  Proof. destruct lf as [[? ?]|]; cbn; apply Hlen. Qed.

  Definition node_pre (lbl : path) (hlf hl hr : bytes) : bytes :=
    [PREFIX_INTERNAL] ++ le_bytes 2 (N.of_nat (length lbl)) ++ pack lbl ++ hlf ++ hl ++ hr.

  Lemma node_hexpr_eval lbl lf l r :
    root_hash H (Node lbl lf l r) =
    H (node_pre lbl (eval_hexpr H (opt_leaf_hexpr lf)) (root_hash H l) (root_hash H r)).
  Proof. reflexivity. Qed.

  Lemma node_pre_inj lbl a b c lbl' a' b' c' :
    N.of_nat (length lbl) < 2 ^ 16 -> N.of_nat (length lbl') < 2 ^ 16 ->
    length a = hlen -> length a' = hlen -> length b = hlen -> length b' = hlen ->
    node_pre lbl a b c = node_pre lbl' a' b' c' -> lbl = lbl' /\ a = a' /\ b = b' /\ c = c'.
  Proof.
    intros Bl Bl' La La' Lb Lb' E. unfold node_pre in E. apply app_inv_len in E as [_ E]; [|reflexivity].
    apply app_inv_len in E as [E1 E]; [|now rewrite !le_bytes_len].
    apply (le_bytes_inj 2) in E1; [|exact Bl|exact Bl']. apply Nat2N.inj in E1.
    apply app_inv_len in E as [E2 E]; [|now rewrite !pack_len, E1].
    apply pack_inj in E2; [|exact E1]. subst lbl'.
    apply app_inv_len in E as [-> E]; [|congruence].
    apply app_inv_len in E as [-> ->]; [|congruence]. auto.
  Qed.

  Lemma opt_leaf_inj lf lf' :
    match lf with None => True | Some (k, v) => N.of_nat (length k) < 2 ^ 32 /\ N.of_nat (length v) < 2 ^ 32 end ->
    match lf' with None => True | Some (k, v) => N.of_nat (length k) < 2 ^ 32 /\ N.of_nat (length v) < 2 ^ 32 end ->
    eval_hexpr H (opt_leaf_hexpr lf) = eval_hexpr H (opt_leaf_hexpr lf') -> lf = lf' \/ collision.
  Proof.
    destruct lf as [[k v]|], lf' as [[k' v']|]; cbn [opt_leaf_hexpr]; intros B B' E.
    - rewrite !leaf_hexpr_eval in E. apply H_inj_or in E as [E|C]; [|auto].
      destruct B, B'. apply leaf_pre_inj in E as [-> ->]; auto.
    - right. exists (leaf_pre k v), []. split; [discriminate|exact E].
    - right. exists [], (leaf_pre k' v'). split; [discriminate|exact E].
    - auto.
  Qed.

  Theorem hash_injective t1 : forall t2,
    bounded t1 -> bounded t2 -> root_hash H t1 = root_hash H t2 -> t1 = t2 \/ collision.
  Proof.
    induction t1 as [|k1 v1|lbl1 lf1 l1 IHl r1 IHr]; intros t2 B1 B2 E;
      destruct t2 as [|k2 v2|lbl2 lf2 l2 r2].
    - auto.
    - right. exists [], (leaf_pre k2 v2). split; [discriminate|exact E].
    - right. rewrite node_hexpr_eval in E. eexists [], _. split; [|exact E]. discriminate.
    - right. exists (leaf_pre k1 v1), []. split; [discriminate|exact E].
    - change (H (leaf_pre k1 v1) = H (leaf_pre k2 v2)) in E.
      apply H_inj_or in E as [E|C]; [|auto]. cbn in B1, B2. destruct B1, B2.
      apply leaf_pre_inj in E as [-> ->]; auto.
    - right. rewrite node_hexpr_eval in E. eexists (leaf_pre k1 v1), _. split; [|exact E]. discriminate.
    - right. rewrite node_hexpr_eval in E. eexists _, []. split; [|exact E]. discriminate.
    - right. rewrite node_hexpr_eval in E. eexists _, (leaf_pre k2 v2). split; [|exact E]. discriminate.
    - rewrite !node_hexpr_eval in E. apply H_inj_or in E as [E|C]; [|auto].
      cbn [bounded] in B1, B2. destruct B1 as (Bl1 & Bf1 & Bb1 & Bc1), B2 as (Bl2 & Bf2 & Bb2 & Bc2).
      apply node_pre_inj in E as (-> & Ef & El & Er);
        auto using opt_leaf_len, root_hash_len.
      apply opt_leaf_inj in Ef as [->|C]; auto.
      destruct (IHl _ Bb1 Bb2 El) as [->|C]; auto.
      destruct (IHr _ Bc1 Bc2 Er) as [->|C]; auto.
  Qed.

  (* the bounds follow from bounds on the stored keys and values *)
  Definition entries_bounded (c : list (bytes * bytes)) : Prop :=
    forall k v, In (k, v) c -> N.of_nat (8 * length k) < 2 ^ 16 /\ N.of_nat (length v) < 2 ^ 32.

  Lemma wf_bounded t : forall p, wf_at p t -> entries_bounded (contents t) -> bounded t.
  Proof.
    induction t as [|k v|lbl lf l IHl r IHr]; intros p W EB.
    - exact I.
    - cbn. destruct (EB k v (or_introl eq_refl)) as [Bk Bv]. split; [lia|exact Bv].
    - pose proof W as W0. cbn [wf_at] in W. destruct W as (Hlf & Hl & Hr & Hsl & Hsr & Hc).
      cbn [bounded]. repeat split.
      + pose proof (wf_node_len _ _ _ _ _ W0) as L.
        destruct (contents (Node lbl lf l r)) as [|[k v] rest] eqn:EC; [cbn in L; lia|].
        assert (In (k, v) (contents (Node lbl lf l r))) as Hin by (rewrite EC; cbn; auto).
        pose proof (wf_node_keys _ _ _ _ _ _ _ W0 Hin) as Hp. apply is_prefix_len in Hp.
        rewrite app_length, bits_of_len in Hp. rewrite <- EC in EB.
        destruct (EB k v Hin) as [Bk _]. lia.
      + destruct lf as [[k v]|]; [|exact I].
        destruct (EB k v) as [Bk Bv]; [cbn; auto|]. split; [lia|exact Bv].
      + eapply IHl; eauto. intros k v Hin. apply EB. cbn [contents]. rewrite !in_app_iff. auto.
      + eapply IHr; eauto. intros k v Hin. apply EB. cbn [contents]. rewrite !in_app_iff. auto.
  Qed.

  Theorem root_sensitive t1 t2 :
    wf t1 -> wf t2 -> entries_bounded (contents t1) -> entries_bounded (contents t2) ->
    root_hash H t1 = root_hash H t2 -> contents t1 = contents t2 \/ collision.
  Proof.
    intros W1 W2 B1 B2 E.
    destruct (hash_injective t1 t2) as [->|C]; eauto using wf_bounded.
  Qed.

  (* one key added, removed, or one value changed: the root changes *)
  Corollary root_changes_with_any_key t1 t2 k :
    wf t1 -> wf t2 -> entries_bounded (contents t1) -> entries_bounded (contents t2) ->
    tlookup k t1 <> tlookup k t2 ->
    root_hash H t1 <> root_hash H t2 \/ collision.
  Proof.
    intros W1 W2 B1 B2 Hne.
    destruct (bytes_eq_dec (root_hash H t1) (root_hash H t2)) as [E|NE]; [|auto].
    destruct (root_sensitive t1 t2 W1 W2 B1 B2 E) as [Ec|C]; [|auto].
    exfalso. apply Hne. rewrite !lookup_contents by assumption. now rewrite Ec.
  Qed.
End Hash.

(* non-vacuity of the hypotheses of [root_sensitive] *)
Example ex_bounded : wf (run ex_ops1) /\ entries_bounded (contents (run ex_ops1)).
Proof.
  split; [apply run_wf, ex_ops_valid|].
  intros k v Hin. vm_compute in Hin.
  repeat (destruct Hin as [[= <- <-]|Hin]; [vm_compute; auto|]). destruct Hin.
Qed.
